(* Model of the credential handshake of any-sync
     net/secureservice/handshake/{handshake.go,credential.go}   (frames, readMsg, the two role automata, the pool)
     net/secureservice/credential.go                            (noVerifyChecker / peerSignVerifier)
     net/secureservice/secureservice.go                         (labels put on the connection)
   Definitions only.  Conventions:
   - bytes, peer ids, versions, error codes are N; a transport peer id is a byte list (list N);
   - signatures are symbolic (DESIGN 1.3): [SigOf k m] verifies for identity k' and message m' iff k = k' /\ m = m';
   - the generated protobuf codec is a black box: a frame reaches the model as a [witem] = header fields + the
     decoded body (the harness decodes the bytes with the real codec);  absent scalar fields are [None], because
     UnmarshalVT leaves an absent field of the target struct untouched -- this is what the pool defect is about;
   - the pooled *handshake object is explicit state ([pooled]): the two fields that the ORIGINAL release() does not
     clear.  [fx = true] is the repaired behaviour (fixes/C14-pool-reset.patch: release() clears them),
     [fx = false] the original one.  All theorems are about [fx = true]; c14_pool_legacy_refuted is about false. *)
From Coq Require Import List NArith Bool.
Import ListNotations.
Open Scope N_scope.

(* ---------------------------------------------------------------- wire constants (handshake.go, handshake.proto) *)
Definition E_Null := 0.
Definition E_Unexpected := 1.
Definition E_InvalidCredentials := 2.
Definition E_UnexpectedPayload := 3.
Definition E_SkipVerifyNotAllowed := 4.
Definition E_IncompatibleVersion := 6.
Definition T_Cred := 1.   (* msgTypeCred *)
Definition T_Ack := 2.    (* msgTypeAck *)
Definition size_limit := 204800.  (* 200 * 1024 *)
Definition CT_SignedPeerIds := 1.

(* ---------------------------------------------------------------- data *)
(* client version string: an id (0 = the empty string) and whether it contains the hot-fixed "middle:v0.36.6" *)
Record cver := mkCv { cv_id : N; cv_banned : bool }.
Definition cv_empty := mkCv 0 false.

Inductive sigterm := SigOf (signer : N) (msg : list N) | SigJunk.
(* decoded PayloadSignedPeerIds: PBad = does not decode; identity None = bytes are not an Ed25519 public key *)
Inductive payload := PBad | PSigned (idn : option N) (s : sigterm).

Record cred := mkCred { c_type : N; c_payload : payload; c_ver : option N; c_cv : option cver }.

Inductive body := BCred (c : cred) | BAck (e : N) | BOther | BUndecodable.
(* one frame as it arrives: type byte, declared size, payload bytes that really follow, decoded payload *)
Record witem := mkItem { w_type : N; w_size : N; w_avail : N; w_body : body }.

(* what a man in the middle does to the k-th frame: pass it, or replace it by a list of frames and optionally
   cut the connection afterwards (EOF in both directions once the queues are drained) *)
Inductive act := APass | AReplace (items : list witem) (cut : bool).

Record pooled := mkPooled { p_ver : N; p_cv : cver }.
Definition pooled_zero := mkPooled 0 cv_empty.

(* one end: own transport peer id, the peer id the transport reports for the other end, own protocol version,
   accepted versions, mode (false = noVerifyChecker, true = peerSignVerifier), client version, account identity *)
Record side_cfg := mkSide { s_peer : list N; s_remote : list N; s_ver : N; s_acc : list N;
                            s_verify : bool; s_cv : cver; s_ident : N }.

Record result := mkRes { r_ident : option N; r_ver : N; r_cv : cver }.
Inductive eclass := EProto (e : N) | EDeclined | ECtx | EOther.
Inductive outcome := Ok (r : result) | Err (e : eclass).

(* ---------------------------------------------------------------- equality tests *)
Fixpoint list_eqb (a b : list N) : bool :=
  match a, b with
  | [], [] => true
  | x :: a', y :: b' => N.eqb x y && list_eqb a' b'
  | _, _ => false
  end.
Definition mem (v : N) (l : list N) : bool := existsb (N.eqb v) l.
Definition cver_eqb (a b : cver) := N.eqb (cv_id a) (cv_id b) && Bool.eqb (cv_banned a) (cv_banned b).
Definition optN_eqb (a b : option N) :=
  match a, b with Some x, Some y => N.eqb x y | None, None => true | _, _ => false end.
Definition result_eqb (a b : result) :=
  optN_eqb (r_ident a) (r_ident b) && N.eqb (r_ver a) (r_ver b) && cver_eqb (r_cv a) (r_cv b).
Definition eclass_eqb (a b : eclass) :=
  match a, b with
  | EProto x, EProto y => N.eqb x y
  | EDeclined, EDeclined | ECtx, ECtx | EOther, EOther => true
  | _, _ => false
  end.
Definition outcome_eqb (a b : outcome) :=
  match a, b with
  | Ok x, Ok y => result_eqb x y
  | Err x, Err y => eclass_eqb x y
  | _, _ => false
  end.
Definition is_ok (o : outcome) : bool := match o with Ok _ => true | Err _ => false end.

(* ---------------------------------------------------------------- credentials (secureservice/credential.go) *)
Definition sig_valid (idn : N) (msg : list N) (s : sigterm) : bool :=
  match s with SigOf k m => N.eqb k idn && list_eqb m msg | SigJunk => false end.

(* proto3: zero values are not written *)
Definition opt_ver (v : N) : option N := if N.eqb v 0 then None else Some v.
Definition opt_cv (c : cver) : option cver := if N.eqb (cv_id c) 0 && negb (cv_banned c) then None else Some c.

(* MakeCredentials: peerSignVerifier signs (own peer id ++ remote peer id); noVerifyChecker sends SkipVerify *)
Definition mk_cred (s : side_cfg) : cred :=
  if s_verify s
  then mkCred CT_SignedPeerIds (PSigned (Some (s_ident s)) (SigOf (s_ident s) (s_peer s ++ s_remote s)))
              (opt_ver (s_ver s)) (opt_cv (s_cv s))
  else mkCred 0 (PSigned None SigJunk) (opt_ver (s_ver s)) (opt_cv (s_cv s)).

(* the value a field of h.remoteCred has after UnmarshalVT *)
Definition eff_ver (fx : bool) (p : pooled) (c : cred) : N :=
  match c_ver c with Some v => v | None => if fx then 0 else p_ver p end.
Definition eff_cv (fx : bool) (p : pooled) (c : cred) : cver :=
  match c_cv c with Some v => v | None => if fx then cv_empty else p_cv p end.

(* CheckCredential, in the order of the code; [ver]/[cv] are the effective field values *)
Definition check_cred (s : side_cfg) (ver : N) (cv : cver) (c : cred) : result + N :=
  if negb (mem ver (s_acc s)) then inr E_IncompatibleVersion else
  if negb (s_verify s) then
    (if cv_banned cv then inr E_IncompatibleVersion else inl (mkRes None ver cv))
  else
  if negb (N.eqb (c_type c) CT_SignedPeerIds) then inr E_SkipVerifyNotAllowed else
  match c_payload c with
  | PBad => inr E_UnexpectedPayload
  | PSigned None _ => inr E_InvalidCredentials
  | PSigned (Some k) sg =>
      if negb (sig_valid k (s_remote s ++ s_peer s) sg) then inr E_InvalidCredentials else
      if cv_banned cv then inr E_IncompatibleVersion else
      inl (mkRes (Some k) ver cv)
  end.

(* ---------------------------------------------------------------- readMsg (handshake.go) *)
Inductive rerr := XUnexpectedPayload | XOther.

(* the payload is decoded according to the type byte *)
Definition body_type (b : body) : N := match b with BCred _ => T_Cred | BAck _ => T_Ack | _ => 3 end.

(* [d = None]: the stream ended (EOF / closed) before a header was complete *)
Definition read_msg (allowed : list N) (d : option witem) : body + rerr :=
  match d with
  | None => inr XOther
  | Some w =>
      if negb (mem (w_type w) allowed) then inr XUnexpectedPayload else
      if N.ltb size_limit (w_size w) then inr XOther else          (* ErrGotUnexpectedMessage *)
      if N.ltb (w_avail w) (w_size w) then inr XOther else         (* io.ReadFull fails *)
      match w_body w with
      | BUndecodable => inr XOther
      | b => if N.eqb (body_type b) (w_type w) then inl b else inr XOther   (* cannot happen: decoded by type *)
      end
  end.

Definition rerr_class (x : rerr) : eclass :=
  match x with XUnexpectedPayload => EProto E_UnexpectedPayload | XOther => EOther end.
(* tryWriteErrAndClose: which error ack (if any) is written before closing *)
Definition reply_for (e : N) : option body :=
  if N.eqb e E_UnexpectedPayload then None else Some (BAck e).
Definition rerr_reply (x : rerr) : option body :=
  match x with XUnexpectedPayload => None | XOther => Some (BAck E_Unexpected) end.
Definition ack_class (e : N) : eclass := if N.eqb e E_InvalidCredentials then EDeclined else EProto e.

(* ---------------------------------------------------------------- the two roles, one read at a time *)
Inductive ost := OW2 | OW4 (r : result) | OD (o : outcome).   (* outgoing: waits frame 2 / frame 4 / done *)
Inductive ist := IW1 | IW3 (r : result) | ID (o : outcome).   (* incoming: waits frame 1 / frame 3 / done *)

(* a step returns: new state, the frame written (with: is it a protocol frame whose write error matters),
   the pooled fields afterwards *)
Definition out_step (fx : bool) (s : side_cfg) (p : pooled) (st : ost) (d : option witem)
  : ost * option (body * bool) * pooled :=
  match st with
  | OW2 =>
      match read_msg [T_Ack; T_Cred] d with
      | inr x => (OD (Err (rerr_class x)), option_map (fun b => (b, false)) (rerr_reply x), p)
      | inl (BAck e) => (OD (Err (ack_class e)), None, p)
      | inl (BCred c) =>
          let v := eff_ver fx p c in
          let cv := eff_cv fx p c in
          match check_cred s v cv c with
          | inr e => (OD (Err (EProto e)), option_map (fun b => (b, false)) (reply_for e), mkPooled v cv)
          | inl r => (OW4 r, Some (BAck E_Null, true), mkPooled v cv)
          end
      | inl _ => (OD (Err EOther), None, p)
      end
  | OW4 r =>
      match read_msg [T_Ack] d with
      | inr x => (OD (Err (rerr_class x)), option_map (fun b => (b, false)) (rerr_reply x), p)
      | inl (BAck e) => if N.eqb e E_Null then (OD (Ok r), None, p) else (OD (Err (EProto e)), None, p)
      | inl _ => (OD (Err EOther), None, p)
      end
  | OD _ => (st, None, p)
  end.

Definition in_step (fx : bool) (s : side_cfg) (p : pooled) (st : ist) (d : option witem)
  : ist * option (body * bool) * pooled :=
  match st with
  | IW1 =>
      match read_msg [T_Cred] d with
      | inr x => (ID (Err (rerr_class x)), option_map (fun b => (b, false)) (rerr_reply x), p)
      | inl (BCred c) =>
          let v := eff_ver fx p c in
          let cv := eff_cv fx p c in
          match check_cred s v cv c with
          | inr e => (ID (Err (EProto e)), option_map (fun b => (b, false)) (reply_for e), mkPooled v cv)
          | inl r => (IW3 r, Some (BCred (mk_cred s), true), mkPooled v cv)
          end
      | inl _ => (ID (Err EOther), None, p)
      end
  | IW3 r =>
      match read_msg [T_Ack] d with
      | inr x => (ID (Err (rerr_class x)), option_map (fun b => (b, false)) (rerr_reply x), p)
      | inl (BAck e) =>
          if N.eqb e E_Null then (ID (Ok r), Some (BAck E_Null, true), p) else (ID (Err (ack_class e)), None, p)
      | inl _ => (ID (Err EOther), None, p)
      end
  | ID _ => (st, None, p)
  end.

(* ---------------------------------------------------------------- the connection: two FIFO queues + a middle man *)
Record hs_case := mkCase {
  k_out : side_cfg; k_in : side_cfg;
  k_a1 : act; k_a2 : act; k_a3 : act; k_a4 : act;    (* what happens to frame 1..4 *)
  k_cancel : option (bool * N);   (* (true = outgoing side, k): that side's context is cancelled while frame k is in flight *)
  k_wfail : bool;                 (* does a write to an end that is already closed fail (net.Pipe) or vanish (TCP) *)
  k_pool_out : pooled; k_pool_in : pooled  (* previous use of the two pooled objects *)
}.

Record world := mkWorld { w_o : ost; w_i : ist; q_o : list witem; q_i : list witem; w_dead : bool;
                          w_po : pooled; w_pi : pooled }.

Definition item_of (b : body) : witem := mkItem (body_type b) 0 0 b.

Definition deliver (a : act) (fl : body) (q : list witem) (dead : bool) : list witem * bool :=
  if dead then (q, true) else
  match a with APass => (q ++ [item_of fl], false) | AReplace items cut => (q ++ items, cut) end.

Definition arrive (a : act) (fl : option body) (q : list witem) (dead : bool) : list witem * bool :=
  match fl with Some b => deliver a b q dead | None => (q, dead) end.

Definition closed_o (s : ost) := match s with OD (Err _) => true | _ => false end.
Definition closed_i (s : ist) := match s with ID (Err _) => true | _ => false end.

Definition cancel_side (out : bool) (w : world) : world :=
  if out then
    match w_o w with
    | OD _ => w
    | _ => mkWorld (OD (Err ECtx)) (w_i w) (q_o w) (q_i w) (w_dead w) (w_po w) (w_pi w)
    end
  else
    match w_i w with
    | ID _ => w
    | _ => mkWorld (w_o w) (ID (Err ECtx)) (q_o w) (q_i w) (w_dead w) (w_po w) (w_pi w)
    end.

Definition apply_cancel (c : hs_case) (k : N) (fl : option body) (w : world) : world :=
  match fl, k_cancel c with
  | Some _, Some (side, kk) => if N.eqb kk k then cancel_side side w else w
  | _, _ => w
  end.

(* frame k (k = 1, 3) travels to the incoming side, which then performs its next read *)
Definition phase_in (fx : bool) (c : hs_case) (k : N) (a : act) (w : world) (fl : option body)
  : world * option body :=
  let w := apply_cancel c k fl w in
  let '(q, dead) := arrive a fl (q_i w) (w_dead w) in
  match w_i w with
  | ID _ => (mkWorld (w_o w) (w_i w) (q_o w) q dead (w_po w) (w_pi w), None)
  | _ =>
    let '(st, rep, p') := in_step fx (k_in c) (w_pi w) (w_i w) (hd_error q) in
    let gone := dead || closed_o (w_o w) in
    match rep with
    | Some (b, true) =>
        if gone && k_wfail c
        then (mkWorld (w_o w) (ID (Err EOther)) (q_o w) (tl q) dead (w_po w) p', None)
        else (mkWorld (w_o w) st (q_o w) (tl q) dead (w_po w) p', if gone then None else Some b)
    | Some (b, false) => (mkWorld (w_o w) st (q_o w) (tl q) dead (w_po w) p', if gone then None else Some b)
    | None => (mkWorld (w_o w) st (q_o w) (tl q) dead (w_po w) p', None)
    end
  end.

(* frame k (k = 2, 4) travels to the outgoing side, which then performs its next read *)
Definition phase_out (fx : bool) (c : hs_case) (k : N) (a : act) (w : world) (fl : option body)
  : world * option body :=
  let w := apply_cancel c k fl w in
  let '(q, dead) := arrive a fl (q_o w) (w_dead w) in
  match w_o w with
  | OD _ => (mkWorld (w_o w) (w_i w) q (q_i w) dead (w_po w) (w_pi w), None)
  | _ =>
    let '(st, rep, p') := out_step fx (k_out c) (w_po w) (w_o w) (hd_error q) in
    let gone := dead || closed_i (w_i w) in
    match rep with
    | Some (b, true) =>
        if gone && k_wfail c
        then (mkWorld (OD (Err EOther)) (w_i w) (tl q) (q_i w) dead p' (w_pi w), None)
        else (mkWorld st (w_i w) (tl q) (q_i w) dead p' (w_pi w), if gone then None else Some b)
    | Some (b, false) => (mkWorld st (w_i w) (tl q) (q_i w) dead p' (w_pi w), if gone then None else Some b)
    | None => (mkWorld st (w_i w) (tl q) (q_i w) dead p' (w_pi w), None)
    end
  end.

Definition final_o (s : ost) : outcome := match s with OD o => o | _ => Err EOther end.
Definition final_i (s : ist) : outcome := match s with ID o => o | _ => Err EOther end.
Definition release (fx : bool) (p : pooled) : pooled := if fx then pooled_zero else p.

Definition hs_world (fx : bool) (c : hs_case) : world :=
  let w0 := mkWorld OW2 IW1 [] [] false (k_pool_out c) (k_pool_in c) in
  let '(w1, f2) := phase_in fx c 1 (k_a1 c) w0 (Some (BCred (mk_cred (k_out c)))) in
  let '(w2, f3) := phase_out fx c 2 (k_a2 c) w1 f2 in
  let '(w3, f4) := phase_in fx c 3 (k_a3 c) w2 f3 in
  let '(w4, _) := phase_out fx c 4 (k_a4 c) w3 f4 in
  w4.

(* observable result of one handshake: (outgoing side's outcome, incoming side's outcome) *)
Definition hs_run (fx : bool) (c : hs_case) : outcome * outcome :=
  let w := hs_world fx c in (final_o (w_o w), final_i (w_i w)).
(* the pooled objects as they go back to the pool *)
Definition hs_pools (fx : bool) (c : hs_case) : pooled * pooled :=
  let w := hs_world fx c in (release fx (w_po w), release fx (w_pi w)).

Definition with_pools (c : hs_case) (po pi : pooled) : hs_case :=
  mkCase (k_out c) (k_in c) (k_a1 c) (k_a2 c) (k_a3 c) (k_a4 c) (k_cancel c) (k_wfail c) po pi.

(* consecutive handshakes on the same two pooled objects; [swap] says whether the objects change roles *)
Fixpoint session (fx : bool) (po pi : pooled) (l : list (hs_case * bool)) : list (outcome * outcome) :=
  match l with
  | [] => []
  | (c, swap) :: r =>
      let c' := with_pools c po pi in
      let '(po', pi') := hs_pools fx c' in
      hs_run fx c' :: (if swap then session fx pi' po' r else session fx po' pi' r)
  end.

(* ---------------------------------------------------------------- declarative specification *)
(* does verifier V accept what the honest end P presents *)
Definition accepts (V P : side_cfg) : bool :=
  mem (s_ver P) (s_acc V) && negb (cv_banned (s_cv P)) &&
  (negb (s_verify V) || (s_verify P && list_eqb (s_peer P ++ s_remote P) (s_remote V ++ s_peer V))).
(* the labels V puts on the connection to the honest end P *)
Definition label (V P : side_cfg) : result :=
  mkRes (if s_verify V then Some (s_ident P) else None) (s_ver P) (s_cv P).

Definition dflt_ver (o : option N) : N := match o with Some v => v | None => 0 end.
Definition dflt_cv (o : option cver) : cver := match o with Some v => v | None => cv_empty end.

(* an arriving frame justifies result r at verifier V *)
Definition item_sound (V : side_cfg) (it : witem) (r : result) : bool :=
  N.eqb (w_type it) T_Cred && N.leb (w_size it) size_limit && N.leb (w_size it) (w_avail it) &&
  match w_body it with
  | BCred c =>
      mem (dflt_ver (c_ver c)) (s_acc V) && N.eqb (r_ver r) (dflt_ver (c_ver c)) &&
      cver_eqb (r_cv r) (dflt_cv (c_cv c)) && negb (cv_banned (dflt_cv (c_cv c))) &&
      (if s_verify V then
         N.eqb (c_type c) CT_SignedPeerIds &&
         match c_payload c with
         | PSigned (Some k) sg => sig_valid k (s_remote V ++ s_peer V) sg && optN_eqb (r_ident r) (Some k)
         | _ => false
         end
       else optN_eqb (r_ident r) None)
  | _ => false
  end.

Definition is_pass (a : act) : bool := match a with APass => true | _ => false end.
Definition all_pass (c : hs_case) : bool := is_pass (k_a1 c) && is_pass (k_a2 c) && is_pass (k_a3 c) && is_pass (k_a4 c).

(* success of verifier V (result r) is justified by the first frame that reached it *)
Definition success_sound (V P : side_cfg) (a : act) (o : outcome) : bool :=
  match o with
  | Err _ => true
  | Ok r =>
      match a with
      | APass => accepts V P && result_eqb r (label V P)
      | AReplace (it :: _) _ => item_sound V it r
      | AReplace [] _ => false
      end
  end.

(* a cancellation that can have an effect: the initiator while frame 1..4 is in flight, the responder while
   frame 1..3 is in flight (when frame 4 is in flight the responder has already returned) *)
Definition cancel_eff (c : hs_case) : option (bool * N) :=
  match k_cancel c with
  | Some (true, k) => if N.leb 1 k && N.leb k 4 then Some (true, k) else None
  | Some (false, k) => if N.leb 1 k && N.leb k 3 then Some (false, k) else None
  | None => None
  end.

(* the clauses about what each side's success rests on and about honest peers (with or without cancellation) *)
Definition spec_C14_core (c : hs_case) (oo oi : outcome) : bool :=
  (* every success is justified, man in the middle or not *)
  success_sound (k_in c) (k_out c) (k_a1 c) oi &&
  success_sound (k_out c) (k_in c) (k_a2 c) oo &&
  (* honest peers over a reliable stream *)
  (if all_pass c then
     match cancel_eff c with
     | None =>
         Bool.eqb (is_ok oo) (is_ok oi) &&
         Bool.eqb (is_ok oo) (accepts (k_in c) (k_out c) && accepts (k_out c) (k_in c))
     | Some (true, k) =>
         (* the initiator was cancelled: it fails; the responder may only succeed when the cancellation came after
            the initiator's ack was sent (k >= 3) -- the two-generals case *)
         negb (is_ok oo) && (negb (is_ok oi) || N.leb 3 k)
     | Some (false, k) =>
         (* the responder was cancelled before it finished: both fail *)
         negb (is_ok oo) && negb (is_ok oi)
     end
   else true).

(* ---- tampered frames: "truncated, oversized, out-of-order or garbage frames end in an error or deadline on both
   sides, never in success".  Stated over the four frame positions of the exchange
       1: initiator's credentials   2: responder's credentials   3: initiator's Ack{Null}   4: responder's Ack{Null}
   and over what the man in the middle puts in the place of frame k (as the receiver of frame k meets it). *)
(* a frame the reader can take in completely: announced size within the 200 KiB limit, all announced bytes arrive *)
Definition frame_complete (it : witem) : bool := N.leb (w_size it) size_limit && N.leb (w_size it) (w_avail it).
(* the kind of frame the protocol has at position k: decodable credentials (1, 2), the acknowledgement Ack{Null} (3, 4) *)
Definition expected_at (k : N) (it : witem) : bool :=
  frame_complete it &&
  (if N.leb k 2
   then N.eqb (w_type it) T_Cred && match w_body it with BCred _ => true | _ => false end
   else N.eqb (w_type it) T_Ack && match w_body it with BAck e => N.eqb e E_Null | _ => false end).
(* the edit of frame k is hostile to the framing: nothing arrives (the stream is cut / runs into the deadline), or what
   arrives first is oversized, truncated, of a type that does not belong at this position (out of order), undecodable,
   or an acknowledgement other than Ack{Null} where Ack{Null} belongs *)
Definition bad_edit (k : N) (a : act) : bool :=
  match a with
  | APass => false
  | AReplace [] _ => true
  | AReplace (it :: _) _ => negb (expected_at k it)
  end.

Definition tamper_ok (c : hs_case) (oo oi : outcome) : bool :=
  match cancel_eff c with
  | Some _ => true
  | None =>
    (* exactly one frame was edited, and the edit is hostile to the framing: frames 1..3 -- NEITHER side reports success
       (the receiver of the bad frame, and the side that sent the frame that was replaced, which learns it from the error
       acknowledgement or the closed connection and must never take that for a success) *)
    (if bad_edit 1 (k_a1 c) && is_pass (k_a2 c) && is_pass (k_a3 c) && is_pass (k_a4 c)
     then negb (is_ok oo) && negb (is_ok oi) else true) &&
    (if is_pass (k_a1 c) && bad_edit 2 (k_a2 c) && is_pass (k_a3 c) && is_pass (k_a4 c)
     then negb (is_ok oo) && negb (is_ok oi) else true) &&
    (if is_pass (k_a1 c) && is_pass (k_a2 c) && bad_edit 3 (k_a3 c) && is_pass (k_a4 c)
     then negb (is_ok oo) && negb (is_ok oi) else true) &&
    (* the LAST frame (4): the responder has returned before the frame travels, so whatever happens to frame 4 (hostile or
       not) the responder's verdict is the one of the untampered handshake (success iff mutually acceptable); the
       initiator, who receives the frame, never reports success on a bad one.  (This is the only asymmetry the property
       can allow: the sender of the last frame cannot learn its fate.) *)
    (if is_pass (k_a1 c) && is_pass (k_a2 c) && is_pass (k_a3 c) && negb (is_pass (k_a4 c))
     then Bool.eqb (is_ok oi) (accepts (k_in c) (k_out c) && accepts (k_out c) (k_in c)) &&
          (if bad_edit 4 (k_a4 c) then negb (is_ok oo) else true)
     else true) &&
    (* any further edits notwithstanding: when the frames a side received before were untouched, a bad second frame
       (3 for the responder, 4 for the initiator) never lets that side succeed *)
    (if is_pass (k_a1 c) && bad_edit 3 (k_a3 c) then negb (is_ok oi) else true) &&
    (if is_pass (k_a2 c) && bad_edit 4 (k_a4 c) then negb (is_ok oo) else true)
  end.

Definition spec_C14 (c : hs_case) (oo oi : outcome) : bool :=
  spec_C14_core c oo oi && tamper_ok c oo oi.

(* ---------------------------------------------------------------- connection labels over time (sessions)
   What a side attaches to its connection when its handshake returns (peer.CtxIdentity / CtxProtoVersion /
   CtxPeerClientVersion of the returned context) is a VALUE: however many later handshakes the same secureservice and
   the same credential checker serve - for whatever accounts, accepted or rejected - reading the labels of connection k
   again returns what was read when handshake k completed.  A session = consecutive handshakes on the same service
   objects; every handshake's labels are read again after each later handshake and at the end. *)
Record sess_obs := mkSessObs {
  so_case      : hs_case;
  so_out       : outcome;        (* what HandshakeOutbound returned *)
  so_in        : outcome;        (* what HandshakeInbound returned *)
  so_later_out : list result;    (* labels of the outgoing side's connection, read again later *)
  so_later_in  : list result     (* labels of the incoming side's connection, read again later *)
}.

(* the labels never change after the handshake completed; a failed handshake has no connection to read *)
Definition labels_stable (o : outcome) (later : list result) : bool :=
  match o with
  | Ok r => forallb (result_eqb r) later
  | Err _ => match later with [] => true | _ :: _ => false end
  end.

(* spec_C14 for every handshake of the session + stability of every connection's labels *)
Definition spec_C14_session (l : list sess_obs) : bool :=
  forallb (fun s => spec_C14 (so_case s) (so_out s) (so_in s)
                    && labels_stable (so_out s) (so_later_out s)
                    && labels_stable (so_in s) (so_later_in s)) l.

(* the model: results are values, n later reads give n copies *)
Definition later_reads (o : outcome) (n : nat) : list result :=
  match o with Ok r => repeat r n | Err _ => [] end.

(* a session on the same two pooled handshake objects (as [session]); per handshake: the case and how often the
   outgoing / incoming connection is read again *)
Fixpoint model_session (fx : bool) (po pi : pooled) (l : list (hs_case * nat * nat)) : list sess_obs :=
  match l with
  | [] => []
  | (c, no, ni) :: r =>
      let c' := with_pools c po pi in
      let o := hs_run fx c' in
      let '(po', pi') := hs_pools fx c' in
      mkSessObs c (fst o) (snd o) (later_reads (fst o) no) (later_reads (snd o) ni) :: model_session fx po' pi' r
  end.
