(* Model/LoadIter.v — the full-sync response iterator (property C09).  Definitions only.

   Mirrors commonspace/object/tree/objecttree:
     objecttree.go    ChangesAfterCommonSnapshotLoader (choice of the common snapshot)
     util.go          commonSnapshotForTwoPaths (Model/Tree.v [common_snapshot])
     loaditerator.go  loadIterator.load (cache = stored changes from the common snapshot on, in stored order;
                      ancestors-within-cache of the requester's heads are marked removed) and NextBatch.
   NextBatch is modelled in its REPAIRED form (fixes/C09-batch-heads.patch): batch.Heads continues from
   l.lastHeads.  [next_batch_legacy] is the code as found (batch.Heads restarts from empty in every batch). *)
From Coq Require Import List NArith Bool Arith.
Import ListNotations.
From AnySync Require Export Lib.Dag Model.Dfs Model.Tree.

(* a stored change with the length of its raw bytes *)
Record sentry := mkSE { se_ch : change; se_size : N }.

Definition se_id (e : sentry) : N := cid (se_ch e).

(* suffix of the stored sequence starting at the change with id [cs] (GetAfterOrder(cs.OrderId), inclusive) *)
Fixpoint from_id (cs : N) (sigma : list sentry) : list sentry :=
  match sigma with
  | [] => []
  | e :: r => if N.eqb (se_id e) cs then sigma else from_id cs r
  end.

Record liter := mkLI {
  li_rest      : list sentry;   (* stored changes with order >= l.orderId, in stored order *)
  li_removed   : list N;        (* ids whose cache entry has removed = true *)
  li_lastHeads : list N;        (* l.lastHeads *)
  li_exhausted : bool           (* l.isExhausted *)
}.

(* ChangesAfterCommonSnapshotLoader: None = ErrNoCommonSnapshot *)
Definition choose_snapshot (ourPath theirPath : list N) : option N :=
  match theirPath with
  | [] => Some (last ourPath 0%N)
  | _ => common_snapshot ourPath theirPath
  end.

(* loadIterator.load(commonSnapshot, _, breakpoints = theirHeads) *)
Definition load (sigma : list sentry) (cs : N) (theirHeads : list N) : liter :=
  let cache := from_id cs sigma in
  let cch := map se_ch cache in
  let bps := filter (fun b => has_change cch b) theirHeads in
  mkLI cache (ancestors cch bps) [cs] false.

(* batch.Heads = DiscardFromSlice(batch.Heads, in c.PrevIds); append c.Id unless already contained *)
Definition upd_heads (heads : list N) (c : change) : list N :=
  let h := filter (fun s => negb (mem s (cprev c))) heads in
  if mem (cid c) h then h else h ++ [cid c].

(* the GetAfterOrder callback loop of NextBatch: returns (batch, heads, rest', exhausted) *)
Fixpoint scan (maxSize : N) (removed : list N) (rest : list sentry) (batch : list sentry) (heads : list N)
         (cur : N) : list sentry * list N * list sentry * bool :=
  match rest with
  | [] => (batch, heads, [], true)
  | e :: r =>
      if mem (se_id e) removed then scan maxSize removed r batch (upd_heads heads (se_ch e)) cur
      else if N.leb maxSize (cur + se_size e) && negb (match batch with [] => true | _ => false end)
      then (batch, heads, rest, false)
      else scan maxSize removed r (batch ++ [e]) (upd_heads heads (se_ch e)) (cur + se_size e)
  end.

Record batch := mkBatch { b_changes : list sentry; b_heads : list N }.

(* NextBatch(maxSize), repaired: heads continue from lastHeads *)
Definition next_batch (maxSize : N) (l : liter) : batch * liter :=
  if li_exhausted l then (mkBatch [] [], l)
  else
    let '(b, hs, rest', ex) := scan maxSize (li_removed l) (li_rest l) [] (li_lastHeads l) 0 in
    (mkBatch b hs, mkLI rest' (li_removed l) hs ex).

(* NextBatch as found in the repository: batch.Heads starts from nil; lastHeads is written, never read *)
Definition next_batch_legacy (maxSize : N) (l : liter) : batch * liter :=
  if li_exhausted l then (mkBatch [] [], l)
  else
    let '(b, hs, rest', ex) := scan maxSize (li_removed l) (li_rest l) [] [] 0 in
    (mkBatch b hs, mkLI rest' (li_removed l) hs ex).

(* HandleStreamRequest's loop: call NextBatch until it returns no changes *)
Fixpoint stream (nb : N -> liter -> batch * liter) (fuel : nat) (maxSize : N) (l : liter) : list batch :=
  match fuel with
  | O => []
  | S f =>
      let '(b, l') := nb maxSize l in
      match b_changes b with
      | [] => []
      | _ => b :: stream nb f maxSize l'
      end
  end.

Definition respond (sigma : list sentry) (ourPath theirPath theirHeads : list N) (maxSize : N)
  : option (list batch) :=
  match choose_snapshot ourPath theirPath with
  | None => None
  | Some cs => Some (stream next_batch (S (length sigma)) maxSize (load sigma cs theirHeads))
  end.

Definition respond_legacy (sigma : list sentry) (ourPath theirPath theirHeads : list N) (maxSize : N)
  : option (list batch) :=
  match choose_snapshot ourPath theirPath with
  | None => None
  | Some cs => Some (stream next_batch_legacy (S (length sigma)) maxSize (load sigma cs theirHeads))
  end.

(* ------------------------------------------------------------------------------------------------
   The property as an executable predicate over OBSERVED batches (ids and announced heads).
   Inputs: the responder's stored sequence with sizes, the two snapshot paths, the requester's heads and
   stored set, the limit.  It uses only list helpers and the declarative [heads_of]. *)

Definition total_size (b : list sentry) : N := fold_right (fun e a => (se_size e + a)%N) 0%N b.

Fixpoint find_entries (sigma : list sentry) (l : list N) : list sentry :=
  match l with
  | [] => []
  | i :: r => match find (fun e => N.eqb (se_id e) i) sigma with
              | Some e => e :: find_entries sigma r
              | None => find_entries sigma r
              end
  end.

(* declarative common snapshot of two honest paths: the newest element of ours that occurs in theirs;
   the tree root (last of ours) for an empty request *)
Definition spec_snapshot (ourPath theirPath : list N) : N :=
  match theirPath with
  | [] => last ourPath 0%N
  | _ => match filter (fun i => mem i theirPath) ourPath with
         | i :: _ => i
         | [] => 0%N
         end
  end.

(* ids of sigma strictly before the first occurrence of [stop] (everything if [stop] is None) *)
Fixpoint ids_before (stop : option N) (sigma : list sentry) : list N :=
  match sigma with
  | [] => []
  | e :: r => match stop with
              | Some s => if N.eqb (se_id e) s then [] else se_id e :: ids_before stop r
              | None => se_id e :: ids_before stop r
              end
  end.

Definition first_id (b : list N) : option N := match b with [] => None | i :: _ => Some i end.

(* heads announced with every batch = the childless members of the stored prefix processed so far *)
Fixpoint heads_ok (G : list change) (view : list sentry) (bs : list (list N * list N)) : bool :=
  match bs with
  | [] => true
  | (_, hs) :: r =>
      let stop := match r with [] => None | (b', _) :: _ => first_id b' end in
      let pre := ids_before stop view in
      list_eqb (isort hs) (heads_of (find_all G pre)) && heads_ok G view r
  end.

Definition spec_C09 (G : list change) (sigma : list sentry) (ourPath theirPath theirHeads haveB : list N)
  (maxSize : N) (bs : list (list N * list N)) (finalB : list N) : bool :=
  let haveA := map se_id sigma in
  let cs := spec_snapshot ourPath theirPath in
  let view := from_id cs sigma in
  let sent := concat (map fst bs) in
  (* complete: everything the responder stores that the requester lacks; nothing else; no repeats *)
  forallb (fun i => mem i haveB || mem i sent) haveA
  && subset_b sent haveA && nodup_b sent
  (* whole tree for an empty request *)
  && (match theirPath, theirHeads with [], [] => list_eqb sent haveA | _, _ => true end)
  (* causal order: every change after all of its previous changes that the requester does not already have *)
  && forallb (fun i => match find_change G i with
                       | Some c => forallb (fun p => mem p haveB || mem p sent) (cprev c)
                       | None => false
                       end) sent
  && topo_b G sent
  (* size bound: below the limit, or a single change; never an empty batch *)
  && forallb (fun b => match fst b with
                       | [] => false
                       | [_] => true
                       | ids => N.ltb (total_size (find_entries sigma ids)) maxSize
                       end) bs
  (* announced heads *)
  && heads_ok G view bs
  (* applying the batches in order leaves the requester with everything *)
  && subset_b sent finalB && subset_b haveB finalB.
