(* Model/OrderIdsQ.v — an executable instance of the abstract order ids of Model/OrderIds.v: rationals.
   Used by the correspondence runs (Run/C06_run.v: the model's ids must rank the stored changes like the real OrderId
   strings do) and by the non-vacuity examples.  That it satisfies the laws assumed of lexid is proved in
   Proofs/OrderIdsQ.v. *)
From Coq Require Import List NArith ZArith Bool QArith.
Import ListNotations.
From AnySync Require Export Model.OrderIds.

Definition qid : Type := Q.

Definition qltb (a b : Q) : bool := Z.ltb (Qnum a * Zpos (Qden b)) (Qnum b * Zpos (Qden a)).
Definition q_first : Q := 1#1.
Definition q_next (a : Q) : Q := Qred (Qplus a (1#1)).
Definition q_between (a b : Q) : Q := Qred (Qdiv (Qplus a b) (2#1)).

Definition qfill := fill Q q_first q_next q_between.
Definition qrun := irun Q q_first q_next q_between.
Definition qstored := it_stored Q qltb.
Definition q_io_init := io_init Q q_first.
Definition q_io_add_raw := io_add_raw Q q_first q_next q_between.
Definition q_io_add_content := io_add_content Q q_next.
Definition q_io_stored := io_stored Q qltb.
Definition q_io_reopen := io_reopen qid.
Definition q_io_ot := io_ot qid.
