(* One-to-one ACLs (C03 area; extends Model/Acl.v, which leaves them out).
     commonspace/object/acl/list/onetoone.go   setOneToOneAcl (the state built from a root with OneToOneInfo)
     commonspace/object/acl/list/aclstate.go   AclState.isOneToOne, ApplyRecord (first statement:
                                               `if st.IsOneToOne() { return ErrAddRecordOneToOne }`), Copy()
     commonspace/object/acl/list/list.go       AddRawRecord (applies the record to aclState.Copy()), AddRawRecords,
                                               build (applies the stored records to the state built from the root)
   DEFINITIONS ONLY.  Proofs: Proofs/AclOneToOne.v.

   A one-to-one ACL consists of its root only: the shared key (derivable by both parties) is Owner, the two parties are
   Writers, and EVERY further record is refused, whoever signed it.  The live list reaches ApplyRecord through a COPY of
   the state, a rebuild applies the stored records to the state built from the root directly; both must refuse.

   REPAIRED behaviour (fixes/C03-aclstate-copy-keeps-onetoone.patch): Copy() carries the flag.  The behaviour before the
   repair is available with [legacy_copy := true]: Copy() drops the flag, so the live list applies a record signed with
   the shared owner key (or any record the ordinary rules allow) to a copy that is not one-to-one, persists it and installs
   the copy -- the live state silently stops being one-to-one, while a rebuild of the same storage refuses the record and
   fails ([one_legacy_refuted] in Properties/C03.v). *)
From Coq Require Import List NArith Bool.
Import ListNotations.
From AnySync Require Export Model.Acl.
Open Scope N_scope.

(* setOneToOneAcl: accountStates[owner] = Owner, then accountStates[writer] = Writer for both writers (later map writes
   win), all Active with KeyRecordId = root and one permission change at the root; readKeyChanges = [root];
   lastRecordId = root; the read key is derived exactly when the list's identity is one of the writers. *)
Definition one_account (p : perm) (root : rid) : account := mkAccount p SActive root [(root, p)].
Definition init_one (me owner w1 w2 : acct) (root : rid) : state :=
  mkState (mset w2 (one_account pWriter root) (mset w1 (one_account pWriter root) (mset owner (one_account pOwner root) [])))
          [] [] [] [root] [] root
          (if (me =? w1) || (me =? w2) then [root] else []).

(* the list together with AclState.isOneToOne of its live state *)
Record olist := mkOList { o_one : bool; o_list : alist }.

Inductive oadd_result := OAddOk (l : olist) | OAddDup | OAddRejected.

Section OneToOne.
  Variable legacy_copy : bool.    (* true = AclState.Copy() before the repair: the flag is not copied *)
  Variable legacy : bool.
  Variable need_acceptor : bool.
  Variable v : bool.
  Variable me : acct.

  (* isOneToOne of aclState.Copy() *)
  Definition copy_one (one : bool) : bool := if legacy_copy then false else one.

  (* AddRawRecord: known id -> ErrRecordAlreadyExists; unmarshal + verifyRaw; Copy(); ApplyRecord on the copy starts with
     the one-to-one guard; otherwise the ordinary machine; on success the COPY becomes the live state *)
  Definition oadd_raw (l : olist) (w : raw) : oadd_result :=
    if memN (w_id w) (l_ids (o_list l)) then OAddDup
    else if negb (verify_raw need_acceptor w) then OAddRejected
    else if copy_one (o_one l) then OAddRejected
    else match add_raw legacy need_acceptor v me (o_list l) w with
         | AddOk l' => OAddOk (mkOList (copy_one (o_one l)) l')
         | AddDup => OAddDup
         | AddRejected => OAddRejected
         end.

  Definition oadd_raw_keep (l : olist) (w : raw) : olist :=
    match oadd_raw l w with OAddOk l' => l' | _ => l end.

  (* AddRawRecords *)
  Fixpoint oadd_raws (l : olist) (ws : list raw) : olist * bool :=
    match ws with
    | [] => (l, true)
    | w :: rest =>
        match oadd_raw l w with
        | OAddOk l' => oadd_raws l' rest
        | OAddDup => oadd_raws l rest
        | OAddRejected => (l, false)
        end
    end.

  (* build(): the state is built from the root ([one] = the root carries OneToOneInfo), the stored records are applied to
     THAT state (no copy): a one-to-one state refuses the first of them and the build fails *)
  Definition oreplay (one : bool) (s : state) (ws : list raw) : option state :=
    if one then match ws with [] => Some s | _ :: _ => None end
    else replay legacy need_acceptor v me s ws.
  Definition obuild (one : bool) (root_state : state) (root : rid) (stored : list raw) : option olist :=
    match oreplay one root_state stored with
    | Some s => Some (mkOList one (mkList s (root :: map w_id stored) stored))
    | None => None
    end.
End OneToOne.

Definition outcome_of (r : oadd_result) : outcome :=
  match r with OAddOk _ => OAccepted | OAddDup => ODup | OAddRejected => ORejected end.

(* ========================================================================================== specification
   Over OBSERVED behaviour (never calls the machine above). *)

(* one AddRawRecord on a replica whose state was observed to be one-to-one: not accepted; still one-to-one; observable
   state, in-memory log and storage unchanged *)
Definition spec_one_add (s : state) (ids : list rid) (res : outcome)
           (one_after : bool) (s_after : state) (ids_after stored_after : list rid) : bool :=
  negb (outcome_eqb res OAccepted) && one_after &&
  obs_eqb s s_after && list_N_eqb ids_after ids && list_N_eqb stored_after ids.

(* one AddRawRecords call on such a replica: nothing changes; nil is returned iff every offered id was already known *)
Definition spec_one_batch (s : state) (ids : list rid) (ws : list raw) (ok : bool)
           (one_after : bool) (s_after : state) (ids_after stored_after : list rid) : bool :=
  one_after && obs_eqb s s_after && list_N_eqb ids_after ids && list_N_eqb stored_after ids &&
  Bool.eqb ok (forallb (fun w => memN (w_id w) ids) ws).

(* restart: the list rebuilt from the live replica's storage exists and equals the live one (flag, state, log) *)
Definition spec_rebuild (one : bool) (s : state) (ids : list rid)
           (ok one_r : bool) (s_r : state) (ids_r : list rid) : bool :=
  ok && Bool.eqb one one_r && obs_eqb s s_r && list_N_eqb ids ids_r.
