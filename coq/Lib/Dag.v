(* Lib/Dag.v — change DAGs shared by the object-tree models (C06, C09; reused by C01/C02).
   Definitions only (no proofs; lemmas are in Proofs/Dag*.v / Proofs/Tree*.v).

   A change is what Tree.attach / topSort / reduceTree look at:
     Id, PreviousIds, SnapshotId, IsSnapshot   (commonspace/object/tree/objecttree/change.go).
   Ids are N.  The harness maps the string ids of the code to N ORDER-PRESERVINGLY (the code compares
   ids as Go strings in Tree.attach; harness ids are fixed-width decimal strings, so string order =
   numeric order).  Id 0 is reserved for "no id" (SnapshotId of the root change is ""). *)
From Coq Require Import List NArith Bool Arith.
Import ListNotations.

Record change := mkChange {
  cid     : N;        (* Id *)
  cprev   : list N;   (* PreviousIds *)
  csnap   : N;        (* SnapshotId; 0 = "" *)
  cissnap : bool      (* IsSnapshot *)
}.

Definition ids (S : list change) : list N := map cid S.

Definition mem (i : N) (l : list N) : bool := existsb (N.eqb i) l.

Fixpoint find_change (S : list change) (i : N) : option change :=
  match S with
  | [] => None
  | c :: r => if N.eqb (cid c) i then Some c else find_change r i
  end.

Definition has_change (S : list change) (i : N) : bool := mem i (ids S).

(* association lists id -> list of ids (Next lists, wait list) *)
Fixpoint alookup (m : list (N * list N)) (k : N) : list N :=
  match m with
  | [] => []
  | (k', v) :: r => if N.eqb k' k then v else alookup r k
  end.

Fixpoint aupdate (m : list (N * list N)) (k : N) (f : list N -> list N) : list (N * list N) :=
  match m with
  | [] => [(k, f [])]
  | (k', v) :: r => if N.eqb k' k then (k', f v) :: r else (k', v) :: aupdate r k f
  end.

Fixpoint adelete (m : list (N * list N)) (k : N) : list (N * list N) :=
  match m with
  | [] => []
  | (k', v) :: r => if N.eqb k' k then adelete r k else (k', v) :: adelete r k
  end.

(* Tree.attach: insert c before the first element that is >= c (append if none) *)
Fixpoint insert_sorted (x : N) (l : list N) : list N :=
  match l with
  | [] => [x]
  | y :: r => if N.leb x y then x :: y :: r else y :: insert_sorted x r
  end.

Definition isort (l : list N) : list N := fold_right insert_sorted [] l.

(* ids of the changes of S that cite p as a previous id (one entry per citation) *)
Definition cites (p : N) (c : change) : list N :=
  map (fun _ => cid c) (filter (N.eqb p) (cprev c)).

Definition children_occ (S : list change) (p : N) : list N := flat_map (cites p) S.

(* the canonical Next list of p in the change set S: children in ascending id order *)
Definition next_of (S : list change) (p : N) : list N := isort (children_occ S p).

(* heads of a set: members without a child in the set *)
Definition heads_of (S : list change) : list N :=
  isort (filter (fun i => match children_occ S i with [] => true | _ => false end) (ids S)).

Fixpoint sum_prev (S : list change) : nat :=
  match S with
  | [] => 0
  | c :: r => length (cprev c) + sum_prev r
  end.

(* list helpers used by the executable specifications *)
Fixpoint list_eqb (l1 l2 : list N) : bool :=
  match l1, l2 with
  | [], [] => true
  | a :: r1, b :: r2 => N.eqb a b && list_eqb r1 r2
  | _, _ => false
  end.

Fixpoint is_prefix (l1 l2 : list N) : bool :=
  match l1, l2 with
  | [], _ => true
  | a :: r1, b :: r2 => N.eqb a b && is_prefix r1 r2
  | _ :: _, [] => false
  end.

Fixpoint nodup_b (l : list N) : bool :=
  match l with
  | [] => true
  | a :: r => negb (mem a r) && nodup_b r
  end.

Definition subset_b (l1 l2 : list N) : bool := forallb (fun i => mem i l2) l1.

(* [topo_b S seq]: in seq every change comes after each of its previous ids that occurs in seq
   (checked left to right: a parent that occurs in seq must already have been seen). *)
Fixpoint topo_from (S : list change) (all seen rest : list N) : bool :=
  match rest with
  | [] => true
  | i :: r =>
      match find_change S i with
      | None => false
      | Some c => forallb (fun p => negb (mem p all) || mem p seen) (cprev c)
      end && topo_from S all (i :: seen) r
  end.

Definition topo_b (S : list change) (seq : list N) : bool := topo_from S seq [] seq.

(* reflexive ancestors of a list of ids inside S: dfsPrev without callbacks; fuel-bounded worklist *)
Fixpoint anc_loop (fuel : nat) (S : list change) (stack visited : list N) : list N :=
  match fuel with
  | O => visited
  | S f =>
      match stack with
      | [] => visited
      | i :: st =>
          if mem i visited then anc_loop f S st visited
          else match find_change S i with
               | None => anc_loop f S st visited
               | Some c => anc_loop f S (rev (filter (fun p => negb (mem p visited)) (cprev c)) ++ st) (i :: visited)
               end
      end
  end.

Definition anc_fuel (S : list change) (start : list N) : nat := length start + length S + sum_prev S + 1.

Definition ancestors (S : list change) (start : list N) : list N := anc_loop (anc_fuel S start) S start [].
