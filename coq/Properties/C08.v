(* C08 — Advertised range hashes depend only on current contents, not on history.
   Only property theorems (closed by [exact]), non-vacuity / legacy-refutation examples and Print Assumptions.
   Model: Model/Ldiff.v (the code as repaired by the fix: commits F1, F2, F4, F5); proofs: Proofs/Ldiff*.v.
   [H] is the hash function of ids (xxhash64 in the code): the theorems hold for EVERY function H.
   Hypotheses that stay visible: 2 <= df <= 2^64-1 (ldiff.New clamps df to >= 2), every element set by the
   history carries the hash of its id and that hash fits 64 bits ([op_ok H]). *)
From Coq Require Import List NArith Bool.
Import ListNotations.
From AnySync Require Import Model.Ldiff Proofs.LdiffContents Proofs.LdiffTree.
Open Scope N_scope.

(* after ANY history of Set (new id, existing id, several elements, repeated ids) and RemoveId (present or absent)
   the whole range tree — which ranges exist, which are divided, every count, every hash — is the tree of an
   index freshly filled with the current contents *)
Theorem c08_canonical : forall df th H ops,
  2 <= df -> df <= U64MAX -> Forall (op_ok H) ops ->
  run_ops df th ops = fresh df th (contents (run_ops df th ops)).
Proof. exact (fun df th H ops Hdf Hdf64 => run_ops_canonical df th Hdf Hdf64 H ops). Qed.
Print Assumptions c08_canonical.

(* two histories that end with the same entries end with the same index, whatever the order of operations *)
Theorem c08_history_free : forall df th H ops1 ops2,
  2 <= df -> df <= U64MAX -> Forall (op_ok H) ops1 -> Forall (op_ok H) ops2 ->
  (forall e, In e (contents (run_ops df th ops1)) <-> In e (contents (run_ops df th ops2))) ->
  run_ops df th ops1 = run_ops df th ops2.
Proof. exact (fun df th H o1 o2 Hdf Hdf64 => same_entries_same_index df th Hdf Hdf64 H o1 o2). Qed.
Print Assumptions c08_history_free.

(* hence equal advertised hashes and equal answers to every range query (in-tree or off-tree) *)
Theorem c08_hash_history_free : forall df th H ops1 ops2,
  2 <= df -> df <= U64MAX -> Forall (op_ok H) ops1 -> Forall (op_ok H) ops2 ->
  (forall e, In e (contents (run_ops df th ops1)) <-> In e (contents (run_ops df th ops2))) ->
  top_hash (run_ops df th ops1) = top_hash (run_ops df th ops2)
  /\ forall from to want_elems,
       get_range (run_ops df th ops1) from to want_elems = get_range (run_ops df th ops2) from to want_elems.
Proof.
  exact (fun df th H o1 o2 Hdf Hdf64 H1 H2 He =>
           match same_entries_same_index df th Hdf Hdf64 H o1 o2 H1 H2 He in _ = y
                 return top_hash (run_ops df th o1) = top_hash y /\
                        forall a b w, get_range (run_ops df th o1) a b w = get_range y a b w
           with eq_refl => conj eq_refl (fun _ _ _ => eq_refl) end).
Qed.
Print Assumptions c08_hash_history_free.

(* the contents list itself is canonical: strictly sorted by (hash, id), one element per id *)
Theorem c08_contents_canonical : forall df th H ops,
  2 <= df -> df <= U64MAX -> Forall (op_ok H) ops ->
  ssorted (contents (run_ops df th ops)) /\ uniq_ids (contents (run_ops df th ops)).
Proof.
  exact (fun df th H ops Hdf Hdf64 Hops =>
           conj (inv_sorted _ _ _ _ (run_ops_inv df th Hdf Hdf64 H ops Hops))
                (inv_uniq _ _ _ _ (run_ops_inv df th Hdf Hdf64 H ops Hops))).
Qed.
Print Assumptions c08_contents_canonical.

(* the recursion of makeBottomRanges is bounded: the fuel of the model never runs out (F5 repaired) *)
Theorem c08_total : forall df th all, 2 <= df -> df <= U64MAX -> noof (tree (fresh df th all)).
Proof. exact (fun df th all Hdf Hdf64 => fresh_noof df th Hdf Hdf64 all). Qed.
Print Assumptions c08_total.

(* ---- non-vacuity: a history with a split, an update of an existing id, a merge and an absent removal ---- *)
Definition e1 := mkElem 10 1 0.
Definition e2 := mkElem 11 2 0.
Definition e3 := mkElem 9223372036854775808 3 0.
Definition hist1 := [OSet [e1]; OSet [e2; e3]; OSet [mkElem 10 1 5]; ORemove 2; ORemove 77].
Definition hist2 := [OSet [e3; mkElem 10 1 5]].
Definition Hex (id : N) : N := match id with 1 => 10 | 2 => 11 | _ => 9223372036854775808 end.

Lemma hist_ok : Forall (op_ok Hex) hist1 /\ Forall (op_ok Hex) hist2.
Proof.
  split; repeat (constructor; try (cbn [op_ok]; repeat (constructor; try (split; [reflexivity|apply N.leb_le; reflexivity])))).
Qed.

Example c08_nonvacuous :
  Forall (op_ok Hex) hist1 /\ Forall (op_ok Hex) hist2 /\
  contents (run_ops 2 1 hist1) = contents (run_ops 2 1 hist2) /\
  run_ops 2 1 hist1 = run_ops 2 1 hist2 /\ rcnt (tree (run_ops 2 1 hist1)) = 2.
Proof.
  split; [exact (proj1 hist_ok)|split; [exact (proj2 hist_ok)|]].
  split; [vm_compute; reflexivity|split; [vm_compute; reflexivity|vm_compute; reflexivity]].
Qed.

(* ---- the ORIGINAL code (before the fix: commits) violates the property ---- *)
(* F1: Set of an existing id counts it again: a leaf holding exactly [th] elements is split by an update *)
Example c08_update_legacy_refuted :
  let ix := set_one_legacy 2 1 (set_one_legacy 2 1 (empty_index 2 1) e1) (mkElem 10 1 5) in
  contents ix = [mkElem 10 1 5] /\ top_hash ix <> top_hash (fresh 2 1 (contents ix)).
Proof. split; [vm_compute; reflexivity|intro Hc; vm_compute in Hc; discriminate Hc]. Qed.

(* F2: removeElement merges one level only: nested divided ranges stay divided *)
Example c08_remove_legacy_refuted :
  let ix := remove_id_legacy 2 1 (fst (remove_id 2 1 (set_many 2 1 (empty_index 2 1) [e1; e2]) 77)) 2 in
  contents ix = [e1] /\ top_hash ix <> top_hash (fresh 2 1 (contents ix)).
Proof. split; [vm_compute; reflexivity|intro Hc; vm_compute in Hc; discriminate Hc]. Qed.

(* ================================================================================================
   One layer up: commonspace/headsync/diffmanager.go over the head storage entries
   (Model/HeadIndex.v, Proofs/HeadIndex*.v).
   A space is started on a head storage [s0] (one entry per id), then lives through ANY sequence of
     EvUpd u        headStorage.UpdateEntry with resulting entry u, delivered to DiffManager.UpdateHeads
     EvDs id        the deletion state records id
     EvRestart sil  process restart (entries [sil] written during start-up, deletion state rebuilt, fresh ldiff,
                    DiffManager.FillDiff)
   [hist_ok] is the EXACT condition on the entry history (decidable, does not mention the index or the digests):
     an update that UpdateHeads turns into Set is one that FillDiff includes ("d" key absent, not a skipped root);
     an update that UpdateHeads ignores (id known to the deletion state, or heads = [id]) does not change what
     FillDiff makes of that id.
   [hist_wf] is the readable sufficient form (W1..W4 in Model/HeadIndex.v):
     W1 the "d" key is never written with status 0;   W2 ids known to the deletion state keep their mark;
     W3 the entry's id occurs among its heads only alone;
     W4 an entry with heads = [id] that is written while a DiffManager observes is derived or has a CommonSnapshot
        and the id contributed nothing before, or it leaves FillDiff's view of the id unchanged.
     (The only entry the repository writes with heads = [id], not derived, WITHOUT CommonSnapshot is the ACL's,
      written by spacestorage.Create before any DiffManager exists.)
   [H] = xxhash64 of ids, [HD] = HashId(concat heads): arbitrary functions.
   ================================================================================================ *)
From AnySync Require Import Model.HeadIndex Proofs.HeadIndexBase Proofs.HeadIndexMain.

(* at EVERY point k of the history: the live index is the index FillDiff would build now from the head storage,
   their Hash() are equal, and the StateStorage hash written by the live side equals both; the live index is a
   history of ldiff operations in the sense of c08_canonical *)
Theorem c08_dm_live_equals_restart : forall H HD df th s0 evs,
  (forall id, H id <= U64MAX) -> 2 <= df -> df <= U64MAX ->
  uniq_store s0 -> hist_ok (istart s0) evs = true ->
  forall k,
    let w := wrun H HD df th (wstart H HD df th s0) (firstn k evs) in
    w_ix w = fill_index H HD df th (w_store w)
    /\ top_hash (w_ix w) = top_hash (fill_index H HD df th (w_store w))
    /\ w_hash w = top_hash (fill_index H HD df th (w_store w))
    /\ w_ix w = run_ops df th (w_ops w)
    /\ w_store w = i_store (irun (istart s0) (firstn k evs)).
Proof. exact (fun H HD df th s0 evs H64 Hdf Hdf64 => live_equals_restart H HD H64 df th Hdf Hdf64 s0 evs). Qed.
Print Assumptions c08_dm_live_equals_restart.

(* same ids (AllIds) and same answer to every range query *)
Theorem c08_dm_ranges : forall H HD df th s0 evs,
  (forall id, H id <= U64MAX) -> 2 <= df -> df <= U64MAX ->
  uniq_store s0 -> hist_ok (istart s0) evs = true ->
  let w := wrun H HD df th (wstart H HD df th s0) evs in
  map eid (contents (w_ix w)) = map eid (contents (fill_index H HD df th (w_store w)))
  /\ forall from to we, get_range (w_ix w) from to we = get_range (fill_index H HD df th (w_store w)) from to we.
Proof. exact (fun H HD df th s0 evs H64 Hdf Hdf64 => live_equals_restart_ranges H HD H64 df th Hdf Hdf64 s0 evs). Qed.
Print Assumptions c08_dm_ranges.

(* the readable condition is sufficient *)
Theorem c08_dm_wf_sufficient : forall evs i, hist_wf i evs = true -> hist_ok i evs = true.
Proof. exact hist_wf_ok. Qed.
Print Assumptions c08_dm_wf_sufficient.

(* the model meets the executable specification used by the correspondence check *)
Theorem c08_dm_meets_spec : forall H HD df th (tok : digest -> N) s0 evs,
  (forall id, H id <= U64MAX) -> 2 <= df -> df <= U64MAX ->
  uniq_store s0 -> hist_ok (istart s0) evs = true ->
  forall k,
    let w := wrun H HD df th (wstart H HD df th s0) (firstn k evs) in
    spec_C08_restart (tok (top_hash (w_ix w))) (tok (top_hash (fill_index H HD df th (w_store w)))) (tok (w_hash w))
                     (map eid (contents (w_ix w))) (map eid (contents (fill_index H HD df th (w_store w)))) = true.
Proof. exact (fun H HD df th tok s0 evs H64 Hdf Hdf64 => model_meets_spec_restart H HD H64 df th Hdf Hdf64 tok s0 evs). Qed.
Print Assumptions c08_dm_meets_spec.

(* the condition is NECESSARY: from any state in which live == restart holds (invariant J), an update violating it
   makes the live index and the index FillDiff would build hold different elements *)
Theorem c08_dm_condition_necessary : forall H HD df th w u,
  (forall a b, HD a = HD b -> a = b) ->
  J H HD df th w -> update_ok (w_i w) u = false ->
  let w' := wstep H HD df th w (EvUpd u) in
  ~ (forall x, In x (contents (w_ix w')) <-> In x (contents (fill_index H HD df th (w_store w')))).
Proof. exact update_ok_necessary. Qed.
Print Assumptions c08_dm_condition_necessary.

(* ---- non-vacuity: a history with the ACL entry in the initial storage, creation of a tree and of a derived tree
   (root-only entries, skipped on both sides), heads moving, an ACL record, a key-value hash, a deletion (queued,
   then deleted), a late update of the deleted tree, a restart, and more updates after it ---- *)
Definition Hid (id : N) : N := id * 1000003 mod 18446744073709551616.
Definition HDsum (l : list N) : N := fold_left (fun a x => a * 131 + x + 1) l 7.
Definition dm_s0 : store :=
  [mkEntry 1 [1] false false None;            (* ACL: root-only, no CommonSnapshot: part of the index *)
   mkEntry 2 [2] true false None].            (* settings tree: root-only with CommonSnapshot: skipped *)
Definition dm_hist : list event :=
  [EvUpd (mkEntry 3 [3] true false None);     (* tree created *)
   EvUpd (mkEntry 3 [30] true false None);    (* head moves *)
   EvUpd (mkEntry 4 [4] true true None);      (* derived tree created *)
   EvUpd (mkEntry 1 [10] false false None);   (* ACL record added *)
   EvUpd (mkEntry 5 [50] false false None);   (* key-value storage hash *)
   EvUpd (mkEntry 3 [31; 32] true false None);
   EvDs 3; EvUpd (mkEntry 3 [31; 32] true false (Some 1));   (* queued for deletion *)
   EvUpd (mkEntry 3 [33] true false (Some 1));               (* late change of a queued tree *)
   EvRestart [];
   EvUpd (mkEntry 3 [33] true false (Some 2));               (* deleted *)
   EvUpd (mkEntry 4 [40] true true None);
   EvDs 6; EvUpd (mkEntry 6 [] false false (Some 1))].       (* tombstone of an unknown id *)

Example c08_dm_nonvacuous :
  store_okb dm_s0 = true /\ hist_wf (istart dm_s0) dm_hist = true /\
  let w := wrun Hid HDsum 2 1 (wstart Hid HDsum 2 1 dm_s0) dm_hist in
  map eid (contents (w_ix w)) = [1; 4; 5] /\ w_ix w = fill_index Hid HDsum 2 1 (w_store w)
  /\ w_ds w = [6; 3].
Proof. vm_compute. repeat split; reflexivity. Qed.

(* ---- the documented asymmetry: a non-derived root-only entry without CommonSnapshot that arrives LIVE is not
   added by UpdateHeads, but FillDiff adds it at the next start: the condition fails and the hashes differ ---- *)
Example c08_dm_asymmetry_refuted :
  let evs := [EvUpd (mkEntry 7 [7] false false None)] in
  let w := wrun Hid HDsum 32 256 (wstart Hid HDsum 32 256 dm_s0) evs in
  hist_ok (istart dm_s0) evs = false
  /\ map eid (contents (w_ix w)) = [1]
  /\ map eid (contents (fill_index Hid HDsum 32 256 (w_store w))) = [1; 7]
  /\ top_hash (w_ix w) <> top_hash (fill_index Hid HDsum 32 256 (w_store w))
  /\ w_hash w <> top_hash (fill_index Hid HDsum 32 256 (w_store w)).
Proof.
  cbv zeta. split; [vm_compute; reflexivity|split; [vm_compute; reflexivity|split; [vm_compute; reflexivity|]]].
  split; intro Hc; vm_compute in Hc; discriminate Hc.
Qed.

(* ---- the second asymmetry of the storage layer: FillDiff selects documents WITHOUT a "d" key, UpdateHeads tests
   the status value: an entry whose "d" key is written with status 0 is live but invisible to FillDiff ---- *)
Example c08_dm_zero_status_refuted :
  let evs := [EvUpd (mkEntry 8 [80] true false (Some 0))] in
  let w := wrun Hid HDsum 32 256 (wstart Hid HDsum 32 256 dm_s0) evs in
  hist_ok (istart dm_s0) evs = false
  /\ map eid (contents (w_ix w)) = [1; 8]
  /\ map eid (contents (fill_index Hid HDsum 32 256 (w_store w))) = [1]
  /\ top_hash (w_ix w) <> top_hash (fill_index Hid HDsum 32 256 (w_store w)).
Proof.
  cbv zeta. split; [vm_compute; reflexivity|split; [vm_compute; reflexivity|split; [vm_compute; reflexivity|]]].
  intro Hc; vm_compute in Hc; discriminate Hc.
Qed.
