(* C08 — Advertised range hashes depend only on current contents, not on history.
   Only property theorems (closed by [exact]), non-vacuity / legacy-refutation examples and Print Assumptions.
   Model: Model/Ldiff.v (the code as repaired by the fix: commits F1, F2, F4, F5); proofs: Proofs/Ldiff*.v.
   [H] is the hash function of ids (xxhash64 in the code): the theorems hold for EVERY function H.
   Hypotheses that stay visible: 2 <= df <= 2^64-1 (ldiff.New clamps df to >= 2), every element set by the
   history carries the hash of its id and that hash fits 64 bits ([op_ok H]). *)
From Coq Require Import List NArith Bool.
Import ListNotations.
From AnySync Require Import Model.Ldiff Proofs.LdiffContents Proofs.LdiffTree.
Open Scope N_scope.

(* after ANY history of Set (new id, existing id, several elements, repeated ids) and RemoveId (present or absent)
   the whole range tree — which ranges exist, which are divided, every count, every hash — is the tree of an
   index freshly filled with the current contents *)
Theorem c08_canonical : forall df th H ops,
  2 <= df -> df <= U64MAX -> Forall (op_ok H) ops ->
  run_ops df th ops = fresh df th (contents (run_ops df th ops)).
Proof. exact (fun df th H ops Hdf Hdf64 => run_ops_canonical df th Hdf Hdf64 H ops). Qed.
Print Assumptions c08_canonical.

(* two histories that end with the same entries end with the same index, whatever the order of operations *)
Theorem c08_history_free : forall df th H ops1 ops2,
  2 <= df -> df <= U64MAX -> Forall (op_ok H) ops1 -> Forall (op_ok H) ops2 ->
  (forall e, In e (contents (run_ops df th ops1)) <-> In e (contents (run_ops df th ops2))) ->
  run_ops df th ops1 = run_ops df th ops2.
Proof. exact (fun df th H o1 o2 Hdf Hdf64 => same_entries_same_index df th Hdf Hdf64 H o1 o2). Qed.
Print Assumptions c08_history_free.

(* hence equal advertised hashes and equal answers to every range query (in-tree or off-tree) *)
Theorem c08_hash_history_free : forall df th H ops1 ops2,
  2 <= df -> df <= U64MAX -> Forall (op_ok H) ops1 -> Forall (op_ok H) ops2 ->
  (forall e, In e (contents (run_ops df th ops1)) <-> In e (contents (run_ops df th ops2))) ->
  top_hash (run_ops df th ops1) = top_hash (run_ops df th ops2)
  /\ forall from to want_elems,
       get_range (run_ops df th ops1) from to want_elems = get_range (run_ops df th ops2) from to want_elems.
Proof.
  exact (fun df th H o1 o2 Hdf Hdf64 H1 H2 He =>
           match same_entries_same_index df th Hdf Hdf64 H o1 o2 H1 H2 He in _ = y
                 return top_hash (run_ops df th o1) = top_hash y /\
                        forall a b w, get_range (run_ops df th o1) a b w = get_range y a b w
           with eq_refl => conj eq_refl (fun _ _ _ => eq_refl) end).
Qed.
Print Assumptions c08_hash_history_free.

(* the contents list itself is canonical: strictly sorted by (hash, id), one element per id *)
Theorem c08_contents_canonical : forall df th H ops,
  2 <= df -> df <= U64MAX -> Forall (op_ok H) ops ->
  ssorted (contents (run_ops df th ops)) /\ uniq_ids (contents (run_ops df th ops)).
Proof.
  exact (fun df th H ops Hdf Hdf64 Hops =>
           conj (inv_sorted _ _ _ _ (run_ops_inv df th Hdf Hdf64 H ops Hops))
                (inv_uniq _ _ _ _ (run_ops_inv df th Hdf Hdf64 H ops Hops))).
Qed.
Print Assumptions c08_contents_canonical.

(* the recursion of makeBottomRanges is bounded: the fuel of the model never runs out (F5 repaired) *)
Theorem c08_total : forall df th all, 2 <= df -> df <= U64MAX -> noof (tree (fresh df th all)).
Proof. exact (fun df th all Hdf Hdf64 => fresh_noof df th Hdf Hdf64 all). Qed.
Print Assumptions c08_total.

(* ---- non-vacuity: a history with a split, an update of an existing id, a merge and an absent removal ---- *)
Definition e1 := mkElem 10 1 0.
Definition e2 := mkElem 11 2 0.
Definition e3 := mkElem 9223372036854775808 3 0.
Definition hist1 := [OSet [e1]; OSet [e2; e3]; OSet [mkElem 10 1 5]; ORemove 2; ORemove 77].
Definition hist2 := [OSet [e3; mkElem 10 1 5]].
Definition Hex (id : N) : N := match id with 1 => 10 | 2 => 11 | _ => 9223372036854775808 end.

Lemma hist_ok : Forall (op_ok Hex) hist1 /\ Forall (op_ok Hex) hist2.
Proof.
  split; repeat (constructor; try (cbn [op_ok]; repeat (constructor; try (split; [reflexivity|apply N.leb_le; reflexivity])))).
Qed.

Example c08_nonvacuous :
  Forall (op_ok Hex) hist1 /\ Forall (op_ok Hex) hist2 /\
  contents (run_ops 2 1 hist1) = contents (run_ops 2 1 hist2) /\
  run_ops 2 1 hist1 = run_ops 2 1 hist2 /\ rcnt (tree (run_ops 2 1 hist1)) = 2.
Proof.
  split; [exact (proj1 hist_ok)|split; [exact (proj2 hist_ok)|]].
  split; [vm_compute; reflexivity|split; [vm_compute; reflexivity|vm_compute; reflexivity]].
Qed.

(* ---- the ORIGINAL code (before the fix: commits) violates the property ---- *)
(* F1: Set of an existing id counts it again: a leaf holding exactly [th] elements is split by an update *)
Example c08_update_legacy_refuted :
  let ix := set_one_legacy 2 1 (set_one_legacy 2 1 (empty_index 2 1) e1) (mkElem 10 1 5) in
  contents ix = [mkElem 10 1 5] /\ top_hash ix <> top_hash (fresh 2 1 (contents ix)).
Proof. split; [vm_compute; reflexivity|intro Hc; vm_compute in Hc; discriminate Hc]. Qed.

(* F2: removeElement merges one level only: nested divided ranges stay divided *)
Example c08_remove_legacy_refuted :
  let ix := remove_id_legacy 2 1 (fst (remove_id 2 1 (set_many 2 1 (empty_index 2 1) [e1; e2]) 77)) 2 in
  contents ix = [e1] /\ top_hash ix <> top_hash (fresh 2 1 (contents ix)).
Proof. split; [vm_compute; reflexivity|intro Hc; vm_compute in Hc; discriminate Hc]. Qed.
