(* C19 — Outbound messaging is bounded and isolated: a stuck peer blocks nobody.
   Only property theorems (closed by [exact]), non-vacuity examples and [Print Assumptions].
   Model: Model/StreamPool.v (labelled transition system; "all schedules" = all label lists);
   proofs: Proofs/StreamPoolProofs.v, StreamPoolIndex.v, StreamPoolSpec.v, StreamPoolHist.v, StreamPoolSnap.v,
   StreamPoolFifo.v, StreamPoolFull.v; owner / close-hook layer: Model/StreamPoolHook.v, Proofs/StreamPoolHookProofs.v. *)
From Coq Require Import List NArith Bool Sorted.
Import ListNotations.
From AnySync Require Import Model.StreamPool Proofs.StreamPoolProofs Proofs.StreamPoolIndex Proofs.StreamPoolSpec Proofs.StreamPoolHist
  Proofs.StreamPoolSnap Proofs.StreamPoolFifo Proofs.StreamPoolFull Model.StreamPoolHook Proofs.StreamPoolHookProofs.
Open Scope N_scope.

(* ---- bounded queues -------------------------------------------------------------------------------- *)
(* in every state reachable by ANY label sequence (any mix of healthy / slow / blocked-forever / failing
   streams, any interleaving of sends, tag changes, closes) every stream buffers at most its size *)
Theorem c19_bounded : forall c tr sid st,
  hget sid (objs (run (init c) tr)) = Some st ->
  N.of_nat (length (st_queue st)) <= st_cap st.
Proof. exact bounded_all_schedules. Qed.
Print Assumptions c19_bounded.

(* TryAdd semantics: an add beyond the size is dropped with an error and changes nothing *)
Theorem c19_overflow_dropped : forall st m,
  st_qclosed st = false -> st_cap st <= N.of_nat (length (st_queue st)) ->
  write_stream st m = (st, WOverflow).
Proof. exact write_stream_overflow. Qed.
Print Assumptions c19_overflow_dropped.

Theorem c19_closed_rejected : forall st m, st_qclosed st = true -> write_stream st m = (st, WClosed).
Proof. exact write_stream_closed. Qed.

Theorem c19_dial_queue_bounded : forall c tr,
  0 < dial_cap c -> N.of_nat (length (dialq (run (init c) tr))) <= dial_cap c.
Proof. exact dial_bounded_all_schedules. Qed.
Print Assumptions c19_dial_queue_bounded.

(* ---- FIFO ------------------------------------------------------------------------------------------ *)
(* per stream: accepted = handed-to-MsgSend ++ buffered; delivered is a prefix of handed-to-MsgSend,
   which is a prefix of accepted (acceptance order); at most one message is in flight *)
Theorem c19_fifo : forall c tr sid st,
  hget sid (objs (run (init c) tr)) = Some st ->
  st_accepted st = st_taken st ++ st_queue st /\ prefix (st_taken st) (st_accepted st)
  /\ prefix (st_written st) (st_taken st)
  /\ (length (st_taken st) <= S (length (st_written st)))%nat.
Proof. exact fifo_all_schedules. Qed.
Print Assumptions c19_fifo.

(* ---- a caller never waits ---------------------------------------------------------------------------- *)
(* no step of a caller operation is the return of a call into a drpc stream or a dialer *)
Theorem c19_caller_steps_never_wait : forall l, caller_label l = true -> env_label l = false.
Proof. exact caller_not_env. Qed.
Print Assumptions c19_caller_steps_never_wait.

(* one own step always makes progress, in every state *)
Theorem c19_write_progress : forall s cid,
  dead s = false ->
  (pending_size (step s (LWrite cid)) cid < pending_size s cid)%nat
  \/ pending_size s cid = 0%nat \/ dead (step s (LWrite cid)) = true.
Proof. exact write_progress. Qed.
Print Assumptions c19_write_progress.

(* for every schedule of everybody else — including one in which a blocked stream's MsgSend never returns —
   a caller operation is over after at most [pending_size] of its own steps *)
Theorem c19_caller_nonblocking : forall tr s cid,
  Forall (fun l => l = LWrite cid \/ foreign cid l = true) tr ->
  (pending_size (run s tr) cid <= pending_size s cid - count_writes cid tr)%nat
  \/ dead (run s tr) = true.
Proof. exact caller_progress_all_schedules. Qed.
Print Assumptions c19_caller_nonblocking.

(* writer / reader / closer steps of one stream touch nothing but that stream's record *)
Theorem c19_isolation : forall s l sid,
  writer_label l = Some sid ->
  callers (step s l) = callers s /\ by_peer (step s l) = by_peer s /\ by_tag (step s l) = by_tag s
  /\ pool_ids (step s l) = pool_ids s /\ dialq (step s l) = dialq s /\ running (step s l) = running s
  /\ fatal (step s l) = fatal s /\ panicked (step s l) = panicked s
  /\ forall sid', sid' <> sid -> hget sid' (objs (step s l)) = hget sid' (objs s).
Proof. exact writer_frame. Qed.
Print Assumptions c19_isolation.

(* ---- index consistency, no fatal, cleanup ---------------------------------------------------------------- *)
(* streamIdsByPeer / streamIdsByTag and streams[.].tags describe each other, multiset-exactly (duplicate tags at
   creation, AddTagsCtx / RemoveTagsCtx / RemoveTagsById, closes — in any interleaving) *)
Theorem c19_index_consistent : forall c tr,
  let s := run (init c) tr in
  (forall sid, memN sid (pool_ids s) = true <->
               exists st, hget sid (objs s) = Some st /\ st_removed st = false)
  /\ (forall sid p, countN sid (mget p (by_peer s)) =
        match hget sid (objs s) with
        | Some st => if negb (st_removed st) && (st_peer st =? p) then 1%nat else 0%nat
        | None => 0%nat end)
  /\ (forall sid t, countN sid (mget t (by_tag s)) =
        match hget sid (objs s) with
        | Some st => if negb (st_removed st) then countN t (st_tags st) else 0%nat
        | None => 0%nat end).
Proof. exact index_consistent_all_schedules. Qed.
Print Assumptions c19_index_consistent.

(* hence neither log.Fatal branch of removeStream nor a nil *stream dereference is reachable *)
Theorem c19_no_fatal : forall c tr,
  fatal (run (init c) tr) = false /\ panicked (run (init c) tr) = false.
Proof. exact no_fatal_all_schedules. Qed.
Print Assumptions c19_no_fatal.

(* after a stream ended no index mentions it, no later Broadcast / SendById / Send / Streams collects it,
   and a caller still holding the stream gets ErrClosed (nothing is buffered for it any more) *)
Theorem c19_cleanup : forall c tr sid st,
  let s := run (init c) tr in
  hget sid (objs s) = Some st -> st_removed st = true ->
  memN sid (pool_ids s) = false
  /\ (forall p, ~ In sid (mget p (by_peer s)))
  /\ (forall t, ~ In sid (mget t (by_tag s)))
  /\ (forall tags, ~ In sid (bcast_targets s tags))
  /\ (forall peers, ~ In sid (concat (peer_groups (by_peer s) peers)))
  /\ (forall tags, ~ In sid (streams_of s tags))
  /\ (forall m, write_stream st m = (st, WClosed)).
Proof. exact cleanup_all_schedules. Qed.
Print Assumptions c19_cleanup.

(* ---- the model and the property predicate over observed histories ------------------------------------------ *)
(* FULL statement, PROVED (Proofs/StreamPoolFull.v): for every configuration and every list of harness-level
   operations the model's own history satisfies the whole executable specification — lengths, every clause of
   [obs_ok] over the running observer state ([spec_from]) and the event clause [spec_events].  (On every generated
   case the correspondence run additionally requires the model's history to be EQUAL to the observed one.)
   Ingredients, each also stated separately below:
   * per-observation clauses "the call returned" / "no snapshot over-full" (c19_model_satisfies_spec_static);
   * snapshot form of index consistency (c19_snapshot_consistent) and of cleanup (c19_snapshot_cleanup): need the
     invariant that the keys of streamIdsByPeer / streamIdsByTag are pairwise distinct (c19_index_keys_distinct; [mset]
     deletes before it conses) because [canon_imap] / [snap_mentions] read every entry of the association lists;
   * "Close() once, removal once" (c19_model_satisfies_spec_once), one writer per stream (c19_model_satisfies_spec_events);
   * FIFO over the MsgSend log, "no send issued after the removal reaches a removed stream", "a call never returns the id of
     a removed stream": invariant over the callers' pending programs and the dial queue of an [expand]ed history
     (c19_messages_of_operation: during operation i every label of the expansion keeps "every queue's accepted list is
     nondecreasing and bounded by i; a program / dial job keyed cid <> 0 carries message cid - 1"). *)
Theorem c19_model_satisfies_spec : forall c ops, spec_C19 ops (model_hist c ops) = true.
Proof. exact model_hist_spec_ok. Qed.
Print Assumptions c19_model_satisfies_spec.

(* the per-observation part alone (formerly c19_model_satisfies_spec_partial) *)
Theorem c19_model_satisfies_spec_static : forall c ops, forallb obs_static_ok (model_hist c ops) = true.
Proof. exact model_hist_static_ok. Qed.
Print Assumptions c19_model_satisfies_spec_static.

(* in every schedule the two index maps, as association lists, have pairwise distinct keys *)
Theorem c19_index_keys_distinct : forall c tr,
  NoDup (map fst (by_peer (run (init c) tr))) /\ NoDup (map fst (by_tag (run (init c) tr))).
Proof. exact reachable_knd. Qed.
Print Assumptions c19_index_keys_distinct.

(* hence, in every schedule, the canonicalised snapshot (what the verif hook shows) is consistent: every id listed under a
   peer / tag is a stream of the pool with that peer / with that tag exactly as often as listed, and vice versa *)
Theorem c19_snapshot_consistent : forall c tr, snap_consistent (snapshot (run (init c) tr)) = true.
Proof. exact snapshot_consistent_all_schedules. Qed.
Print Assumptions c19_snapshot_consistent.

(* ... and mentions no stream that has ended (neither as a key of streams nor inside any entry of the two indexes) *)
Theorem c19_snapshot_cleanup : forall c tr sid st,
  hget sid (objs (run (init c) tr)) = Some st -> st_removed st = true ->
  snap_mentions (snapshot (run (init c) tr)) sid = false.
Proof. exact snapshot_cleanup_all_schedules. Qed.
Print Assumptions c19_snapshot_cleanup.

(* the invariant behind FIFO over the log: labels of operation i (Broadcast / SendById of caller 0 with message i, Send of
   caller i+1 with message i, writes of caller i+1, writes of caller 0 once it has started, and every label that is not a
   caller's) keep every accepted list nondecreasing and bounded by i *)
Theorem c19_messages_of_operation : forall ls i b s, idx_inv s -> Dop i b s -> ls_ok i b ls ->
  forall sid st, hget sid (objs (run s ls)) = Some st ->
    StronglySorted N.le (st_accepted st) /\ Forall (fun m => m <= i) (st_accepted st).
Proof. exact run_acc_sorted. Qed.
Print Assumptions c19_messages_of_operation.

(* the history clauses reject what they should: a MsgSend entry older than one already seen on that stream, an entry
   from the future, an entry of a send issued after the stream's removal, a returned id / a snapshot naming a removed stream *)
Example c19_history_clauses_nonvacuous :
  let o := fun ids takes snap => mkObs 0 ids takes [] [] [] snap true in
  let e := mkSnap [] [] [] in
  obs_ok (mkOst [(1, 2)] [] []) 7 (o [] [(1, 3)] e) = true
  /\ obs_ok (mkOst [(1, 5)] [] []) 7 (o [] [(1, 3)] e) = false
  /\ obs_ok (mkOst [] [] []) 7 (o [] [(1, 8)] e) = false
  /\ obs_ok (mkOst [] [] [(1, 4)]) 7 (o [] [(1, 4)] e) = true
  /\ obs_ok (mkOst [] [] [(1, 4)]) 7 (o [] [(1, 6)] e) = false
  /\ obs_ok (mkOst [] [] [(1, 4)]) 7 (o [1] [] e) = false
  /\ obs_ok (mkOst [] [] [(1, 4)]) 7 (o [] [] (mkSnap [] [(9, [1])] [])) = false
  /\ obs_ok (mkOst [] [] []) 7 (o [] [] (mkSnap [(1, mkSview 9 [] 0 1)] [(9, [1; 1])] [])) = false.
Proof. vm_compute. repeat split. Qed.

(* in every schedule: a stream object stays in the heap, and once its queue is closed / it is removed from the pool
   it stays so (queue.Close and pool.removeStream are irreversible per stream) *)
Theorem c19_flags_irreversible : forall c tr tr' sid x,
  hget sid (objs (run (init c) tr)) = Some x ->
  exists y, hget sid (objs (run (run (init c) tr) tr')) = Some y /\
            (st_qclosed x = true -> st_qclosed y = true) /\ (st_removed x = true -> st_removed y = true).
Proof. exact flags_irreversible. Qed.
Print Assumptions c19_flags_irreversible.

(* over every harness-level history of the model, the observer of spec_C19 sees the Close() of a stream at most once
   and its removal (close-hook notification) at most once *)
Theorem c19_model_satisfies_spec_once : forall c ops, spec_once_from (mkOst [] [] []) 0 (model_hist c ops) = true.
Proof. exact model_hist_once_ok. Qed.
Print Assumptions c19_model_satisfies_spec_once.

Theorem c19_spec_implies_once : forall ops observed,
  spec_C19 ops observed = true -> spec_once_from (mkOst [] [] []) 0 observed = true.
Proof. exact spec_implies_once. Qed.

(* the two clauses are exercised: a stream whose MsgRecv fails is closed and removed, seen once, never again *)
Example c19_once_nonvacuous :
  map (fun o => (o_closed o, o_removed o))
      (model_hist (mkConfig 1 4) [HAddStream 1 2 [7] false; HReadErr 1; HStreams [7]; HReadErr 1]) =
  [([], []); ([1], [(1, [7])]); ([], []); ([], [])].
Proof. vm_compute. reflexivity. Qed.

(* ---- one writer per stream: the MsgSend entry / return log ------------------------------------------------ *)
(* in EVERY schedule (label sequence) from a consistent state, the MsgSend events of stream sid lead from the
   message in flight before to the message in flight after: an entry only when nothing is in flight, a return only
   of the message in flight *)
Theorem c19_one_writer_all_schedules : forall ls s sid, idx_inv s ->
  alt_run (infl s sid) (events_of sid (run_events s ls)) = Some (infl (run s ls) sid).
Proof. exact run_events_alt. Qed.
Print Assumptions c19_one_writer_all_schedules.

(* the model's harness-level histories satisfy the event clause of spec_C19, for all configurations and operations *)
Theorem c19_model_satisfies_spec_events : forall c ops, spec_events (model_hist c ops) = true.
Proof. exact model_hist_events_ok. Qed.
Print Assumptions c19_model_satisfies_spec_events.

Theorem c19_spec_implies_events : forall ops observed, spec_C19 ops observed = true -> spec_events observed = true.
Proof. exact spec_implies_events. Qed.

(* property language: in an observed history accepted by the clause, after every prefix of a stream's MsgSend log
   the number of calls entered and not yet returned is 0 or 1 *)
Theorem c19_at_most_one_msgsend_in_flight : forall observed sid pre post,
  spec_events observed = true ->
  events_of sid (flat_map o_events observed) = pre ++ post ->
  (count_ev true pre = count_ev false pre \/ count_ev true pre = S (count_ev false pre))%nat.
Proof. exact events_at_most_one_in_flight. Qed.
Print Assumptions c19_at_most_one_msgsend_in_flight.

(* the clause is exercised by the model (entries and returns occur), and it rejects a log in which a second MsgSend
   is entered on stream 1 while message 2 is still in flight (two write loops on one queue) as well as a return of a
   message that is not the one in flight *)
Example c19_events_nonvacuous :
  let ops := [HAddStream 1 2 [7] false; HBroadcast [7]; HBroadcast [7]; HRelease 1 true; HRelease 1 false] in
  map o_events (model_hist (mkConfig 1 2) ops) =
    [[]; [(1, (1, true))]; []; [(1, (1, false)); (1, (2, true))]; [(1, (2, false))]]
  /\ stream_events_ok [(1, (1, true)); (1, (2, true)); (1, (1, false))] 1 = false
  /\ stream_events_ok [(1, (1, true)); (2, (2, true)); (1, (1, false)); (2, (2, false))] 1 = true
  /\ stream_events_ok [(1, (1, true)); (1, (2, false))] 1 = false.
Proof. vm_compute. repeat split. Qed.

Theorem c19_spec_implies_static : forall ops observed,
  spec_C19 ops observed = true -> forallb obs_static_ok observed = true.
Proof. exact spec_implies_static. Qed.

(* every harness-level operation expands to a label list: the histories compared with the implementation only
   visit states covered by the theorems above *)
Theorem c19_history_states_reachable : forall s i op, fst (run_op s i op) = run s (expand s i op).
Proof. exact run_op_state. Qed.

(* ---- util/multiqueue (receive queues of commonspace/sync): same bounded TryAdd queue per thread ------------- *)
Theorem c19_multiqueue_bounded_fifo : forall cap ops k st,
  0 < cap ->
  hget k (mq_objs (mq_run (mq_init cap) 0 ops)) = Some st ->
  N.of_nat (length (st_queue st)) <= st_cap st
  /\ st_accepted st = st_taken st ++ st_queue st
  /\ prefix (st_written st) (st_taken st).
Proof. exact mq_bounded_fifo_all_histories. Qed.
Print Assumptions c19_multiqueue_bounded_fifo.

(* ---- non-vacuity ------------------------------------------------------------------------------------- *)
(* a blocked stream (1) with a full queue next to a healthy one (2): the overflow is real, stream 2 is served *)
Example c19_bounded_nonvacuous :
  let s := run (init (mkConfig 1 1))
             [LAddStream 1 1 [7] false; LAddStream 2 1 [7] false;
              LBroadcast 0 10 [7]; LWrite 0; LTake 1; LWrite 0; LTake 2; LSendOk 2;
              LBroadcast 0 11 [7]; LWrite 0; LWrite 0; LTake 2; LSendOk 2;
              LBroadcast 0 12 [7]; LWrite 0; LWrite 0; LTake 2] in
  option_map (fun st => (st_queue st, st_inflight st, st_accepted st)) (hget 1 (objs s)) = Some ([11], Some 10, [10; 11])
  /\ option_map (fun st => (st_queue st, st_inflight st, st_written st)) (hget 2 (objs s)) = Some ([], Some 12, [10; 11])
  /\ pending_size s 0 = 0%nat /\ dead s = false.
Proof. vm_compute. repeat split. Qed.

(* duplicate tags at creation, tag changes and a close: the indexes stay exact and end empty *)
Example c19_index_nonvacuous :
  let s := run (init (mkConfig 1 1))
             [LAddStream 1 1 [7; 7; 8] false; LAddStream 1 1 [7] false; LAddTags 1 [8; 9; 9]; LRemoveTags 1 [7] false;
              LReadErr 1; LCloseQueue 1; LBroadcast 0 5 [7; 8; 9]; LRemove 1; LWrite 0; LWrite 0] in
  (by_peer s, by_tag s, pool_ids s, dead s) = ([(1, [2])], [(7, [2])], [2], false)
  /\ option_map st_removed (hget 1 (objs s)) = Some true
  /\ option_map st_accepted (hget 1 (objs s)) = Some []      (* collected before the removal, rejected: queue closed *)
  /\ option_map st_accepted (hget 2 (objs s)) = Some [5].
Proof. vm_compute. repeat split. Qed.

Example c19_multiqueue_nonvacuous :
  let ops := [MqAdd 1; MqAdd 1; MqAdd 1; MqAdd 2; MqRelease 1 0; MqCloseThread 1; MqAdd 2; MqClose; MqAdd 2] in
  map mo_err (mq_hist (mq_init 1) 0 ops) = [0; 0; 3; 0; 0; 0; 0; 0; 5]
  /\ spec_C19_mq (mq_hist (mq_init 1) 0 ops) = true.
Proof. vm_compute. split; reflexivity. Qed.

Example c19_spec_nonvacuous :
  let ops := [HAddStream 1 1 [7; 7] false; HAddStream 2 2 [7] true; HBroadcast [7]; HBroadcast [7];
              HBroadcast [7; 8]; HSendById [2; 1]; HRelease 1 true; HAddTags 2 [8; 8]; HRelease 2 false;
              HStreams [7; 8]; HCloseRelease 2; HStreams [7; 8]; HReadErr 1; HBroadcast [7];
              HSend [(5, Some (1, [9], false)); (6, None)]] in
  spec_C19 ops (model_hist (mkConfig 1 2) ops) = true.
Proof. vm_compute. reflexivity. Qed.

(* ---- the stream-close hook and a pool owner with the lock order "owner mutex -> pool.mu" ------------------------
   Model/StreamPoolHook.v: removeStream's critical section ([LRemove]) ends BEFORE the hook is called; the hook
   ([HHook sid]) takes the owner's mutex and calls back into the pool; the owner holds its mutex across pool calls
   ([HOwnerLock] .. pool labels .. [HOwnerUnlock]).  "All schedules" = all lists of [hlabel]. *)

(* no pool label is ever disabled or changed by the owner's mutex or by parked hooks: a stream that ends while the owner is
   inside its section delays nobody's Broadcast / SendById / Send / AddStream / tag change *)
Theorem c19_hook_never_blocks_pool : forall hs l,
  hstep hs (HL l) = mkH (step (h_pool hs) l) (h_owner hs) (h_done hs).
Proof. exact hook_layer_never_blocks. Qed.
Print Assumptions c19_hook_never_blocks_pool.

(* the pool component of every schedule of the layered system is a schedule of the pool: every theorem above applies to it *)
Theorem c19_hook_layer_projection : forall tr hs, h_pool (hrun hs tr) = run (h_pool hs) (pool_labels tr).
Proof. exact hrun_pool. Qed.
Print Assumptions c19_hook_layer_projection.

Theorem c19_hook_layer_pool_reachable : forall c tr, reachable c (h_pool (hrun (hinit c) tr)).
Proof. exact hook_layer_reachable_pool. Qed.

(* in every schedule a stream's hook returns at most once, and what it reads from the pool through Streams(closedTags)
   does not contain its own stream (the indexes were cleaned before the hook ran) *)
Theorem c19_hook_once_and_clean : forall c tr,
  NoDup (map fst (hrun_notes (hinit c) tr))
  /\ forall nt, In nt (hrun_notes (hinit c) tr) -> ~ In (fst nt) (snd (snd nt)).
Proof. exact hook_notes_all_schedules. Qed.
Print Assumptions c19_hook_once_and_clean.

(* a parked hook needs nothing but the owner's mutex: once that is free it returns in one step of its own *)
Theorem c19_hook_progress : forall hs sid,
  hook_pending hs sid = true -> h_owner hs = false ->
  hook_pending (hstep hs (HHook sid)) sid = false
  /\ snd (hstep_out hs (HHook sid)) = [hook_note (h_pool hs) sid]
  /\ h_pool (hstep hs (HHook sid)) = h_pool hs.
Proof. exact hook_runs_when_owner_free. Qed.
Print Assumptions c19_hook_progress.

(* no deadlock between the owner and the closing goroutines: from EVERY state — whatever ended and whatever the owner did
   inside its section — "the owner unlocks, every hook gets its turn" leaves no hook pending *)
Theorem c19_hooks_drain : forall hs ids,
  (forall x, hook_pending hs x = true -> In x ids) ->
  forall x, hook_pending (hrun hs (HOwnerUnlock :: map HHook ids)) x = false.
Proof. exact hooks_drain. Qed.
Print Assumptions c19_hooks_drain.

(* FULL model-satisfies-spec for the owner layer: for every configuration and every list of pool / owner-lock / owner-unlock
   operations the model's history satisfies spec_C19 on the pool observations AND the hook clauses (a hook returns only
   after it was invoked, once, never while the owner holds its mutex, always once the mutex is free; its view of the pool
   names no stream whose removal was announced) *)
Theorem c19_model_satisfies_spec_hook : forall c ops, spec_C19_hook ops (model_hist2 c ops) = true.
Proof. exact model_hist2_spec_ok. Qed.
Print Assumptions c19_model_satisfies_spec_hook.

Theorem c19_spec_hook_implies_pool_spec : forall ops observed,
  spec_C19_hook ops observed = true -> spec_C19 (map base_of ops) (map o2_base observed) = true.
Proof. exact spec_hook_implies_base. Qed.

Theorem c19_hook_history_states_reachable : forall hs i o, fst (run_op2 hs i o) = hrun hs (expand2 hs i o).
Proof. exact run_op2_state. Qed.

(* the design the hook contract excludes — removeStream calls the hook before it releases pool.mu ([hstep_ul]): from the
   moment one hook is pending, under EVERY schedule, no hook ever returns, the indexes never change, and every label that
   needs pool.mu stays disabled: the end of ONE stream freezes the whole pool *)
Theorem c19_hook_under_pool_lock_freezes : forall tr hs, hinv hs -> pool_mu_held hs = true ->
  pool_mu_held (hrun_ul hs tr) = true /\ h_done (hrun_ul hs tr) = h_done hs
  /\ pool_ids (h_pool (hrun_ul hs tr)) = pool_ids (h_pool hs)
  /\ by_peer (h_pool (hrun_ul hs tr)) = by_peer (h_pool hs)
  /\ by_tag (h_pool (hrun_ul hs tr)) = by_tag (h_pool hs)
  /\ forall l, needs_pool_mu l = true -> hstep_ul (hrun_ul hs tr) (HL l) = hrun_ul hs tr.
Proof. exact ul_frozen. Qed.
Print Assumptions c19_hook_under_pool_lock_freezes.

Theorem c19_hook_layer_states_invariant : forall c tr, hinv (hrun (hinit c) tr).
Proof. exact reachable_hinv. Qed.

(* the same schedule in both designs: stream 1 ends while the owner is inside its section; the owner broadcasts, leaves the
   section, the hook gets its turn.  Contract design: stream 2 gets message 5, the hook returns having seen stream 2 only.
   Hook-under-lock design: nothing is delivered, the hook never returns, pool.mu stays held. *)
Example c19_hook_designs_nonvacuous :
  let pre := [HL (LAddStream 1 1 [7] false); HL (LAddStream 2 1 [7] false); HOwnerLock;
              HL (LReadErr 1); HL (LCloseQueue 1); HL (LTake 1); HL (LRemove 1)] in
  let post := [HL (LBroadcast 0 5 [7]); HL (LWrite 0); HL (LTake 2); HOwnerUnlock; HHook 1] in
  let s0 := hrun (hinit (mkConfig 1 1)) pre in
  pool_mu_held s0 = true
  /\ option_map st_accepted (hget 2 (objs (h_pool (hrun s0 post)))) = Some [5]
  /\ hrun_notes s0 post = [(1, ([7], [2]))]
  /\ hook_pending (hrun s0 post) 1 = false
  /\ option_map st_accepted (hget 2 (objs (h_pool (hrun_ul s0 post)))) = Some []
  /\ hook_pending (hrun_ul s0 post) 1 = true.
Proof. vm_compute. repeat split. Qed.

(* the hook clauses reject what they should: a hook whose view contains its own stream, a hook that returns while the owner
   holds its mutex, a hook that stays parked although the mutex is free, a lost hook, a hook that returns twice, a hook
   that returns without having been invoked *)
Example c19_hook_clauses_nonvacuous :
  let b := fun rem => mkObs 0 [] [] [] [] rem (mkSnap [] [] []) true in
  hook_ok [] [] false (mkObs2 (b [(1, [7])]) [(1, ([7], [2]))] []) = true
  /\ hook_ok [] [] true (mkObs2 (b [(1, [7])]) [] [1]) = true
  /\ hook_ok [] [] false (mkObs2 (b [(1, [7])]) [(1, ([7], [1; 2]))] []) = false
  /\ hook_ok [] [] true (mkObs2 (b [(1, [7])]) [(1, ([7], []))] []) = false
  /\ hook_ok [] [] false (mkObs2 (b [(1, [7])]) [] [1]) = false
  /\ hook_ok [] [] false (mkObs2 (b [(1, [7])]) [] []) = false
  /\ hook_ok [1] [1] false (mkObs2 (b []) [(1, ([7], [2])); (1, ([7], [2]))] []) = false
  /\ hook_ok [] [1] false (mkObs2 (b []) [(1, ([7], []))] []) = false.
Proof. vm_compute. repeat split. Qed.

Example c19_spec_hook_nonvacuous :
  let ops := [H2 (HAddStream 1 1 [7] false); H2 (HAddStream 2 1 [7; 8] false); H2 (HAddStream 3 2 [8] true); H2Lock;
              H2 (HReadErr 1); H2 (HRemoveTags 2 [8] true); H2 (HBroadcast [7]); H2 (HRelease 2 false); H2 (HReadErr 3);
              H2 (HCloseRelease 3); H2 (HStreams [7; 8]); H2Unlock; H2 (HAddStream 1 1 [7] false); H2 (HReadErr 4)] in
  spec_C19_hook ops (model_hist2 (mkConfig 1 2) ops) = true
  /\ map (fun o => (map fst (o2_notes o), o2_pending o)) (model_hist2 (mkConfig 1 2) ops) =
     [([], []); ([], []); ([], []); ([], []); ([], [1]); ([], [1]); ([], [1]); ([], [1; 2]); ([], [1; 2]);
      ([], [1; 2; 3]); ([], [1; 2; 3]); ([1; 2; 3], []); ([], []); ([4], [])].
Proof. vm_compute. split; reflexivity. Qed.
