(* C19 — placeholder while the pipeline is brought up *)
From Coq Require Import List NArith Bool.
Import ListNotations.
From AnySync Require Import Model.StreamPool.
Open Scope N_scope.

Example c19_smoke_nonvacuous :
  let ops := [HAddStream 1 1 [7; 7] false; HBroadcast [7]; HBroadcast [7]] in
  spec_C19 ops (model_hist (mkConfig 1 2) ops) = true.
Proof. vm_compute. reflexivity. Qed.
