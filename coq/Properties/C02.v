(* C02 — Only authentic, authorised changes are ever attached or persisted.
   Model: Model/TreeAuth.v over Model/Acl.v; proofs: Proofs/TreeAuth.v, Proofs/TreeAuthAcl.v, Proofs/TreeAuthMain.v.
   Symbolic cryptography (DESIGN §1.3): validity flags of delivered bytes are inputs; Section Symbolic of the model gives
   the free term algebra in which the mutation theorem is stated.

   The model satisfies the executable specification (c02_model_satisfies_spec, Proofs/TreeAuthSpec.v):
     forall sc, scenario_wf sc = true -> spec_C02 (model_scenario sc) = true
   where scenario_wf is a decidable condition on the scenario's INPUTS only: the ACL log is accepted by the validating
   state machine, ACL record ids are distinct, and inside every batch two elements delivered under the same id whose
   bytes both hash to that id are the same element (CID flags consistent with a collision-free hash; without it the
   statement is false, c02_inconsistent_flags_refuted).  The unconditional statement `forall sc, spec_C02
   (model_scenario sc) = true` is false for the trivial reason that spec_C02 answers false on an invalid ACL log.

   FINDING while proving it: with the FIRST version of spec_dels the statement was false of the model (and of the
   code): `fresh` also counted an id that is on disk, stays on disk, and is not reachable by the iteration (an orphan:
   a non-root change with empty TreeHeadIds, which Tree.canAttachOrRemove attaches), demanding that it be announced
   again by every later successful call.  The predicate was wrong, not the model; Model/TreeAuth.v now uses
   [fresh_ids] (new in memory, or in memory and not on disk before, or new on disk), the old one is kept as
   [fresh_ids_legacy] with the witness c02_spec_legacy_orphan_refuted. *)
From Coq Require Import List NArith Bool Arith.
Import ListNotations.
From AnySync Require Import Model.TreeAuth Proofs.TreeAuth Proofs.TreeAuthAcl Proofs.TreeAuthMain Proofs.TreeAuthSpec
  Proofs.TreeAuthRoot.
Open Scope N_scope.

(* (1) every change attached by a successful AddRawChanges that was not attached before: came with the batch, is
   announced in Added, id = CID of its bytes, canonical bytes, (derived root or signature verifies under the identity it
   names), cited record known to the receiver, PermissionsAtRecord says CanWrite, and for every parent: the parent is
   attached and (is the derived root or) cites a known record that is not newer than the change's *)
Theorem c02_accept_sound : forall a t batch t' added,
  accept a t batch = (t', ROk added) ->
  forall c, In c (at_att t') -> In c (at_att t) \/ (In c batch /\ In (rc_id c) added /\ sound_change a t' c).
Proof. exact accept_sound. Qed.
Print Assumptions c02_accept_sound.

(* storage grows by exactly the announced changes, which are exactly the newly attached ones *)
Theorem c02_accept_stored : forall a t batch t' added,
  accept a t batch = (t', ROk added) ->
  at_stored t' = rev added ++ at_stored t /\ rc_ids (at_att t') = rev added ++ rc_ids (at_att t).
Proof. exact accept_stored. Qed.
Print Assumptions c02_accept_stored.

(* (2) for every ACL log accepted by the validating state machine (all content kinds, any length) and every prefix of
   it held by a receiver: closestPermissions over the account's PermissionChanges answers None or the permission in the
   state folded up to the cited record *)
Theorem c02_closest_sound : forall me owner root ws sts n v,
  acl_states me owner root ws = Some sts ->
  NoDup (acl_ids root ws) ->
  view_at (acl_ids root ws) sts n = Some v ->
  forall r who, has_head (av_ids v) r = true ->
    closest (av_ids v) (a_hist (acc_of (av_state v) who)) r = pNone \/
    truth_at (acl_ids root ws) sts r who = Some (closest (av_ids v) (a_hist (acc_of (av_state v) who)) r).
Proof. exact closest_sound. Qed.
Print Assumptions c02_closest_sound.

(* (1)+(2) in property language: whoever's change became part of the tree really held write permission at the cited
   record (truth = the ACL state folded up to that record), for all ACL histories and all batches *)
Theorem c02_accepted_author_could_write : forall me owner root ws sts n v t batch t' added c,
  acl_states me owner root ws = Some sts -> NoDup (acl_ids root ws) ->
  view_at (acl_ids root ws) sts n = Some v ->
  accept v t batch = (t', ROk added) ->
  In c (at_att t') -> ~ In c (at_att t) -> is_derived_root t' (rc_id c) = false ->
  rc_cid_ok c = true /\ rc_canon c = true /\ rc_sig_ok c = true /\
  has_head (av_ids v) (rc_head c) = true /\
  exists p, truth_at (acl_ids root ws) sts (rc_head c) (rc_ident c) = Some p /\ can_write p = true.
Proof. exact accepted_author_could_write. Qed.
Print Assumptions c02_accepted_author_could_write.

(* (3) a delivered change that fails CID / canonical form / decoding / signature fails the whole batch, wherever it
   sits in the batch, and the tree is untouched *)
Theorem c02_bad_change_rejects_batch : forall a t batch c,
  In c batch -> has_rc (at_att t) (rc_id c) = false -> unmarshal_ok t c = false ->
  accept a t batch = (t, RErr EUnmarshal).
Proof. exact bad_change_rejects_batch. Qed.
Print Assumptions c02_bad_change_rejects_batch.

(* (3) in the term algebra: ANY alteration of an honest change (payload: data / claimed identity / ACL head / parents /
   snapshot base; signature; bytes around them; id) that keeps the original signature or the original id is rejected,
   alone or anywhere inside a batch *)
Theorem c02_mutation_rejected : forall a t batch num p d',
  wf t ->
  let d := honest num p in
  (dl_id d' <> dl_id d \/ dl_wire d' <> dl_wire d) ->
  (wr_sig (dl_wire d') = wr_sig (dl_wire d) \/ dl_id d' = dl_id d) ->
  has_rc (at_att t) (dl_num d') = false ->
  In (to_raw d') batch ->
  accept a t batch = (t, RErr EUnmarshal).
Proof. exact mutation_rejected. Qed.
Print Assumptions c02_mutation_rejected.

(* (4) a rejected batch leaves attached set, Next lists, heads, lastIteratedHeadId, storage and the iteration sequence
   exactly as they were *)
Theorem c02_reject_noop : forall a t batch t' e,
  wf t ->
  accept a t batch = (t', RErr e) ->
  at_att t' = at_att t /\ (forall k, nlookup (at_next t') k = nlookup (at_next t) k) /\
  at_heads t' = at_heads t /\ at_last t' = at_last t /\ at_stored t' = at_stored t /\
  at_root t' = at_root t /\ at_derived t' = at_derived t /\ iter_seq t' = iter_seq t.
Proof. exact reject_noop. Qed.
Print Assumptions c02_reject_noop.

(* [wf] (root attached, Next lists mention attached changes only) holds of every reachable tree *)
Theorem c02_wf_build : forall a root derived t, build a root derived = Some t -> wf t.
Proof. exact build_wf. Qed.
Print Assumptions c02_wf_build.
Theorem c02_wf_accept : forall a t batch t' r, wf t -> accept a t batch = (t', r) -> wf t'.
Proof. exact accept_wf. Qed.
Print Assumptions c02_wf_accept.

(* (5) the model satisfies the executable specification: for every scenario whose inputs are well formed (decidable:
   ACL log accepted by the validating machine, distinct record ids, CID flags of every batch consistent), spec_C02
   holds of what the model produces -- every successful call announces exactly what is new in memory / on disk, all of
   it came with the batch and every delivered copy of it is authentic and authorised against the TRUTH (the ACL state
   folded up to the cited record), nothing disappears, and every rejected call leaves heads, iteration, storage as
   they were.  Uses: the iteration presents exactly the set reachable from the root through the Next lists
   (iter_seq_reach; the fuel always suffices), accept_sound, closest_sound, reject_noop, the invariant wf2. *)
Theorem c02_model_satisfies_spec : forall sc, scenario_wf sc = true -> spec_C02 (model_scenario sc) = true.
Proof. exact model_satisfies_spec. Qed.
Print Assumptions c02_model_satisfies_spec.

(* what IterateRoot presents, as a set: the ids reachable from the root through the Next lists *)
Theorem c02_iter_is_reachable_set : forall t, wf2 t ->
  forall x, In x (iter_seq t) <-> reach (nlookup (at_next t)) (at_root t) x.
Proof. exact iter_seq_reach. Qed.
Print Assumptions c02_iter_is_reachable_set.
Theorem c02_wf2_build : forall a root derived t, build a root derived = Some t -> wf2 t.
Proof. exact build_wf2. Qed.
Print Assumptions c02_wf2_build.
Theorem c02_wf2_accept : forall a t batch t' r, wf2 t -> accept a t batch = (t', r) -> wf2 t'.
Proof. exact accept_wf2. Qed.
Print Assumptions c02_wf2_accept.

(* the code before fixes/C02-canonical-rawchange.patch: a padded copy of an honest change (same payload and signature,
   id recomputed) passes Unmarshall(verify) although it is a different delivered object; the repaired check refuses it *)
Theorem c02_legacy_padding_refuted : forall t num num' p pad,
  p_ident p <> 0 -> pad <> 0 ->
  let w := mkWire p (Sig (p_ident p) p) pad in
  unmarshal_ok_legacy t (to_raw (mkDelivered (Cid w) num' w)) = true /\
  unmarshal_ok t (to_raw (mkDelivered (Cid w) num' w)) = false /\
  to_raw (mkDelivered (Cid w) num' w) <> to_raw (honest num p).
Proof. exact legacy_padding_passes. Qed.
Print Assumptions c02_legacy_padding_refuted.

(* ------------------------------------------------------------------------------------------ the root clause *)
(* (6) The ROOT as a delivered change.  A root delivery (Model/TreeAuth.v, rootdel) hands a raw root, optionally changes
   and claimed heads, to one of the construction paths: 0 CreateStorage + BuildObjectTree, 1 CreateStorageWithDeferred-
   Creation + BuildObjectTree, 2 ValidateRawTreeDefault, 3 ValidateFilterRawTree (model_rootdel; the tree builder is
   [build] on every path; path 3 past HadReadPermissions is predicted when the key filter drops nothing).  spec_rootdel (over OBSERVED behaviour): a live tree, or anything on disk, only for a root
   whose id is the hash of its bytes, canonically encoded, signed by the identity it names (derived roots excepted),
   that identity holding write permission in the TRUTH at the cited record, which the receiver knows (on path 0 the
   caller's own CreateStorage promises authenticity only); everything else present came with the delivery and is
   authentic and authorised. *)

(* the tree builder accepts a root only if the root conditions hold against the truth, for all ACL histories *)
Theorem c02_root_build_sound : forall me owner aroot ws sts,
  acl_states me owner aroot ws = Some sts -> NoDup (acl_ids aroot ws) ->
  forall n a root derived t0,
  view_at (acl_ids aroot ws) sts n = Some a -> build a root derived = Some t0 ->
  auth_ok (acl_ids aroot ws) sts n (rc_id root) derived [root] root = true.
Proof. exact build_root_auth. Qed.
Print Assumptions c02_root_build_sound.

(* the model of every root delivery satisfies the root specification *)
Theorem c02_root_delivery_satisfies_spec : forall me owner aroot ws sts,
  acl_states me owner aroot ws = Some sts -> NoDup (acl_ids aroot ws) ->
  forall a d o,
  view_at (acl_ids aroot ws) sts (rd_acl_len d) = Some a -> batch_consistent (rd_changes d) ->
  model_rootdel me a d = Some o -> spec_rootdel (acl_ids aroot ws) sts (rd_with d o) = true.
Proof. exact model_rootdel_spec. Qed.
Print Assumptions c02_root_delivery_satisfies_spec.

(* ... and so does every root world (same decidable side conditions on the INPUTS as scenario_wf) *)
Theorem c02_root_model_satisfies_spec : forall rw, rootworld_wf rw = true -> spec_roots (model_rootworld rw) = true.
Proof. exact model_roots_satisfy_spec. Qed.
Print Assumptions c02_root_model_satisfies_spec.

(* a live tree on any path, or anything on disk on the remote paths, only if the tree builder accepted the root *)
Theorem c02_root_present_only_if_built : forall me a d o,
  model_rootdel me a d = Some o ->
  ro_live o = true \/ (rd_path d <> 0 /\ ro_stored o <> []) ->
  exists t0, build a (rd_root d) (rd_derived d) = Some t0.
Proof. exact model_root_present_built. Qed.
Print Assumptions c02_root_present_only_if_built.

(* a root failing CID / canonical form / decoding / signature: nothing is returned, nothing is on disk, on every path *)
Theorem c02_root_unauthentic_nothing : forall me a d,
  unmarshal_ok (tree0 (rd_root d) (rd_derived d)) (rd_root d) = false -> model_rootdel me a d = Some ro_none.
Proof. exact root_unauthentic_nothing. Qed.
Print Assumptions c02_root_unauthentic_nothing.

(* in the term algebra: ANY alteration of an honest root (payload incl. claimed identity / ACL head / type / data,
   signature, surrounding bytes, id) that keeps the original signature or the original id is refused by the tree
   builder, and on every construction path nothing is attached and nothing is stored *)
Theorem c02_root_mutation_rejected : forall me a num p d' path n cs heads keyed o1 o2 o3 o4 o5 o6,
  let d := honest num p in
  (dl_id d' <> dl_id d \/ dl_wire d' <> dl_wire d) ->
  (wr_sig (dl_wire d') = wr_sig (dl_wire d) \/ dl_id d' = dl_id d) ->
  build a (to_raw d') false = None /\
  model_rootdel me a (mkRD path n (to_raw d') false cs heads keyed o1 o2 o3 o4 o5 o6) = Some ro_none.
Proof. exact root_mutation_rejected. Qed.
Print Assumptions c02_root_mutation_rejected.

(* ------------------------------------------------------------------------------------------ non-vacuity *)
(* ACL: 1 root (owner 1); 2 add writers 2, 4, 5, 6; 3 demote 4 to reader; 4 remove 5; 5 remove 6; 6 add 6 again *)
Definition ex_rk (l : list acct) := Some (mkRk true true l []).
Definition ex_recs : list raw :=
  [ mkRaw 2 true true true true 1 1 [CAccountsAdd [(2, 3); (4, 3); (5, 3); (6, 3)]];
    mkRaw 3 true true true true 2 1 [CPermChanges [(4, 4)]];
    mkRaw 4 true true true true 3 1 [CAccountRemove [5] (ex_rk [1; 2; 4; 6])];
    mkRaw 5 true true true true 4 1 [CAccountRemove [6] (ex_rk [1; 2; 4])];
    mkRaw 6 true true true true 5 1 [CAccountsAdd [(6, 3)]] ].
Definition ex_root : rawchange := mkRC 100 true true true true [] 0 false 1 1.
Definition ch (i : N) (prev : list N) (head : rid) (who : acct) : rawchange :=
  mkRC i true true true true prev 100 false head who.
Definition ex_batches : list (nat * list rawchange) :=
  [ (6%nat, [ch 101 [100] 2 2]);                 (* writer citing record 2: attached *)
    (6%nat, [ch 102 [101] 3 4]);                 (* demoted writer citing the record that demoted it: rejected *)
    (6%nat, [ch 103 [101] 2 4]);                 (* demoted writer citing record 2 under a parent citing 2: attached *)
    (6%nat, [ch 104 [101] 4 5]);                 (* removed writer citing the removal: rejected *)
    (6%nat, [ch 105 [101] 2 6]);                 (* re-added writer citing its FIRST membership: history kept (F35 repair): attached *)
    (6%nat, [ch 106 [101] 6 6]);                 (* re-added writer citing the re-add: attached *)
    (6%nat, [ch 107 [106] 2 2]);                 (* ACL head older than the parent's: rejected *)
    (6%nat, [ch 108 [101] 3 7]);                 (* never a member: rejected *)
    (3%nat, [ch 109 [101] 5 2]);                 (* (receiver holding 3 records) cited record unknown: rejected *)
    (6%nat, [ch 110 [101] 6 2; mkRC 111 true true true false [101] 100 false 6 2; ch 112 [110] 6 2])
                                                 (* bad signature between two valid changes: whole batch rejected *)
  ].
Definition ex_scen : scenario :=
  mkScen 999 1 1 ex_recs [] ex_root false 6%nat true [] [] []
         (map (fun nb => mkDel (fst nb) (snd nb) false 0 [] [] [] [] []) ex_batches).

Example c02_nonvacuous :
  map (fun d => (d_eclass d, d_added d)) (sc_dels (model_scenario ex_scen)) =
  [(0, [101]); (2, []); (0, [103]); (2, []); (0, [105]); (0, [106]); (2, []); (2, []); (2, []); (1, [])].
Proof. vm_compute. reflexivity. Qed.

Example c02_model_satisfies_spec_example : spec_C02 (model_scenario ex_scen) = true.
Proof. vm_compute. reflexivity. Qed.

(* the hypothesis of c02_model_satisfies_spec is satisfiable by that scenario *)
Example c02_scenario_wf_nonvacuous : scenario_wf ex_scen = true.
Proof. vm_compute. reflexivity. Qed.

(* an orphan (non-root change with no parents, authentic and authorised) is attached and stored, never iterated; a
   later successful call need not announce it again.  The first version of the predicate demanded that. *)
Definition ex_orphan_scen : scenario :=
  mkScen 999 1 1 ex_recs [] ex_root false 6%nat true [] [] []
         (map (fun nb => mkDel (fst nb) (snd nb) false 0 [] [] [] [] [])
              [ (6%nat, [ch 101 [] 2 2]); (6%nat, [ch 102 [100] 2 2]) ]).
Example c02_orphan_scenario :
  scenario_wf ex_orphan_scen = true /\
  (map (fun d => (d_added d, d_iter d, d_stored d)) (sc_dels (model_scenario ex_orphan_scen)) =
     [([101], [100], [101; 100]); ([102], [100; 102], [102; 101; 100])]) /\
  spec_C02 (model_scenario ex_orphan_scen) = true.
Proof. vm_compute. repeat split; reflexivity. Qed.
Example c02_spec_legacy_orphan_refuted :
  exists d0 d1, (sc_dels (model_scenario ex_orphan_scen) = [d0; d1]) /\
    subset_N (fresh_ids_legacy (d_iter d0) (d_stored d0) (d_iter d1) (d_stored d1)) (d_added d1) = false /\
    subset_N (fresh_ids (d_iter d0) (d_stored d0) (d_iter d1) (d_stored d1)) (d_added d1) = true.
Proof. eexists. eexists. vm_compute. repeat split; reflexivity. Qed.

(* the consistency hypothesis is needed: two different elements under one id, both flagged "bytes hash to the id"
   (impossible for a collision-free hash): the code and the model validate the first and skip the second, the
   predicate demands authorisation of every delivered copy *)
Definition ex_inconsistent_scen : scenario :=
  mkScen 999 1 1 ex_recs [] ex_root false 6%nat true [] [] []
         [mkDel 6%nat [ch 101 [100] 2 2; ch 101 [100] 2 7] false 0 [] [] [] [] []].
Example c02_inconsistent_flags_refuted :
  scenario_wf ex_inconsistent_scen = false /\ spec_C02 (model_scenario ex_inconsistent_scen) = false.
Proof. vm_compute. split; reflexivity. Qed.

(* the hypotheses of c02_closest_sound / c02_accepted_author_could_write are satisfiable: account 6 was a writer at
   record 2, removed at 5 and added again at 6; since the F35 repair (AccountsAdd keeps the earlier permission
   history) closest answers the truth for record 2 (before the repair it answered None: below the truth) *)
Example c02_closest_nonvacuous :
  match acl_states 999 1 1 ex_recs with
  | Some sts =>
      match view_at (acl_ids 1 ex_recs) sts 6 with
      | Some v => (closest (av_ids v) (a_hist (acc_of (av_state v) 6)) 2,
                   truth_at (acl_ids 1 ex_recs) sts 2 6,
                   closest (av_ids v) (a_hist (acc_of (av_state v) 4)) 2,
                   closest (av_ids v) (a_hist (acc_of (av_state v) 4)) 3) = (3, Some 3, 3, 4)
      | None => False
      end
  | None => False
  end.
Proof. vm_compute. reflexivity. Qed.

(* root deliveries over the same ACL (receiver holds all 6 records): honest root-only tree through the default
   validator (live, root on disk: AddAll(nothing) creates the deferred storage); the same root with a stale signature
   on the deferred path (refused, nothing anywhere); root + one honest change through the default validator; root
   signed by the demoted account 4 citing the demotion (refused); derived root-only tree through the default validator
   (ErrDerived, but the storage was created); authentic root of a non-writer on the eager path (CreateStorage wrote it,
   BuildObjectTree refused it); root-only tree through the filtering validator by a non-member (ErrNoReadKey) *)
Definition ex_rd (path : N) (root : rawchange) (derived : bool) (cs : list rawchange) (heads : list N) : rootdel :=
  mkRD path 6%nat root derived cs heads true false false [] [] [] [].
Definition ex_rw : rootworld :=
  mkRW 999 1 1 ex_recs []
       [ ex_rd 2 ex_root false [] [100];
         ex_rd 1 (mkRC 100 true true true false [] 0 false 1 1) false [] [100];
         ex_rd 2 ex_root false [ch 101 [100] 2 2] [101];
         ex_rd 2 (mkRC 100 true true true true [] 0 false 3 4) false [] [100];
         ex_rd 2 (mkRC 100 true true true false [] 0 false 0 0) true [] [100];
         ex_rd 0 (mkRC 100 true true true true [] 0 false 3 4) false [] [100];
         ex_rd 3 ex_root false [] [100] ].
Example c02_root_nonvacuous :
  rootworld_wf ex_rw = true /\
  map (fun d => (rd_live d, rd_iter d, rd_stored d, rd_added d)) (rw_dels (model_rootworld ex_rw)) =
    [ (true, [100], [100], []); (false, [], [], []); (true, [100; 101], [101; 100], [101]); (false, [], [], []);
      (false, [], [100], []); (false, [], [100], []); (false, [], [], []) ] /\
  spec_roots (model_rootworld ex_rw) = true.
Proof. vm_compute. repeat split; reflexivity. Qed.

(* the filtering validator with a MEMBER receiver (account 2 holds write permission since record 2): root + one honest
   change whose read key the receiver holds -> live; root-only -> ErrNoChangeInTree (storage created); a change naming a
   read key the receiver lacks -> the filter drops it: no prediction (the run checks spec_roots only) *)
Definition ex_rw_member : rootworld :=
  mkRW 2 1 1 ex_recs []
       [ ex_rd 3 ex_root false [ch 101 [100] 2 2] [101];
         ex_rd 3 ex_root false [] [100];
         mkRD 3 6%nat ex_root false [ch 101 [100] 2 2] [101] false false false [] [] [] [] ].
Example c02_root_filter_nonvacuous :
  rootworld_wf ex_rw_member = true /\
  map (fun d => (rd_live d, rd_iter d, rd_stored d, rd_added d)) (rw_dels (model_rootworld ex_rw_member)) =
    [ (true, [100; 101], [101; 100], [101]); (false, [], [100], []); (false, [], [], []) ] /\
  spec_roots (model_rootworld ex_rw_member) = true.
Proof. vm_compute. repeat split; reflexivity. Qed.

(* the specification is not trivially true: the same forged root (stale signature) reported as a live tree -- what the
   code would do if the tree builder did not verify the header of a root on a never-created deferred storage -- is a
   violation; so is an unauthorised root on disk after a remote delivery *)
Example c02_root_spec_rejects_forged :
  spec_roots (mkRW 999 1 1 ex_recs []
     [mkRD 1 6%nat (mkRC 100 true true true false [] 0 false 1 1) false [] [100] true true true [100] [100] [] []]) = false /\
  spec_roots (mkRW 999 1 1 ex_recs []
     [mkRD 2 6%nat (mkRC 100 true true true true [] 0 false 3 4) false [] [100] true false false [] [] [100] []]) = false.
Proof. vm_compute. split; reflexivity. Qed.

(* ------------------------------------------------------------------------------------------ ACL records landing during a call *)
(* AddRawChanges validates under the ACL list's READ lock: a record added by the ACL sync handler (under the WRITE lock)
   lands before the validation or after it.  Race scenarios (Model/TreeAuth.v racescen): the deliveries carry the number
   of ACL records held when the call was entered, rs_mid the number of records that landed while it ran; the model
   (model_race) answers every call with one of the two serial outcomes, chosen by [ch]. *)

(* knowing more records never invalidates an authorisation *)
Theorem c02_auth_ok_mono : forall ids sts (n n' : nat) root derived known c, (n <= n')%nat ->
  auth_ok ids sts n root derived known c = true -> auth_ok ids sts n' root derived known c = true.
Proof. exact auth_ok_mono. Qed.
Print Assumptions c02_auth_ok_mono.

(* each call of the race model is the sequential model's answer to the same batch under the entry length or under the
   entry length plus the records that landed during the call *)
Theorem c02_race_serial : forall ds mid ch i d,
  nth_error ds i = Some d ->
  exists n, nth_error (race_ins ds mid ch) i = Some (n, d_batch d) /\
            (n = d_acl_len d \/ n = (d_acl_len d + nth i mid O)%nat).
Proof. exact race_ins_serial. Qed.
Print Assumptions c02_race_serial.

(* whatever serial order every call takes: every change that becomes part of the tree is authentic and its author held
   write permission -- in the TRUTH -- at a cited record the receiver holds when the call returns, parents likewise, and
   a rejected call is a no-op (spec_race = spec_C02 on the deliveries labelled with the length at return) *)
Theorem c02_race_model_satisfies_spec : forall ch rs, race_wf rs = true -> spec_race (model_race ch rs) = true.
Proof. exact race_model_satisfies_spec. Qed.
Print Assumptions c02_race_model_satisfies_spec.

(* non-vacuity.  Receiver holding 3 records is delivered the change of account 5 citing record 4 (which removes 5) while
   record 4 lands: both serial orders reject it (unknown record / no permission).  Receiver holding 5 records is
   delivered the change of account 6 citing record 6 (which adds 6 again) while record 6 lands: rejected if the record
   lands after the call, attached if it lands before. *)
Definition ex_race : racescen :=
  mkRace (mkScen 999 1 1 ex_recs [] ex_root false 3%nat true [] [] []
            [ mkDel 3%nat [ch 101 [100] 4 5] false 0 [] [] [] [] [];
              mkDel 5%nat [ch 102 [100] 6 6] false 0 [] [] [] [] [] ])
         [1%nat; 1%nat].
Example c02_race_nonvacuous :
  race_wf ex_race = true /\
  map (fun d => (d_acl_len d, d_eclass d, d_added d)) (sc_dels (rs_sc (model_race [false; false] ex_race))) =
    [(3%nat, 2, []); (5%nat, 2, [])] /\
  map (fun d => (d_acl_len d, d_eclass d, d_added d)) (sc_dels (rs_sc (model_race [true; true] ex_race))) =
    [(3%nat, 2, []); (5%nat, 0, [102])] /\
  spec_race (model_race [false; true] ex_race) = true.
Proof. vm_compute. repeat split; reflexivity. Qed.

(* the specification rejects the non-serial outcome: record 4 found through the list's shared index, the permission of
   account 5 looked up in the state read BEFORE the record landed -- the removed writer's change attached and stored *)
Example c02_race_spec_rejects_stale :
  spec_race (mkRace (mkScen 999 1 1 ex_recs [] ex_root false 3%nat true [100] [100] [100]
                       [ mkDel 3%nat [ch 101 [100] 4 5] true 0 [101] [101] [100; 101] [101; 100] [true] ])
                    [1%nat]) = false /\
  spec_race (mkRace (mkScen 999 1 1 ex_recs [] ex_root false 3%nat true [100] [100] [100]
                       [ mkDel 3%nat [ch 101 [100] 4 5] false 2 [] [100] [100] [100] [false] ])
                    [1%nat]) = true.
Proof. vm_compute. split; reflexivity. Qed.
