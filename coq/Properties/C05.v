(* C05 — Read keys: members can always decrypt, removed accounts never can.

   Model: Model/AclKeys.v on top of the shared ACL machine Model/Acl.v (legacy := false, v := true) with the C05
   repair (PermissionChange refuses a target without permission).  Symbolic cryptography (DESIGN §1.3): "cannot
   derive" is symbolic non-deducibility, not computational secrecy.

   Hypothesis of the history theorems: [honest_run] — the key-carrying fields of ACCEPTED records contain what the
   client record builder puts there (the validator cannot inspect ciphertext contents), rotation record ids are new
   generation ids, and every identity a key is delivered to holds a permission right after that content.

   FULL statement of (1) (DESIGN §3 C05):  for every valid history and every account with any permission at the end,
   derives sk log ⊇ {K 0 … K current}  AND  view_keys me log = those keys.
   Proved: both conjuncts.  [c05_members_have_all_partial] is the first (inductive [Derives] and executable
   [derives]); [c05_members_have_all] (Proofs/AclKeysView.v) is the second: for every account of the universe the
   views are modelled for (U), holding a permission at the end of an honest history, the code's unpacking
   ([view_content] / [unpack] / [view_rot], Model/AclKeys.v) never failed and stores exactly the generations, which are
   exactly what the account derives, each under its true key.  [c05_views_sound]: for EVERY account of U (member or
   not) the view never fails, stores only true keys of existing generations, and only generations the account derives.

   NOT proved ([..._partial] below states what is): [forall h, honest_run .. h = true -> spec_C05 .. (model_steps .. h) = true].
   The predicate was REPAIRED for it: as first written ([spec_C05_legacy]) it judged "allowed generations" at RECORD
   boundaries only (it sees permissions only after each record) while the theorems speak about CONTENT boundaries; an
   accepted record that admits an account and removes it again (AccountsAdd; AccountRemove with rotation) delivers the
   then-current key to an account that holds no permission at any record boundary, and the legacy predicate answered
   false on the model's own output although nothing in C05 is violated — a check must not demand more than the property
   ([c05_model_satisfies_spec_legacy_refuted]).  [spec_step] now also allows every identity admitted by a content of
   the accepted record ([admits]) the generations that exist AT THAT CONTENT ([admit_allow]: the generations before the
   record, plus the record's own generation once its rotation content has been passed — so the account of the example
   may keep generation 1 and may NOT know generation 2 introduced by its removal);
   [c05_model_satisfies_spec_admit_remove_instance].  What the general theorem still needs (gap): invariants not yet in
   [KInv] — secrecy for invite principals ([PI k]), "a live open invite leads to the current key", general completeness
   of the executable [derives] for non-members (the predicate compares with [derives]), and the [rot_exact] clause over
   observed member lists.  Proved: the tree parts ([c05_tree_model_satisfies_spec], [c05_open_model_satisfies_spec]);
   computed instances: [c05_model_satisfies_spec_instance], [c05_model_satisfies_spec_admit_remove_instance]. *)
From Coq Require Import List NArith Bool.
Import ListNotations.
From AnySync Require Import Model.Acl Model.AclKeys Proofs.AclKeysBase Proofs.AclKeysStep Proofs.AclKeysInv Proofs.AclKeysView Model.AclKeysTree Proofs.AclKeysTree Proofs.AclKeysSpec.
Open Scope N_scope.

(* every honest history reaches a state satisfying the key invariant *)
Theorem c05_reach : forall owner root U h,
  honest_run (kinit owner root U) h = true ->
  Reach (run_hist (kinit owner root U) h) (init_state 0 owner root None :: trace (kinit owner root U) h).
Proof. exact reach_hist. Qed.
Print Assumptions c05_reach.

(* (1) members derive every generation *)
Theorem c05_members_have_all_partial : forall owner root U h a g,
  honest_run (kinit owner root U) h = true ->
  let ms := run_hist (kinit owner root U) h in
  perm_of (m_s ms) a <> 0 -> In g (keychanges (m_s ms)) ->
  Derives (PA a) (m_log ms) g /\ In g (derives (PA a) (m_log ms)).
Proof.
  intros owner root U h a g Hh ms Hp Hg.
  exact (members_derive_all ms _ a g (reach_hist owner root U h Hh) Hp Hg).
Qed.
Print Assumptions c05_members_have_all_partial.

(* (1), view half: the keys the code's unpacking stores for a permission holder are exactly the generations = exactly
   the derivable keys, each the true key of its generation; its own list accepted every record *)
Theorem c05_members_have_all : forall owner root U h a,
  honest_run (kinit owner root U) h = true ->
  let ms := run_hist (kinit owner root U) h in
  In a U -> perm_of (m_s ms) a <> 0 ->
  exists keys, mget a (m_views ms) = Some (Some keys) /\ right_of (Some keys) = true /\
    (forall g, In g (map fst keys) <-> In g (keychanges (m_s ms))) /\
    (forall g, In g (map fst keys) <-> In g (derives (PA a) (m_log ms))) /\
    (forall g, In g (map fst keys) <-> Derives (PA a) (m_log ms) g).
Proof. exact members_view_all. Qed.
Print Assumptions c05_members_have_all.

(* every account of the universe, member or not: the view never fails, holds only true keys of existing generations,
   and only generations the account can derive from the log with its private key *)
Theorem c05_views_sound : forall owner root U h a,
  honest_run (kinit owner root U) h = true ->
  let ms := run_hist (kinit owner root U) h in
  In a U ->
  exists keys, mget a (m_views ms) = Some (Some keys) /\ right_of (Some keys) = true /\
    forall g, In g (map fst keys) -> In g (keychanges (m_s ms)) /\ Derives (PA a) (m_log ms) g.
Proof. exact views_sound. Qed.
Print Assumptions c05_views_sound.

(* (2) an account derives only generations that existed at a moment at which it held a permission; hence an account
   without permission derives no generation introduced since it last held one (never admitted: none at all) *)
Theorem c05_derive_only_if_member : forall owner root U h a g,
  honest_run (kinit owner root U) h = true ->
  let ms := run_hist (kinit owner root U) h in
  Derives (PA a) (m_log ms) g ->
  exists st, In st (init_state 0 owner root None :: trace (kinit owner root U) h) /\ perm_of st a <> 0 /\ In g (keychanges st).
Proof.
  intros owner root U h a g Hh ms Hd.
  exact (derive_only_if_member ms _ a g (reach_hist owner root U h Hh) Hd).
Qed.
Print Assumptions c05_derive_only_if_member.

Theorem c05_nonmembers_have_none_new : forall owner root U h a g,
  honest_run (kinit owner root U) h = true ->
  let ms := run_hist (kinit owner root U) h in
  (forall st, In st (init_state 0 owner root None :: trace (kinit owner root U) h) -> In g (keychanges st) -> perm_of st a = 0) ->
  ~ Derives (PA a) (m_log ms) g /\ ~ In g (derives (PA a) (m_log ms)).
Proof.
  intros owner root U h a g Hh ms Hnever.
  exact (nonmember_cannot_derive ms _ a g (reach_hist owner root U h Hh) Hnever).
Qed.
Print Assumptions c05_nonmembers_have_none_new.

(* (3) rotation exactness: on every state satisfying the invariant (every state an honest history goes through,
   including between the contents of a record) *)
Theorem c05_rotation_exact : forall s L tr au r c s' rk removed, KInv s L tr ->
  apply_content5 false s au r c = Some s' -> is_rot c = Some (rk, removed) ->
  (forall a, In a (rk_accounts rk) <-> perm_of s' a <> 0) /\
  (forall a, perm_of s' a <> 0 -> perm_of s a <> 0) /\
  (forall k, In k (rk_invites rk) <-> In k (active_invite_keys s')) /\
  keychanges s' = keychanges s ++ [r].
Proof. exact rotation_exact. Qed.
Print Assumptions c05_rotation_exact.

(* the two step lemmas everything rests on, for ANY state (no invariant needed) *)
Theorem c05_only_named_admitted : forall s au r c s',
  apply_content5 false s au r c = Some s' -> is_rot c = None ->
  keychanges s' = keychanges s /\ (forall a, perm_of s a = 0 -> perm_of s' a <> 0 -> In a (admits c)).
Proof. intros s au r c s' H Hr. destruct (step_nonrot s au r c s' H Hr) as [H1 [H2 _]]. now split. Qed.
Print Assumptions c05_only_named_admitted.

(* (4) encrypted tree content *)
Theorem c05_tree_ciphertext_only : forall g d held,
  build_change true (Some g) d = BOk g (TSEnc g d) /\
  tdata_is_plain (TSEnc g d) d = false /\
  (In g held -> read_change held g (TSEnc g d) = Some d) /\
  (~ In g held -> read_change held g (TSEnc g d) = None) /\
  build_change true None d = BErrMissingKey.
Proof. exact tree_ciphertext_only. Qed.
Print Assumptions c05_tree_ciphertext_only.

Theorem c05_tree_model_satisfies_spec : forall gen readers,
  spec_C05_tree (mkTobs gen gen false false (map (fun ab => (fst ab, snd ab, snd ab)) readers) true) = true /\
  tree_model_ok (mkTobs gen gen false false (map (fun ab => (fst ab, snd ab, snd ab)) readers) true) = true.
Proof. exact tree_model_satisfies_spec. Qed.
Print Assumptions c05_tree_model_satisfies_spec.

(* deducibility: the executable saturation is sound, and complete up to its fuel *)
Theorem c05_derives_sound : forall p L g, In g (derives p L) -> Derives p L g.
Proof. exact derives_sound. Qed.
Print Assumptions c05_derives_sound.
Theorem c05_derives_complete_bounded : forall p L n g, DerivesN p L n g ->
  forall fuel, (n <= fuel)%nat -> In g (saturate fuel L (direct p L)).
Proof. exact saturate_complete. Qed.
Print Assumptions c05_derives_complete_bounded.

(* ------------------------------------------------------------------------------------------ concrete histories *)
(* owner 1; 2 added as writer; open invite (key 50); 3 joins through it; 2 removed with rotation (generation 5);
   [6] PermissionChange on the removed account 2; [7] 2 re-added with the current key *)
Definition ex_rk5 : rkchange := mkRk true true [1; 3] [50].
Definition ex_hist : list hrec := [
  (1, 2, [(CAccountsAdd [(2, 3)], KDeliver [Some 1])]);
  (1, 3, [(CInvite 50 1 4 true, KDeliver [Some 1])]);
  (3, 4, [(CInviteJoin 3 3 4 50 3 true true, KDeliver [Some 1])]);
  (1, 5, [(CAccountRemove [2] (Some ex_rk5), KRot [Some 5; Some 5] [Some 5] (Some 1))]);
  (1, 6, [(CPermChange 2 4, KNone)])].
Definition ex_readd : list hrec := [(1, 7, [(CAccountsAdd [(2, 4)], KDeliver [Some 5])])].

Example c05_nonvacuous :
  honest_run (kinit 1 1 [1; 2; 3; 4]) (ex_hist ++ ex_readd) = true /\
  let ms := run_hist (kinit 1 1 [1; 2; 3; 4]) ex_hist in
  (* after the removal: 1 and 3 are members and derive both generations, the removed 2 derives only the old one,
     the PermissionChange [6] was refused, 4 was never admitted and derives nothing *)
  map (fun a => (perm_of (m_s ms) a, derives (PA a) (m_log ms))) [1; 2; 3; 4] = [(1, [1; 5]); (0, [1]); (4, [1; 5]); (0, [])] /\
  keychanges (m_s ms) = [1; 5] /\ last (m_s ms) = 5 /\
  m_views ms = [(1, Some [(1, 1); (5, 5)]); (2, Some [(1, 1)]); (3, Some [(1, 1); (5, 5)]); (4, Some [])] /\
  (* re-added through AccountsAdd it gets everything back *)
  let ms' := run_hist ms ex_readd in
  perm_of (m_s ms') 2 = 4 /\ derives (PA 2) (m_log ms') = [1; 5] /\ mget 2 (m_views ms') = Some (Some [(1, 1); (5, 5)]).
Proof. vm_compute. repeat split. Qed.

(* The behaviour before the fix: commit for F33 (a manager's PermissionChange on an account WITHOUT permission was
   accepted: account 2 ended with permission Reader and neither derived nor viewed generation 5) was refuted here by a
   vm_compute example ([c05_legacy_refuted]) while Model/Acl.v still described the unrepaired validator.  Model/Acl.v
   now carries the repair unconditionally, so the old machine is no longer expressible; the witness history is kept in
   corpus/C05/basic.jsonl (line 3) and in known_findings.json, and [c05_nonvacuous] above shows that record 6 of the
   same history is now refused. *)

(* spec_C05 on the model's own outputs for the concrete history (observations = what the model predicts) *)
Definition model_obs (ms : mstate) (U : list acct) : list aobs :=
  map (fun a => let v := match mget a (m_views ms) with Some v => v | None => None end in
                mkAobs a (perm_of (m_s ms) a) (ids_of v) (ids_of v) (right_of v)) U.
Fixpoint model_steps (ms : mstate) (U : list acct) (h : list hrec) : list step :=
  match h with
  | [] => []
  | x :: rest =>
      let res := krecord_step false ms (fst (fst x)) (snd (fst x)) (snd x) in
      mkStep (fst (fst x)) (snd (fst x)) (snd x) (snd res) (cur_key (m_s (fst res))) (open_invites (m_s (fst res)))
             (model_obs (fst res) U) :: model_steps (fst res) U rest
  end.
Example c05_model_satisfies_spec_instance :
  let steps := model_steps (kinit 1 1 [1; 2; 3; 4]) [1; 2; 3; 4] (ex_hist ++ ex_readd) in
  spec_C05 1 1 steps = true /\ run_matches false (kinit 1 1 [1; 2; 3; 4]) steps = true.
Proof. vm_compute. split; reflexivity. Qed.

(* the predicate as first written (record boundaries only) was stricter than the property: one accepted, honest record
   that admits account 2 and removes it again (with rotation); 2 derives generation 1 (delivered while it held a
   permission, between the two contents) but holds no permission at any record boundary *)
Definition ex_rk_admit_remove : rkchange := mkRk true true [1] [].
Definition ex_admit_remove : list hrec :=
  [(1, 2, [(CAccountsAdd [(2, 3)], KDeliver [Some 1]); (CAccountRemove [2] (Some ex_rk_admit_remove), KRot [Some 2] [] (Some 1))])].
Example c05_model_satisfies_spec_legacy_refuted :
  honest_run (kinit 1 1 [1; 2]) ex_admit_remove = true /\
  (let steps := model_steps (kinit 1 1 [1; 2]) [1; 2] ex_admit_remove in
   map st_ok steps = [true] /\ run_matches false (kinit 1 1 [1; 2]) steps = true /\ spec_C05_legacy 1 1 steps = false) /\
  (let ms := run_hist (kinit 1 1 [1; 2]) ex_admit_remove in
   perm_of (m_s ms) 2 = 0 /\ derives (PA 2) (m_log ms) = [1] /\ keychanges (m_s ms) = [1; 2]).
Proof. vm_compute. repeat split; reflexivity. Qed.

(* the repaired predicate accepts the model's output on that record (2 may keep generation 1) and still refuses an
   observation in which 2 also holds generation 2, the one its removal introduced *)
Definition ex_leak_obs (st : step) : step :=
  mkStep (st_author st) (st_id st) (st_cs st) (st_ok st) (st_cur st) (st_open st)
         (map (fun o => if o_acct o =? 2 then mkAobs 2 (o_perm o) (Some [1; 2]) (Some [1; 2]) (o_right o) else o) (st_obs st)).
Example c05_model_satisfies_spec_admit_remove_instance :
  let steps := model_steps (kinit 1 1 [1; 2]) [1; 2] ex_admit_remove in
  spec_C05 1 1 steps = true /\ spec_C05 1 1 (map ex_leak_obs steps) = false.
Proof. vm_compute. split; reflexivity. Qed.

(* PARTIAL.  Full statement (not proved, see the header for the gap):
     forall owner root U h, honest_run (kinit owner root U) h = true ->
       spec_C05 owner root (model_steps (kinit owner root U) U h) = true.
   Proved part: the repaired predicate is implied by the legacy one on every step (it only ENLARGES the allowed sets,
   by [admit_allow]), so everything the legacy predicate accepted — every observed history of every run so far — is
   still accepted. *)
Theorem c05_model_satisfies_spec_partial : forall owner root steps,
  spec_C05_legacy owner root steps = true -> spec_C05 owner root steps = true.
Proof. exact spec_legacy_implies_spec. Qed.
Print Assumptions c05_model_satisfies_spec_partial.

(* (5) long-lived OPEN trees across a membership history (Model/AclKeysTree.v; the symbolic model has no per-tree key
   cache: a change written under the ACL's current generation g is SEnc (treeKey (K g)) data labelled g) *)
(* the ciphertext opens with the tree key of the NAMED generation and with no other generation of the history *)
Theorem c05_open_ciphertext_under_named_key : forall gen idx tried,
  NoDup tried -> In gen tried ->
  filter (fun g => opens_with g (TSEnc gen idx) idx) tried = [gen].
Proof. exact opens_exactly. Qed.
Print Assumptions c05_open_ciphertext_under_named_key.

(* a reader reads a change written under generation gen iff it holds gen *)
Theorem c05_open_reads_iff_held : forall held gen idx,
  readable held (idx, gen, TSEnc gen idx) = memN gen held.
Proof. exact readable_written. Qed.
Print Assumptions c05_open_reads_iff_held.

(* over ANY sequence of rounds (any writers, any readers, any order of rotations) in which the current generation is
   one of the known ones and every account holding a permission holds every generation named so far (that is
   c05_members_have_all), what the model presents satisfies the property predicate and passes the correspondence test *)
Theorem c05_open_model_satisfies_spec : forall l,
  rounds_wf [] l ->
  spec_C05_open (model_rounds [] l) = true /\ open_tree_model_ok (model_rounds [] l) = true.
Proof. exact open_model_satisfies_spec_from_start. Qed.
Print Assumptions c05_open_model_satisfies_spec.

(* two rounds: owner 1 and writer 2 under generation 1; then 2 is removed (generation 5), 1 writes, 2 — who still
   holds generation 1 — reads change 1 and not change 2 *)
Example c05_open_nonvacuous :
  let l := [mkRS 1 [1] [(1, 1)] [(1, 1, [1]); (2, 3, [1])];
            mkRS 5 [1; 5] [(2, 1)] [(1, 1, [1; 5]); (2, 0, [1])]] in
  rounds_wf [] l /\ spec_C05_open (model_rounds [] l) = true /\
  map (fun r => (r_acct r, r_open_ok r, r_open_got r)) (rd_readers (nth 1 (model_rounds [] l) (mkRound [] [])))
    = [(1, true, [1; 2]); (2, false, [1])].
Proof.
  cbv zeta. split; [|split; vm_compute; reflexivity].
  cbn [rounds_wf rs_gen rs_tried rs_writes rs_readers written map app tc_idx fst snd].
  repeat split; try (repeat constructor; cbn; intuition discriminate); try (cbn; tauto).
  - intros x Hx Hp c Hc. cbn in Hx, Hc. destruct Hc as [<-|[]].
    destruct Hx as [<-|[<-|[]]]; cbn; auto.
  - intros x Hx Hp c Hc. cbn in Hx, Hc.
    destruct Hx as [<-|[<-|[]]]; cbn in Hp |- *; [|exfalso; now apply Hp].
    destruct Hc as [<-|[<-|[]]]; cbn; auto.
Qed.
