(* C05 — Read keys: members can always decrypt, removed accounts never can.

   Model: Model/AclKeys.v on top of the shared ACL machine Model/Acl.v (legacy := false, v := true) with the C05
   repair (PermissionChange refuses a target without permission).  Symbolic cryptography (DESIGN §1.3): "cannot
   derive" is symbolic non-deducibility, not computational secrecy.

   Hypothesis of the history theorems: [honest_run] — the key-carrying fields of ACCEPTED records contain what the
   client record builder puts there (the validator cannot inspect ciphertext contents), rotation record ids are new
   generation ids, and every identity a key is delivered to holds a permission right after that content.

   FULL statement of (1) (DESIGN §3 C05):  for every valid history and every account with any permission at the end,
   derives sk log ⊇ {K 0 … K current}  AND  view_keys me log = those keys.
   Proved: both conjuncts.  [c05_members_have_all_partial] is the first (inductive [Derives] and executable
   [derives]); [c05_members_have_all] (Proofs/AclKeysView.v) is the second: for every account of the universe the
   views are modelled for (U), holding a permission at the end of an honest history, the code's unpacking
   ([view_content] / [unpack] / [view_rot], Model/AclKeys.v) never failed and stores exactly the generations, which are
   exactly what the account derives, each under its true key.  [c05_views_sound]: for EVERY account of U (member or
   not) the view never fails, stores only true keys of existing generations, and only generations the account derives.

   THE MODEL SATISFIES THE PREDICATE — [c05_model_satisfies_spec] (Proofs/AclKeysSecrecy.v):
     forall owner root U h, covers U owner h = true -> honest_run (kinit owner root U) h = true ->
       spec_C05 owner root (model_steps (kinit owner root U) U h) = true.
   [covers]: the universe of OBSERVED accounts contains the owner and every identity a content of the history admits
   (the predicate computes the member list from the observations; with an unobserved member the [rot_exact] clause is
   false on the model's own output, [c05_model_satisfies_spec_uncovered_refuted] — the harness observes every account).
   The predicate had to be repaired twice for it (a check must not demand more than the property):
   * first version ([spec_C05_legacy]): "allowed generations" judged at RECORD boundaries only; an accepted record that
     admits an account and removes it again delivers the then-current key to an account that holds no permission at any
     record boundary — false on the model's own output although nothing in C05 is violated
     ([c05_model_satisfies_spec_legacy_refuted]);
   * second version ([spec_C05_v2]): content boundaries for ADMITTED identities only.  Still too strict for a principal
     that receives the NEW key of a rotation and is dropped by a LATER content of the same record: a rotation recipient
     that a later PermissionChange sets to None; an open invite that is named in InviteKeys and revoked later in the
     record; an invite that is created and revoked inside one record with a key that was seen before
     ([c05_model_satisfies_spec_v2_refuted], three witnesses).  In all of them the principal held its position at the
     content boundary at which the generation appeared, which is what theorems (2) speak about.
   * [spec_C05] now gives every key RECEIVER of a content ([key_receivers]: admitted identities + the AccountKeys of a
     rotation minus the accounts that content removes; [inv_receivers]: a new open invite's key + the InviteKeys of a
     rotation) the generations that exist AT THAT CONTENT ([admit_allow]).  Each repair only enlarges allowed sets:
     [c05_spec_legacy_implies_v2], [c05_spec_v2_implies_spec], [c05_model_satisfies_spec_partial]; an observation that
     leaks the generation introduced by a removal to the removed account is still refused
     ([c05_model_satisfies_spec_admit_remove_instance]).
   Invariants behind the theorem: [KInvX] = [KInv] + secrecy for invite-key principals + "a live open invite leads to
   the current key" ([c05_invite_derive_only_if_live], [c05_revoked_invite_cannot_derive],
   [c05_open_invite_leads_to_current]); the clauses of the predicate on a model state:
   [c05_model_satisfies_spec_acct], [c05_model_satisfies_spec_invite_secrecy], [c05_model_satisfies_spec_open_invite],
   [c05_model_satisfies_spec_rot_exact].  Completeness of the executable [derives] for non-members turned out not to be
   needed: the predicate uses [derives] of a non-member only on the left of an inclusion (soundness suffices). *)
From Coq Require Import List NArith Bool.
Import ListNotations.
From AnySync Require Import Model.Acl Model.AclKeys Proofs.AclKeysBase Proofs.AclKeysStep Proofs.AclKeysInv Proofs.AclKeysView Model.AclKeysTree Proofs.AclKeysTree Proofs.AclKeysSpec Proofs.AclKeysSecrecy.
Open Scope N_scope.

(* every honest history reaches a state satisfying the key invariant *)
Theorem c05_reach : forall owner root U h,
  honest_run (kinit owner root U) h = true ->
  Reach (run_hist (kinit owner root U) h) (init_state 0 owner root None :: trace (kinit owner root U) h).
Proof. exact reach_hist. Qed.
Print Assumptions c05_reach.

(* (1) members derive every generation *)
Theorem c05_members_have_all_partial : forall owner root U h a g,
  honest_run (kinit owner root U) h = true ->
  let ms := run_hist (kinit owner root U) h in
  perm_of (m_s ms) a <> 0 -> In g (keychanges (m_s ms)) ->
  Derives (PA a) (m_log ms) g /\ In g (derives (PA a) (m_log ms)).
Proof.
  intros owner root U h a g Hh ms Hp Hg.
  exact (members_derive_all ms _ a g (reach_hist owner root U h Hh) Hp Hg).
Qed.
Print Assumptions c05_members_have_all_partial.

(* (1), view half: the keys the code's unpacking stores for a permission holder are exactly the generations = exactly
   the derivable keys, each the true key of its generation; its own list accepted every record *)
Theorem c05_members_have_all : forall owner root U h a,
  honest_run (kinit owner root U) h = true ->
  let ms := run_hist (kinit owner root U) h in
  In a U -> perm_of (m_s ms) a <> 0 ->
  exists keys, mget a (m_views ms) = Some (Some keys) /\ right_of (Some keys) = true /\
    (forall g, In g (map fst keys) <-> In g (keychanges (m_s ms))) /\
    (forall g, In g (map fst keys) <-> In g (derives (PA a) (m_log ms))) /\
    (forall g, In g (map fst keys) <-> Derives (PA a) (m_log ms) g).
Proof. exact members_view_all. Qed.
Print Assumptions c05_members_have_all.

(* every account of the universe, member or not: the view never fails, holds only true keys of existing generations,
   and only generations the account can derive from the log with its private key *)
Theorem c05_views_sound : forall owner root U h a,
  honest_run (kinit owner root U) h = true ->
  let ms := run_hist (kinit owner root U) h in
  In a U ->
  exists keys, mget a (m_views ms) = Some (Some keys) /\ right_of (Some keys) = true /\
    forall g, In g (map fst keys) -> In g (keychanges (m_s ms)) /\ Derives (PA a) (m_log ms) g.
Proof. exact views_sound. Qed.
Print Assumptions c05_views_sound.

(* (2) an account derives only generations that existed at a moment at which it held a permission; hence an account
   without permission derives no generation introduced since it last held one (never admitted: none at all) *)
Theorem c05_derive_only_if_member : forall owner root U h a g,
  honest_run (kinit owner root U) h = true ->
  let ms := run_hist (kinit owner root U) h in
  Derives (PA a) (m_log ms) g ->
  exists st, In st (init_state 0 owner root None :: trace (kinit owner root U) h) /\ perm_of st a <> 0 /\ In g (keychanges st).
Proof.
  intros owner root U h a g Hh ms Hd.
  exact (derive_only_if_member ms _ a g (reach_hist owner root U h Hh) Hd).
Qed.
Print Assumptions c05_derive_only_if_member.

Theorem c05_nonmembers_have_none_new : forall owner root U h a g,
  honest_run (kinit owner root U) h = true ->
  let ms := run_hist (kinit owner root U) h in
  (forall st, In st (init_state 0 owner root None :: trace (kinit owner root U) h) -> In g (keychanges st) -> perm_of st a = 0) ->
  ~ Derives (PA a) (m_log ms) g /\ ~ In g (derives (PA a) (m_log ms)).
Proof.
  intros owner root U h a g Hh ms Hnever.
  exact (nonmember_cannot_derive ms _ a g (reach_hist owner root U h Hh) Hnever).
Qed.
Print Assumptions c05_nonmembers_have_none_new.

(* (3) rotation exactness: on every state satisfying the invariant (every state an honest history goes through,
   including between the contents of a record) *)
Theorem c05_rotation_exact : forall s L tr au r c s' rk removed, KInv s L tr ->
  apply_content5 false s au r c = Some s' -> is_rot c = Some (rk, removed) ->
  (forall a, In a (rk_accounts rk) <-> perm_of s' a <> 0) /\
  (forall a, perm_of s' a <> 0 -> perm_of s a <> 0) /\
  (forall k, In k (rk_invites rk) <-> In k (active_invite_keys s')) /\
  keychanges s' = keychanges s ++ [r].
Proof. exact rotation_exact. Qed.
Print Assumptions c05_rotation_exact.

(* the two step lemmas everything rests on, for ANY state (no invariant needed) *)
Theorem c05_only_named_admitted : forall s au r c s',
  apply_content5 false s au r c = Some s' -> is_rot c = None ->
  keychanges s' = keychanges s /\ (forall a, perm_of s a = 0 -> perm_of s' a <> 0 -> In a (admits c)).
Proof. intros s au r c s' H Hr. destruct (step_nonrot s au r c s' H Hr) as [H1 [H2 _]]. now split. Qed.
Print Assumptions c05_only_named_admitted.

(* (4) encrypted tree content *)
Theorem c05_tree_ciphertext_only : forall g d held,
  build_change true (Some g) d = BOk g (TSEnc g d) /\
  tdata_is_plain (TSEnc g d) d = false /\
  (In g held -> read_change held g (TSEnc g d) = Some d) /\
  (~ In g held -> read_change held g (TSEnc g d) = None) /\
  build_change true None d = BErrMissingKey.
Proof. exact tree_ciphertext_only. Qed.
Print Assumptions c05_tree_ciphertext_only.

Theorem c05_tree_model_satisfies_spec : forall gen readers,
  spec_C05_tree (mkTobs gen gen false false (map (fun ab => (fst ab, snd ab, snd ab)) readers) true) = true /\
  tree_model_ok (mkTobs gen gen false false (map (fun ab => (fst ab, snd ab, snd ab)) readers) true) = true.
Proof. exact tree_model_satisfies_spec. Qed.
Print Assumptions c05_tree_model_satisfies_spec.

(* deducibility: the executable saturation is sound, and complete up to its fuel *)
Theorem c05_derives_sound : forall p L g, In g (derives p L) -> Derives p L g.
Proof. exact derives_sound. Qed.
Print Assumptions c05_derives_sound.
Theorem c05_derives_complete_bounded : forall p L n g, DerivesN p L n g ->
  forall fuel, (n <= fuel)%nat -> In g (saturate fuel L (direct p L)).
Proof. exact saturate_complete. Qed.
Print Assumptions c05_derives_complete_bounded.

(* ------------------------------------------------------------------------------------------ concrete histories *)
(* owner 1; 2 added as writer; open invite (key 50); 3 joins through it; 2 removed with rotation (generation 5);
   [6] PermissionChange on the removed account 2; [7] 2 re-added with the current key *)
Definition ex_rk5 : rkchange := mkRk true true [1; 3] [50].
Definition ex_hist : list hrec := [
  (1, 2, [(CAccountsAdd [(2, 3)], KDeliver [Some 1])]);
  (1, 3, [(CInvite 50 1 4 true, KDeliver [Some 1])]);
  (3, 4, [(CInviteJoin 3 3 4 50 3 true true, KDeliver [Some 1])]);
  (1, 5, [(CAccountRemove [2] (Some ex_rk5), KRot [Some 5; Some 5] [Some 5] (Some 1))]);
  (1, 6, [(CPermChange 2 4, KNone)])].
Definition ex_readd : list hrec := [(1, 7, [(CAccountsAdd [(2, 4)], KDeliver [Some 5])])].

Example c05_nonvacuous :
  honest_run (kinit 1 1 [1; 2; 3; 4]) (ex_hist ++ ex_readd) = true /\
  let ms := run_hist (kinit 1 1 [1; 2; 3; 4]) ex_hist in
  (* after the removal: 1 and 3 are members and derive both generations, the removed 2 derives only the old one,
     the PermissionChange [6] was refused, 4 was never admitted and derives nothing *)
  map (fun a => (perm_of (m_s ms) a, derives (PA a) (m_log ms))) [1; 2; 3; 4] = [(1, [1; 5]); (0, [1]); (4, [1; 5]); (0, [])] /\
  keychanges (m_s ms) = [1; 5] /\ last (m_s ms) = 5 /\
  m_views ms = [(1, Some [(1, 1); (5, 5)]); (2, Some [(1, 1)]); (3, Some [(1, 1); (5, 5)]); (4, Some [])] /\
  (* re-added through AccountsAdd it gets everything back *)
  let ms' := run_hist ms ex_readd in
  perm_of (m_s ms') 2 = 4 /\ derives (PA 2) (m_log ms') = [1; 5] /\ mget 2 (m_views ms') = Some (Some [(1, 1); (5, 5)]).
Proof. vm_compute. repeat split. Qed.

(* The behaviour before the fix: commit for F33 (a manager's PermissionChange on an account WITHOUT permission was
   accepted: account 2 ended with permission Reader and neither derived nor viewed generation 5) was refuted here by a
   vm_compute example ([c05_legacy_refuted]) while Model/Acl.v still described the unrepaired validator.  Model/Acl.v
   now carries the repair unconditionally, so the old machine is no longer expressible; the witness history is kept in
   corpus/C05/basic.jsonl (line 3) and in known_findings.json, and [c05_nonvacuous] above shows that record 6 of the
   same history is now refused. *)

(* spec_C05 on the model's own outputs for the concrete history (observations = what the model predicts:
   [model_steps] / [model_obs], Proofs/AclKeysSecrecy.v) *)
Example c05_model_satisfies_spec_instance :
  let steps := model_steps (kinit 1 1 [1; 2; 3; 4]) [1; 2; 3; 4] (ex_hist ++ ex_readd) in
  spec_C05 1 1 steps = true /\ run_matches false (kinit 1 1 [1; 2; 3; 4]) steps = true.
Proof. vm_compute. split; reflexivity. Qed.

(* the predicate as first written (record boundaries only) was stricter than the property: one accepted, honest record
   that admits account 2 and removes it again (with rotation); 2 derives generation 1 (delivered while it held a
   permission, between the two contents) but holds no permission at any record boundary *)
Definition ex_rk_admit_remove : rkchange := mkRk true true [1] [].
Definition ex_admit_remove : list hrec :=
  [(1, 2, [(CAccountsAdd [(2, 3)], KDeliver [Some 1]); (CAccountRemove [2] (Some ex_rk_admit_remove), KRot [Some 2] [] (Some 1))])].
Example c05_model_satisfies_spec_legacy_refuted :
  honest_run (kinit 1 1 [1; 2]) ex_admit_remove = true /\
  (let steps := model_steps (kinit 1 1 [1; 2]) [1; 2] ex_admit_remove in
   map st_ok steps = [true] /\ run_matches false (kinit 1 1 [1; 2]) steps = true /\ spec_C05_legacy 1 1 steps = false) /\
  (let ms := run_hist (kinit 1 1 [1; 2]) ex_admit_remove in
   perm_of (m_s ms) 2 = 0 /\ derives (PA 2) (m_log ms) = [1] /\ keychanges (m_s ms) = [1; 2]).
Proof. vm_compute. repeat split; reflexivity. Qed.

(* the repaired predicate accepts the model's output on that record (2 may keep generation 1) and still refuses an
   observation in which 2 also holds generation 2, the one its removal introduced *)
Definition ex_leak_obs (st : step) : step :=
  mkStep (st_author st) (st_id st) (st_cs st) (st_ok st) (st_cur st) (st_open st)
         (map (fun o => if o_acct o =? 2 then mkAobs 2 (o_perm o) (Some [1; 2]) (Some [1; 2]) (o_right o) else o) (st_obs st)).
Example c05_model_satisfies_spec_admit_remove_instance :
  let steps := model_steps (kinit 1 1 [1; 2]) [1; 2] ex_admit_remove in
  spec_C05 1 1 steps = true /\ spec_C05 1 1 (map ex_leak_obs steps) = false.
Proof. vm_compute. split; reflexivity. Qed.

(* ------------------------------------------------------------------------------------------ the model satisfies spec_C05 *)
(* each repair of the predicate only ENLARGES the allowed sets: whatever an earlier version accepted — every observed
   history of every run so far — is still accepted *)
Theorem c05_model_satisfies_spec_partial : forall owner root steps,
  spec_C05_legacy owner root steps = true -> spec_C05 owner root steps = true.
Proof. exact spec_legacy_implies_spec. Qed.
Print Assumptions c05_model_satisfies_spec_partial.
Theorem c05_spec_legacy_implies_v2 : forall owner root steps,
  spec_C05_legacy owner root steps = true -> spec_C05_v2 owner root steps = true.
Proof. exact spec_legacy_implies_v2. Qed.
Print Assumptions c05_spec_legacy_implies_v2.
Theorem c05_spec_v2_implies_spec : forall owner root steps,
  spec_C05_v2 owner root steps = true -> spec_C05 owner root steps = true.
Proof. exact spec_v2_implies_spec. Qed.
Print Assumptions c05_spec_v2_implies_spec.

(* the second version (content boundaries for admitted identities only) was still stricter than the property: the
   model's own output on an accepted honest history was refused although the principal held its position at the content
   boundary at which the generation appeared.  (a) account 2 is a recipient of the rotation of record 3 and a LATER
   content of the same record sets it to None; (b) the open invite (key 50) is named in InviteKeys of the rotation and
   revoked by a later content of the same record; (c) invite key 50 was live earlier, and is used again for an invite
   that is created and revoked inside one record, after a rotation.  [spec_C05] accepts all three. *)
Definition ex_v2_a : list hrec := [
  (1, 2, [(CAccountsAdd [(2, 3)], KDeliver [Some 1])]);
  (1, 3, [(CReadKeyChange (mkRk true true [1; 2] []), KRot [Some 3; Some 3] [] (Some 1)); (CPermChange 2 0, KNone)])].
Definition ex_v2_b : list hrec := [
  (1, 2, [(CInvite 50 1 4 true, KDeliver [Some 1])]);
  (1, 3, [(CReadKeyChange (mkRk true true [1] [50]), KRot [Some 3] [Some 3] (Some 1)); (CInviteRevoke 2, KNone)])].
Definition ex_v2_c : list hrec := [
  (1, 2, [(CInvite 50 1 4 true, KDeliver [Some 1])]);
  (1, 3, [(CInviteRevoke 2, KNone)]);
  (1, 4, [(CReadKeyChange (mkRk true true [1] []), KRot [Some 4] [] (Some 1))]);
  (1, 5, [(CInvite 50 1 4 true, KDeliver [Some 4]); (CInviteRevoke 5, KNone)])].
Example c05_model_satisfies_spec_v2_refuted :
  forall h, In h [ex_v2_a; ex_v2_b; ex_v2_c] ->
    honest_run (kinit 1 1 [1; 2]) h = true /\ covers [1; 2] 1 h = true /\
    let steps := model_steps (kinit 1 1 [1; 2]) [1; 2] h in
    forallb st_ok steps = true /\ run_matches false (kinit 1 1 [1; 2]) steps = true /\
    spec_C05_v2 1 1 steps = false /\ spec_C05 1 1 steps = true.
Proof. intros h [<-|[<-|[<-|[]]]]; vm_compute; repeat split; reflexivity. Qed.

(* the repair is not a blank cheque for whoever a rotation names: the removed account is NOT a receiver of the rotation
   that removes it.  Observed record 3 = [Empty; AccountRemove [2] + rotation] (the Empty content keeps the rotation out
   of [rot_exact]'s reach, so only the secrecy clause judges); if its AccountKeys also carry the new key for the removed
   account 2, the predicate answers false *)
Definition ex_rm : list hrec := [
  (1, 2, [(CAccountsAdd [(2, 3)], KDeliver [Some 1])]);
  (1, 3, [(CEmpty, KNone); (CAccountRemove [2] (Some (mkRk true true [1] [])), KRot [Some 3] [] (Some 1))])].
Definition ex_rm_leak (st : step) : step :=
  if st_id st =? 3
  then mkStep (st_author st) (st_id st)
              [(CEmpty, KNone); (CAccountRemove [2] (Some (mkRk true true [1; 2] [])), KRot [Some 3; Some 3] [] (Some 1))]
              (st_ok st) (st_cur st) (st_open st) (st_obs st)
  else st.
Example c05_spec_refuses_key_for_removed_account :
  honest_run (kinit 1 1 [1; 2]) ex_rm = true /\ covers [1; 2] 1 ex_rm = true /\
  let steps := model_steps (kinit 1 1 [1; 2]) [1; 2] ex_rm in
  spec_C05 1 1 steps = true /\ spec_C05 1 1 (map ex_rm_leak steps) = false.
Proof. vm_compute. repeat split; reflexivity. Qed.

(* without [covers] the statement is false: the predicate computes the member list from the observed accounts, and a
   rotation names the unobserved member (here: the owner) *)
Definition ex_uncovered : list hrec :=
  [(1, 2, [(CEmpty, KNone)]); (1, 3, [(CReadKeyChange (mkRk true true [1] []), KRot [Some 3] [] (Some 1))])].
Example c05_model_satisfies_spec_uncovered_refuted :
  honest_run (kinit 1 1 [2]) ex_uncovered = true /\ covers [2] 1 ex_uncovered = false /\
  spec_C05 1 1 (model_steps (kinit 1 1 [2]) [2] ex_uncovered) = false /\
  covers [1; 2] 1 ex_uncovered = true /\ spec_C05 1 1 (model_steps (kinit 1 1 [1; 2]) [1; 2] ex_uncovered) = true.
Proof. vm_compute. repeat split; reflexivity. Qed.

(* THE THEOREM.  For every honest history over a universe of observed accounts that contains the owner and every
   identity the history admits, the property predicate is true on what the model presents. *)
Theorem c05_model_satisfies_spec : forall owner root U h,
  covers U owner h = true ->
  honest_run (kinit owner root U) h = true ->
  spec_C05 owner root (model_steps (kinit owner root U) U h) = true.
Proof. exact model_satisfies_spec. Qed.
Print Assumptions c05_model_satisfies_spec.

Example c05_model_satisfies_spec_nonvacuous :
  covers [1; 2; 3; 4] 1 (ex_hist ++ ex_readd) = true /\ honest_run (kinit 1 1 [1; 2; 3; 4]) (ex_hist ++ ex_readd) = true /\
  map st_ok (model_steps (kinit 1 1 [1; 2; 3; 4]) [1; 2; 3; 4] (ex_hist ++ ex_readd)) = [true; true; true; true; false; true].
Proof. vm_compute. repeat split; reflexivity. Qed.

(* the clauses of the predicate, on any model state satisfying the invariants ([allow] / [allow_inv]: any maps that
   contain, per principal, the generations of every trace state in which it held its position) *)
Theorem c05_model_satisfies_spec_acct : forall ms tr allow a,
  KInvX (m_s ms) (m_log ms) tr -> VInv ms -> In a (map fst (m_views ms)) ->
  (forall st b, In st tr -> perm_of st b <> 0 -> incl (keychanges st) (aget b allow)) ->
  acct_ok (keychanges (m_s ms)) (m_log ms) allow (obs_of ms a) = true.
Proof. exact acct_ok_model. Qed.
Print Assumptions c05_model_satisfies_spec_acct.
Theorem c05_model_satisfies_spec_invite_secrecy : forall s L tr allow_inv k,
  KInvX s L tr ->
  (forall st k, In st tr -> In k (active_invite_keys st) -> incl (keychanges st) (aget k allow_inv)) ->
  subsetN (derives (PI k) L) (aget k allow_inv) = true.
Proof. exact inv_secrecy_model. Qed.
Print Assumptions c05_model_satisfies_spec_invite_secrecy.
Theorem c05_model_satisfies_spec_open_invite : forall s L tr k, KInvX s L tr -> In k (map snd (open_invites s)) ->
  memN (cur_key s) (derives (PI k) L) = true.
Proof. exact open_leads_model. Qed.
Print Assumptions c05_model_satisfies_spec_open_invite.
(* rot_exact: from a state whose permission holders are [members_before], over the contents of any accepted record *)
Theorem c05_model_satisfies_spec_rot_exact : forall au r s0 members_before cks s s_fin revoked,
  acontents s au r cks = Some s_fin ->
  skeys (accounts s) ->
  (forall a, In a members_before <-> perm_of s a <> 0) ->
  (forall r0 iv, In (r0, iv) (invites s) <-> In (r0, iv) (invites s0) /\ ~ In r0 revoked) ->
  rot_exact members_before (open_invites s0) revoked cks = true.
Proof. exact rot_exact_ok. Qed.
Print Assumptions c05_model_satisfies_spec_rot_exact.

(* every honest history reaches a state satisfying the extended invariant *)
Theorem c05_reach_ext : forall owner root U h,
  honest_run (kinit owner root U) h = true ->
  KInvX (m_s (run_hist (kinit owner root U) h)) (m_log (run_hist (kinit owner root U) h))
        (init_state 0 owner root None :: trace (kinit owner root U) h).
Proof. exact reachX_hist. Qed.
Print Assumptions c05_reach_ext.

(* (2') secrecy for invite keys: an invite key derives a generation only if an anyone-can-join invite with that key was
   live at a moment (content boundary) at which that generation existed; hence the key of a revoked invite derives
   nothing introduced after the revocation (unless an invite with the same key is created again) *)
Theorem c05_invite_derive_only_if_live : forall owner root U h k g,
  honest_run (kinit owner root U) h = true ->
  let ms := run_hist (kinit owner root U) h in
  Derives (PI k) (m_log ms) g ->
  exists st, In st (init_state 0 owner root None :: trace (kinit owner root U) h) /\
             In k (active_invite_keys st) /\ In g (keychanges st).
Proof. exact invite_derive_only_if_live_hist. Qed.
Print Assumptions c05_invite_derive_only_if_live.
Theorem c05_revoked_invite_cannot_derive : forall owner root U h k g,
  honest_run (kinit owner root U) h = true ->
  let ms := run_hist (kinit owner root U) h in
  (forall st, In st (init_state 0 owner root None :: trace (kinit owner root U) h) -> In g (keychanges st) ->
              ~ In k (active_invite_keys st)) ->
  ~ Derives (PI k) (m_log ms) g /\ ~ In g (derives (PI k) (m_log ms)).
Proof. exact revoked_invite_cannot_derive. Qed.
Print Assumptions c05_revoked_invite_cannot_derive.
(* (1') a live anyone-can-join invite leads to the current key *)
Theorem c05_open_invite_leads_to_current : forall owner root U h k,
  honest_run (kinit owner root U) h = true ->
  let ms := run_hist (kinit owner root U) h in
  In k (active_invite_keys (m_s ms)) ->
  In (cur_key (m_s ms)) (derives (PI k) (m_log ms)) /\ Derives (PI k) (m_log ms) (cur_key (m_s ms)).
Proof. exact open_invite_leads_to_current. Qed.
Print Assumptions c05_open_invite_leads_to_current.
(* the open invite of [ex_hist] (key 50) holds generation 1 and the rotation's generation 5; the key of the revoked
   invite of [ex_v2_b] keeps generation 3 (it was live when 3 appeared) and a later rotation gives it nothing *)
Example c05_invite_nonvacuous :
  (let ms := run_hist (kinit 1 1 [1; 2; 3; 4]) ex_hist in
   active_invite_keys (m_s ms) = [50] /\ cur_key (m_s ms) = 5 /\ derives (PI 50) (m_log ms) = [1; 5]) /\
  (let h := ex_v2_b ++ [(1, 4, [(CReadKeyChange (mkRk true true [1] []), KRot [Some 4] [] (Some 3))])] in
   let ms := run_hist (kinit 1 1 [1; 2]) h in
   honest_run (kinit 1 1 [1; 2]) h = true /\ active_invite_keys (m_s ms) = [] /\ keychanges (m_s ms) = [1; 3; 4] /\
   derives (PI 50) (m_log ms) = [1; 3]).
Proof. vm_compute. repeat split; reflexivity. Qed.

(* (5) long-lived OPEN trees across a membership history (Model/AclKeysTree.v; the symbolic model has no per-tree key
   cache: a change written under the ACL's current generation g is SEnc (treeKey (K g)) data labelled g) *)
(* the ciphertext opens with the tree key of the NAMED generation and with no other generation of the history *)
Theorem c05_open_ciphertext_under_named_key : forall gen idx tried,
  NoDup tried -> In gen tried ->
  filter (fun g => opens_with g (TSEnc gen idx) idx) tried = [gen].
Proof. exact opens_exactly. Qed.
Print Assumptions c05_open_ciphertext_under_named_key.

(* a reader reads a change written under generation gen iff it holds gen *)
Theorem c05_open_reads_iff_held : forall held gen idx,
  readable held (idx, gen, TSEnc gen idx) = memN gen held.
Proof. exact readable_written. Qed.
Print Assumptions c05_open_reads_iff_held.

(* over ANY sequence of rounds (any writers, any readers, any order of rotations) in which the current generation is
   one of the known ones and every account holding a permission holds every generation named so far (that is
   c05_members_have_all), what the model presents satisfies the property predicate and passes the correspondence test *)
Theorem c05_open_model_satisfies_spec : forall l,
  rounds_wf [] l ->
  spec_C05_open (model_rounds [] l) = true /\ open_tree_model_ok (model_rounds [] l) = true.
Proof. exact open_model_satisfies_spec_from_start. Qed.
Print Assumptions c05_open_model_satisfies_spec.

(* two rounds: owner 1 and writer 2 under generation 1; then 2 is removed (generation 5), 1 writes, 2 — who still
   holds generation 1 — reads change 1 and not change 2 *)
Example c05_open_nonvacuous :
  let l := [mkRS 1 [1] [(1, 1)] [(1, 1, [1]); (2, 3, [1])];
            mkRS 5 [1; 5] [(2, 1)] [(1, 1, [1; 5]); (2, 0, [1])]] in
  rounds_wf [] l /\ spec_C05_open (model_rounds [] l) = true /\
  map (fun r => (r_acct r, r_open_ok r, r_open_got r)) (rd_readers (nth 1 (model_rounds [] l) (mkRound [] [])))
    = [(1, true, [1; 2]); (2, false, [1])].
Proof.
  cbv zeta. split; [|split; vm_compute; reflexivity].
  cbn [rounds_wf rs_gen rs_tried rs_writes rs_readers written map app tc_idx fst snd].
  repeat split; try (repeat constructor; cbn; intuition discriminate); try (cbn; tauto).
  - intros x Hx Hp c Hc. cbn in Hx, Hc. destruct Hc as [<-|[]].
    destruct Hx as [<-|[<-|[]]]; cbn; auto.
  - intros x Hx Hp c Hc. cbn in Hx, Hc.
    destruct Hx as [<-|[<-|[]]]; cbn in Hp |- *; [|exfalso; now apply Hp].
    destruct Hc as [<-|[<-|[]]]; cbn; auto.
Qed.

(* (6) ONE tree write racing ONE ACL record (Model/AclKeysTree.v, harness cmd/c05/ilv.go: the record is applied to the
   writer's ACL list at every crossing of the ACL lock during one AddContent).  The model has no lock structure: the
   scheduler's only freedom is whether the write is sequenced before the record (it names the old head and generation),
   after it (new head and generation; only if the record landed during the call and the writer may still write), or
   fails (only if the record landed during the call or the writer had no right; an account that may write after the
   record then writes sequentially).  Whatever it decides, what the model presents satisfies the predicate and passes
   the correspondence test. *)
Theorem c05_ilv_model_satisfies_spec : forall s,
  is_valid s = true -> rounds_wf [] (is_pre s ++ [is_last s]) ->
  spec_C05_ilv (model_ilv s) = true /\ ilv_model_ok (model_ilv s) = true.
Proof. exact ilv_model_satisfies_spec. Qed.
Print Assumptions c05_ilv_model_satisfies_spec.

(* what the predicate demands of ANY observed race with a stored change: the change names the generation of the ACL
   head it names and its ciphertext opens with that generation's tree key and with no other one - a change labelled
   with the new generation but encrypted under the retired key is refused, not sequenced away *)
Theorem c05_ilv_written_under_named_head : forall x w,
  spec_C05_ilv x = true -> i_write x = Some w ->
  exists g, named_gen x = Some g /\ w_key_id w = g /\ w_opens w = [g].
Proof. exact ilv_written_under_named_head. Qed.
Print Assumptions c05_ilv_written_under_named_head.

(* owner 1, writer 2, reader 3 under generation 1, one change written; then "remove 3" (generation 5) races writer 2's
   AddContent.  The three decisions of the scheduler; after "before" the removed account 3 (holding generation 1 only)
   still reads both changes, after "after" only the first.  The observation of a change that names head / generation 5
   but opens with generation 1 only (the retired key) is refused. *)
Example c05_ilv_nonvacuous :
  let pre := [mkRS 1 [1] [(1, 1)] []] in
  let rd := [(1, 1, [1; 5]); (2, 3, [1; 5]); (3, 0, [1])] in
  let mk d := mkIS 2 1 true 1 5 true true d 2 3 2 [1; 5] pre rd in
  (forall d, is_valid (mk d) = true /\ rounds_wf [] (is_pre (mk d) ++ [is_last (mk d)])) /\
  map (fun d => map (fun r => (r_acct r, r_open_ok r, r_open_got r)) (i_readers (model_ilv (mk d)))) [IBefore; IAfter; IFail]
    = [[(1, true, [1; 2]); (2, true, [1; 2]); (3, true, [1; 2])];
       [(1, true, [1; 2]); (2, true, [1; 2]); (3, false, [1])];
       [(1, true, [1; 3]); (2, true, [1; 3]); (3, false, [1])]] /\
  (let x := model_ilv (mk IAfter) in
   spec_C05_ilv (mkI (i_kind x) (i_k x) (i_fired x) (i_gen0 x) (i_gen1 x) (i_can0 x) (i_can1 x) 1
                     (Some (mkW 2 2 5 5 false [1; 5] [1])) None (i_pre x)
                     [mkR 1 1 [1; 5] false [1] None; mkR 2 3 [1; 5] false [1] None; mkR 3 0 [1] false [1] None]) = false
   /\ spec_C05_ilv (mkI (i_kind x) (i_k x) (i_fired x) (i_gen0 x) (i_gen1 x) (i_can0 x) (i_can1 x) 1
                     (Some (mkW 2 2 1 5 false [1; 5] [1])) None (i_pre x) (i_readers x)) = false).
Proof.
  cbv zeta. split; [|split; [vm_compute; reflexivity|split; vm_compute; reflexivity]].
  intros d. split; [destruct d; reflexivity|].
  destruct d; cbn [is_pre is_last is_dec is_gen0 is_gen1 is_tried is_idx is_retry_idx is_author is_readers is_can1 app
                   rounds_wf rs_gen rs_tried rs_writes rs_readers written map tc_idx fst snd].
  all: repeat split; try (repeat constructor; cbn; intuition discriminate); try (cbn; tauto).
  all: intros x Hx Hp c Hc; cbn in Hx, Hc;
       repeat match goal with
              | H : _ \/ _ |- _ => destruct H as [H|H]
              | H : False |- _ => destruct H
              end; subst; cbn in Hp |- *; auto; exfalso; now apply Hp.
Qed.
