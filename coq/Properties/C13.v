(* C13 — Space id binds header, ACL root and settings root; one-to-one derivation is symmetric.
   Only property theorems (closed by [exact]), their non-vacuity examples and [Print Assumptions].
   Model: Model/Payloads.v; proofs: Proofs/PayloadsProofs.v.
   Cryptography is symbolic (DESIGN §1.3): hashes and signatures are constructors of the free term algebra [tm];
   X25519 ([dh]), the byte order of public keys ([kle]) and FNV-64 ([rk_of]) are Section variables whose
   hypotheses are visible in the statements below. *)
From Coq Require Import List NArith Bool Arith.
Import ListNotations.
From AnySync Require Import Model.Payloads Proofs.PayloadsProofs.

(* ---- acceptance = binding ------------------------------------------------------------------------- *)

(* ValidateSpaceStorageCreatePayload accepts exactly the well-formed payloads: id = cid(raw header) "." base36(rk
   of the signed header); header, ACL root and settings root signed by the identity they carry; master-key
   signature over the raw identity; ids = cids; v1: header embeds exactly the delivered roots, v0: both roots
   name the space id; the settings root cites the ACL root *)
Theorem c13_accept_binds : forall p, validate_t p = VOk <-> well_formed p.
Proof. exact accept_iff_wf. Qed.
Print Assumptions c13_accept_binds.

(* the same over views with harness-computed flags, for any atom type: accepted => every binding condition *)
Theorem c13_accept_binds_view : forall (A : Type) (eqb : A -> A -> bool) (p : payload A),
  validate_create A eqb p = VOk -> binding A eqb p = true.
Proof. exact validate_create_binds. Qed.
Print Assumptions c13_accept_binds_view.

(* ValidateSpaceHeader alone *)
Theorem c13_header_accept_binds : forall id raw identity aa sa need,
  validate_header_t id raw identity aa sa = (VOk, need) ->
  exists k rk st pl v1 acl set rest,
    raw = TRaw (THeader (TPub k) rk st pl v1 acl set rest) (TSig k (THeader (TPub k) rk st pl v1 acl set rest)) /\
    id = TId (TCid raw) (TB36 rk) /\ need = negb v1 /\
    (v1 = true -> (forall a, aa = Some a -> a = acl) /\ (forall s, sa = Some s -> s = set)) /\
    (is_oto_type st = true -> exists o a b, pl = TOto o a b) /\
    (is_oto_type st = false -> forall i, identity = Some i -> i = TPub k).
Proof. exact header_accept_inv. Qed.
Print Assumptions c13_header_accept_binds.

(* ---- every constructor's output is accepted -------------------------------------------------------- *)

Theorem c13_constructors_valid :
  (forall sk mk rk st pl hrest arest srest, oto_ok st pl -> validate_t (create_v0 sk mk rk st pl hrest arest srest) = VOk) /\
  (forall sk mk rk st pl hrest arest srest, oto_ok st pl -> validate_t (create_v1 sk mk rk st pl hrest arest srest) = VOk) /\
  (forall rk_of sk mk st pl frest, oto_ok st pl -> validate_t (derive_v0 rk_of sk mk st pl frest) = VOk) /\
  (forall rk_of sk mk st pl frest, oto_ok st pl -> validate_t (derive_v1 rk_of sk mk st pl frest) = VOk) /\
  (forall rk_of dh kle a b st, validate_t (one_to_one rk_of dh kle a b st) = VOk).
Proof.
  exact (conj create_v0_valid (conj create_v1_valid (conj derive_v0_valid (conj derive_v1_valid one_to_one_valid)))).
Qed.
Print Assumptions c13_constructors_valid.

(* ---- modifying any part causes rejection ----------------------------------------------------------- *)

(* the six delivered fields are the id, the raw header, the ACL id, the ACL bytes, the settings id, the settings
   bytes; a change of a signature, of the id prefix or suffix, of any embedded field is a change of one of them *)
Theorem c13_mutation_rejected : forall p f x,
  validate_t p = VOk -> x <> get_field f p -> validate_t (set_field f x p) <> VOk.
Proof. exact mutation_rejected. Qed.
Print Assumptions c13_mutation_rejected.

Theorem c13_splice_rejected : forall p q ch ca cs,
  validate_t p = VOk -> validate_t q = VOk -> canonical p = true -> canonical q = true ->
  t_id p <> t_id q ->
  validate_t (mix ch ca cs p q) = VOk -> mix ch ca cs p q = p \/ mix ch ca cs p q = q.
Proof. exact splice_rejected. Qed.
Print Assumptions c13_splice_rejected.

(* the space id commits to the signed header *)
Theorem c13_id_commits_to_header : forall p q,
  validate_t p = VOk -> validate_t q = VOk -> t_id p = t_id q -> t_raw p = t_raw q.
Proof. exact same_id_same_header. Qed.
Print Assumptions c13_id_commits_to_header.

(* a v1 header commits to exactly one ACL root and one settings root *)
Theorem c13_v1_header_commits_to_roots : forall p q,
  validate_t p = VOk -> validate_t q = VOk -> t_raw p = t_raw q -> header_is_v1 (t_raw p) = true ->
  t_aclid p = t_aclid q /\ t_acl p = t_acl q /\ t_setid p = t_setid q /\ t_set p = t_set q.
Proof. exact v1_header_fixes_roots. Qed.
Print Assumptions c13_v1_header_commits_to_roots.

(* v0 binds by NAME only: for every accepted v0 payload and ANY keys e, m, the roots fabricated with those keys that
   name the space id are accepted with the genuine header.  (The property allows binding "through the space id
   embedded in the ACL root and settings root"; this theorem states what that does not exclude.) *)
Theorem c13_v0_name_binding : forall p e m r1 r2,
  validate_t p = VOk -> header_is_v1 (t_raw p) = false ->
  let acl' := acl_root e m (t_id p) tempty r1 in
  let set' := settings_root e (TCid acl') (t_id p) r2 in
  validate_t (mkT (t_id p) (t_raw p) (TCid acl') acl' (TCid set') set') = VOk.
Proof. exact v0_name_binding. Qed.
Print Assumptions c13_v0_name_binding.

(* ---- one-to-one derivation ------------------------------------------------------------------------- *)

Theorem c13_one_to_one_symmetric :
  forall (rk_of : skey -> N) (dh : N -> N -> N) (kle : N -> N -> bool),
  (forall a b, dh a b = dh b a) ->
  (forall a b, kle a b = true \/ kle b a = true) ->
  (forall a b, kle a b = true -> kle b a = true -> a = b) ->
  forall a b st, one_to_one rk_of dh kle a b st = one_to_one rk_of dh kle b a st.
Proof. exact one_to_one_symmetric. Qed.
Print Assumptions c13_one_to_one_symmetric.

(* no other pair derives any of the six fields (the HKDF context contains both public keys, so this direction
   needs no hypothesis on dh) *)
Theorem c13_one_to_one_specific : forall rk_of dh kle a b c d st st' f,
  get_field f (one_to_one rk_of dh kle a b st) = get_field f (one_to_one rk_of dh kle c d st') ->
  (a = c /\ b = d) \/ (a = d /\ b = c).
Proof. exact one_to_one_specific. Qed.
Print Assumptions c13_one_to_one_specific.

(* ---- the model satisfies spec_C13 ------------------------------------------------------------------ *)

Theorem c13_model_satisfies_spec_create : forall (A : Type) (eqb : A -> A -> bool) (p : payload A) pristine,
  (pristine = true -> validate_create A eqb p = VOk) ->
  spec_C13_create A eqb p pristine (validate_create A eqb p) = true.
Proof. exact model_spec_create. Qed.
Print Assumptions c13_model_satisfies_spec_create.

Theorem c13_model_satisfies_spec_header : forall (A : Type) (eqb : A -> A -> bool) h identity aa sa,
  spec_C13_header A eqb h identity aa sa false
    (fst (validate_header A eqb h identity aa sa)) (snd (validate_header A eqb h identity aa sa)) = true.
Proof. exact model_spec_header. Qed.
Print Assumptions c13_model_satisfies_spec_header.

Theorem c13_model_satisfies_spec_oto :
  forall (rk_of : skey -> N) (dh : N -> N -> N) (kle : N -> N -> bool),
  (forall a b, dh a b = dh b a) ->
  (forall a b, kle a b = true \/ kle b a = true) ->
  (forall a b, kle a b = true -> kle b a = true -> a = b) ->
  forall a b c st,
    spec_C13_oto (N.eqb b c)
      (tp_eqs (one_to_one rk_of dh kle a b st) (one_to_one rk_of dh kle b a st))
      (tp_eqs (one_to_one rk_of dh kle a b st) (one_to_one rk_of dh kle a c st)) = true.
Proof. exact model_spec_oto. Qed.
Print Assumptions c13_model_satisfies_spec_oto.

(* ---- overlapping derivations in one process -------------------------------------------------------- *)

(* The SLIP-21 chain at the end of GenerateSharedKey as a small-step machine, any number of calls in flight, every
   call holding its own node (the code as it is: slip21.DeriveForPath allocates per call).  For EVERY schedule
   (any interleaving of the steps, as a list of call indices) a call that delivered a key delivered what it
   computes alone from its own seed and labels.  HMAC ([master], [child]) is arbitrary. *)
Theorem c13_derivation_schedule_independent :
  forall (K L S : Type) (master : S -> K) (child : K -> L -> K)
         (inits : list (S * list L)) (sched : list nat) i c k,
    nth_error (run_own K L S master child sched (map (dcall_init K L S) inits)) i = Some c ->
    dc_out c = Some k ->
    exists sl, nth_error inits i = Some sl /\ k = derive_seq K L S master child (fst sl) (snd sl).
Proof. exact own_node_schedule_independent. Qed.
Print Assumptions c13_derivation_schedule_independent.

(* ... and every schedule that gives call i its steps (anywhere, interleaved with anything) makes it deliver *)
Theorem c13_derivation_fair_delivers :
  forall (K L S : Type) (master : S -> K) (child : K -> L -> K)
         (inits : list (S * list L)) (sched : list nat) i sl,
    nth_error inits i = Some sl ->
    steps_of L S sl <= count_occ Nat.eq_dec sched i ->
    exists c, nth_error (run_own K L S master child sched (map (dcall_init K L S) inits)) i = Some c /\
              dc_out c = Some (derive_seq K L S master child (fst sl) (snd sl)).
Proof. exact own_node_fair_delivers. Qed.
Print Assumptions c13_derivation_fair_delivers.

(* hence what a derives for each of any list of contacts [reqs] -- overlapping or not -- is, field by field, what
   that contact derives for a, and differs in every field from what any other contact derives *)
Theorem c13_model_satisfies_spec_conc_oto :
  forall (rk_of : skey -> N) (dh : N -> N -> N) (kle : N -> N -> bool),
  (forall a b, dh a b = dh b a) ->
  (forall a b, kle a b = true \/ kle b a = true) ->
  (forall a b, kle a b = true -> kle b a = true -> a = b) ->
  forall a st reqs contacts,
    spec_C13_conc (conc_pairs (fun b b' => tp_eqs (one_to_one rk_of dh kle a b st) (one_to_one rk_of dh kle b' a st))
                              reqs contacts) = true.
Proof. exact model_spec_conc_oto. Qed.
Print Assumptions c13_model_satisfies_spec_conc_oto.

(* the same for the keys of the three derivation paths (space, read key, metadata key) *)
Theorem c13_model_satisfies_spec_conc_keys :
  forall (dh : N -> N -> N) (kle : N -> N -> bool),
  (forall a b, dh a b = dh b a) ->
  (forall a b, kle a b = true \/ kle b a = true) ->
  (forall a b, kle a b = true -> kle b a = true -> a = b) ->
  forall a reqs contacts,
    spec_C13_conc (conc_pairs (fun b b' => keys_eqs dh kle a b b' a) reqs contacts) = true.
Proof. exact model_spec_conc_keys. Qed.
Print Assumptions c13_model_satisfies_spec_conc_keys.

(* ---- non-vacuity ------------------------------------------------------------------------------------ *)

Definition ex_v0 := create_v0 (SKAtom 1) (SKAtom 2) 77 10 (TAtom 5) 11 12 13.
Definition ex_v1 := create_v1 (SKAtom 3) (SKAtom 4) 78 10 (TAtom 6) 14 15 16.
Definition ex_dh (a b : N) : N := N.min a b * 4294967296 + N.max a b.
Definition ex_rk (k : skey) : N := match k with SKAtom n => n | SKShared sh _ _ _ => sh end.
Definition ex_oto := one_to_one ex_rk ex_dh N.leb 1 2 ST_OTO.

Example c13_accept_nonvacuous :
  validate_t ex_v0 = VOk /\ validate_t ex_v1 = VOk /\ validate_t ex_oto = VOk /\
  canonical ex_v0 = true /\ canonical ex_v1 = true /\ tm_eqb (t_id ex_v0) (t_id ex_v1) = false.
Proof. vm_compute. repeat split; reflexivity. Qed.

(* each single-field replacement and each proper mix of the two examples is rejected, with the model's error class *)
Example c13_mutation_nonvacuous :
  map (fun f => validate_t (set_field f (TAtom 99) ex_v0)) [FId; FRaw; FAclId; FAcl; FSetId; FSet]
    = [VErrHeader; VErrCid; VErrCid; VErrCid; VErrHeader; VErrHeader] /\
  map (fun f => validate_t (set_field f (get_field f ex_v0) ex_v1)) [FId; FRaw; FAclId; FAcl; FSetId; FSet]
    = [VErrCid; VErrCid; VErrCid; VErrHeader; VErrHeader; VErrHeader].
Proof. vm_compute. split; reflexivity. Qed.

Example c13_splice_nonvacuous :
  map (fun m : bool * bool * bool => let '(h, a, s) := m in is_ok (validate_t (mix h a s ex_v0 ex_v1)))
      [(true, true, false); (true, false, true); (true, false, false); (false, true, true); (false, true, false); (false, false, true)]
    = [false; false; false; false; false; false].
Proof. vm_compute. reflexivity. Qed.

(* foreign roots: accepted with a v0 header, rejected with a v1 header *)
Example c13_v0_name_binding_nonvacuous :
  let forge p :=
    let acl' := acl_root (SKAtom 8) (SKAtom 9) (t_id p) tempty 1 in
    let set' := settings_root (SKAtom 8) (TCid acl') (t_id p) 2 in
    mkT (t_id p) (t_raw p) (TCid acl') acl' (TCid set') set' in
  validate_t (forge ex_v0) = VOk /\ validate_t (forge ex_v1) = VErrHeader.
Proof. vm_compute. split; reflexivity. Qed.

Example c13_one_to_one_nonvacuous :
  tpayload_eqb (one_to_one ex_rk ex_dh N.leb 1 2 ST_OTO) (one_to_one ex_rk ex_dh N.leb 2 1 ST_OTO) = true /\
  tp_eqs (one_to_one ex_rk ex_dh N.leb 1 2 ST_OTO) (one_to_one ex_rk ex_dh N.leb 1 3 ST_OTO)
    = [false; false; false; false; false; false] /\
  tm_eqb (t_id (one_to_one ex_rk ex_dh N.leb 1 2 ST_OTO)) (t_id (one_to_one ex_rk ex_dh N.leb 1 2 ST_OTO_ANY)) = false /\
  (forall a b, ex_dh a b = ex_dh b a).
Proof.
  split; [vm_compute; reflexivity |]. split; [vm_compute; reflexivity |]. split; [vm_compute; reflexivity |].
  intros a b; unfold ex_dh; rewrite N.min_comm, N.max_comm; reflexivity.
Qed.

(* two overlapping calls, steps interleaved: both deliver their stand-alone value ... *)
Example c13_derivation_nonvacuous :
  map (fun c => dc_out c)
      (run_own (list N) N N free_master free_child [0; 1; 0; 1; 1; 0; 0; 1]%nat
               (map (dcall_init (list N) N N) [(7, [1; 2]); (8, [1; 2])]%N))
    = [Some [7; 1; 2]; Some [8; 1; 2]]%N /\
  derive_seq (list N) N N free_master free_child 7%N [1; 2]%N = [7; 1; 2]%N.
Proof. vm_compute. split; reflexivity. Qed.

(* ... whereas the same calls over ONE shared node buffer do not: the ownership of the node is what the
   schedule-independence theorem rests on (the first call delivers a key, and it is the wrong one) *)
Theorem c13_shared_buffer_refuted :
  exists (inits : list (N * list N)) (sched : list nat) c,
    nth_error (snd (run_shared (list N) N N free_master free_child sched
                      (map (dcall_init (list N) N N) inits))) 0 = Some c /\
    dc_out c <> None /\
    dc_out c <> Some (derive_seq (list N) N N free_master free_child 7%N [1; 2]%N).
Proof. exact shared_buffer_schedule_dependent. Qed.
Print Assumptions c13_shared_buffer_refuted.

(* the spec predicate for overlapping derivations rejects a result that equals another contact's derivation and
   one that differs from the own contact's in a single field *)
Example c13_conc_spec_nonvacuous :
  spec_C13_conc [(true, [true; true; true]); (false, [false; false; false])] = true /\
  spec_C13_conc [(true, [true; false; true])] = false /\
  spec_C13_conc [(false, [false; true; false])] = false /\
  spec_C13_conc (conc_pairs (fun b b' => keys_eqs ex_dh N.leb 1 b b' 1) [2; 3]%N [2; 3; 4]%N) = true.
Proof. vm_compute. repeat split; reflexivity. Qed.
