(* C12 — Key-value store: last-writer-wins convergence and authentic entries only.
   This file contains only property theorems (closed by [exact]), their non-vacuity examples, refutations of the
   unrepaired behaviour, and [Print Assumptions].
   Model: Model/KeyValue.v (the REPAIRED SetRaw: slot binding + write permission at the cited record);
   proofs: Proofs/KeyValueMap.v, Proofs/KeyValueProofs.v, Proofs/KeyValueSpec.v.

   Domain guard (stated in every theorem through [ts_ok] / [batch_ok] / [inv]): 0 <= timestamp < 2^53.
   Outside it the code's three comparisons (unsigned big-endian heads in SetRaw and in CompareDiff, int64 read back
   from a float64 document field in updateValues, signed integers in the property) no longer coincide; see
   [c12_negative_ts_refuted] below and notes/C12.md (F20, negative timestamps). *)
From Coq Require Import List NArith ZArith Bool Lia.
Import ListNotations.
From AnySync Require Import Model.KeyValue Proofs.KeyValueMap Proofs.KeyValueProofs Proofs.KeyValueSpec.

(* ---- last-writer-wins as a per-slot join ------------------------------------------------------------------- *)

(* SetRaw computes, for every slot, the join (maximum timestamp, incumbent wins ties) of what is stored with the
   VALID values of the batch; invalid values are skipped and never block the rest of the batch. *)
Theorem c12_lww_semilattice : forall st batch s,
  inv st -> batch_ok batch ->
  sm_get (st_store (fst (set_raw FNone st batch))) s = best s (sm_get (st_store st) s) batch.
Proof. exact set_raw_get. Qed.
Print Assumptions c12_lww_semilattice.

(* Any two sequences of batches carrying the same SET of values (so: any permutation, any regrouping into batches,
   any repetition) end in the same store and the same index, provided timestamps are distinct per slot. *)
Theorem c12_order_free : forall st0 bs1 bs2,
  inv st0 ->
  (forall b, In b bs1 -> batch_ok b) -> (forall b, In b bs2 -> batch_ok b) ->
  (forall v, In v (concat bs1) <-> In v (concat bs2)) ->
  distinct_ts (stored st0 ++ concat bs1) ->
  run_raw st0 bs1 = run_raw st0 bs2.
Proof. exact order_free. Qed.
Print Assumptions c12_order_free.

(* One sync exchange (CompareDiff; push mine-only and my-newer, pull theirs-only and their-newer) makes the two
   stores EQUAL (collection and index), when both know the same ACL (flags are per value). *)
Theorem c12_sync_equalises : forall a b,
  inv a -> inv b -> distinct_ts (stored a ++ stored b) ->
  let '(a', b') := sync_exchange a b in a' = b'.
Proof. exact sync_equalises. Qed.
Print Assumptions c12_sync_equalises.

(* The exchange as it really runs over the StoreElements stream: the responder streams the requested values
   newest-first (sortIdsNewestFirst), the initiator applies them in chunks of n = applyBatchSize, one SetRaw per chunk
   plus a final one.  ANY stream carrying the same set of values as the pull list, cut into chunks of ANY size, leaves
   the initiator exactly where one SetRaw of the whole pull list leaves it ... *)
Theorem c12_stream_order_chunk_free : forall n st msgs pull,
  inv st -> batch_ok pull -> (forall v, In v msgs <-> In v pull) -> distinct_ts (stored st ++ pull) ->
  stream_apply n st [] msgs = fst (set_raw FNone st pull).
Proof. exact stream_apply_set_raw. Qed.
Print Assumptions c12_stream_order_chunk_free.

(* ... so the streamed exchange IS the plain exchange, for every chunk size ... *)
Theorem c12_stream_is_exchange : forall n a b,
  inv a -> inv b -> distinct_ts (stored a ++ stored b) ->
  sync_exchange_stream n a b = sync_exchange a b.
Proof. exact sync_stream_eq. Qed.
Print Assumptions c12_stream_is_exchange.

(* ... and one streamed exchange makes the two stores EQUAL, whatever their sizes. *)
Theorem c12_sync_stream_equalises : forall n a b,
  inv a -> inv b -> distinct_ts (stored a ++ stored b) ->
  let '(a', b') := sync_exchange_stream n a b in a' = b'.
Proof. exact sync_stream_equalises. Qed.
Print Assumptions c12_sync_stream_equalises.

(* ---- failed writes ------------------------------------------------------------------------------------------ *)

(* A SetRaw that returns an error (k-th UpsertOne, UpdateEntry or Commit failed) leaves collection AND index exactly
   as before: the deferred undo (prior heads in reverse, then RemoveId of the added ids) restores the index. *)
Theorem c12_fault_restores_index : forall f st batch,
  inv st -> snd (set_raw f st batch) = false -> fst (set_raw f st batch) = st.
Proof. exact set_raw_failed. Qed.
Print Assumptions c12_fault_restores_index.

Theorem c12_undo_exact : forall st vals f,
  sm_sorted (st_store st) -> st_index st = image (st_store st) -> f = FHead \/ f = FCommit ->
  inner_set f st vals = (st, false).
Proof. exact inner_set_undo. Qed.
Print Assumptions c12_undo_exact.

(* a SetRaw that returns nil under an armed fault did exactly what the fault-free call does *)
Theorem c12_success_is_faultfree : forall f st batch,
  inv st -> snd (set_raw f st batch) = true -> set_raw f st batch = set_raw FNone st batch.
Proof. exact set_raw_succeeded. Qed.
Print Assumptions c12_success_is_faultfree.

(* any failed operation of a history (raw, local, with any fault) changes nothing in either store *)
Theorem c12_failed_op_no_effect : forall w o, winv w -> snd (step w o) = false -> fst (step w o) = w.
Proof. exact step_failed. Qed.
Print Assumptions c12_failed_op_no_effect.

(* index = image(collection) after EVERY history of raw batches, local sets, sync exchanges and faults *)
Theorem c12_index_is_image : forall ops who,
  (forall o, In o ops -> op_wf o) ->
  st_index (wget (run_ops (empty_state, empty_state) ops) who) =
  image (st_store (wget (run_ops (empty_state, empty_state) ops) who)).
Proof. exact index_is_image. Qed.
Print Assumptions c12_index_is_image.

(* ---- authenticity ------------------------------------------------------------------------------------------- *)

(* Whatever is stored under slot s in either store after any history: it is filed under the slot named in its
   signed bytes, both signatures verify, the cited record is known and the signer could write there. *)
Theorem c12_authentic : forall ops who s v,
  (forall o, In o ops -> op_wf o) ->
  sm_get (st_store (wget (run_ops (empty_state, empty_state) ops) who)) s = Some v ->
  v_env v = s /\ v_decodes v = true /\ v_dev v = true /\ v_acc v = true /\
  v_env v = v_signed v /\ v_known v = true /\ v_write v = true.
Proof. exact stored_authentic. Qed.
Print Assumptions c12_authentic.

(* ---- the model satisfies the executable property predicate ------------------------------------------------- *)

(* For every history, with the delivered sets computed exactly as the runner computes them (Run/C12_run.v):
   contents = per-slot maximum over the delivered VALID values, every slot with a valid delivered value is present,
   slots are unique, and index = image(contents). *)
Theorem c12_model_satisfies_spec : forall ops oka okb,
  (forall o, In o ops -> op_wf o) ->
  let '(w, (da, db)) := run_deliver ops in
  spec_C12 da (observe (fst w) oka) = true /\ spec_C12 db (observe (snd w) okb) = true.
Proof. exact model_satisfies_spec. Qed.
Print Assumptions c12_model_satisfies_spec.

(* ---- non-vacuity --------------------------------------------------------------------------------------------- *)

Definition ex_v1 := mkValue 1 1 1 10 true true true true true.      (* slot 1, t=10 *)
Definition ex_v2 := mkValue 2 1 1 20 true true true true true.      (* slot 1, t=20 *)
Definition ex_v3 := mkValue 3 2 2 15 true true true true true.      (* slot 2, t=15 *)
Definition ex_bad_sig := mkValue 4 1 1 99 true false true true true.     (* device signature wrong *)
Definition ex_relabel := mkValue 3 7 2 15 true true true true true.      (* ex_v3 relabelled to slot 7 *)
Definition ex_noperm := mkValue 5 3 3 30 true true true true false.      (* signer cannot write at the cited record *)

Example c12_lww_nonvacuous :
  inv empty_state /\ batch_ok [ex_v2; ex_bad_sig; ex_v1; ex_relabel; ex_noperm; ex_v3] /\
  contents_of (fst (set_raw FNone empty_state [ex_v2; ex_bad_sig; ex_v1; ex_relabel; ex_noperm; ex_v3]))
    = [(1%N, 20%Z, 2%N); (2%N, 15%Z, 3%N)].
Proof.
  split; [apply inv_empty|]. split; [|vm_compute; reflexivity].
  intros v Hin. cbn in Hin. unfold ts_ok.
  repeat (destruct Hin as [Hin|Hin]; [subst v; cbn; lia|]). destruct Hin.
Qed.

Example c12_order_free_nonvacuous :
  let bs1 := [[ex_v1; ex_v2]; [ex_v3]] in
  let bs2 := [[ex_v3; ex_v2]; [ex_v1]; [ex_v2; ex_v1]] in
  inv empty_state /\ (forall b, In b bs1 -> batch_ok b) /\ (forall b, In b bs2 -> batch_ok b) /\
  (forall v, In v (concat bs1) <-> In v (concat bs2)) /\
  distinct_ts (stored empty_state ++ concat bs1) /\
  contents_of (run_raw empty_state bs2) = [(1%N, 20%Z, 2%N); (2%N, 15%Z, 3%N)].
Proof.
  cbv zeta. split; [apply inv_empty|].
  split; [intros b Hb v Hv; cbn in Hb; unfold ts_ok;
          repeat (destruct Hb as [Hb|Hb]; [subst b; cbn in Hv; repeat (destruct Hv as [Hv|Hv]; [subst v; cbn; lia|]); destruct Hv|]);
          destruct Hb|].
  split; [intros b Hb v Hv; cbn in Hb; unfold ts_ok;
          repeat (destruct Hb as [Hb|Hb]; [subst b; cbn in Hv; repeat (destruct Hv as [Hv|Hv]; [subst v; cbn; lia|]); destruct Hv|]);
          destruct Hb|].
  split; [intros v; cbn; tauto|].
  split; [|vm_compute; reflexivity].
  intros a b Ha Hb _ _ He Ht. cbn in Ha, Hb.
  repeat (destruct Ha as [Ha|Ha]; [subst a|]); try destruct Ha;
    repeat (destruct Hb as [Hb|Hb]; [subst b|]); try destruct Hb;
    try reflexivity; cbn in He, Ht; discriminate.
Qed.

Example c12_fault_nonvacuous :
  let st := fst (set_raw FNone empty_state [ex_v1]) in
  inv st /\ snd (set_raw FHead st [ex_v2; ex_v3]) = false /\
  (* the index really was touched before being undone: a commit would have changed it *)
  st_index (fst (set_raw FNone st [ex_v2; ex_v3])) <> st_index st /\
  fst (set_raw (FUpsert 1) st [ex_v2; ex_v3]) = st /\ snd (set_raw (FUpsert 2) st [ex_v2; ex_v3]) = true.
Proof.
  cbv zeta. split.
  - apply set_raw_none_inv; [apply inv_empty|]. intros v [H|[]]. subst v. unfold ts_ok. cbn. lia.
  - split; [vm_compute; reflexivity|]. split; [vm_compute; discriminate|]. split; vm_compute; reflexivity.
Qed.

Example c12_sync_nonvacuous :
  let a := fst (set_raw FNone empty_state [ex_v1; ex_v3]) in
  let b := fst (set_raw FNone empty_state [ex_v2]) in
  a <> b /\ contents_of (fst (sync_exchange a b)) = [(1%N, 20%Z, 2%N); (2%N, 15%Z, 3%N)] /\
  fst (sync_exchange a b) = snd (sync_exchange a b).
Proof. cbv zeta. split; [vm_compute; discriminate|]. split; vm_compute; reflexivity. Qed.

(* streamed exchange with chunks of 2: three values are pulled newest-first (slots 1, 2, 4), applied by two SetRaw
   calls; one value is pushed; both ends are equal afterwards *)
Definition ex_v4 := mkValue 6 4 4 12 true true true true true.      (* slot 4, t=12 *)
Definition ex_v5 := mkValue 7 5 5 11 true true true true true.      (* slot 5, t=11 *)

Example c12_sync_stream_nonvacuous :
  let a := fst (set_raw FNone empty_state [ex_v1; ex_v5]) in
  let b := fst (set_raw FNone empty_state [ex_v4; ex_v2; ex_v3]) in
  inv a /\ inv b /\ a <> b /\
  newest_first (st_index b) (push_ids (st_index b) (st_index a)) = [1%N; 2%N; 4%N] /\
  stream_apply 2 a [] [ex_v2; ex_v3; ex_v4] = fst (set_raw FNone (fst (set_raw FNone a [ex_v2; ex_v3])) [ex_v4]) /\
  contents_of (fst (sync_exchange_stream 2 a b)) =
    [(1%N, 20%Z, 2%N); (2%N, 15%Z, 3%N); (4%N, 12%Z, 6%N); (5%N, 11%Z, 7%N)] /\
  fst (sync_exchange_stream 2 a b) = snd (sync_exchange_stream 2 a b).
Proof.
  cbv zeta.
  assert (Hok : forall l, (forall v, In v l -> In v [ex_v1; ex_v2; ex_v3; ex_v4; ex_v5]) -> batch_ok l).
  { intros l Hl v Hv. specialize (Hl v Hv). unfold ts_ok. cbn in Hl.
    repeat (destruct Hl as [Hl|Hl]; [subst v; cbn; lia|]). destruct Hl. }
  split; [apply set_raw_none_inv; [apply inv_empty | apply Hok; cbn; tauto]|].
  split; [apply set_raw_none_inv; [apply inv_empty | apply Hok; cbn; tauto]|].
  split; [vm_compute; discriminate|]. repeat split; vm_compute; reflexivity.
Qed.

Example c12_spec_nonvacuous :
  (* the predicate is not trivially true: it rejects a stale winner, a forged slot, an unauthorised writer,
     a missing slot and an index that is not the image *)
  spec_C12 [ex_v1; ex_v2] (mkObs [(1%N, 10%Z, 1%N)] [(1%N, 10%N)] true true) = false /\
  spec_C12 [ex_relabel] (mkObs [(7%N, 15%Z, 3%N)] [(7%N, 15%N)] true true) = false /\
  spec_C12 [ex_noperm] (mkObs [(3%N, 30%Z, 5%N)] [(3%N, 30%N)] true true) = false /\
  spec_C12 [ex_v1; ex_v3] (mkObs [(1%N, 10%Z, 1%N)] [(1%N, 10%N)] true true) = false /\
  spec_C12 [ex_v1] (mkObs [(1%N, 10%Z, 1%N)] [] true true) = false /\
  spec_C12 [ex_v1; ex_v2] (mkObs [(1%N, 20%Z, 2%N)] [(1%N, 20%N)] true true) = true.
Proof. repeat split; vm_compute; reflexivity. Qed.

(* ---- the unrepaired tree (set_raw_legacy) violates authenticity: findings F11, F12 -------------------------- *)

(* F11: a validly signed value relabelled in the unsigned envelope is stored under the forged slot *)
Example c12_slot_binding_legacy_refuted :
  exists v, sm_get (st_store (fst (set_raw_legacy FNone empty_state [v]))) 7%N = Some v /\ v_signed v <> 7%N
            /\ sm_get (st_store (fst (set_raw FNone empty_state [v]))) 7%N = None.
Proof. exists ex_relabel. split; [vm_compute; reflexivity|]. split; [vm_compute; discriminate | vm_compute; reflexivity]. Qed.

(* F12: a value signed by an account without write permission at the (known) cited record is stored *)
Example c12_permission_legacy_refuted :
  exists v, sm_get (st_store (fst (set_raw_legacy FNone empty_state [v]))) 3%N = Some v /\ v_write v = false
            /\ sm_get (st_store (fst (set_raw FNone empty_state [v]))) 3%N = None.
Proof. exists ex_noperm. split; [vm_compute; reflexivity|]. split; vm_compute; reflexivity. Qed.

(* ---- outside the timestamp guard ----------------------------------------------------------------------------- *)

(* Negative timestamps: SetRaw's pre-filter compares big-endian uint64 heads (unsigned), updateValues compares
   signed: the two arrival orders of t=-1 and t=5 end differently (also in the repaired tree). *)
Example c12_negative_ts_refuted :
  exists v1 v2, valid v1 = true /\ valid v2 = true /\
    contents_of (run_raw empty_state [[v1]; [v2]]) <> contents_of (run_raw empty_state [[v2]; [v1]]).
Proof.
  exists (mkValue 1 1 1 (-1) true true true true true), (mkValue 2 1 1 5 true true true true true).
  split; [reflexivity|]. split; [reflexivity|]. vm_compute. discriminate.
Qed.
