(* C17 — Pub/sub delivers exactly to matching member subscriptions and leaks no state.
   Only property theorems (closed by [exact]), non-vacuity examples and [Print Assumptions].
   Models: Model/Trie.v, Model/PubSub.v, Model/PubSubClient.v; proofs: Proofs/Trie*.v, Proofs/PubSub*.v. *)
From Coq Require Import List NArith Bool Arith.
Import ListNotations.
From AnySync Require Import Model.Trie Proofs.TrieProofs Proofs.TrieValidate.

(* ---- the pattern trie ------------------------------------------------------------------------ *)

(* After ANY sequence of Add/Remove (any strings, any order, removes of absent patterns included) the
   result of Match on ANY topic string is, as a duplicate-free list, exactly the set of patterns whose
   reference count is positive and that match the topic by the rule ('*' one segment, trailing '>' one
   or more).  [refcount ops 0 p] = number of Add p minus Remove p, never below 0. *)
Theorem c17_trie_sound_complete : forall ops topic,
  let t := trie_exec trie_empty ops in
  NoDup (trie_match t topic)
  /\ forall p, In p (trie_match t topic) <->
       ((0 < refcount ops 0 p)%N /\ matches (split_topic p) (split_topic topic) = true).
Proof. exact trie_match_exact. Qed.
Print Assumptions c17_trie_sound_complete.

Example c17_trie_sound_complete_nonvacuous :
  let a := 97%N in let b := 98%N in
  let ops := [TAdd [a; SLASH; STAR]; TAdd [a; SLASH; GT]; TAdd [a; SLASH; STAR]; TAdd [b];
              TRemove [a; SLASH; STAR]; TRemove [b]] in
  trie_match (trie_exec trie_empty ops) [a; SLASH; b] = [[a; SLASH; GT]; [a; SLASH; STAR]]
  /\ refcount ops 0 [a; SLASH; STAR] = 1%N /\ refcount ops 0 [b] = 0%N.
Proof. vm_compute. repeat split. Qed.

(* on validated input the segmentation used above is the plain split at '/' of the rule *)
Theorem c17_valid_split : forall s,
  (validate_pattern s = true -> split_topic s = full_split s)
  /\ (validate_topic s = true -> split_topic s = full_split s).
Proof. exact (fun s => conj (valid_pattern_split s) (valid_topic_split s)). Qed.
Print Assumptions c17_valid_split.

(* all reference counts zero => the trie is structurally the empty trie (no node left) and Len = 0 *)
Theorem c17_trie_prunes : forall ops,
  (forall p, refcount ops 0 p = 0%N) ->
  root (trie_exec trie_empty ops) = Node [] [] 0 /\ trie_len (trie_exec trie_empty ops) = 0%N.
Proof. exact trie_prunes. Qed.
Print Assumptions c17_trie_prunes.

Example c17_trie_prunes_nonvacuous :
  let a := 97%N in let b := 98%N in
  let ops := [TAdd [a; SLASH; b; SLASH; a]; TAdd [a; SLASH; b]; TAdd [a; SLASH; GT]; TRemove [a; SLASH; b];
              TRemove [a; SLASH; GT]; TRemove [a; SLASH; b; SLASH; a]; TRemove [a]] in
  trie_exec trie_empty ops = trie_empty
  /\ trie_is_empty (trie_exec trie_empty (firstn 5 ops)) = false.
Proof. vm_compute. split; reflexivity. Qed.

(* Len() is the number of distinct patterns with a positive reference count *)
Theorem c17_trie_len : forall ops,
  exists L, NoDup L /\ (forall p, In p L <-> (0 < refcount ops 0 p)%N)
            /\ trie_len (trie_exec trie_empty ops) = N.of_nat (length L).
Proof. exact trie_len_counts. Qed.
Print Assumptions c17_trie_len.

(* ---- validators ------------------------------------------------------------------------------ *)

(* ValidateTopic / ValidatePattern accept exactly the canonical domain: the string, split at EVERY '/',
   has 1..16 segments, every segment non-empty; topics: no '*' or '>' byte anywhere; patterns: a segment
   is "*", or ">" in last position, or wildcard-free; at most 256 bytes in total. *)
Theorem c17_validate_iff : forall s,
  validate_topic s = spec_valid_topic s /\ validate_pattern s = spec_valid_pattern s.
Proof. exact (fun s => conj (validate_topic_iff s) (validate_pattern_iff s)). Qed.
Print Assumptions c17_validate_iff.

Example c17_validate_iff_nonvacuous :
  let a := 97%N in
  validate_topic [a; SLASH; a] = true /\ validate_topic [a; SLASH; STAR] = false
  /\ validate_pattern [a; SLASH; STAR; SLASH; GT] = true /\ validate_pattern [GT; SLASH; a] = false
  /\ validate_pattern [a; SLASH; SLASH; a] = false
  /\ validate_topic (concat (repeat [a; SLASH] 15) ++ [a]) = true
  /\ validate_topic (concat (repeat [a; SLASH] 16) ++ [a]) = false
  /\ validate_topic (repeat a 256) = true /\ validate_topic (repeat a 257) = false.
Proof. vm_compute. repeat split. Qed.

(* the model's validators satisfy the executable property predicate that is applied to the real ones *)
Theorem c17_model_satisfies_spec_validate : forall s,
  spec_C17_validate s (validate_topic s) (validate_pattern s) = true.
Proof. exact validate_model_spec. Qed.
Print Assumptions c17_model_satisfies_spec_validate.

(* ---- serving side: the defect found by the declarative predicate, and its repair ------------------- *)
From AnySync Require Import Model.PubSub.

Definition c17_leak_witness : list ev :=
  [EOpen 1 0; ESetMember 0 0 true; ESetMember 1 0 true;
   ESub 1 0 []; ESub 1 1 [[97%N]]; EUnsub 1 1 [[97%N]]; EClose 1; ESnap].
Definition c17_leak_cfg : cfg := mkCfg 100 1000 1000 [0%N; 1%N] [] [[120%N]].

(* The code before fixes/C17-empty-subscribe-leak.patch violates "leaks no state": a Subscribe with no
   topics leaves an empty trie in [remote] that survives the close of the stream. *)
Theorem c17_teardown_legacy_refuted :
  exists c evs, spec_C17_svc c evs (svc_run_gen false c svc_init evs) = false
                /\ last (svc_run_gen false c svc_init evs) ONone = OSnap [(0%N, (0%N, true))] [] [].
Proof. exists c17_leak_cfg, c17_leak_witness. vm_compute. split; reflexivity. Qed.
Print Assumptions c17_teardown_legacy_refuted.

Example c17_teardown_repaired_witness :
  spec_C17_svc c17_leak_cfg c17_leak_witness (svc_run c17_leak_cfg svc_init c17_leak_witness) = true
  /\ last (svc_run c17_leak_cfg svc_init c17_leak_witness) ONone = OSnap [] [] [].
Proof. vm_compute. split; reflexivity. Qed.

(* a non-trivial history on which the repaired model meets the predicate: delivery to exactly the matching
   subscriber, once, with a forward; relayed input not forwarded; teardown leaves nothing *)
Example c17_service_nonvacuous :
  let a := 97%N in let b := 98%N in
  let c := mkCfg 100 1000 1000 [0%N] [3%N] [[120%N]; [121%N]] in
  let evs := [EOpen 1 0; EOpen 2 1; EOpen 3 1; ESetMember 0 0 true; ESetMember 0 1 true;
              ESub 1 0 [[a; SLASH; STAR]; [a; SLASH; GT]]; ESub 2 0 [[b]];
              EPub 2 0 [a; SLASH; b] 2 false true; EPub 3 0 [a; SLASH; b] 2 true true;
              EPub 2 0 [a; SLASH; b] 1 false true; ESnap; EUnsub 1 0 []; EClose 2; ESnap] in
  svc_run c svc_init evs =
    [ONone; ONone; ONone; ONone; ONone; ONone; ONone;
     OPub [1%N] None true; OPub [1%N] None false; OPub [] (Some InvalidMessage) false;
     OSnap [(0%N, (3%N, false))]
           [(1%N, (0%N, 2%N, [(0%N, [[a; SLASH; STAR]; [a; SLASH; GT]])])); (2%N, (1%N, 1%N, [(0%N, [[b]])]))]
           [(1%N, [(0%N, [a; SLASH; STAR]); (0%N, [a; SLASH; GT])]); (2%N, [(0%N, [b])]); (3%N, [])];
     ONone; ONone; OSnap [] [] [(1%N, []); (3%N, [])]]
  /\ spec_C17_svc c evs (svc_run c svc_init evs) = true.
Proof. vm_compute. split; reflexivity. Qed.

(* ---- serving-side bookkeeping (Model/PubSub.v; proofs in Proofs/PubSub{Base,Inv,Step,Step2,Thm,Sub,Spec}.v) ---- *)
(* All theorems below quantify over EVERY configuration and EVERY event sequence (open / subscribe /
   unsubscribe / publish direct+relayed+malformed / close / break / evict / revalidate / close-space /
   set-member / snapshot / a Subscribe during which a stream leaves the pool (ESubMid), any strings).  The only hypothesis is [fresh_opens evs]: a stream id is opened
   at most once (the pool allocates ids from a counter).
   Vocabulary: [has s sid space p]  — p is in bySpace[space] of the stream record of sid (the registered
   interest); tags are [sv_pool s]; the space tries are [sv_remote s].

   The monolithic statement (the model's outputs satisfy the declarative predicate that is applied to
   the real service's observed outputs on every run) is c17_model_satisfies_spec_svc; its
   property-language content is c17_views_agree / c17_delivery_exact / c17_subscribe_registers /
   c17_withdraw_step / c17_teardown_*. *)
From AnySync Require Import Model.PubSub Proofs.PubSubInv Proofs.PubSubThm Proofs.PubSubSub Proofs.PubSubSpec.

(* for every configuration and every event sequence, the serving-side model satisfies the executable
   property predicate (every snapshot: tags = per-stream record = trie contribution = the registered set;
   every Subscribe reply; every publish: delivered exactly to the pooled streams with a matching
   registered pattern iff the ingress checks pass, once per stream, forwarded iff accepted and direct) *)
Theorem c17_model_satisfies_spec_svc : forall c evs, fresh_opens evs ->
  spec_C17_svc c evs (svc_run c svc_init evs) = true.
Proof. exact model_satisfies_spec_svc. Qed.
Print Assumptions c17_model_satisfies_spec_svc.

(* the hypothesis is needed: re-opening a live stream id (which the pool never does) resets its tags while
   its record stays, and the predicate rejects the next snapshot *)
Example c17_model_satisfies_spec_svc_needs_fresh :
  let c := mkCfg 100 1000 1000 [0%N] [] [[120%N]] in
  let evs := [EOpen 1 0; ESetMember 0 0 true; ESub 1 0 [[97%N]]; EOpen 1 0; ESnap] in
  spec_C17_svc c evs (svc_run c svc_init evs) = false /\ ~ fresh_opens evs.
Proof.
  cbv zeta. split; [vm_compute; reflexivity|]. unfold fresh_opens. cbn [opens]. intros H. inversion H as [|x l Hn _]; subst.
  apply Hn. left. reflexivity.
Qed.

(* (a) the three views of interest agree after any history: tag <-> per-stream record; the record exists
   only for a pooled stream under its handshake account, is never empty, total = number of patterns;
   record <-> exactly one reference in the space trie (the terminal node of p counts the stream records
   holding p); a trie exists iff some stream has interest in the space, is non-empty, and its Len is the
   number of distinct registered patterns. *)
Theorem c17_views_agree : forall c evs, fresh_opens evs ->
  let s := svc_exec c svc_init evs in
  forall sid space p,
  (forall tags, nassoc sid (sv_pool s) = Some tags ->
     NoDup tags /\ (In (space, p) tags <-> has s sid space p = true))
  /\ (forall st, nassoc sid (sv_streams s) = Some st ->
        in_pool s sid = true /\ nassoc sid (sv_conns s) = Some (ss_account st)
        /\ ss_by st <> [] /\ ss_total st = N.of_nat (tot (ss_by st))
        /\ (forall sp l, nassoc sp (ss_by st) = Some l -> l <> [] /\ NoDup l))
  /\ match nassoc space (sv_remote s) with
     | Some tr =>
         refs_at (root tr) (split_topic p)
           = N.of_nat (length (filter (fun e => st_has (snd e) space p) (sv_streams s)))
         /\ trie_is_empty tr = false
         /\ exists L, NoDup L /\ (forall q, In q L <-> exists sid', has s sid' space q = true)
                      /\ trie_len tr = N.of_nat (length L) /\ L <> []
     | None => forall sid' q, has s sid' space q = false
     end
  /\ NoDup (map fst (sv_streams s)) /\ NoDup (map fst (sv_pool s)).
Proof. exact views_agree. Qed.
Print Assumptions c17_views_agree.

(* what a snapshot event reports is exactly these three views of the reached state *)
Theorem c17_snapshot_shows_views : forall c evs,
  let s := svc_exec c svc_init evs in
  last (svc_run c svc_init (evs ++ [ESnap])) ONone
  = OSnap (map (fun e => (fst e, (trie_len (snd e), trie_is_empty (snd e)))) (sv_remote s))
          (map (fun e => (fst e, (ss_account (snd e), ss_total (snd e), ss_by (snd e)))) (sv_streams s))
          (sv_pool s).
Proof. exact snapshot_last. Qed.

(* (b) delivery is exact.  A Publish frame arriving (after any history) on a stream whose read loop runs
   under handshake account [acct] is written to stream sigma IFF the ingress checks pass
   ([ingress]: well-formed frame, canonical topic, responsible node; relayed: sender is a responsible
   node; direct: message identity = handshake identity, member, owner of an acc/ topic, token available)
   AND sigma is pooled AND some currently registered pattern of sigma in that space matches the topic by
   the rule; at most one copy per stream; forwarded to the other nodes iff accepted and not relayed. *)
Theorem c17_delivery_exact : forall c evs, fresh_opens evs ->
  let s := svc_exec c svc_init evs in
  forall sid acct space topic claim relayed wf,
  nassoc sid (sv_conns s) = Some acct ->
  exists delivered status forwarded,
    last (svc_run c svc_init (evs ++ [EPub sid space topic claim relayed wf])) ONone
      = OPub delivered status forwarded
    /\ NoDup delivered
    /\ (forall sigma, In sigma delivered <->
          (ingress c s sid acct space topic claim relayed wf = true
           /\ in_pool s sigma = true
           /\ exists p, has s sigma space p = true /\ spec_matches p topic = true))
    /\ forwarded = (ingress c s sid acct space topic claim relayed wf && negb relayed)
    /\ (relayed = true -> forwarded = false).
Proof. exact delivery_exact. Qed.
Print Assumptions c17_delivery_exact.

(* non-vacuity of (a)/(b): a reachable state with two subscribers; an accepted direct publish (ingress
   true) is delivered to exactly the matching one and forwarded; the same frame relayed by a non-node,
   or with a foreign identity, passes no ingress check and reaches nobody *)
Example c17_delivery_exact_nonvacuous :
  let a := 97%N in let b := 98%N in
  let c := mkCfg 100 1000 1000 [0%N] [3%N] [[120%N]; [121%N]] in
  let evs := [EOpen 1 0; EOpen 2 1; EOpen 3 1; ESetMember 0 0 true; ESetMember 0 1 true;
              ESub 1 0 [[a; SLASH; STAR]; [a; SLASH; GT]]; ESub 2 0 [[b]]] in
  let s := svc_exec c svc_init evs in
  fresh_opens evs
  /\ nassoc 2%N (sv_conns s) = Some 1%N
  /\ ingress c s 2 1 0 [a; SLASH; b] 2 false true = true
  /\ ingress c s 2 1 0 [a; SLASH; b] 1 false true = false
  /\ ingress c s 2 1 0 [a; SLASH; b] 2 true true = false
  /\ has s 1 0 [a; SLASH; STAR] = true /\ has s 2 0 [a; SLASH; STAR] = false
  /\ spec_matches [a; SLASH; STAR] [a; SLASH; b] = true
  /\ last (svc_run c svc_init (evs ++ [EPub 2 0 [a; SLASH; b] 2 false true])) ONone = OPub [1%N] None true
  /\ nassoc 1%N (sv_pool s) = Some [(0%N, [a; SLASH; STAR]); (0%N, [a; SLASH; GT])].
Proof.
  cbv zeta. split; [|vm_compute; repeat split; reflexivity].
  unfold fresh_opens. cbn [opens]. repeat constructor; cbn [In]; intros H; repeat destruct H as [H|H]; try discriminate; exact H.
Qed.

(* the registered interest grows only by Subscribe: nothing is lost, only requested patterns of an
   eligible (running read loop, responsible node, valid patterns, member) and still pooled subscriber are
   added, to its own stream and space; every requested pattern is registered unless reported back *)
Theorem c17_subscribe_registers : forall c evs sid space pats, fresh_opens evs ->
  let s := svc_exec c svc_init evs in
  let s' := fst (handle_sub c s sid space pats) in
  let o := snd (handle_sub c s sid space pats) in
  (forall sigma sp0 q, has s sigma sp0 q = true -> has s' sigma sp0 q = true)
  /\ (forall sigma sp0 q, has s' sigma sp0 q = true -> has s sigma sp0 q = true
        \/ (sigma = sid /\ sp0 = space /\ In q pats /\ in_pool s sid = true /\ sub_eligible c s sid space pats = true))
  /\ (in_pool s sid = true -> sub_eligible c s sid space pats = true ->
      forall q, In q pats ->
        has s' sid space q = true \/ exists rejected, o = OStatus TooManyTopics rejected /\ In q rejected).
Proof. exact (fun c evs sid space pats H => has_sub c _ sid space pats (reachable_inv c evs H)). Qed.
Print Assumptions c17_subscribe_registers.

(* the subscribe/close race.  [ESubMid sid victim space pats] is the schedule "stream [victim] is removed from
   the pool while the Subscribe handler of [sid] sits between the recording of the interest and
   pool.AddTagsCtx" (if the handler makes no pool call, right after it), modelled by the lock regions of the
   code: pool.mu region of removeStream, remoteMu region of handleSubscribe (AddTagsCtx fails and the interest
   is rolled back if victim = sid), remoteMu region of the close hook.  After ANY history such an event leaves
   exactly the registered interest of "the Subscribe, then the removal of victim", un-pools exactly the
   victim, and — when the subscribing stream itself is the one that goes away — registers nothing and leaves
   every other stream's interest exactly as it was (however many patterns it shared with the victim).
   Since [ESubMid] is an event like any other, c17_model_satisfies_spec_svc / c17_views_agree /
   c17_delivery_exact / c17_teardown_* cover the states after such races as well. *)
Theorem c17_subscribe_close_race : forall c evs sid victim space pats, fresh_opens evs ->
  let s := svc_exec c svc_init evs in
  let s' := svc_exec c svc_init (evs ++ [ESubMid sid victim space pats]) in
  (forall sigma sp0 q,
     has s' sigma sp0 q = has (fst (handle_sub c s sid space pats)) sigma sp0 q && negb (N.eqb sigma victim))
  /\ (forall x, in_pool s' x = in_pool s x && negb (N.eqb x victim))
  /\ (victim = sid -> forall sigma sp0 q, has s' sigma sp0 q = has s sigma sp0 q && negb (N.eqb sigma sid)).
Proof. exact subscribe_close_race. Qed.
Print Assumptions c17_subscribe_close_race.

(* non-vacuity: stream 2 holds a/>; stream 1 subscribes to the same pattern (and another one) and leaves the pool
   before its tags are registered; a publish on a/b still reaches stream 2 and the snapshot shows stream 2's
   record, tag and trie entry (Len 1) in agreement; later stream 2 is removed during a Subscribe of stream 3.
   The predicate REJECTS the outputs of an implementation in which the roll-back withdraws the shared pattern
   a second time (nothing delivered, space trie gone while stream 2's record and tag remain). *)
Example c17_subscribe_close_race_nonvacuous :
  let a := 97%N in let b := 98%N in
  let c := mkCfg 100 1000 1000 [0%N] [] [[120%N]; [121%N]; [122%N]] in
  let evs := [EOpen 1 0; EOpen 2 1; EOpen 3 2; ESetMember 0 0 true; ESetMember 0 1 true; ESetMember 0 2 true;
              ESub 2 0 [[a; SLASH; GT]]; ESubMid 1 1 0 [[a; SLASH; GT]; [b]]; EPub 3 0 [a; SLASH; b] 3 false true; ESnap;
              ESub 1 0 [[b]]; ESubMid 3 2 0 [[a; SLASH; GT]]; EPub 3 0 [a; SLASH; b] 3 false true; ESnap] in
  let snap2 := OSnap [(0%N, (1%N, false))] [(2%N, (1%N, 1%N, [(0%N, [[a; SLASH; GT]])]))]
                     [(2%N, [(0%N, [a; SLASH; GT])]); (3%N, [])] in
  let tail := [ONone; ONone; OPub [3%N] None true;
               OSnap [(0%N, (1%N, false))] [(3%N, (2%N, 1%N, [(0%N, [[a; SLASH; GT]])]))] [(3%N, [(0%N, [a; SLASH; GT])])]] in
  let pre := [ONone; ONone; ONone; ONone; ONone; ONone; ONone; ONone] in
  svc_run c svc_init evs = pre ++ [OPub [2%N] None true; snap2] ++ tail
  /\ spec_C17_svc c evs (svc_run c svc_init evs) = true
  /\ spec_C17_svc c evs (pre ++ [OPub [] None true; snap2] ++ tail) = false
  /\ spec_C17_svc c evs (pre ++ [OPub [2%N] None true;
                                 OSnap [] [(2%N, (1%N, 1%N, [(0%N, [[a; SLASH; GT]])]))]
                                       [(2%N, [(0%N, [a; SLASH; GT])]); (3%N, [])]] ++ tail) = false.
Proof. vm_compute. repeat split; reflexivity. Qed.

(* delivery does not depend on the publisher's stream staying alive.  [EPubMid sid space topic claim relayed wf] is
   the schedule "the frame has been read; the publisher's stream context is cancelled, the pool drops the stream
   and its close hook runs at the first lookup the handler makes on the publisher's behalf (CheckMember /
   IsResponsibleNode) — or right after the handler if it makes none"; the handler then carries on with the frame.
   After ANY history such a Publish is written to every OTHER stream sigma IFF the ingress checks pass (evaluated on
   the state in which the frame was read) AND sigma is pooled AND a registered pattern of sigma matches; one copy per
   stream; forwarded iff accepted and direct; afterwards exactly the publisher's interest and pool entry are gone.
   [EPubMid] is an event like any other, so c17_model_satisfies_spec_svc (whose predicate accepts for such an event
   only the outcome of the same Publish handled just after or just before the publisher left the pool),
   c17_views_agree, c17_delivery_exact and c17_teardown_* cover histories containing it. *)
Theorem c17_publish_survives_publisher_loss : forall c evs sid acct space topic claim relayed wf, fresh_opens evs ->
  let s := svc_exec c svc_init evs in
  let s' := svc_exec c svc_init (evs ++ [EPubMid sid space topic claim relayed wf]) in
  nassoc sid (sv_conns s) = Some acct ->
  (exists delivered status forwarded,
    last (svc_run c svc_init (evs ++ [EPubMid sid space topic claim relayed wf])) ONone
      = OPub delivered status forwarded
    /\ NoDup delivered
    /\ (forall sigma, sigma <> sid ->
          (In sigma delivered <->
             (ingress c s sid acct space topic claim relayed wf = true
              /\ in_pool s sigma = true
              /\ exists p, has s sigma space p = true /\ spec_matches p topic = true)))
    /\ forwarded = (ingress c s sid acct space topic claim relayed wf && negb relayed))
  /\ (forall sigma sp0 q, has s' sigma sp0 q = has s sigma sp0 q && negb (N.eqb sigma sid))
  /\ (forall x, in_pool s' x = in_pool s x && negb (N.eqb x sid)).
Proof. exact publish_survives_publisher_loss. Qed.
Print Assumptions c17_publish_survives_publisher_loss.

(* non-vacuity: streams 1, 2 and the publisher 3 itself hold a/>; stream 3 publishes on a/b and goes away while the
   frame is handled: streams 1 and 2 get the message, it is forwarded, stream 3 is gone from all three views; a relayed
   publish of node stream 4 that goes away likewise reaches 1 and 2.  The predicate REJECTS "delivered to nobody",
   "delivered to a prefix of the matching streams" and "not forwarded". *)
Example c17_publish_survives_publisher_loss_nonvacuous :
  let a := 97%N in let b := 98%N in
  let c := mkCfg 100 1000 1000 [0%N] [4%N] [[120%N]; [121%N]; [122%N]] in
  let evs := [EOpen 1 0; EOpen 2 1; EOpen 3 2; EOpen 4 2; ESetMember 0 0 true; ESetMember 0 1 true; ESetMember 0 2 true;
              ESub 1 0 [[a; SLASH; GT]]; ESub 2 0 [[a; SLASH; GT]]; ESub 3 0 [[a; SLASH; GT]];
              EPubMid 3 0 [a; SLASH; b] 3 false true; ESnap; EPubMid 4 0 [a; SLASH; b] 3 true true] in
  let pre := [ONone; ONone; ONone; ONone; ONone; ONone; ONone; ONone; ONone; ONone] in
  let snap := OSnap [(0%N, (1%N, false))]
                    [(1%N, (0%N, 1%N, [(0%N, [[a; SLASH; GT]])])); (2%N, (1%N, 1%N, [(0%N, [[a; SLASH; GT]])]))]
                    [(1%N, [(0%N, [a; SLASH; GT])]); (2%N, [(0%N, [a; SLASH; GT])]); (4%N, [])] in
  fresh_opens evs
  /\ svc_run c svc_init evs = pre ++ [OPub [1%N; 2%N] None true; snap; OPub [1%N; 2%N] None false]
  /\ spec_C17_svc c evs (svc_run c svc_init evs) = true
  /\ spec_C17_svc c evs (pre ++ [OPub [1%N; 2%N; 3%N] None true; snap; OPub [1%N; 2%N] None false]) = true
  /\ spec_C17_svc c evs (pre ++ [OPub [] None true; snap; OPub [1%N; 2%N] None false]) = false
  /\ spec_C17_svc c evs (pre ++ [OPub [1%N] None true; snap; OPub [1%N; 2%N] None false]) = false
  /\ spec_C17_svc c evs (pre ++ [OPub [1%N; 2%N] None false; snap; OPub [1%N; 2%N] None false]) = false
  /\ spec_C17_svc c evs (pre ++ [OPub [1%N; 2%N] None true; snap; OPub [] None false]) = false.
Proof.
  cbv zeta. split; [|vm_compute; repeat split; reflexivity].
  unfold fresh_opens. cbn [opens]. repeat constructor; cbn [In]; intros H; repeat destruct H as [H|H]; try discriminate; exact H.
Qed.

(* every other event only removes interest, and removes what it is meant to remove ([withdraws]:
   Unsubscribe of the pattern / of all, Close or Break of the stream, Evict of the stream's account,
   Revalidate while the account is not a member, CloseSpace) *)
Theorem c17_withdraw_step : forall c evs e, fresh_opens (evs ++ [e]) -> is_sub e = false ->
  let s := svc_exec c svc_init evs in
  let s' := svc_exec c svc_init (evs ++ [e]) in
  (forall sigma sp q, has s' sigma sp q = true -> has s sigma sp q = true)
  /\ (forall sigma sp q, withdraws s e sigma sp q -> has s' sigma sp q = false).
Proof. exact withdraw_step. Qed.
Print Assumptions c17_withdraw_step.

(* (c) teardown.  No registered interest left  =>  no trie, no stream record, no interest tag. *)
Theorem c17_teardown_empty : forall c evs, fresh_opens evs ->
  let s := svc_exec c svc_init evs in
  (forall sid sp p, has s sid sp p = false) ->
  sv_remote s = [] /\ sv_streams s = [] /\ forall sid tags, nassoc sid (sv_pool s) = Some tags -> tags = [].
Proof. exact teardown_no_interest. Qed.
Print Assumptions c17_teardown_empty.

(* ... in any order: after ANY history, a tail without Subscribe in which every registered interest is
   withdrawn by SOME event (anywhere in the tail, interleaved with anything) leaves all three views empty *)
Theorem c17_teardown_any_order : forall c evs tail,
  fresh_opens (evs ++ tail) ->
  forallb (fun e => negb (is_sub e)) tail = true ->
  (forall sigma sp q, has (svc_exec c svc_init evs) sigma sp q = true ->
     exists pre e post, tail = pre ++ e :: post
                        /\ withdraws (svc_exec c svc_init (evs ++ pre)) e sigma sp q) ->
  let s := svc_exec c svc_init (evs ++ tail) in
  sv_remote s = [] /\ sv_streams s = [] /\ forall sid tags, nassoc sid (sv_pool s) = Some tags -> tags = [].
Proof. exact teardown_any_order. Qed.
Print Assumptions c17_teardown_any_order.

(* non-vacuity of the any-order teardown: two streams, two spaces, overlapping patterns; withdrawn by an
   unsubscribe-all, a CloseSpace and a stream close, interleaved with a publish and a snapshot *)
Example c17_teardown_any_order_nonvacuous :
  let a := 97%N in let b := 98%N in
  let c := mkCfg 100 1000 1000 [0%N; 1%N] [] [[120%N]; [121%N]] in
  let evs := [EOpen 1 0; EOpen 2 1; ESetMember 0 0 true; ESetMember 0 1 true; ESetMember 1 1 true;
              ESub 1 0 [[a; SLASH; STAR]; [b]]; ESub 2 0 [[a; SLASH; STAR]]; ESub 2 1 [[GT]]] in
  let tail := [EClose 2; EPub 1 0 [b] 1 false true; EUnsub 1 0 []; ESnap; ECloseSpace 1] in
  fresh_opens (evs ++ tail)
  /\ has (svc_exec c svc_init evs) 1 0 [b] = true /\ has (svc_exec c svc_init evs) 2 1 [GT] = true
  /\ map fst (sv_remote (svc_exec c svc_init evs)) = [0%N; 1%N]
  /\ last (svc_run c svc_init (evs ++ tail ++ [ESnap])) ONone = OSnap [] [] [(1%N, [])].
Proof.
  cbv zeta. split; [|vm_compute; repeat split; reflexivity].
  unfold fresh_opens. cbn [app opens]. repeat constructor; cbn [In]; intros H; repeat destruct H as [H|H]; try discriminate; exact H.
Qed.

(* ---- client receive chain (Model/PubSubClient.v; proofs: Proofs/PubSubClient.v, Proofs/PubSubClientSpec.v) ---- *)
(* "forged, replayed or stale messages never reach a handler": handlePublish (client role) / receivePublish /
   isStale / sign.go / dedup.go.  Signatures are symbolic ([SigOf k d] = made with the key of account k over
   the bytes d; unforgeability is the assumption this abstraction embodies). *)
From Coq Require Import ZArith.
From AnySync Require Import Model.PubSubClient Proofs.PubSubClient.

(* The signed byte string is uniquely decodable: "anysync:pubsub:v1" ++ four fields each prefixed with its
   length as 4 little-endian bytes ++ 8 little-endian bytes of the timestamp ++ payload.
   Hypotheses (visible): the four variable-length fields are shorter than 2^32 bytes (Go truncates
   uint32(len f)) and the timestamp is an int64. *)
Theorem c17_signdata_injective : forall m1 m2,
  short_msg m1 -> short_msg m2 -> sign_data m1 = sign_data m2 ->
  m_space m1 = m_space m2 /\ m_topic m1 = m_topic m2 /\ m_id m1 = m_id m2 /\ m_key m1 = m_key m2
  /\ m_ts m1 = m_ts m2 /\ m_payload m1 = m_payload m2.
Proof. exact signdata_injective. Qed.
Print Assumptions c17_signdata_injective.

Example c17_signdata_injective_nonvacuous :
  let m := mkMsg [115; 97]%N [98]%N (repeat 7%N 16) [] 1790000000000%Z [1; 200]%N (Some 1%N) (SigJunk 0) in
  let m' := mkMsg [115]%N [97; 98]%N (repeat 7%N 16) [] 1790000000000%Z [1; 200]%N (Some 1%N) (SigJunk 0) in
  short_msg m /\ short_msg m' /\ sign_data m <> sign_data m'
  /\ m_space m ++ m_topic m = m_space m' ++ m_topic m'       (* unprefixed concatenation would collide *)
  /\ length (sign_data m) = (17 + 4 * 4 + 8 + 2 + 1 + 16 + 0 + 2)%nat.
Proof.
  cbv zeta. split; [|split; [|split; [|split]]].
  - repeat split; vm_compute; reflexivity || (intro; discriminate).
  - repeat split; vm_compute; reflexivity || (intro; discriminate).
  - vm_compute. discriminate.
  - reflexivity.
  - vm_compute. reflexivity.
Qed.

(* In ANY run from ANY state, if a handler ran for the i-th event (the arrival of message m at time now), then
   in the state just before it: the id has 16 bytes, the payload is within bounds, the topic is valid, a local
   pattern matches, the claimed identity k parses, k is a member of the space, the acc/ owner (if any) is k's
   account, the timestamp is not stale, and the signature IS SigOf k (sign_data m): made with k's key over
   exactly the bytes of this message.  [passes_1_6] is that conjunction (Proofs/PubSubClient.v). *)
Theorem c17_forged_dropped : forall c st0 evs i now m,
  nth_error evs i = Some (CRecv now m) ->
  delivered (nth i (client_run c st0 evs) ONoneC) ->
  passes_1_6 c (client_exec c st0 (firstn i evs)) now m.
Proof. exact forged_dropped. Qed.
Print Assumptions c17_forged_dropped.

(* ... and, by injectivity, the signature covers exactly the six fields as received *)
Theorem c17_forged_dropped_fields : forall c st0 evs i now m k m',
  nth_error evs i = Some (CRecv now m) ->
  delivered (nth i (client_run c st0 evs) ONoneC) ->
  m_sig m = SigOf k (sign_data m') -> short_msg m -> short_msg m' ->
  m_ident m = Some k
  /\ m_space m = m_space m' /\ m_topic m = m_topic m' /\ m_id m = m_id m' /\ m_key m = m_key m'
  /\ m_ts m = m_ts m' /\ m_payload m = m_payload m'.
Proof. exact forged_dropped_fields. Qed.
Print Assumptions c17_forged_dropped_fields.

(* The dedup ring is EXACTLY "the last DedupSize recorded ids" after any event sequence
   ([recorded c evs] = ids of own publishes and of received messages that passed checks 1-6 and were not
   suppressed, in order); a message that passes checks 1-6 is suppressed IFF its id is in that window. *)
Theorem c17_ring_invariant : forall c evs,
  (0 < cc_ring c)%N ->
  ring_inv (N.to_nat (cc_ring c)) (c_ring (client_exec c (cinit c) evs)) (recorded c evs).
Proof. exact ring_invariant. Qed.
Print Assumptions c17_ring_invariant.

Theorem c17_replay_window : forall c evs now m,
  (0 < cc_ring c)%N ->
  let st := client_exec c (cinit c) evs in
  passes_1_6 c st now m ->
  (snd (receive c st now m) = VDup <-> In (m_id m) (lastn (N.to_nat (cc_ring c)) (recorded c evs))).
Proof. exact replay_window. Qed.
Print Assumptions c17_replay_window.

(* positive bound: what reaches a handler is outside the window, and inside the skew window if it carries a
   timestamp; so a replay with ts <> 0 is suppressed while in the ring and for ever once |now - ts| > skew *)
Theorem c17_replay_bound : forall c evs now m,
  (0 < cc_ring c)%N ->
  let st := client_exec c (cinit c) evs in
  delivered (snd (cstep c st (CRecv now m))) ->
  ~ In (m_id m) (lastn (N.to_nat (cc_ring c)) (recorded c evs))
  /\ (m_ts m <> 0%Z -> (- cc_skew c <= now - m_ts m <= cc_skew c)%Z).
Proof. exact replay_bound. Qed.
Print Assumptions c17_replay_bound.

(* OBSERVATION F18 (not hidden): with timestamp 0 ("never stale") nothing but the ring bounds a replay.
   DedupSize = 2: the same validly signed message is delivered, suppressed when replayed at once, and
   delivered AGAIN after two other messages were accepted.  The declarative predicate allows it. *)
Example c17_replay_ts0_redelivered :
  client_run f18_cfg (cinit f18_cfg) f18_run =
    [ONoneC; OSubR true; ORecv None [[97; 47; 62]%N]; ORecv None [];
     ORecv None [[97; 47; 62]%N]; ORecv None [[97; 47; 62]%N]; ORecv None [[97; 47; 62]%N]]
  /\ nth 2 f18_run (CUnsub [] []) = CRecv 1000 (f18_msg 7)
  /\ nth 6 f18_run (CUnsub [] []) = CRecv 999000000 (f18_msg 7)
  /\ spec_C17_client f18_cfg f18_run (client_run f18_cfg (cinit f18_cfg) f18_run) = true.
Proof. vm_compute. repeat split. Qed.

(* non-vacuity: a run in which a genuine message is delivered (so the hypotheses of c17_forged_dropped and
   c17_replay_bound hold), a forged one (signed by another key), a stale one, a non-member's and an immediate
   replay are not, and the recorded list / window are what the theorems talk about *)
Example c17_client_nonvacuous :
  let c := mkCC 2 60000 100 65536 0 [[110]; [111]; [112]]%N in
  let sp := [115]%N in let tp := [97; 47; 98]%N in
  let mk idb ts who key :=
    mkMsg sp tp (repeat idb 16) [] ts [9]%N (Some who) (SigOf key (sign_data_of sp tp (repeat idb 16) [] ts [9]%N)) in
  let evs := [CSetMember sp 1 true; CSub sp [97; 47; 42]%N;
              CRecv 100000 (mk 1%N 90000%Z 1%N 1%N);      (* genuine, fresh *)
              CRecv 100001 (mk 1%N 90000%Z 1%N 1%N);      (* replay *)
              CRecv 100002 (mk 2%N 90000%Z 1%N 2%N);      (* signed by another key *)
              CRecv 100003 (mk 3%N 10%Z 1%N 1%N);         (* stale *)
              CRecv 100004 (mk 4%N 0%Z 2%N 2%N)] in       (* not a member *)
  client_run c (cinit c) evs =
    [ONoneC; OSubR true; ORecv None [[97; 47; 42]%N]; ORecv None []; ORecv None []; ORecv None []; ORecv None []]
  /\ recorded c evs = [repeat 1%N 16]
  /\ delivered (nth 2 (client_run c (cinit c) evs) ONoneC)
  /\ spec_C17_client c evs (client_run c (cinit c) evs) = true.
Proof. vm_compute. repeat split. intro H; discriminate H. Qed.

(* The model satisfies the declarative predicate that is applied to the REAL client's observed outputs on
   every run: for every configuration with DedupSize > 0 (Config.withDefaults guarantees it; hypothesis
   visible) and EVERY event sequence (Subscribe / unsubscribe / membership changes / received frames at
   arbitrary times / own Publish), a handler runs iff the message is well-formed, on a valid topic with
   local interest, from a member, owner-consistent, fresh (or ts = 0), genuinely signed by the claimed
   identity over its own bytes, and NOT among the last DedupSize recorded ids -- and then exactly the
   handlers of the matching live patterns run, once each. *)
From AnySync Require Import Proofs.PubSubClientSpec.
Theorem c17_model_satisfies_spec_client : forall c evs,
  (0 < cc_ring c)%N -> spec_C17_client c evs (client_run c (cinit c) evs) = true.
Proof. exact model_satisfies_spec_client. Qed.
Print Assumptions c17_model_satisfies_spec_client.
