(* C17 — Pub/sub delivers exactly to matching member subscriptions and leaks no state.
   Only property theorems (closed by [exact]), non-vacuity examples and [Print Assumptions].
   Models: Model/Trie.v, Model/PubSub.v; proofs: Proofs/Trie*.v, Proofs/PubSub*.v. *)
From Coq Require Import List NArith Bool Arith.
Import ListNotations.
From AnySync Require Import Model.Trie Proofs.TrieProofs Proofs.TrieValidate.

(* ---- the pattern trie ------------------------------------------------------------------------ *)

(* After ANY sequence of Add/Remove (any strings, any order, removes of absent patterns included) the
   result of Match on ANY topic string is, as a duplicate-free list, exactly the set of patterns whose
   reference count is positive and that match the topic by the rule ('*' one segment, trailing '>' one
   or more).  [refcount ops 0 p] = number of Add p minus Remove p, never below 0. *)
Theorem c17_trie_sound_complete : forall ops topic,
  let t := trie_exec trie_empty ops in
  NoDup (trie_match t topic)
  /\ forall p, In p (trie_match t topic) <->
       ((0 < refcount ops 0 p)%N /\ matches (split_topic p) (split_topic topic) = true).
Proof. exact trie_match_exact. Qed.
Print Assumptions c17_trie_sound_complete.

Example c17_trie_sound_complete_nonvacuous :
  let a := 97%N in let b := 98%N in
  let ops := [TAdd [a; SLASH; STAR]; TAdd [a; SLASH; GT]; TAdd [a; SLASH; STAR]; TAdd [b];
              TRemove [a; SLASH; STAR]; TRemove [b]] in
  trie_match (trie_exec trie_empty ops) [a; SLASH; b] = [[a; SLASH; GT]; [a; SLASH; STAR]]
  /\ refcount ops 0 [a; SLASH; STAR] = 1%N /\ refcount ops 0 [b] = 0%N.
Proof. vm_compute. repeat split. Qed.

(* on validated input the segmentation used above is the plain split at '/' of the rule *)
Theorem c17_valid_split : forall s,
  (validate_pattern s = true -> split_topic s = full_split s)
  /\ (validate_topic s = true -> split_topic s = full_split s).
Proof. exact (fun s => conj (valid_pattern_split s) (valid_topic_split s)). Qed.
Print Assumptions c17_valid_split.

(* all reference counts zero => the trie is structurally the empty trie (no node left) and Len = 0 *)
Theorem c17_trie_prunes : forall ops,
  (forall p, refcount ops 0 p = 0%N) ->
  root (trie_exec trie_empty ops) = Node [] [] 0 /\ trie_len (trie_exec trie_empty ops) = 0%N.
Proof. exact trie_prunes. Qed.
Print Assumptions c17_trie_prunes.

Example c17_trie_prunes_nonvacuous :
  let a := 97%N in let b := 98%N in
  let ops := [TAdd [a; SLASH; b; SLASH; a]; TAdd [a; SLASH; b]; TAdd [a; SLASH; GT]; TRemove [a; SLASH; b];
              TRemove [a; SLASH; GT]; TRemove [a; SLASH; b; SLASH; a]; TRemove [a]] in
  trie_exec trie_empty ops = trie_empty
  /\ trie_is_empty (trie_exec trie_empty (firstn 5 ops)) = false.
Proof. vm_compute. split; reflexivity. Qed.

(* Len() is the number of distinct patterns with a positive reference count *)
Theorem c17_trie_len : forall ops,
  exists L, NoDup L /\ (forall p, In p L <-> (0 < refcount ops 0 p)%N)
            /\ trie_len (trie_exec trie_empty ops) = N.of_nat (length L).
Proof. exact trie_len_counts. Qed.
Print Assumptions c17_trie_len.

(* ---- validators ------------------------------------------------------------------------------ *)

(* ValidateTopic / ValidatePattern accept exactly the canonical domain: the string, split at EVERY '/',
   has 1..16 segments, every segment non-empty; topics: no '*' or '>' byte anywhere; patterns: a segment
   is "*", or ">" in last position, or wildcard-free; at most 256 bytes in total. *)
Theorem c17_validate_iff : forall s,
  validate_topic s = spec_valid_topic s /\ validate_pattern s = spec_valid_pattern s.
Proof. exact (fun s => conj (validate_topic_iff s) (validate_pattern_iff s)). Qed.
Print Assumptions c17_validate_iff.

Example c17_validate_iff_nonvacuous :
  let a := 97%N in
  validate_topic [a; SLASH; a] = true /\ validate_topic [a; SLASH; STAR] = false
  /\ validate_pattern [a; SLASH; STAR; SLASH; GT] = true /\ validate_pattern [GT; SLASH; a] = false
  /\ validate_pattern [a; SLASH; SLASH; a] = false
  /\ validate_topic (concat (repeat [a; SLASH] 15) ++ [a]) = true
  /\ validate_topic (concat (repeat [a; SLASH] 16) ++ [a]) = false
  /\ validate_topic (repeat a 256) = true /\ validate_topic (repeat a 257) = false.
Proof. vm_compute. repeat split. Qed.

(* the model's validators satisfy the executable property predicate that is applied to the real ones *)
Theorem c17_model_satisfies_spec_validate : forall s,
  spec_C17_validate s (validate_topic s) (validate_pattern s) = true.
Proof. exact validate_model_spec. Qed.
Print Assumptions c17_model_satisfies_spec_validate.

(* ---- serving-side bookkeeping (Model/PubSub.v) ------------------------------------------------ *)
(* FULL STATEMENTS (c17_views_agree, c17_delivery_exact, c17_teardown_empty), not yet proved as theorems:
     forall c evs, spec_C17_svc c evs (svc_run c svc_init evs) = true
   i.e. for every event sequence the model's outputs satisfy the declarative predicate: every snapshot
   shows tags = per-stream record = trie contribution = the registered set [p_reg], a publish is delivered
   exactly to the pooled streams with a matching registered pattern iff the ingress checks pass, at most
   once per stream, relayed input is never forwarded, and after withdrawing everything all three views
   are empty.  What IS checked on every run: spec_C17_svc on the REAL service's observed outputs and
   model = implementation on the same histories.  Proved below: the defect found by that predicate. *)
From AnySync Require Import Model.PubSub.

Definition c17_leak_witness : list ev :=
  [EOpen 1 0; ESetMember 0 0 true; ESetMember 1 0 true;
   ESub 1 0 []; ESub 1 1 [[97%N]]; EUnsub 1 1 [[97%N]]; EClose 1; ESnap].
Definition c17_leak_cfg : cfg := mkCfg 100 1000 1000 [0%N; 1%N] [] [[120%N]].

(* The code before fixes/C17-empty-subscribe-leak.patch violates "leaks no state": a Subscribe with no
   topics leaves an empty trie in [remote] that survives the close of the stream. *)
Theorem c17_teardown_legacy_refuted :
  exists c evs, spec_C17_svc c evs (svc_run_gen false c svc_init evs) = false
                /\ last (svc_run_gen false c svc_init evs) ONone = OSnap [(0%N, (0%N, true))] [] [].
Proof. exists c17_leak_cfg, c17_leak_witness. vm_compute. split; reflexivity. Qed.
Print Assumptions c17_teardown_legacy_refuted.

Example c17_teardown_repaired_witness :
  spec_C17_svc c17_leak_cfg c17_leak_witness (svc_run c17_leak_cfg svc_init c17_leak_witness) = true
  /\ last (svc_run c17_leak_cfg svc_init c17_leak_witness) ONone = OSnap [] [] [].
Proof. vm_compute. split; reflexivity. Qed.

(* a non-trivial history on which the repaired model meets the predicate: delivery to exactly the matching
   subscriber, once, with a forward; relayed input not forwarded; teardown leaves nothing *)
Example c17_service_nonvacuous :
  let a := 97%N in let b := 98%N in
  let c := mkCfg 100 1000 1000 [0%N] [3%N] [[120%N]; [121%N]] in
  let evs := [EOpen 1 0; EOpen 2 1; EOpen 3 1; ESetMember 0 0 true; ESetMember 0 1 true;
              ESub 1 0 [[a; SLASH; STAR]; [a; SLASH; GT]]; ESub 2 0 [[b]];
              EPub 2 0 [a; SLASH; b] 2 false true; EPub 3 0 [a; SLASH; b] 2 true true;
              EPub 2 0 [a; SLASH; b] 1 false true; ESnap; EUnsub 1 0 []; EClose 2; ESnap] in
  svc_run c svc_init evs =
    [ONone; ONone; ONone; ONone; ONone; ONone; ONone;
     OPub [1%N] None true; OPub [1%N] None false; OPub [] (Some InvalidMessage) false;
     OSnap [(0%N, (3%N, false))]
           [(1%N, (0%N, 2%N, [(0%N, [[a; SLASH; STAR]; [a; SLASH; GT]])])); (2%N, (1%N, 1%N, [(0%N, [[b]])]))]
           [(1%N, [(0%N, [a; SLASH; STAR]); (0%N, [a; SLASH; GT])]); (2%N, [(0%N, [b])]); (3%N, [])];
     ONone; ONone; OSnap [] [] [(1%N, []); (3%N, [])]]
  /\ spec_C17_svc c evs (svc_run c svc_init evs) = true.
Proof. vm_compute. split; reflexivity. Qed.
