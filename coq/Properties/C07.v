(* C07 — Range-hash diff reports exactly the differing ids.
   Only property theorems (closed by [exact]), non-vacuity / legacy-refutation examples and Print Assumptions.
   Model: Model/Ldiff.v (the code as repaired by the fix: commits F3, F4, F5); proofs: Proofs/Ldiff*.v.
   [H] is the hash of an id (xxhash64 in the code): every theorem holds for EVERY function H — in particular for
   all skewed distributions, colliding hashes and hashes at range boundaries.
   Hypotheses that stay visible: 2 <= df <= 2^64-1; both indexes use the same (df, th); each index is "good": it is
   the contents list of an index (sorted by (hash,id), one element per id, hash = H id, hash < 2^64) — which the
   contents after ANY history of Set/RemoveId are (c07_histories below discharges it through C08's invariant).
   Idealisation (DESIGN §1.3): blake3 digests are terms of a free algebra, so equal hashes mean equal terms
   (this is where the ambiguity of the plain concatenation id‖head for variable-length ids, F6, is excluded). *)
From Coq Require Import List NArith Bool Sorting.Permutation.
Import ListNotations.
From AnySync Require Import Model.Ldiff Proofs.LdiffRanges Proofs.LdiffContents Proofs.LdiffTree
     Proofs.LdiffQuery Proofs.LdiffDiff Proofs.LdiffSpec.
Open Scope N_scope.

(* genTupleRanges and getBottomRange agree: the bucket computed for a hash is the index of the one child that
   contains it (F4 repaired), every other child excludes it, children lie inside the parent and are at most half
   as wide (rounded up) — for every divisible range and every divide factor *)
Theorem c07_children_agree : forall df from to per al h,
  2 <= df -> from <= to -> can_divide df from to = true -> per_align df from to = (per, al) ->
  from <= h -> h <= to ->
  (N.to_nat (bucket df from to h) < N.to_nat df)%nat /\
  (forall a b, child_of from per al (N.to_nat df) (N.to_nat (bucket df from to h)) = (a, b) -> a <= h /\ h <= b) /\
  (forall i a b, (i < N.to_nat df)%nat -> i <> N.to_nat (bucket df from to h) ->
                 child_of from per al (N.to_nat df) i = (a, b) -> h < a \/ b < h).
Proof.
  exact (fun df from to per al h Hdf Hft Hcd Hpa H1 H2 =>
           conj (bucket_lt df from to per al Hdf Hft Hcd Hpa h)
                (conj (fun a b => bucket_contains df from to per al Hdf Hft Hcd Hpa h a b H1 H2)
                      (fun i a b => other_child_excludes df from to per al Hdf Hft Hcd Hpa h i a b H1 H2))).
Qed.
Print Assumptions c07_children_agree.

Theorem c07_children_within : forall df from to a b,
  2 <= df -> from <= to -> can_divide df from to = true -> In (a, b) (gen_tuple_ranges df from to) ->
  from <= a /\ a <= b /\ b <= to /\ 2 * (b - a + 1) <= (to - from + 1) + 1.
Proof. exact children_within. Qed.
Print Assumptions c07_children_within.

(* Diff: terminates (within the explicit fuel: the model's loop never returns None) and reports, as duplicate-free
   sets, exactly new = ids R \ ids L, changed = ids in both with different heads, removed = ids L \ ids R.
   [other] is any remote that answers like the other index: in process, or through the wire adapters. *)
Theorem c07_exact : forall df th H L R other,
  2 <= df -> df <= U64MAX -> good H L -> good H R ->
  (forall a b we, other a b we = get_range (fresh df th R) a b we) ->
  exists res, diff_run df th cmp_equal (fresh df th L) other = Some res
    /\ Permutation (ids_with TNew res) (spec_new L R)
    /\ Permutation (ids_with TChanged res) (spec_changed L R)
    /\ Permutation (ids_with TRemoved res) (spec_removed L R)
    /\ ids_with TTheirChanged res = [].
Proof. exact (fun df th H L R other Hdf Hdf64 HL HR => diff_equal_exact df th Hdf Hdf64 H L R HL HR other). Qed.
Print Assumptions c07_exact.

(* CompareDiff: the same with changed split by which head is greater *)
Theorem c07_exact_compare : forall df th H L R other,
  2 <= df -> df <= U64MAX -> good H L -> good H R ->
  (forall a b we, other a b we = get_range (fresh df th R) a b we) ->
  exists res, diff_run df th cmp_greater (fresh df th L) other = Some res
    /\ Permutation (ids_with TNew res) (spec_new L R)
    /\ Permutation (ids_with TChanged res) (spec_our_changed L R)
    /\ Permutation (ids_with TTheirChanged res) (spec_their_changed L R)
    /\ Permutation (ids_with TRemoved res) (spec_removed L R).
Proof. exact (fun df th H L R other Hdf Hdf64 HL HR => diff_greater_exact df th Hdf Hdf64 H L R HL HR other). Qed.
Print Assumptions c07_exact_compare.

(* through the request/response wire encoding (Count travels as uint32): the same answers, for fewer than 2^32 entries *)
Theorem c07_wire_eq : forall df th all,
  2 <= df -> df <= U64MAX -> N.of_nat (length all) < 4294967296 ->
  forall a b we, wire (remote_of (fresh df th all)) a b we = get_range (fresh df th all) a b we.
Proof. exact wire_id. Qed.
Print Assumptions c07_wire_eq.

(* for indexes reached by ANY histories of Set / RemoveId (C08's invariant supplies "good") *)
Theorem c07_histories : forall df th H ops1 ops2,
  2 <= df -> df <= U64MAX -> Forall (op_ok H) ops1 -> Forall (op_ok H) ops2 ->
  let L := contents (run_ops df th ops1) in
  let R := contents (run_ops df th ops2) in
  exists res, diff_run df th cmp_equal (run_ops df th ops1) (remote_of (run_ops df th ops2)) = Some res
    /\ Permutation (ids_with TNew res) (spec_new L R)
    /\ Permutation (ids_with TChanged res) (spec_changed L R)
    /\ Permutation (ids_with TRemoved res) (spec_removed L R).
Proof.
  exact (fun df th H o1 o2 Hdf Hdf64 H1 H2 =>
    let HL := inv_good df th H _ (run_ops_inv df th Hdf Hdf64 H o1 H1) in
    let HR := inv_good df th H _ (run_ops_inv df th Hdf Hdf64 H o2 H2) in
    match eq_sym (run_ops_canonical df th Hdf Hdf64 H o1 H1) in _ = x,
          eq_sym (run_ops_canonical df th Hdf Hdf64 H o2 H2) in _ = y
          return exists res, diff_run df th cmp_equal x (remote_of y) = Some res
                   /\ Permutation (ids_with TNew res) (spec_new (contents (run_ops df th o1)) (contents (run_ops df th o2)))
                   /\ Permutation (ids_with TChanged res) (spec_changed (contents (run_ops df th o1)) (contents (run_ops df th o2)))
                   /\ Permutation (ids_with TRemoved res) (spec_removed (contents (run_ops df th o1)) (contents (run_ops df th o2)))
    with eq_refl, eq_refl =>
      match diff_equal_exact df th Hdf Hdf64 H _ _ HL HR (remote_of (fresh df th (contents (run_ops df th o2))))
              (fun _ _ _ => eq_refl) with
      | ex_intro _ res (conj Hr (conj P1 (conj P2 (conj P3 _)))) => ex_intro _ res (conj Hr (conj P1 (conj P2 P3)))
      end
    end).
Qed.
Print Assumptions c07_histories.

(* the executable predicate evaluated on the implementation's observed results accepts the model's result *)
Theorem c07_model_meets_spec : forall df th H L R,
  2 <= df -> df <= U64MAX -> good H L -> good H R ->
  exists res, diff_run df th cmp_equal (fresh df th L) (remote_of (fresh df th R)) = Some res /\
    spec_C07_diff L R (ids_with TNew res) (ids_with TChanged res) (ids_with TRemoved res) = true.
Proof.
  exact (fun df th H L R Hdf Hdf64 HL HR =>
    match diff_equal_exact df th Hdf Hdf64 H L R HL HR (remote_of (fresh df th R)) (fun _ _ _ => eq_refl) with
    | ex_intro _ res (conj Hr (conj P1 (conj P2 (conj P3 _)))) =>
        ex_intro _ res (conj Hr
          (proj2 (andb_true_iff _ _) (conj (proj2 (andb_true_iff _ _) (conj (same_ids_perm _ _ P1) (same_ids_perm _ _ P2)))
                                           (same_ids_perm _ _ P3))))
    end).
Qed.
Print Assumptions c07_model_meets_spec.

(* ---- non-vacuity ---- *)
Definition Hex (id : N) : N := match id with 1 => 10 | 2 => 11 | 3 => 9223372036854775808 | _ => 12 end.
Definition Lx := [mkElem 10 1 0; mkElem 11 2 0; mkElem 12 4 7].
Definition Rx := [mkElem 11 2 5; mkElem 12 4 7; mkElem 9223372036854775808 3 0].

Example c07_nonvacuous :
  diff_run 2 1 cmp_greater (fresh 2 1 Lx) (remote_of (fresh 2 1 Rx))
  = Some [(TNew, 3); (TRemoved, 1); (TTheirChanged, 2)].
Proof. vm_compute. reflexivity. Qed.

(* ---- the ORIGINAL code (before the fix: commits) violates the property ---- *)
(* F3: local side without a range object vs remote empty child: nil hash == nil hash, the local id is never reported *)
Example c07_removed_missed_legacy_refuted :
  let L := [mkElem 0 1 0] in
  let R := [mkElem 4611686018427387904 2 0; mkElem 4611686018427387905 3 0] in
  diff_run_legacy 2 1 cmp_equal (fresh 2 1 L) (remote_of_legacy (fresh 2 1 R)) = Some [(TNew, 2); (TNew, 3)]
  /\ spec_removed L R = [1].
Proof. vm_compute. split; reflexivity. Qed.

(* F4: without the clamp the bucket of the last hash values is df itself: there is no such child (nil dereference) *)
Example c07_bucket_legacy_refuted :
  bucket_legacy 3 0 U64MAX U64MAX = 3 /\ length (gen_tuple_ranges 3 0 U64MAX) = 3%nat.
Proof. vm_compute. split; reflexivity. Qed.

(* F5: a range narrower than df "divides" into itself: makeBottomRanges recursed without bound *)
Example c07_narrow_range_legacy_refuted :
  can_divide 32 4096 4111 = false /\ In (4096, 4111) (gen_tuple_ranges 32 4096 4111).
Proof. vm_compute. split; [reflexivity|]. repeat (try (left; reflexivity); right). Qed.
