(* C15 — Deletion is permanent: a deleted object is never resurrected or re-advertised.
   Only property theorems (closed by [exact]), [Print Assumptions] and non-vacuity examples.
   Model: Model/Deletion.v ([step true] = the code with fixes/C15-create-storage-tombstone.patch applied,
   [step false] = the code as found); proofs: Proofs/DeletionBase.v, DeletionInv.v, DeletionTheorems.v,
   DeletionSettings.v, DeletionWorker.v.  Histories are arbitrary operation lists ([run] = fold_left of [step] from the empty space);
   restarts, worker runs cancelled after any number of tree-manager calls, failing tree managers, transient storage
   errors at a tree's Delete during a worker run, late re-delivery
   of any earlier head-storage notification and a deletion racing a remote fetch / a put at any stage (recorded as
   queued or as deleted) are operations of the alphabet.

   NOT proved (only evaluated on every observed case by Run/C15_run.v): the syntactic statement
     forall univ ops, spec_C15 univ ops (trace true univ ops init) = true
   and the part of spec_C15 about children after a restart (orphan scan of deletionstate.Run):
     forall (c,p) linked, status p = 2 -> has_entry c -> status c <> 0   after OpRestart.
   The semantic content of the other conjuncts of spec_C15 is the theorems below. *)
From Coq Require Import List NArith Bool Permutation.
Import ListNotations.
From AnySync Require Import Model.Deletion Proofs.DeletionBase Proofs.DeletionInv Proofs.DeletionTheorems Proofs.DeletionSettings
  Proofs.DeletionWorker.
Open Scope N_scope.

(* ---- durable status never decreases, over all op sequences and restart points *)
Theorem c15_status_monotone : forall ops1 ops2 i,
  status i (run true ops1 init) <= status i (run true (ops1 ++ ops2) init).
Proof. exact status_monotone. Qed.
Print Assumptions c15_status_monotone.

Theorem c15_tombstone_permanent : forall ops1 ops2 i,
  tomb i (run true ops1 init) = true -> tomb i (run true (ops1 ++ ops2) init) = true.
Proof. exact tombstone_permanent. Qed.
Print Assumptions c15_tombstone_permanent.

Example c15_status_monotone_nonvacuous :
  status 1 (run true [OpPut 1 0 false; OpSettings [1]] init) = 1 /\
  status 1 (run true ([OpPut 1 0 false; OpSettings [1]] ++ [OpRestart; OpWorker [1] never []; OpRestart]) init) = 2.
Proof. vm_compute. split; reflexivity. Qed.

(* ---- no resurrection: put / fetch of a tombstoned id fail as already deleted and change nothing *)
Theorem c15_put_tombstoned : forall s i p d, tomb i s = true -> step true s (OpPut i p d) = (s, OErrDeleted).
Proof. exact put_tombstoned. Qed.
Print Assumptions c15_put_tombstoned.

Theorem c15_fetch_tombstoned : forall s i p d h rem, tomb i s = true ->
  step true s (OpFetch i p d h rem) = (s, if has_storage i s then OLocal else OErrDeleted).
Proof. exact fetch_tombstoned. Qed.
Print Assumptions c15_fetch_tombstoned.

(* a deletion recorded while the remote fetch is in flight is honoured too *)
Theorem c15_fetch_race_never_stores : forall ops i p d h order,
  let s := run true ops init in
  has_storage i s = false -> has_chg i (fst (step true s (OpFetchRace i p d h order))) = false.
Proof. exact fetch_race_never_stores. Qed.
Print Assumptions c15_fetch_race_never_stores.

(* ---- the same at EVERY stage of the fetch before the creating transaction commits (0 after the local lookup,
   1 before the request, 2 response in flight, 3 deferred storage handed out / changes being validated, 4 entry of the
   first AddAll), however the deletion is recorded (del 1: settings change only = Queued; del 2: + a worker run =
   Deleted for an absent tree): the fetch fails as already deleted and the resulting state is exactly the state the
   recorded deletion alone produces - so it does not depend on the stage and nothing of the fetched tree is stored *)
Theorem c15_fetch_staged_before_commit : forall s i p d h stage del order,
  Inv s -> has_storage i s = false -> tomb i s = false -> del <> 0 -> stage <= 4 ->
  step true s (OpFetchStaged i p d h stage del order) = (inject del i order s, OErrDeleted).
Proof. exact fetch_staged_before_commit. Qed.
Print Assumptions c15_fetch_staged_before_commit.

Theorem c15_fetch_staged_never_stores : forall ops i p d h stage del order,
  let s := run true ops init in
  has_storage i s = false -> del <> 0 -> stage <= 4 ->
  has_chg i (fst (step true s (OpFetchStaged i p d h stage del order))) = false
  /\ snd (step true s (OpFetchStaged i p d h stage del order)) = OErrDeleted.
Proof. exact fetch_staged_never_stores. Qed.
Print Assumptions c15_fetch_staged_never_stores.

(* stage 5, after the first AddAll returned: the ordinary fetch followed by an ordinary deletion of a stored tree
   ([opened]: if the worker has already removed the tree again, opening it for the caller fails with an ordinary error) *)
Theorem c15_fetch_staged_after_commit : forall s i p d h del order,
  has_storage i s = false -> tomb i s = false ->
  step true s (OpFetchStaged i p d h 5 del order)
  = (let s' := inject del i order (fst (step true s (OpFetch i p d h true))) in
     (s', opened i s' (snd (step true s (OpFetch i p d h true))))).
Proof. exact fetch_staged_after_commit. Qed.
Print Assumptions c15_fetch_staged_after_commit.

(* PutSyncTree: deletion recorded before its tombstone check (0) or between the check and the creating transaction (1) *)
Theorem c15_put_staged_before_commit : forall s i p d stage del order,
  Inv s -> tomb i s = false -> del <> 0 -> stage <= 1 ->
  step true s (OpPutStaged i p d stage del order) = (inject del i order s, OErrDeleted).
Proof. exact put_staged_before_commit. Qed.
Print Assumptions c15_put_staged_before_commit.

Example c15_staged_nonvacuous :
  (* every stage before the commit, queued or deleted: refused, nothing stored, the tombstone is there *)
  forallb (fun sd => let '(st, o) := step true init (OpFetchStaged 1 0 false 1001 (fst sd) (snd sd) [1]) in
                     out_eqb o OErrDeleted && negb (has_chg 1 st) && (status 1 st =? snd sd))
          [(0,1); (1,1); (2,1); (3,1); (4,1); (0,2); (1,2); (2,2); (3,2); (4,2)] = true /\
  (* after the commit: stored, then queued (still stored) resp. deleted by the worker (nothing stored) *)
  (let '(st, o) := step true init (OpFetchStaged 1 0 false 1001 5 1 [1]) in
   out_eqb o OOk && has_chg 1 st && (status 1 st =? 1)) = true /\
  (let '(st, o) := step true init (OpFetchStaged 1 0 false 1001 5 2 [1]) in
   out_eqb o OErrOther && negb (has_chg 1 st) && (status 1 st =? 2)) = true /\
  (* the code with the tombstone check at the construction of the deferred storage only would store it: the
     unrepaired model (no check in the creating transaction at all) shows the shape of that failure at stage 3 *)
  (let '(st, o) := step false init (OpFetchStaged 1 0 false 1001 3 1 [1]) in
   out_eqb o OOk && has_chg 1 st && (status 1 st =? 1)) = true /\
  forallb (fun sd => let '(st, o) := step true init (OpPutStaged 1 0 false (fst sd) (snd sd) [1]) in
                     out_eqb o OErrDeleted && negb (has_chg 1 st) && (status 1 st =? snd sd))
          [(0,1); (1,1); (0,2); (1,2)] = true.
Proof. vm_compute. repeat split; reflexivity. Qed.

(* once tombstoned and no longer stored, no later operation stores changes of that id again *)
Theorem c15_no_resurrection : forall ops1 ops2 i,
  tomb i (run true ops1 init) = true -> has_chg i (run true ops1 init) = false ->
  has_chg i (run true (ops1 ++ ops2) init) = false.
Proof. exact no_resurrection. Qed.
Print Assumptions c15_no_resurrection.

Theorem c15_deleted_nothing_stored : forall ops i,
  status i (run true ops init) = 2 -> has_chg i (run true ops init) = false.
Proof. exact deleted_nothing_stored. Qed.
Print Assumptions c15_deleted_nothing_stored.

Example c15_no_resurrection_nonvacuous :
  let ops1 := [OpPut 1 0 false; OpHead 1 1001; OpSettings [1]; OpWorker [1] never []] in
  tomb 1 (run true ops1 init) = true /\ has_chg 1 (run true ops1 init) = false /\
  snd (step true (run true ops1 init) (OpPut 1 0 false)) = OErrDeleted /\
  snd (step true (run true ops1 init) (OpFetch 1 0 false 1002 true)) = OErrDeleted /\
  snd (step true (run true ops1 init) (OpHead 1 1003)) = ONoTree.
Proof. vm_compute. repeat split; reflexivity. Qed.

(* the code as found violates this: witnesses replayed on the implementation by the harness (corpus/C15) *)
Theorem c15_no_resurrection_legacy_refuted :
  status 1 (run false legacy_witness init) = 2 /\ has_chg 1 (run false legacy_witness init) = true.
Proof. exact legacy_resurrects. Qed.
Print Assumptions c15_no_resurrection_legacy_refuted.

Theorem c15_status_legacy_refuted :
  memb 1 (md (run false legacy_witness2 init)) = true /\ status 1 (run false legacy_witness2 init) = 1 /\
  has_chg 1 (run false legacy_witness2 init) = true.
Proof. exact legacy_status_regresses. Qed.
Print Assumptions c15_status_legacy_refuted.

(* ---- the advertised head index excludes tombstoned ids and they never re-enter *)
Theorem c15_index_excludes : forall ops i,
  status i (run true ops init) <> 0 -> memb i (idx (run true ops init)) = false.
Proof. exact index_excludes. Qed.
Print Assumptions c15_index_excludes.

Theorem c15_index_never_reenters : forall ops1 ops2 i,
  status i (run true ops1 init) <> 0 -> memb i (idx (run true (ops1 ++ ops2) init)) = false.
Proof. exact index_never_reenters. Qed.
Print Assumptions c15_index_never_reenters.

Example c15_index_excludes_nonvacuous :
  let ops := [OpPut 1 0 false; OpHead 1 1001; OpSettings [1]; OpStale 2; OpRestart; OpStale 0] in
  memb 1 (idx (run true [OpPut 1 0 false; OpHead 1 1001] init)) = true /\
  status 1 (run true ops init) = 1 /\ memb 1 (idx (run true ops init)) = false.
Proof. vm_compute. repeat split; reflexivity. Qed.

(* ---- children follow: a child created while its parent is tombstoned is queued in the same transaction *)
Theorem c15_late_child_put : forall ops i p d s',
  let s := run true ops init in
  step true s (OpPut i p d) = (s', OOk) -> p <> 0 -> tomb p s = true -> status i s' = 1.
Proof. exact late_child_put. Qed.
Print Assumptions c15_late_child_put.

Theorem c15_late_child_fetch : forall ops i p d h s',
  let s := run true ops init in
  step true s (OpFetch i p d h true) = (s', OOk) -> p <> 0 -> tomb p s = true -> status i s' = 1.
Proof. exact late_child_fetch. Qed.
Print Assumptions c15_late_child_fetch.

Example c15_children_follow_nonvacuous :
  let ops := [OpPut 1 0 false; OpSettings [1]; OpWorker [1] never []; OpPut 2 1 false] in
  status 1 (run true ops init) = 2 /\ status 2 (run true ops init) = 1 /\ mem 2 (run true ops init) = false /\
  mem 2 (run true (ops ++ [OpRestart]) init) = true /\
  status 2 (run true (ops ++ [OpRestart; OpWorker [2] never []]) init) = 2 /\
  (* a child that was never marked (parent deleted by a worker cancelled before the children): queued on restart *)
  status 4 (run true [OpPut 3 0 false; OpPut 4 3 false; OpSettings [3]; OpWorker [3] 1 []] init) = 0 /\
  status 4 (run true [OpPut 3 0 false; OpPut 4 3 false; OpSettings [3]; OpWorker [3] 1 []; OpRestart] init) = 1.
Proof. vm_compute. repeat split; reflexivity. Qed.

(* ---- children follow within one worker run: from every reachable state, a run of deleter.Delete that was not
   cancelled ([worker_calls .. < k]: fewer tree-manager calls were made than the context allows) and whose tree manager
   does not fail fully deletes every id [p] it found queued, and every BOUND CHILD [c] of [p] that has a heads entry
   (an entry naming [p] as its parent - what GetEntriesByParentId returns), whether or not [c] was ever queued itself
   (deleteBoundChildren: NotDeleted -> Deleted directly, e.g. after a deletion record that lists the parent only).  The
   child is then observed as deleted, NOT ADVERTISED in the head index, with nothing stored, known to the deletion state.
   (A run cancelled between a parent and its children leaves them to the orphan scan of the next start: see
   c15_children_follow_nonvacuous.) *)
Theorem c15_worker_children_follow : forall ops order k p,
  let s := run true ops init in
  worker_calls order k [] s < k -> memb p (mq s) = true -> memb p order = true ->
  status p (worker order k [] s) = 2 /\
  forall c, p <> 0 -> has_entry c s = true -> e_parent (get c s) = p ->
    status c (worker order k [] s) = 2 /\ memb c (idx (worker order k [] s)) = false /\
    has_chg c (worker order k [] s) = false /\ observe1 (worker order k [] s) c = mkO 3 false 0 true.
Proof. exact worker_children_follow. Qed.
Print Assumptions c15_worker_children_follow.

(* parent 1 and its derived child 2, both advertised (one change besides the root each), unrelated object 3; the
   deletion record lists the parent only; one complete worker run: parent Queued -> Deleted, child NotDeleted -> Deleted
   directly; both leave the index, 3 stays; the observed trace of that history satisfies spec_C15, and the same trace
   with the child still advertised after the run (the child's only tombstone notification lost on the way to the
   index) does not *)
Example c15_worker_children_follow_nonvacuous :
  let ops := [OpPut 1 0 false; OpHead 1 1001; OpPut 2 1 true; OpHead 2 1002; OpPut 3 0 false; OpHead 3 1003; OpSettings [1]] in
  let s := run true ops init in
  (worker_calls [1] never [] s <? never) = true /\ memb 1 (mq s) = true /\ e_parent (get 2 s) = 1 /\
  observe [1; 2; 3] s = [mkO 2 false 2 true; mkO 1 true 2 false; mkO 1 true 2 false] /\
  observe [1; 2; 3] (worker [1] never [] s) = [mkO 3 false 0 true; mkO 3 false 0 true; mkO 1 true 2 false] /\
  spec_C15 [1; 2; 3] (ops ++ [OpWorker [1] never []]) (trace true [1; 2; 3] (ops ++ [OpWorker [1] never []]) init) = true /\
  spec_C15 [1; 2; 3] (ops ++ [OpWorker [1] never []])
    (trace true [1; 2; 3] ops init ++ [(OWorker [1], [mkO 3 false 0 true; mkO 3 true 0 true; mkO 1 true 2 false])]) = false /\
  (* the child left untouched by the run (deleteBoundChildren skipped): refused by the children clause *)
  spec_C15 [1; 2; 3] (ops ++ [OpWorker [1] never []])
    (trace true [1; 2; 3] ops init ++ [(OWorker [1], [mkO 3 false 0 true; mkO 1 true 2 false; mkO 1 true 2 false])]) = false.
Proof. vm_compute. repeat split; reflexivity. Qed.

(* ---- transient storage errors in the deletion worker (OpWorkerS order k fail sfail: the tree storage Delete of the ids
   [sfail] fails during the run; the sync tree the tree manager opened stays in its cache).  A stored id whose storage
   Delete fails is left exactly as the run found it - heads entry (status: a queued id stays QUEUED, it is not reported
   deleted), every stored change, membership in the queue and in the deleted set of the deletion state - whatever the
   queue order, the cancellation point, the other failures and the bound-children passes of the run *)
Theorem c15_storage_fault_keeps : forall s order k fail sfail i,
  memb i sfail = true -> has_storage i s = true ->
  let s' := fst (step true s (OpWorkerS order k fail sfail)) in
  get i s' = get i s /\ has_entry i s' = has_entry i s /\ find_c i (chg s') = find_c i (chg s) /\
  memb i (mq s') = memb i (mq s) /\ memb i (md s') = memb i (md s).
Proof. exact worker_storage_fault_keeps. Qed.
Print Assumptions c15_storage_fault_keeps.

(* ... and the retry deletes it for good: from every reachable state, after the faulty run the id is still queued and
   stored with the same number of changes, and any later run that is not cancelled and whose tree manager / storage do
   not fail takes it to fully deleted with nothing left in the store (by c15_deleted_nothing_stored - which ranges over
   ALL histories, faulty runs included - "deleted" is never reported while something of the id is stored) *)
Theorem c15_storage_fault_retry : forall ops order k fail sfail i,
  let s := run true ops init in
  let s1 := run true (ops ++ [OpWorkerS order k fail sfail]) init in
  memb i sfail = true -> has_storage i s = true -> memb i (mq s) = true ->
  (status i s1 = status i s /\ has_storage i s1 = true /\ memb i (mq s1) = true /\
   o_nchg (observe1 s1 i) = o_nchg (observe1 s i)) /\
  forall order2 k2, worker_calls order2 k2 [] s1 < k2 -> memb i order2 = true ->
    status i (worker order2 k2 [] s1) = 2 /\ has_chg i (worker order2 k2 [] s1) = false.
Proof. exact storage_fault_retry. Qed.
Print Assumptions c15_storage_fault_retry.

(* a fully deleted id is gone, in every reachable state (after restarts too): fetching or putting it fails as already
   deleted and changes nothing; it is never served from the local store *)
Theorem c15_deleted_fetch_put_fail : forall ops i p d h rem,
  let s := run true ops init in
  status i s = 2 ->
  step true s (OpFetch i p d h rem) = (s, OErrDeleted) /\ step true s (OpPut i p d) = (s, OErrDeleted).
Proof. exact deleted_fetch_put_fail. Qed.
Print Assumptions c15_deleted_fetch_put_fail.

(* objects 1 and 2 with content, both deleted by one record; the run fails at the storage Delete of 1: 1 stays queued
   with its 2 changes, 2 is deleted; the retry deletes 1; after a restart fetching it fails as already deleted.  The
   behaviour "the retry reports 1 deleted while its changes are still stored, after the restart it is served locally"
   violates spec_C15 at the retry and at the fetch *)
Example c15_storage_fault_nonvacuous :
  let ops := [OpPut 1 0 false; OpHead 1 1001; OpPut 2 0 false; OpHead 2 1002; OpSettings [1; 2]] in
  let s := run true ops init in
  let s1 := run true (ops ++ [OpWorkerS [1; 2] never [] [1]]) init in
  let all := ops ++ [OpWorkerS [1; 2] never [] [1]; OpWorker [1] never []; OpRestart; OpFetch 1 0 false 1003 true] in
  has_storage 1 s = true /\ memb 1 (mq s) = true /\
  observe [1; 2] s1 = [mkO 2 false 2 true; mkO 3 false 0 true] /\
  (worker_calls [1] never [] s1 <? never) = true /\
  observe [1; 2] (worker [1] never [] s1) = [mkO 3 false 0 true; mkO 3 false 0 true] /\
  spec_C15 [1; 2] all (trace true [1; 2] all init) = true /\
  (let bad := [mkO 3 false 2 true; mkO 3 false 0 true] in
   spec_C15 [1; 2] all (firstn 6 (trace true [1; 2] all init) ++ [(OWorker [], bad); (OOk, bad); (OLocal, bad)])) = false /\
  (* the fetch clause alone: a fully deleted id served from the local store *)
  spec_id (OpFetch 1 0 false 1003 true) OLocal 1 (mkO 3 false 2 true) (mkO 3 false 2 true) = false /\
  spec_id (OpFetch 1 0 false 1003 true) OLocal 1 (mkO 2 false 2 true) (mkO 2 false 2 true) = true /\
  (* the fault clause alone: reported deleted by the faulty run itself *)
  spec_id (OpWorkerS [1] never [] [1]) (OWorker [1]) 1 (mkO 2 false 2 true) (mkO 3 false 0 true) = false.
Proof. vm_compute. repeat split; reflexivity. Qed.

(* ---- restart-stable *)
Theorem c15_restart_stable : forall ops i,
  let s := run true ops init in
  status i s <= status i (restart s) /\
  (has_chg i (restart s) = has_chg i s) /\
  (mem i (restart s) = true <-> status i (restart s) <> 0) /\
  (memb i (idx (restart s)) = true -> status i (restart s) = 0).
Proof. exact restart_stable. Qed.
Print Assumptions c15_restart_stable.

Theorem c15_memory_sound : forall ops i, mem i (run true ops init) = true -> status i (run true ops init) <> 0.
Proof. exact memory_sound. Qed.
Print Assumptions c15_memory_sound.

(* the invariant behind all of the above holds after every history *)
Theorem c15_invariant : forall ops, Inv (run true ops init).
Proof. exact reach_inv. Qed.
Print Assumptions c15_invariant.

(* ---- settings log: the derived deleted-id set *)
Theorem c15_settings_union : forall cs x, In x (sderive_inc [] cs) <-> In x (flat_map sc_ids cs).
Proof. exact sderive_is_union. Qed.
Print Assumptions c15_settings_union.

Theorem c15_settings_growonly : forall cs cs', incl cs cs' -> incl (sderive_inc [] cs) (sderive_inc [] cs').
Proof. exact sderive_monotone. Qed.
Print Assumptions c15_settings_growonly.

Theorem c15_settings_order_free : forall cs cs', Permutation cs cs' ->
  forall x, In x (sderive_inc [] cs) <-> In x (sderive_inc [] cs').
Proof. exact sderive_order_free. Qed.
Print Assumptions c15_settings_order_free.

Theorem c15_settings_incremental_eq_scratch : forall a b x,
  In x (sderive_inc (sderive_inc [] a) b) <-> In x (sderive_scratch None (a ++ b)).
Proof. exact sderive_inc_eq_scratch. Qed.
Print Assumptions c15_settings_incremental_eq_scratch.

Theorem c15_settings_from_snapshot : forall root snap anc after,
  sc_snap root = Some snap ->
  (forall x, In x snap <-> In x (flat_map sc_ids (anc ++ [root]))) ->
  forall x, In x (sderive_scratch (Some root) after) <-> In x (flat_map sc_ids (anc ++ root :: after)).
Proof. exact scratch_from_snapshot. Qed.
Print Assumptions c15_settings_from_snapshot.

Example c15_settings_nonvacuous :
  let a := mkSC 1 [5] None in let b := mkSC 2 [6; 5] None in let r := mkSC 3 [7] (Some [7; 5; 6]) in let c := mkSC 4 [8] None in
  nsort (sderive_inc [] [a; b; r; c]) = [5; 6; 7; 8] /\
  nsort (sderive_inc [] [c; r; b; a]) = [5; 6; 7; 8] /\
  nsort (sderive_scratch (Some r) [c]) = [5; 6; 7; 8] /\
  nsort (sderive_inc (sderive_inc [] [a; b]) [r; c]) = [5; 6; 7; 8].
Proof. vm_compute. repeat split; reflexivity. Qed.

(* ---- the settings object (settingsObject.Update / Rebuild / Init called by the sync tree): for ANY sequence of
   listener calls that satisfies the tree's iteration contract [sev_wf] - Append: the changes iterated after
   LastIteratedId are exactly the new records; Rebuild / Init: iteration from the root (the true root, or a snapshot
   record whose snapshot holds exactly the ids of the record and its ancestors) covers everything held; held sets only
   grow - the kept state AND the ids handed to the deletion manager are exactly the ids of the records held at the end:
   whatever the arrival order, the batching and the restarts *)
Theorem c15_settings_object_union : forall hevs prev o, agrees o prev -> chain_wf prev hevs ->
  agrees (sobj_run o (map snd hevs)) (last (map fst hevs) prev).
Proof. exact sobj_run_union. Qed.
Print Assumptions c15_settings_object_union.

Theorem c15_settings_object_order_free : forall h1 h2 held,
  chain_wf [] h1 -> chain_wf [] h2 ->
  (forall c, In c (last (map fst h1) []) <-> In c held) -> (forall c, In c (last (map fst h2) []) <-> In c held) ->
  forall x, (In x (so_state (sobj_run sobj_init (map snd h1))) <-> In x (so_state (sobj_run sobj_init (map snd h2)))) /\
            (In x (so_seen (sobj_run sobj_init (map snd h1))) <-> ids_of held x).
Proof. exact sobj_order_free. Qed.
Print Assumptions c15_settings_object_order_free.

(* two concurrent records b, c on top of a, then a merge d: replica 1 gets b then c (c sorts after b: Append), replica 2
   gets c then b (b sorts BEFORE the point its state stopped at: the tree reports Rebuild, the object re-derives from the
   root); both chains satisfy the contract, both end with all four ids; keeping the state in the second chain (continuing
   after c: nothing new is iterated) would lose b's id *)
Example c15_settings_object_nonvacuous :
  let a := mkSC 1 [5] None in let b := mkSC 2 [6] None in let c := mkSC 3 [7] None in let d := mkSC 4 [8] None in
  let h1 := [([a], mkSEv SAppend None [a]); ([a; b], mkSEv SAppend None [b]); ([a; b; c], mkSEv SAppend None [c]);
             ([a; b; c; d], mkSEv SAppend None [d])] in
  let h2 := [([a], mkSEv SAppend None [a]); ([a; c], mkSEv SAppend None [c]); ([a; c; b], mkSEv SRebuild None [a; b; c]);
             ([a; c; b; d], mkSEv SAppend None [d])] in
  chain_wf [] h1 /\ chain_wf [] h2 /\
  nsort (so_state (sobj_run sobj_init (map snd h1))) = [5; 6; 7; 8] /\
  nsort (so_state (sobj_run sobj_init (map snd h2))) = [5; 6; 7; 8] /\
  nsort (so_seen (sobj_run sobj_init (map snd h2))) = [5; 6; 7; 8] /\
  nsort (so_state (sobj_run sobj_init [mkSEv SAppend None [a]; mkSEv SAppend None [c]; mkSEv SAppend None []; mkSEv SAppend None [d]])) = [5; 7; 8].
Proof.
  cbv zeta. repeat split; try (vm_compute; reflexivity).
  - repeat (apply chain_cons; [apply wf_append; intros x; cbn [In]; tauto|]). apply chain_nil.
  - apply chain_cons; [apply wf_append; intros x; cbn [In]; tauto|].
    apply chain_cons; [apply wf_append; intros x; cbn [In]; tauto|].
    apply chain_cons; [apply wf_scratch_root; [now right | intros x; cbn [In]; tauto | intros x; cbn [In]; tauto]|].
    apply chain_cons; [apply wf_append; intros x; cbn [In]; tauto|]. apply chain_nil.
Qed.
