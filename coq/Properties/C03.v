(* C03 — ACL log is a tamper-evident chain with deterministic, atomically updated state.
   Only property theorems (closed by [exact]), non-vacuity examples and [Print Assumptions].
   Model: Model/Acl.v ([add_raw] = AclList.AddRawRecord with symbolic validity flags, [add_raws] = AddRawRecords,
   [build] = rebuild from storage, [records_after] = RecordsAfter, [decode]/[keep_ours] = keepidentity.go);
   proofs: Proofs/AclC03.v.  All theorems hold for every verifier mode (need_acc, v), every identity [me] and both
   the repaired and the legacy state machine ([legacy]). *)
From Coq Require Import List NArith Bool.
Import ListNotations.
From AnySync Require Import Model.Acl Model.AclOneToOne Proofs.AclBase Proofs.AclC03 Proofs.AclOneToOne.
Open Scope N_scope.

(* accept => extends the head, id = CID(bytes), author signature verifies, acceptor signature verifies when the
   verifier requires it, not a duplicate; exactly this record is appended to memory and to storage *)
Theorem c03_accept_extends : forall legacy need_acc v me l w l',
  wf_list l -> add_raw legacy need_acc v me l w = AddOk l' ->
  w_prev w = head l /\ w_cid_ok w = true /\ w_sig_ok w = true /\ w_decodes w = true /\
  (need_acc = true -> w_acceptor_ok w = true) /\ ~ In (w_id w) (l_ids l) /\
  l_ids l' = l_ids l ++ [w_id w] /\ l_store l' = l_store l ++ [w] /\
  head l' = w_id w /\ wf_list l'.
Proof. exact accept_extends. Qed.
Print Assumptions c03_accept_extends.

(* reject => state, in-memory log and storage unchanged *)
Theorem c03_reject_noop : forall legacy need_acc v me l w,
  (forall l', add_raw legacy need_acc v me l w <> AddOk l') -> add_raw_keep legacy need_acc v me l w = l.
Proof. exact reject_noop. Qed.
Print Assumptions c03_reject_noop.

(* ... including a multi-content record that fails at content k after the contents before k were applied to the copy *)
Theorem c03_partial_failure_noop : forall legacy need_acc v me l w cs1 c cs2 s1,
  decode v me (w_contents w) = cs1 ++ c :: cs2 ->
  apply_contents legacy v me (l_state l) (w_author w) (w_id w) cs1 = Some s1 ->
  apply_content legacy v me s1 (w_author w) (w_id w) c = None ->
  add_raw_keep legacy need_acc v me l w = l.
Proof. exact partial_failure_noop. Qed.
Print Assumptions c03_partial_failure_noop.

(* after ANY sequence of deliveries the state is the replay (fold of apply_record) of the accepted records, which are
   exactly what storage holds, and the in-memory ids are the stored ids *)
Theorem c03_state_is_fold : forall legacy need_acc v me ws s0 root,
  list_inv legacy need_acc v me s0 root
    (fold_left (add_raw_keep legacy need_acc v me) ws (mkList s0 [root] [])).
Proof. exact state_is_fold. Qed.
Print Assumptions c03_state_is_fold.

Theorem c03_batch_eq_single : forall legacy need_acc v me ws l,
  snd (add_raws legacy need_acc v me l ws) = true ->
  fst (add_raws legacy need_acc v me l ws) = fold_left (add_raw_keep legacy need_acc v me) ws l.
Proof. exact batch_eq_single. Qed.
Print Assumptions c03_batch_eq_single.

Theorem c03_batch_stops_at_first_error : forall legacy need_acc v me ws l,
  snd (add_raws legacy need_acc v me l ws) = false ->
  exists ws1 w ws2, ws = ws1 ++ w :: ws2 /\
    fst (add_raws legacy need_acc v me l ws) = fold_left (add_raw_keep legacy need_acc v me) ws1 l /\
    add_raw legacy need_acc v me (fold_left (add_raw_keep legacy need_acc v me) ws1 l) w = AddRejected.
Proof. exact batch_prefix_on_error. Qed.
Print Assumptions c03_batch_stops_at_first_error.

(* rebuilding from storage, at any point of any delivery sequence, gives exactly the incrementally maintained list *)
Theorem c03_rebuild_eq : forall legacy need_acc v me s0 root l,
  list_inv legacy need_acc v me s0 root l -> build legacy need_acc v me s0 root (l_store l) = Some l.
Proof. exact rebuild_eq. Qed.
Print Assumptions c03_rebuild_eq.

Corollary c03_rebuild_eq_any_history : forall legacy need_acc v me ws s0 root,
  let l := fold_left (add_raw_keep legacy need_acc v me) ws (mkList s0 [root] []) in
  build legacy need_acc v me s0 root (l_store l) = Some l.
Proof. intros. apply rebuild_eq. apply state_is_fold. Qed.
Print Assumptions c03_rebuild_eq_any_history.

(* catch-up through RecordsAfter from the replica's own head *)
Theorem c03_catchup_eq : forall legacy need_acc v me s0 root st1 d st2 sE sA,
  replay legacy need_acc v me s0 (st1 ++ [d]) = Some sE ->
  replay legacy need_acc v me s0 (st1 ++ d :: st2) = Some sA ->
  NoDup (root :: map w_id (st1 ++ d :: st2)) ->
  let E := mkList sE (root :: map w_id (st1 ++ [d])) (st1 ++ [d]) in
  let A := mkList sA (root :: map w_id (st1 ++ d :: st2)) (st1 ++ d :: st2) in
  records_after A root (head E) = Some (d :: st2) /\
  fst (add_raws legacy need_acc v me E (d :: st2)) = A /\ snd (add_raws legacy need_acc v me E (d :: st2)) = true.
Proof. exact catchup_eq. Qed.
Print Assumptions c03_catchup_eq.

(* keep-only-ours decode: same state as the full decode for that observer (non-validating verifier) *)
Theorem c03_partial_decode_eq : forall legacy me s au r cs,
  apply_record legacy false me s au r (decode false me cs) = apply_record legacy false me s au r cs.
Proof. exact partial_decode_eq. Qed.
Print Assumptions c03_partial_decode_eq.

(* an order scan accepted by isContiguousChain is exactly the PrevId chain root -> head *)
Theorem c03_scan_guard : forall l root hd, is_contiguous_chain l root hd = true ->
  exists p0 rest, l = (root, p0) :: rest /\ last_or (map fst l) 0 = hd /\
    forall pre id p post, rest = pre ++ (id, p) :: post -> p = last_or (map fst pre) root.
Proof. exact scan_guard. Qed.
Print Assumptions c03_scan_guard.

(* ==== one-to-one ACLs (Model/AclOneToOne.v; root with OneToOneInfo: shared owner key + two writers).
   [oadd_raw false ...] is the REPAIRED machine (fixes/C03-aclstate-copy-keeps-onetoone.patch: AclState.Copy() keeps the
   isOneToOne flag); [oadd_raw true ...] is the code before the repair, refuted below. *)

(* a one-to-one list accepts nothing, whoever signed the record and whatever it contains ... *)
Theorem c03_one_to_one_rejects : forall legacy need_acc v me l w, o_one l = true ->
  oadd_raw false legacy need_acc v me l w = (if memN (w_id w) (l_ids (o_list l)) then OAddDup else OAddRejected).
Proof. exact one_rejects. Qed.
Print Assumptions c03_one_to_one_rejects.

(* ... and for EVERY sequence of offered records: flag, head, state, in-memory log and storage never change *)
Theorem c03_one_to_one_frozen : forall legacy need_acc v me ws l, o_one l = true ->
  fold_left (oadd_raw_keep false legacy need_acc v me) ws l = l.
Proof. exact one_frozen. Qed.
Print Assumptions c03_one_to_one_frozen.

Theorem c03_one_to_one_batch_frozen : forall legacy need_acc v me ws l, o_one l = true ->
  oadd_raws false legacy need_acc v me l ws = (l, forallb (fun w => memN (w_id w) (l_ids (o_list l))) ws).
Proof. exact one_batch_frozen. Qed.
Print Assumptions c03_one_to_one_batch_frozen.

(* a list that is not one-to-one is exactly the ordinary list of the theorems above (repaired or not) *)
Theorem c03_not_one_to_one_same : forall legacy need_acc v me lc l w, o_one l = false ->
  oadd_raw lc legacy need_acc v me l w = lift (add_raw legacy need_acc v me (o_list l) w).
Proof. exact not_one_same. Qed.
Print Assumptions c03_not_one_to_one_same.

Theorem c03_one_to_one_flag_constant : forall legacy need_acc v me ws one l0,
  o_one (fold_left (oadd_raw_keep false legacy need_acc v me) ws (mkOList one l0)) = one.
Proof. exact flag_constant. Qed.
Print Assumptions c03_one_to_one_flag_constant.

(* live = rebuilt from storage, for one-to-one and ordinary lists alike, after every delivery sequence *)
Theorem c03_one_to_one_rebuild_eq : forall legacy need_acc v me ws one s0 root,
  let l := fold_left (oadd_raw_keep false legacy need_acc v me) ws (mkOList one (mkList s0 [root] [])) in
  obuild legacy need_acc v me one s0 root (l_store (o_list l)) = Some l.
Proof. exact o_rebuild_eq. Qed.
Print Assumptions c03_one_to_one_rebuild_eq.

Theorem c03_one_to_one_catchup_eq : forall legacy need_acc v me wsA wsE s0 root,
  let A := fold_left (oadd_raw_keep false legacy need_acc v me) wsA (mkOList true (mkList s0 [root] [])) in
  let E := fold_left (oadd_raw_keep false legacy need_acc v me) wsE (mkOList true (mkList s0 [root] [])) in
  records_after (o_list A) root (head (o_list E)) = Some [] /\
  oadd_raws false legacy need_acc v me E [] = (A, true) /\ E = A.
Proof. exact one_catchup_eq. Qed.
Print Assumptions c03_one_to_one_catchup_eq.

(* the model satisfies the specification predicates evaluated on the implementation's observations *)
Theorem c03_one_to_one_add_spec : forall legacy need_acc v me l w root, o_one l = true ->
  l_ids (o_list l) = root :: map w_id (l_store (o_list l)) ->
  let l' := oadd_raw_keep false legacy need_acc v me l w in
  spec_one_add (l_state (o_list l)) (l_ids (o_list l)) (outcome_of (oadd_raw false legacy need_acc v me l w))
               (o_one l') (l_state (o_list l')) (l_ids (o_list l')) (root :: map w_id (l_store (o_list l'))) = true.
Proof. exact one_add_spec. Qed.
Print Assumptions c03_one_to_one_add_spec.

Theorem c03_one_to_one_batch_spec : forall legacy need_acc v me l ws root, o_one l = true ->
  l_ids (o_list l) = root :: map w_id (l_store (o_list l)) ->
  let r := oadd_raws false legacy need_acc v me l ws in
  spec_one_batch (l_state (o_list l)) (l_ids (o_list l)) ws (snd r)
                 (o_one (fst r)) (l_state (o_list (fst r))) (l_ids (o_list (fst r)))
                 (root :: map w_id (l_store (o_list (fst r)))) = true.
Proof. exact one_batch_spec. Qed.
Print Assumptions c03_one_to_one_batch_spec.

Theorem c03_rebuild_spec : forall legacy need_acc v me ws one s0 root,
  let l := fold_left (oadd_raw_keep false legacy need_acc v me) ws (mkOList one (mkList s0 [root] [])) in
  match obuild legacy need_acc v me one s0 root (l_store (o_list l)) with
  | Some r => spec_rebuild (o_one l) (l_state (o_list l)) (l_ids (o_list l))
                           true (o_one r) (l_state (o_list r)) (l_ids (o_list r)) = true
  | None => False
  end.
Proof. exact rebuild_spec. Qed.
Print Assumptions c03_rebuild_spec.

(* ---- non-vacuity *)
Definition w2 : raw := mkRaw 2 true true true true 1 1 [CAccountsAdd [(2, 2); (4, 3)]].
Definition w3 : raw := mkRaw 3 true true true true 2 2 [CInvite 101 1 3 true; CPermChange 4 4].
(* second content fails (admin 2 may not make 4 an admin): nothing of the first content survives *)
Definition w4_bad : raw := mkRaw 4 true true true true 3 2 [CInvite 102 0 0 false; CPermChange 4 2].
Definition w4_forged : raw := mkRaw 4 true true false true 3 1 [COptions (Some true)].
Definition l0 : alist := mkList (init_state 0 1 1 None) [1] [].
Definition l2 : alist := fold_left (add_raw_keep false true true 0) [w2; w3] l0.

Example c03_nonvacuous :
  l_ids l2 = [1; 2; 3] /\ length (invites (l_state l2)) = 1%nat /\ perm_of (l_state l2) 4 = 4 /\
  add_raw false true true 0 l2 w4_bad = AddRejected /\ add_raw false true true 0 l2 w4_forged = AddRejected /\
  add_raw false true true 0 l2 w3 = AddDup /\
  fold_left (add_raw_keep false true true 0) [w4_bad; w3; w4_forged] l2 = l2 /\
  build false true true 0 (init_state 0 1 1 None) 1 (l_store l2) = Some l2 /\
  fst (add_raws false true true 0 l0 [w2; w2; w3]) = l2 /\
  apply_contents false true 0 (l_state l2) 2 4 [CInvite 102 0 0 false] <> None.
Proof. vm_compute. repeat split; try reflexivity. discriminate. Qed.

Example c03_partial_decode_nonvacuous :
  let rk := mkRk true true [1; 2; 4] [] in
  decode false 2 [CReadKeyChange rk] = [CReadKeyChange (mkRk true true [2] [])] /\
  exists s', apply_record false false 2 (l_state l2) 1 9 (decode false 2 [CReadKeyChange rk]) = Some s' /\ mykeys s' = [9].
Proof. vm_compute. split; [reflexivity|]. eexists. split; reflexivity. Qed.

(* ---- one-to-one: non-vacuity and the refutation of the code before the repair.
   Root 1; shared owner key 50, writers 1 and 2; the list belongs to writer 1 (validating, acceptor required). *)
Definition s1to1 : state := init_one 1 50 1 2 1.
Definition o0 : olist := mkOList true (mkList s1to1 [1] []).
(* correctly signed, chained onto the root, consensus-accepted records by the shared owner key / a writer / a stranger *)
Definition x_invite : raw := mkRaw 2 true true true true 1 50 [CInvite 101 0 0 false].
Definition x_add : raw := mkRaw 3 true true true true 1 50 [CAccountsAdd [(7, 3)]; COptions (Some true)].
Definition x_writer : raw := mkRaw 4 true true true true 1 2 [CRequestRemove].
Definition x_stranger : raw := mkRaw 5 true true true true 1 9 [CEmpty].
Definition x_root : raw := mkRaw 1 true false true true 0 50 [].

Example c03_one_to_one_nonvacuous :
  perm_of s1to1 50 = pOwner /\ perm_of s1to1 1 = pWriter /\ perm_of s1to1 2 = pWriter /\ mykeys s1to1 = [1] /\
  mykeys (init_one 999 50 1 2 1) = [] /\
  (* on an ORDINARY list in the same state each of the first three records would be accepted ... *)
  (exists l', add_raw false true true 1 (o_list o0) x_invite = AddOk l' /\ length (invites (l_state l')) = 1%nat) /\
  (exists l', add_raw false true true 1 (o_list o0) x_add = AddOk l' /\ perm_of (l_state l') 7 = pWriter) /\
  (exists l', add_raw false true true 1 (o_list o0) x_writer = AddOk l') /\
  (* ... the one-to-one list refuses them all and stays what it was; the root is a duplicate *)
  oadd_raw false false true true 1 o0 x_invite = OAddRejected /\
  oadd_raw false false true true 1 o0 x_add = OAddRejected /\
  oadd_raw false false true true 1 o0 x_writer = OAddRejected /\
  oadd_raw false false true true 1 o0 x_stranger = OAddRejected /\
  oadd_raw false false true true 1 o0 x_root = OAddDup /\
  fold_left (oadd_raw_keep false false true true 1) [x_invite; x_root; x_add; x_writer; x_stranger] o0 = o0 /\
  oadd_raws false false true true 1 o0 [x_root; x_invite; x_add] = (o0, false) /\
  oadd_raws false false true true 1 o0 [x_root; x_root] = (o0, true) /\
  obuild false true true 1 true s1to1 1 (l_store (o_list o0)) = Some o0.
Proof. vm_compute. repeat split; try reflexivity; eexists; split; reflexivity. Qed.

(* the code before the repair (Copy() drops the flag): the live list accepts the owner-key record, is no longer
   one-to-one, goes on accepting records -- and the storage it wrote cannot be rebuilt *)
Example c03_one_to_one_legacy_refuted :
  exists l1 l2,
    oadd_raw true false true true 1 o0 x_invite = OAddOk l1 /\ o_one l1 = false /\ head (o_list l1) = 2 /\
    oadd_raw true false true true 1 l1 (mkRaw 6 true true true true 2 50 [CAccountsAdd [(7, 2)]]) = OAddOk l2 /\
    perm_of (l_state (o_list l2)) 7 = pAdmin /\
    obuild false true true 1 true s1to1 1 (l_store (o_list l1)) = None /\
    obuild false true true 1 true s1to1 1 (l_store (o_list l2)) = None.
Proof. vm_compute. do 2 eexists. repeat split; reflexivity. Qed.
