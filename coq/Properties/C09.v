(* C09 — Full-sync responses are complete, causally ordered and size-bounded.
   Only property theorems (closed by [exact]), non-vacuity examples and Print Assumptions.
   Model: Model/LoadIter.v (NextBatch in its repaired form, fixes/C09-batch-heads.patch); proofs: Proofs/LoadIter.v, Proofs/LoadIterHeads.v. *)
From Coq Require Import List NArith Bool Arith QArith.
Import ListNotations.
From AnySync Require Import Lib.Dag Model.Dfs Model.Tree Model.LoadIter Proofs.LoadIter Proofs.LoadIterHeads Proofs.DfsTopo.
From AnySync Require Import Model.LoadIterMid Proofs.LoadIterMid.
From AnySync Require Import Model.OrderIds Model.OrderIdsQ Proofs.OrderIdsFill Proofs.OrderIds Proofs.OrderIdsQ Proofs.OrderIdsStore.
Open Scope N_scope.

(* The batches, concatenated, are EXACTLY the responder's stored sequence from the common snapshot on with the
   changes marked removed (ancestors, within that range, of the requester's heads) left out — for every stored
   sequence, paths, heads and every limit (also 0); each batch is non-empty and is below the limit or a single
   change.  (Progress / termination / no repeats are consequences: the stream ends by itself, nothing is left.) *)
Theorem c09_exact_bounded_progress : forall sigma ourPath theirPath theirHeads maxSize bs,
  respond sigma ourPath theirPath theirHeads maxSize = Some bs ->
  exists cs, choose_snapshot ourPath theirPath = Some cs
    /\ concat (map b_changes bs) = nonrem (removed_of sigma cs theirHeads) (from_id cs sigma)
    /\ Forall (fun b => ((total_size (b_changes b) < maxSize) \/ (length (b_changes b) <= 1)%nat) /\ b_changes b <> []) bs.
Proof. exact respond_exact. Qed.
Print Assumptions c09_exact_bounded_progress.

(* complete: for a requester whose stored set is causally closed (within the range) and contains its heads,
   every stored change from the common snapshot on that the requester lacks is sent *)
Theorem c09_complete : forall sigma ourPath theirPath theirHeads maxSize bs (haveB : N -> Prop),
  respond sigma ourPath theirPath theirHeads maxSize = Some bs ->
  (forall cs c p, choose_snapshot ourPath theirPath = Some cs ->
     In c (map se_ch (from_id cs sigma)) -> haveB (cid c) -> In p (cprev c) -> haveB p) ->
  (forall h, In h theirHeads -> haveB h) ->
  exists cs, choose_snapshot ourPath theirPath = Some cs /\
    forall e, In e (from_id cs sigma) -> ~ haveB (se_id e) -> In e (concat (map b_changes bs)).
Proof. exact respond_complete. Qed.
Print Assumptions c09_complete.

Theorem c09_nothing_outside : forall sigma ourPath theirPath theirHeads maxSize bs e,
  respond sigma ourPath theirPath theirHeads maxSize = Some bs ->
  In e (concat (map b_changes bs)) -> In e sigma.
Proof. exact respond_only_stored. Qed.
Print Assumptions c09_nothing_outside.

Theorem c09_no_repeats : forall sigma ourPath theirPath theirHeads maxSize bs,
  respond sigma ourPath theirPath theirHeads maxSize = Some bs ->
  NoDup (map se_id sigma) -> NoDup (map se_id (concat (map b_changes bs))).
Proof. exact respond_no_repeats. Qed.
Print Assumptions c09_no_repeats.

(* causal order: the stored order being a linear extension (C06), so is the order in which changes are sent;
   together with c09_exact (left-out changes are ancestors of the requester's heads) every change is sent after
   all of its previous changes that the requester does not already have *)
Theorem c09_causal : forall sigma ourPath theirPath theirHeads maxSize bs,
  respond sigma ourPath theirPath theirHeads maxSize = Some bs ->
  lin_ext sigma -> lin_ext (concat (map b_changes bs)).
Proof. exact respond_causal. Qed.
Print Assumptions c09_causal.

Theorem c09_empty_request_full : forall sigma ourPath maxSize bs,
  respond sigma ourPath [] [] maxSize = Some bs ->
  concat (map b_changes bs) = from_id (last ourPath 0) sigma.
Proof. exact respond_empty_request. Qed.
Print Assumptions c09_empty_request_full.

(* Heads, step 1: each batch's announced heads are the fold of the head-update step over exactly the
   stored changes processed for it, continuing from the heads announced with the previous batch (initially the
   common snapshot) — i.e. the heads are accumulated over everything processed so far, not per batch. *)
Theorem c09_heads_accumulate : forall maxSize l b l',
  li_exhausted l = false -> next_batch maxSize l = (b, l') ->
  exists used, li_rest l = used ++ li_rest l'
    /\ b_heads b = fold_left upd_heads (map se_ch used) (li_lastHeads l)
    /\ li_lastHeads l' = b_heads b.
Proof. exact next_batch_heads. Qed.
Print Assumptions c09_heads_accumulate.

(* Heads, step 2: that fold IS the declarative [heads_of] (the childless members, as used by spec_C09) of the
   processed sequence whenever the sequence is a linear extension without repeats. *)
Theorem c09_heads_fold_is_childless : forall q,
  lin_changes q -> isort (fold_left upd_heads q []) = heads_of q.
Proof. exact heads_fold_childless. Qed.
Print Assumptions c09_heads_fold_is_childless.

(* Heads: if the stored range from the common snapshot on has pairwise different ids, is a linear extension (C06)
   and no change cites itself, then every response is a [heads_trace]: each batch consists of the not-removed
   entries of a further stretch of the stored range and announces exactly the childless members of the stored
   prefix processed so far (up to just before the first change of the next batch); after the last batch nothing is
   left, so the last batch announces the childless members of the whole range — the responder's heads. *)
Theorem c09_heads_childless : forall sigma ourPath theirPath theirHeads maxSize bs cs,
  respond sigma ourPath theirPath theirHeads maxSize = Some bs ->
  choose_snapshot ourPath theirPath = Some cs ->
  NoDup (map se_id (from_id cs sigma)) -> lin_ext (from_id cs sigma) ->
  (forall e, In e (from_id cs sigma) -> ~ In (se_id e) (cprev (se_ch e))) ->
  heads_trace (removed_of sigma cs theirHeads) (from_id cs sigma) [] bs.
Proof. exact respond_heads_childless. Qed.
Print Assumptions c09_heads_childless.

Theorem c09_last_batch_announces_responder_heads : forall rem view pre bs d,
  heads_trace rem view pre bs -> bs <> [] -> isort (b_heads (last bs d)) = heads_of (map se_ch view).
Proof. exact heads_trace_last. Qed.
Print Assumptions c09_last_batch_announces_responder_heads.

(* Model meets spec, heads conjunct: under the same hypotheses, and for every DAG G that agrees with the stored range, the
   executable heads conjunct of spec_C09 ([heads_ok]: announced heads = [heads_of] of the changes of G before the first
   change of the next batch) is TRUE of the observables of every response of the model. *)
Theorem c09_model_heads_meet_spec : forall G sigma ourPath theirPath theirHeads maxSize bs cs,
  respond sigma ourPath theirPath theirHeads maxSize = Some bs ->
  choose_snapshot ourPath theirPath = Some cs ->
  NoDup (map se_id (from_id cs sigma)) -> lin_ext (from_id cs sigma) ->
  (forall e, In e (from_id cs sigma) -> ~ In (se_id e) (cprev (se_ch e))) ->
  (forall e, In e (from_id cs sigma) -> find_change G (se_id e) = Some (se_ch e)) ->
  heads_ok G (from_id cs sigma) (obs_list bs) = true.
Proof. exact respond_heads_ok. Qed.
Print Assumptions c09_model_heads_meet_spec.

(* Bridge to C06.  C06 models (and compares on every step) the stored order of a replica as the canonical order of its
   stored set.  A stored sequence that IS that order of an acyclic set — previous ids of the root change outside it — has
   pairwise different ids and is a linear extension: the hypotheses of c09_causal and c09_heads_childless.  (What is not
   modelled HERE is that the lexid order ids assigned by the object tree realise this order: that is proved at the end of
   this file, c09_oid_store_is_causal, for stores produced by Tree.Add / AddFast / local adds.) *)
Theorem c09_canonical_store_is_causal : forall S root rk sigma,
  acyclic_by rk (view S root) ->
  map se_id sigma = order S root ->
  (forall e, In e sigma -> se_id e <> root -> In (se_ch e) (view S root)) ->
  (forall e p, In e sigma -> se_id e = root -> In p (cprev (se_ch e)) -> ~ In p (order S root)) ->
  NoDup (map se_id sigma) /\ lin_ext sigma.
Proof. exact canonical_store_lin_ext. Qed.
Print Assumptions c09_canonical_store_is_causal.

(* PARTIAL (model meets spec).  The full statement
     forall G sigma ourPath theirPath theirHeads haveB maxSize finalB, honest inputs ->
       spec_C09 G sigma ... (ids and heads of (respond ...)) finalB = true
   needs the linear-extension property of the STORED order (hypothesis of c09_causal / c09_heads_childless; now PROVED for stores
   produced by Tree.Add / AddFast / local adds with lexid order ids: c09_oid_store_is_causal, c09_causal_for_oid_stores,
   c09_heads_childless_for_oid_stores at the end of this file; not for the reduce / rebuild-from-storage paths of the object tree), the translation of the remaining Prop-level statements above into the executable conjuncts of spec_C09
   (done for the heads conjunct: c09_model_heads_meet_spec), and the requester-side apply (C01).  Proved instead: the declarative components above, and the closed instance below. *)

(* ---- non-vacuity and the legacy behaviour (finding F16): tree 1 -> 2, 1 -> 3 -> 4, limit 150 ---- *)
Definition f16_G := [mkChange 1 [] 0 true; mkChange 2 [1] 1 false; mkChange 3 [1] 1 false; mkChange 4 [3] 1 false].
Definition f16_sigma := [mkSE (mkChange 1 [] 0 true) 63; mkSE (mkChange 2 [1] 1 false) 107;
                         mkSE (mkChange 3 [1] 1 false) 107; mkSE (mkChange 4 [3] 1 false) 107].
Definition obs_of_batches (bs : option (list batch)) : list (list N * list N) :=
  match bs with Some l => map (fun b => (map se_id (b_changes b), b_heads b)) l | None => [] end.

Example c09_nonvacuous :
  obs_of_batches (respond f16_sigma [1] [1] [1] 150) = [([2], [2]); ([3], [2; 3]); ([4], [2; 4])] /\
  spec_C09 f16_G f16_sigma [1] [1] [1] [1] 150 (obs_of_batches (respond f16_sigma [1] [1] [1] 150)) [1; 2; 3; 4] = true /\
  lin_ext f16_sigma = lin_ext f16_sigma.
Proof. vm_compute. repeat split. Qed.

(* the hypotheses of c09_heads_childless hold on the example, and its conclusion is what the example shows *)
Example c09_heads_nonvacuous :
  NoDup (map se_id (from_id 1 f16_sigma)) /\ lin_ext (from_id 1 f16_sigma) /\
  (forall e, In e (from_id 1 f16_sigma) -> ~ In (se_id e) (cprev (se_ch e))) /\
  heads_of (map se_ch (from_id 1 f16_sigma)) = [2; 4].
Proof.
  split; [|split; [|split]].
  - vm_compute. repeat constructor; cbn; intuition discriminate.
  - replace (from_id 1 f16_sigma) with f16_sigma by (vm_compute; reflexivity). unfold f16_sigma.
    intros l1 e l2 Heq p Hp Hin.
    repeat (destruct l1 as [|? l1]; cbn [app] in Heq;
            [inversion Heq; subst; vm_compute in Hp, Hin; intuition (subst; discriminate)|
             inversion Heq as [[Hx Heq']]; clear Heq Hx; rename Heq' into Heq]).
  - intros e He. vm_compute in He. repeat (destruct He as [He|He]; [subst e; vm_compute; intuition discriminate|]). destruct He.
  - vm_compute. reflexivity.
Qed.

(* the code as found announces [2] [3] [4]: the last batch does not announce the responder's heads [2;4] *)
Example c09_heads_legacy_refuted :
  exists sigma ourPath theirPath theirHeads maxSize,
    obs_of_batches (respond_legacy sigma ourPath theirPath theirHeads maxSize) = [([2], [2]); ([3], [3]); ([4], [4])] /\
    spec_C09 f16_G sigma ourPath theirPath theirHeads [1] maxSize
      (obs_of_batches (respond_legacy sigma ourPath theirPath theirHeads maxSize)) [1; 2; 3; 4] = false.
Proof. exists f16_sigma, [1], [1], [1], 150. vm_compute. split; reflexivity. Qed.

(* ================================================================ the stored order, discharged ================================================================

   c09_causal and c09_heads_childless take "the stored sequence is a linear extension with pairwise different ids" as a
   hypothesis.  For a responder whose store was produced by Tree.Add / Tree.AddFast / local adds from the empty tree
   (Model/OrderIds.v: the lexid order ids given by updateHeads' gap filling and by AddContent; [store_of ops sigma]:
   sigma = the attached changes in order-id order, as Storage.GetAfterOrder streams them) the hypothesis is a THEOREM
   (Proofs/OrderIds.v, Proofs/OrderIdsStore.v; C06: c06_storage_order_eq).  Visible hypotheses: the lexid laws
   (satisfiable: c06_oid_laws_satisfiable), one rank for the attached sets along the history ([hist_acyclic]), every
   attached change other than the root has a previous id ([wf_prev]) and the root has none. *)
Theorem c09_oid_store_is_causal : forall oid oltb first_id next_id between, lexid_laws oid oltb next_id between ->
  forall ops rk sigma,
  hist_acyclic oid first_id next_id between rk ops ->
  t_att (it_tree oid (irun oid first_id next_id between ops)) <> [] ->
  wf_prev (it_tree oid (irun oid first_id next_id between ops)) ->
  store_of oid oltb first_id next_id between ops sigma ->
  NoDup (map se_id sigma) /\ lin_ext sigma /\ (forall e, In e sigma -> ~ In (se_id e) (cprev (se_ch e))).
Proof.
  exact (fun oid oltb f n b L => oid_store_lin_ext oid oltb f n b (proj1 L) (proj1 (proj2 L)) (proj1 (proj2 (proj2 L))) (proj2 (proj2 (proj2 L)))).
Qed.
Print Assumptions c09_oid_store_is_causal.

(* c09_causal for such a store: changes are sent after their previous changes — no assumption on the stored order left *)
Theorem c09_causal_for_oid_stores : forall oid oltb first_id next_id between, lexid_laws oid oltb next_id between ->
  forall ops rk sigma ourPath theirPath theirHeads maxSize bs,
  hist_acyclic oid first_id next_id between rk ops ->
  t_att (it_tree oid (irun oid first_id next_id between ops)) <> [] ->
  wf_prev (it_tree oid (irun oid first_id next_id between ops)) ->
  store_of oid oltb first_id next_id between ops sigma ->
  respond sigma ourPath theirPath theirHeads maxSize = Some bs ->
  lin_ext (concat (map b_changes bs)).
Proof.
  exact (fun oid oltb f n b L => oid_store_response_causal oid oltb f n b (proj1 L) (proj1 (proj2 L)) (proj1 (proj2 (proj2 L))) (proj2 (proj2 (proj2 L)))).
Qed.
Print Assumptions c09_causal_for_oid_stores.

(* c09_heads_childless for such a store: every response is a heads_trace *)
Theorem c09_heads_childless_for_oid_stores : forall oid oltb first_id next_id between, lexid_laws oid oltb next_id between ->
  forall ops rk sigma ourPath theirPath theirHeads maxSize bs cs,
  hist_acyclic oid first_id next_id between rk ops ->
  t_att (it_tree oid (irun oid first_id next_id between ops)) <> [] ->
  wf_prev (it_tree oid (irun oid first_id next_id between ops)) ->
  store_of oid oltb first_id next_id between ops sigma ->
  respond sigma ourPath theirPath theirHeads maxSize = Some bs ->
  choose_snapshot ourPath theirPath = Some cs ->
  heads_trace (removed_of sigma cs theirHeads) (from_id cs sigma) [] bs.
Proof.
  exact (fun oid oltb f n b L => oid_store_response_heads oid oltb f n b (proj1 L) (proj1 (proj2 L)) (proj1 (proj2 (proj2 L))) (proj2 (proj2 (proj2 L)))).
Qed.
Print Assumptions c09_heads_childless_for_oid_stores.

(* non-vacuity: the tree of finding F16 (1 -> 2, 1 -> 3 -> 4) built by two deliveries, then a LOCAL merge 9 of the heads
   {2, 4}; its store in order-id order is 1 2 3 4 9 and satisfies [store_of] (rationals as order ids) *)
Definition oid_ops9 : list iop :=
  [IAdd [mkChange 1 [] 0 true; mkChange 3 [1] 1 false]; IAdd [mkChange 4 [3] 1 false; mkChange 2 [1] 1 false]; ILocal 9].
Definition oid_sigma9 : list sentry :=
  [mkSE (mkChange 1 [] 0 true) 63; mkSE (mkChange 2 [1] 1 false) 107; mkSE (mkChange 3 [1] 1 false) 107;
   mkSE (mkChange 4 [3] 1 false) 107; mkSE (mkChange 9 [2; 4] 1 false) 120].

Ltac vm_list_in9 H :=
  match type of H with In _ ?V => let v := eval vm_compute in V in replace V with v in H by (vm_compute; reflexivity) end.

Example c09_oid_nonvacuous :
  hist_acyclic Q q_first q_next q_between (fun i => N.to_nat i) oid_ops9 /\
  t_att (it_tree Q (qrun oid_ops9)) <> [] /\ wf_prev (it_tree Q (qrun oid_ops9)) /\
  store_of Q qltb q_first q_next q_between oid_ops9 oid_sigma9 /\
  qstored (qrun oid_ops9) = [1; 2; 3; 4; 9].
Proof.
  split; [|split; [|split; [|split]]].
  - unfold hist_acyclic, oid_ops9. cbn [acyclic_along].
    do 3 (split; [intros c p Hc Hp; vm_list_in9 Hc; cbn [In] in Hc;
      repeat (destruct Hc as [Hc|Hc];
              [subst c; cbn [cprev In] in Hp; repeat (destruct Hp as [Hp|Hp]; [subst p; vm_compute; repeat constructor|]); destruct Hp|]);
      destruct Hc|]). exact I.
  - match goal with |- ?A <> _ => let v := eval vm_compute in A in replace A with v by (vm_compute; reflexivity) end. discriminate.
  - intros c Hc. vm_list_in9 Hc. cbn [In] in Hc. repeat (destruct Hc as [Hc|Hc]; [subst c; cbn [cprev]; discriminate|]). destruct Hc.
  - unfold store_of. cbn zeta. split; [vm_compute; reflexivity|].
    replace (t_root (it_tree Q (irun Q q_first q_next q_between oid_ops9))) with 1 by (vm_compute; reflexivity).
    replace (t_att (it_tree Q (irun Q q_first q_next q_between oid_ops9)))
      with [mkChange 9 [2; 4] 1 false; mkChange 2 [1] 1 false; mkChange 4 [3] 1 false; mkChange 3 [1] 1 false; mkChange 1 [] 0 true]
      by (vm_compute; reflexivity).
    split; intros e He; cbn [oid_sigma9 In] in He;
      repeat (destruct He as [He|He]; [subst e; cbn; intuition (try discriminate; auto)|]); destruct He.
  - vm_compute. reflexivity.
Qed.

(* ================================================================ stores while the response is streamed ================================================================

   The response is prepared under the tree lock (load) and streamed after the lock is released: every NextBatch re-reads the
   storage from its cursor, so changes of a third peer / local changes can be stored between load and any later batch
   (Model/LoadIterMid.v: [respond_mid sigma0 st]: sigma0 = the store at request time, [st k] = the store found by the k-th
   NextBatch call; NextBatch's cache-miss guard is [scan_c]).  Hypothesis on the stores, visible below: restricted to the ids
   cached at request time, each of them is exactly the range cached at request time, i.e. the store only GREW, by changes with
   other ids, at arbitrary positions of the order (a concurrent branch is ordered into the middle of the range still to be
   streamed); ids in the request-time range are pairwise different. *)

(* such stores are invisible: the batches and the announced heads are those of the undisturbed response, for every limit *)
Theorem c09_mid_stores_invisible : forall sigma0 st ourPath theirPath theirHeads maxSize,
  (forall cs, choose_snapshot ourPath theirPath = Some cs ->
     NoDup (map se_id (from_id cs sigma0)) /\
     forall k, filter (cached (map se_id (from_id cs sigma0))) (st k) = from_id cs sigma0) ->
  respond_mid sigma0 st ourPath theirPath theirHeads maxSize = respond sigma0 ourPath theirPath theirHeads maxSize.
Proof. exact respond_mid_invisible. Qed.
Print Assumptions c09_mid_stores_invisible.

(* size bound, exact content and progress while the store grows: the concatenated batches are exactly what the responder held
   AT REQUEST TIME from the common snapshot on minus the changes marked removed; each batch is non-empty and is below the
   limit or a single change — a change stored meanwhile never rides along *)
Theorem c09_mid_exact_bounded_progress : forall sigma0 st ourPath theirPath theirHeads maxSize bs,
  (forall cs, choose_snapshot ourPath theirPath = Some cs ->
     NoDup (map se_id (from_id cs sigma0)) /\
     forall k, filter (cached (map se_id (from_id cs sigma0))) (st k) = from_id cs sigma0) ->
  respond_mid sigma0 st ourPath theirPath theirHeads maxSize = Some bs ->
  exists cs, choose_snapshot ourPath theirPath = Some cs
    /\ concat (map b_changes bs) = nonrem (removed_of sigma0 cs theirHeads) (from_id cs sigma0)
    /\ Forall (fun b => ((total_size (b_changes b) < maxSize) \/ (length (b_changes b) <= 1)%nat) /\ b_changes b <> []) bs.
Proof. exact respond_mid_exact. Qed.
Print Assumptions c09_mid_exact_bounded_progress.

(* everything held at request time that the requester lacks is delivered, whatever is stored meanwhile *)
Theorem c09_mid_complete : forall sigma0 st ourPath theirPath theirHeads maxSize bs (haveB : N -> Prop),
  (forall cs, choose_snapshot ourPath theirPath = Some cs ->
     NoDup (map se_id (from_id cs sigma0)) /\
     forall k, filter (cached (map se_id (from_id cs sigma0))) (st k) = from_id cs sigma0) ->
  respond_mid sigma0 st ourPath theirPath theirHeads maxSize = Some bs ->
  (forall cs c p, choose_snapshot ourPath theirPath = Some cs ->
     In c (map se_ch (from_id cs sigma0)) -> haveB (cid c) -> In p (cprev c) -> haveB p) ->
  (forall h, In h theirHeads -> haveB h) ->
  exists cs, choose_snapshot ourPath theirPath = Some cs /\
    forall e, In e (from_id cs sigma0) -> ~ haveB (se_id e) -> In e (concat (map b_changes bs)).
Proof. exact respond_mid_complete. Qed.
Print Assumptions c09_mid_complete.

(* announced heads while the store grows: a heads_trace of the request-time range *)
Theorem c09_mid_heads_childless : forall sigma0 st ourPath theirPath theirHeads maxSize bs cs,
  (forall k, filter (cached (map se_id (from_id cs sigma0))) (st k) = from_id cs sigma0) ->
  respond_mid sigma0 st ourPath theirPath theirHeads maxSize = Some bs ->
  choose_snapshot ourPath theirPath = Some cs ->
  NoDup (map se_id (from_id cs sigma0)) -> lin_ext (from_id cs sigma0) ->
  (forall e, In e (from_id cs sigma0) -> ~ In (se_id e) (cprev (se_ch e))) ->
  heads_trace (removed_of sigma0 cs theirHeads) (from_id cs sigma0) [] bs.
Proof. exact respond_mid_heads_childless. Qed.
Print Assumptions c09_mid_heads_childless.

(* non-vacuity (the shape of the seeded demo): the responder holds the chain 1 <- 10 <- 11 <- 12 <- 13 <- 50 <- 51 <- 52
   (100 bytes each); after the request was handled a third peer's change 14 (parent 13, 6000 bytes) is stored, ordered between
   13 and 50; limit 450.  The hypotheses hold, the model streams [10 11 12 13] [50 51 52] (the root 1 is known to the
   requester), spec_C09_mid accepts that — and rejects the observation in which 14 rides along in the first batch. *)
Definition mid_ch (i p : N) := mkChange i [p] 1 false.
Definition mid_G := mkChange 1 [] 0 true ::
  [mid_ch 10 1; mid_ch 11 10; mid_ch 12 11; mid_ch 13 12; mid_ch 50 13; mid_ch 51 50; mid_ch 52 51; mid_ch 14 13].
Definition mid_sigma0 := mkSE (mkChange 1 [] 0 true) 60 ::
  [mkSE (mid_ch 10 1) 100; mkSE (mid_ch 11 10) 100; mkSE (mid_ch 12 11) 100; mkSE (mid_ch 13 12) 100;
   mkSE (mid_ch 50 13) 100; mkSE (mid_ch 51 50) 100; mkSE (mid_ch 52 51) 100].
Definition mid_sigma1 := mkSE (mkChange 1 [] 0 true) 60 ::
  [mkSE (mid_ch 10 1) 100; mkSE (mid_ch 11 10) 100; mkSE (mid_ch 12 11) 100; mkSE (mid_ch 13 12) 100;
   mkSE (mid_ch 14 13) 6000;
   mkSE (mid_ch 50 13) 100; mkSE (mid_ch 51 50) 100; mkSE (mid_ch 52 51) 100].

Example c09_mid_nonvacuous :
  (forall cs, choose_snapshot [1] [1] = Some cs ->
     NoDup (map se_id (from_id cs mid_sigma0)) /\
     forall k : N, filter (cached (map se_id (from_id cs mid_sigma0))) (store_at mid_sigma0 [(0, mid_sigma1)] k) = from_id cs mid_sigma0) /\
  obs_of_batches (respond_mid mid_sigma0 (store_at mid_sigma0 [(0, mid_sigma1)]) [1] [1] [1] 450)
    = [([10; 11; 12; 13], [13]); ([50; 51; 52], [52])] /\
  spec_C09_mid mid_G mid_sigma0 mid_sigma1 [1] [1] [1] [1] 450
    (obs_of_batches (respond_mid mid_sigma0 (store_at mid_sigma0 [(0, mid_sigma1)]) [1] [1] [1] 450))
    [1; 10; 11; 12; 13; 50; 51; 52] = true /\
  spec_C09_mid mid_G mid_sigma0 mid_sigma1 [1] [1] [1] [1] 450
    [([10; 11; 12; 13; 14], [14]); ([50; 51; 52], [14; 52])] [1; 10; 11; 12; 13; 14; 50; 51; 52] = false.
Proof.
  split; [|vm_compute; repeat split].
  intros cs Hcs. vm_compute in Hcs. inversion Hcs; subst cs. split.
  - vm_compute. repeat constructor; cbn; intuition discriminate.
  - intros k. cbn [store_at]. destruct (N.leb 0 k); vm_compute; reflexivity.
Qed.
