(* C09 — Full-sync responses are complete, causally ordered and size-bounded.
   Only property theorems (closed by [exact]), non-vacuity examples and Print Assumptions.
   Model: Model/LoadIter.v (NextBatch in its repaired form, fixes/C09-batch-heads.patch); proofs: Proofs/LoadIter.v, Proofs/LoadIterHeads.v. *)
From Coq Require Import List NArith Bool Arith.
Import ListNotations.
From AnySync Require Import Lib.Dag Model.Dfs Model.Tree Model.LoadIter Proofs.LoadIter Proofs.LoadIterHeads Proofs.DfsTopo.
Open Scope N_scope.

(* The batches, concatenated, are EXACTLY the responder's stored sequence from the common snapshot on with the
   changes marked removed (ancestors, within that range, of the requester's heads) left out — for every stored
   sequence, paths, heads and every limit (also 0); each batch is non-empty and is below the limit or a single
   change.  (Progress / termination / no repeats are consequences: the stream ends by itself, nothing is left.) *)
Theorem c09_exact_bounded_progress : forall sigma ourPath theirPath theirHeads maxSize bs,
  respond sigma ourPath theirPath theirHeads maxSize = Some bs ->
  exists cs, choose_snapshot ourPath theirPath = Some cs
    /\ concat (map b_changes bs) = nonrem (removed_of sigma cs theirHeads) (from_id cs sigma)
    /\ Forall (fun b => ((total_size (b_changes b) < maxSize) \/ (length (b_changes b) <= 1)%nat) /\ b_changes b <> []) bs.
Proof. exact respond_exact. Qed.
Print Assumptions c09_exact_bounded_progress.

(* complete: for a requester whose stored set is causally closed (within the range) and contains its heads,
   every stored change from the common snapshot on that the requester lacks is sent *)
Theorem c09_complete : forall sigma ourPath theirPath theirHeads maxSize bs (haveB : N -> Prop),
  respond sigma ourPath theirPath theirHeads maxSize = Some bs ->
  (forall cs c p, choose_snapshot ourPath theirPath = Some cs ->
     In c (map se_ch (from_id cs sigma)) -> haveB (cid c) -> In p (cprev c) -> haveB p) ->
  (forall h, In h theirHeads -> haveB h) ->
  exists cs, choose_snapshot ourPath theirPath = Some cs /\
    forall e, In e (from_id cs sigma) -> ~ haveB (se_id e) -> In e (concat (map b_changes bs)).
Proof. exact respond_complete. Qed.
Print Assumptions c09_complete.

Theorem c09_nothing_outside : forall sigma ourPath theirPath theirHeads maxSize bs e,
  respond sigma ourPath theirPath theirHeads maxSize = Some bs ->
  In e (concat (map b_changes bs)) -> In e sigma.
Proof. exact respond_only_stored. Qed.
Print Assumptions c09_nothing_outside.

Theorem c09_no_repeats : forall sigma ourPath theirPath theirHeads maxSize bs,
  respond sigma ourPath theirPath theirHeads maxSize = Some bs ->
  NoDup (map se_id sigma) -> NoDup (map se_id (concat (map b_changes bs))).
Proof. exact respond_no_repeats. Qed.
Print Assumptions c09_no_repeats.

(* causal order: the stored order being a linear extension (C06), so is the order in which changes are sent;
   together with c09_exact (left-out changes are ancestors of the requester's heads) every change is sent after
   all of its previous changes that the requester does not already have *)
Theorem c09_causal : forall sigma ourPath theirPath theirHeads maxSize bs,
  respond sigma ourPath theirPath theirHeads maxSize = Some bs ->
  lin_ext sigma -> lin_ext (concat (map b_changes bs)).
Proof. exact respond_causal. Qed.
Print Assumptions c09_causal.

Theorem c09_empty_request_full : forall sigma ourPath maxSize bs,
  respond sigma ourPath [] [] maxSize = Some bs ->
  concat (map b_changes bs) = from_id (last ourPath 0) sigma.
Proof. exact respond_empty_request. Qed.
Print Assumptions c09_empty_request_full.

(* Heads, step 1: each batch's announced heads are the fold of the head-update step over exactly the
   stored changes processed for it, continuing from the heads announced with the previous batch (initially the
   common snapshot) — i.e. the heads are accumulated over everything processed so far, not per batch. *)
Theorem c09_heads_accumulate : forall maxSize l b l',
  li_exhausted l = false -> next_batch maxSize l = (b, l') ->
  exists used, li_rest l = used ++ li_rest l'
    /\ b_heads b = fold_left upd_heads (map se_ch used) (li_lastHeads l)
    /\ li_lastHeads l' = b_heads b.
Proof. exact next_batch_heads. Qed.
Print Assumptions c09_heads_accumulate.

(* Heads, step 2: that fold IS the declarative [heads_of] (the childless members, as used by spec_C09) of the
   processed sequence whenever the sequence is a linear extension without repeats. *)
Theorem c09_heads_fold_is_childless : forall q,
  lin_changes q -> isort (fold_left upd_heads q []) = heads_of q.
Proof. exact heads_fold_childless. Qed.
Print Assumptions c09_heads_fold_is_childless.

(* Heads: if the stored range from the common snapshot on has pairwise different ids, is a linear extension (C06)
   and no change cites itself, then every response is a [heads_trace]: each batch consists of the not-removed
   entries of a further stretch of the stored range and announces exactly the childless members of the stored
   prefix processed so far (up to just before the first change of the next batch); after the last batch nothing is
   left, so the last batch announces the childless members of the whole range — the responder's heads. *)
Theorem c09_heads_childless : forall sigma ourPath theirPath theirHeads maxSize bs cs,
  respond sigma ourPath theirPath theirHeads maxSize = Some bs ->
  choose_snapshot ourPath theirPath = Some cs ->
  NoDup (map se_id (from_id cs sigma)) -> lin_ext (from_id cs sigma) ->
  (forall e, In e (from_id cs sigma) -> ~ In (se_id e) (cprev (se_ch e))) ->
  heads_trace (removed_of sigma cs theirHeads) (from_id cs sigma) [] bs.
Proof. exact respond_heads_childless. Qed.
Print Assumptions c09_heads_childless.

Theorem c09_last_batch_announces_responder_heads : forall rem view pre bs d,
  heads_trace rem view pre bs -> bs <> [] -> isort (b_heads (last bs d)) = heads_of (map se_ch view).
Proof. exact heads_trace_last. Qed.
Print Assumptions c09_last_batch_announces_responder_heads.

(* Model meets spec, heads conjunct: under the same hypotheses, and for every DAG G that agrees with the stored range, the
   executable heads conjunct of spec_C09 ([heads_ok]: announced heads = [heads_of] of the changes of G before the first
   change of the next batch) is TRUE of the observables of every response of the model. *)
Theorem c09_model_heads_meet_spec : forall G sigma ourPath theirPath theirHeads maxSize bs cs,
  respond sigma ourPath theirPath theirHeads maxSize = Some bs ->
  choose_snapshot ourPath theirPath = Some cs ->
  NoDup (map se_id (from_id cs sigma)) -> lin_ext (from_id cs sigma) ->
  (forall e, In e (from_id cs sigma) -> ~ In (se_id e) (cprev (se_ch e))) ->
  (forall e, In e (from_id cs sigma) -> find_change G (se_id e) = Some (se_ch e)) ->
  heads_ok G (from_id cs sigma) (obs_list bs) = true.
Proof. exact respond_heads_ok. Qed.
Print Assumptions c09_model_heads_meet_spec.

(* Bridge to C06.  C06 models (and compares on every step) the stored order of a replica as the canonical order of its
   stored set.  A stored sequence that IS that order of an acyclic set — previous ids of the root change outside it — has
   pairwise different ids and is a linear extension: the hypotheses of c09_causal and c09_heads_childless.  (What is not
   modelled is that the lexid order ids assigned by the object tree realise this order; the script worlds of the harness
   exercise it.) *)
Theorem c09_canonical_store_is_causal : forall S root rk sigma,
  acyclic_by rk (view S root) ->
  map se_id sigma = order S root ->
  (forall e, In e sigma -> se_id e <> root -> In (se_ch e) (view S root)) ->
  (forall e p, In e sigma -> se_id e = root -> In p (cprev (se_ch e)) -> ~ In p (order S root)) ->
  NoDup (map se_id sigma) /\ lin_ext sigma.
Proof. exact canonical_store_lin_ext. Qed.
Print Assumptions c09_canonical_store_is_causal.

(* PARTIAL (model meets spec).  The full statement
     forall G sigma ourPath theirPath theirHeads haveB maxSize finalB, honest inputs ->
       spec_C09 G sigma ... (ids and heads of (respond ...)) finalB = true
   needs the linear-extension property of the STORED order (hypothesis of c09_causal / c09_heads_childless; C06 proves it
   for the canonical order of an acyclic set, c06_topological, but the lexid order ids that realise the stored order are
   not modelled), the translation of the remaining Prop-level statements above into the executable conjuncts of spec_C09
   (done for the heads conjunct: c09_model_heads_meet_spec), and the requester-side apply (C01).  Proved instead: the declarative components above, and the closed instance below. *)

(* ---- non-vacuity and the legacy behaviour (finding F16): tree 1 -> 2, 1 -> 3 -> 4, limit 150 ---- *)
Definition f16_G := [mkChange 1 [] 0 true; mkChange 2 [1] 1 false; mkChange 3 [1] 1 false; mkChange 4 [3] 1 false].
Definition f16_sigma := [mkSE (mkChange 1 [] 0 true) 63; mkSE (mkChange 2 [1] 1 false) 107;
                         mkSE (mkChange 3 [1] 1 false) 107; mkSE (mkChange 4 [3] 1 false) 107].
Definition obs_of_batches (bs : option (list batch)) : list (list N * list N) :=
  match bs with Some l => map (fun b => (map se_id (b_changes b), b_heads b)) l | None => [] end.

Example c09_nonvacuous :
  obs_of_batches (respond f16_sigma [1] [1] [1] 150) = [([2], [2]); ([3], [2; 3]); ([4], [2; 4])] /\
  spec_C09 f16_G f16_sigma [1] [1] [1] [1] 150 (obs_of_batches (respond f16_sigma [1] [1] [1] 150)) [1; 2; 3; 4] = true /\
  lin_ext f16_sigma = lin_ext f16_sigma.
Proof. vm_compute. repeat split. Qed.

(* the hypotheses of c09_heads_childless hold on the example, and its conclusion is what the example shows *)
Example c09_heads_nonvacuous :
  NoDup (map se_id (from_id 1 f16_sigma)) /\ lin_ext (from_id 1 f16_sigma) /\
  (forall e, In e (from_id 1 f16_sigma) -> ~ In (se_id e) (cprev (se_ch e))) /\
  heads_of (map se_ch (from_id 1 f16_sigma)) = [2; 4].
Proof.
  split; [|split; [|split]].
  - vm_compute. repeat constructor; cbn; intuition discriminate.
  - replace (from_id 1 f16_sigma) with f16_sigma by (vm_compute; reflexivity). unfold f16_sigma.
    intros l1 e l2 Heq p Hp Hin.
    repeat (destruct l1 as [|? l1]; cbn [app] in Heq;
            [inversion Heq; subst; vm_compute in Hp, Hin; intuition (subst; discriminate)|
             inversion Heq as [[Hx Heq']]; clear Heq Hx; rename Heq' into Heq]).
  - intros e He. vm_compute in He. repeat (destruct He as [He|He]; [subst e; vm_compute; intuition discriminate|]). destruct He.
  - vm_compute. reflexivity.
Qed.

(* the code as found announces [2] [3] [4]: the last batch does not announce the responder's heads [2;4] *)
Example c09_heads_legacy_refuted :
  exists sigma ourPath theirPath theirHeads maxSize,
    obs_of_batches (respond_legacy sigma ourPath theirPath theirHeads maxSize) = [([2], [2]); ([3], [3]); ([4], [4])] /\
    spec_C09 f16_G sigma ourPath theirPath theirHeads [1] maxSize
      (obs_of_batches (respond_legacy sigma ourPath theirPath theirHeads maxSize)) [1; 2; 3; 4] = false.
Proof. exists f16_sigma, [1], [1], [1], 150. vm_compute. split; reflexivity. Qed.
