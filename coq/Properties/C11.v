(* C11 — Hostile or malformed peer input is rejected with an error, never a crash.
   This file contains only property theorems (closed by [exact]), non-vacuity examples and [Print Assumptions].
   Model: Model/Decoders.v, Model/DecodersTree.v (over Model/Tree.v); proofs: Proofs/Decoders*.v.

   Shape of every theorem: for ALL inputs (all byte strings / all structures, unbounded) and ALL behaviours of
   the black-box collaborators (third-party crypto, generated protobuf decoders: arbitrary functions), the
   model of the hand-written glue never produces [Panic].  Where the code on the unrepaired tree can panic, the
   faithful model of that code is kept as [..._legacy] with a refutation witness, and the theorem is about the
   repaired code (fixes/C11-*.patch, fixes/C04-nil-readkeychange.patch, fixes/C13-nil-parts.patch). *)
From Coq Require Import List NArith Bool Arith.
Import ListNotations.
From AnySync Require Import Lib.Dag Model.Tree Model.DecodersTree Proofs.TreeInc Proofs.DecodersTree.
From AnySync Require Import Model.Decoders Proofs.DecodersBase Proofs.DecodersWire Proofs.DecodersStruct.
Open Scope N_scope.

(* ---- (1) encrypted key / metadata blobs ---- *)
Theorem c11_decrypt_x25519_no_panic : forall open enc w, decrypt_x25519 open enc <> Panic w.
Proof. exact decrypt_x25519_no_panic. Qed.
Print Assumptions c11_decrypt_x25519_no_panic.

(* F9: the unrepaired DecryptX25519 panics exactly on ciphertexts shorter than the 32-byte ephemeral key *)
Theorem c11_decrypt_x25519_legacy_refuted : exists open enc w, decrypt_x25519_legacy open enc = Panic w.
Proof. exact decrypt_x25519_legacy_refuted. Qed.
Print Assumptions c11_decrypt_x25519_legacy_refuted.

Theorem c11_decrypt_x25519_legacy_panics_iff : forall open enc,
  (exists w, decrypt_x25519_legacy open enc = Panic w) <-> blen enc < 32.
Proof. exact decrypt_x25519_legacy_panics_iff. Qed.
Print Assumptions c11_decrypt_x25519_legacy_panics_iff.

Theorem c11_decrypt_x25519_repair_conservative : forall open enc,
  32 <= blen enc -> decrypt_x25519 open enc = decrypt_x25519_legacy open enc.
Proof. exact decrypt_x25519_conservative. Qed.
Print Assumptions c11_decrypt_x25519_repair_conservative.

Theorem c11_ed25519_decrypt_no_panic : forall conv_ok open msg w, ed25519_decrypt conv_ok open msg <> Panic w.
Proof. exact ed25519_decrypt_no_panic. Qed.
Print Assumptions c11_ed25519_decrypt_no_panic.

Theorem c11_ed25519_decrypt_legacy_refuted : exists open msg w, ed25519_decrypt_legacy true open msg = Panic w.
Proof. exact ed25519_decrypt_legacy_refuted. Qed.
Print Assumptions c11_ed25519_decrypt_legacy_refuted.

Theorem c11_aes_decrypt_no_panic : forall key open ct w, aes_decrypt key open ct <> Panic w.
Proof. exact aes_decrypt_no_panic. Qed.
Print Assumptions c11_aes_decrypt_no_panic.

(* ---- (3) handshake frames ---- *)
Theorem c11_read_msg_no_panic : forall allowed vt buf stream w, read_msg allowed vt buf stream <> Panic w.
Proof. exact read_msg_no_panic. Qed.
Print Assumptions c11_read_msg_no_panic.

Theorem c11_read_msg_buffer_bound : forall allowed vt buf stream m buf' rest,
  read_msg allowed vt buf stream = Ok (m, buf', rest) ->
  hb_len buf' <= size_limit /\ hb_cap buf' <= N.max (hb_cap buf) (hb_len buf + header_size + size_limit).
Proof. exact read_msg_buffer_bound. Qed.
Print Assumptions c11_read_msg_buffer_bound.

Theorem c11_incoming_handshake_no_panic : forall env buf stream w, incoming_handshake env buf stream <> Panic w.
Proof. exact incoming_handshake_no_panic. Qed.
Print Assumptions c11_incoming_handshake_no_panic.

Theorem c11_outgoing_handshake_no_panic : forall env buf stream w, outgoing_handshake env buf stream <> Panic w.
Proof. exact outgoing_handshake_no_panic. Qed.
Print Assumptions c11_outgoing_handshake_no_panic.

Theorem c11_incoming_proto_handshake_no_panic : forall env buf stream w,
  incoming_proto_handshake env buf stream <> Panic w.
Proof. exact incoming_proto_handshake_no_panic. Qed.
Print Assumptions c11_incoming_proto_handshake_no_panic.

Theorem c11_outgoing_proto_handshake_no_panic : forall env buf stream w,
  outgoing_proto_handshake env buf stream <> Panic w.
Proof. exact outgoing_proto_handshake_no_panic. Qed.
Print Assumptions c11_outgoing_proto_handshake_no_panic.

(* ---- (3b) "never hangs" for handshake frames: the four exported entry points under a ctx that becomes done ----
   Quantified over the entry point, the kind of connection (what Close does to a pending Read/Write), every byte
   string the peer may send, EVERY point at which it may stop sending (EOF or silence, [p_eof]) and every behaviour
   of our own writes (succeed / fail / park). *)
Theorem c11_handshake_p_no_panic : forall which env p buf stream w, hs_inner which env p buf stream <> Panic w.
Proof. exact hs_inner_no_panic. Qed.
Print Assumptions c11_handshake_p_no_panic.

Theorem c11_handshake_entry_returns : forall which k env p buf stream,
  spec_C11 (class_of_run (hs_entry which k env p buf stream)) = true.
Proof. exact hs_entry_returns. Qed.
Print Assumptions c11_handshake_entry_returns.

Theorem c11_handshake_entry_never_hangs : forall which k env p buf stream, hs_entry which k env p buf stream <> Hung.
Proof. exact hs_entry_never_hangs. Qed.
Print Assumptions c11_handshake_entry_never_hangs.

Theorem c11_handshake_entry_kind_independent : forall which k1 k2 env p buf stream,
  hs_entry which k1 env p buf stream = hs_entry which k2 env p buf stream.
Proof. exact hs_entry_kind_independent. Qed.
Print Assumptions c11_handshake_entry_kind_independent.

Theorem c11_handshake_entry_result : forall which k env p buf stream,
  (hs_inner which env p buf stream = Err E_blocked ->
     hs_entry which k env p buf stream = Returned (Err E_deadline)) /\
  (hs_inner which env p buf stream <> Err E_blocked ->
     hs_entry which k env p buf stream = Returned (hs_inner which env p buf stream)).
Proof. exact hs_entry_result. Qed.
Print Assumptions c11_handshake_entry_result.

(* silence instead of EOF never changes a verdict: ctx error, or exactly the result for the same bytes + EOF *)
Theorem c11_handshake_stall_or_eof : forall which k env w buf stream,
  hs_entry which k env (mkPeer false w) buf stream = Returned (Err E_deadline) \/
  hs_entry which k env (mkPeer false w) buf stream = hs_entry which k env (mkPeer true w) buf stream.
Proof. exact hs_entry_stall_or_eof. Qed.
Print Assumptions c11_handshake_stall_or_eof.

Theorem c11_handshake_truncated_header_deadline : forall which k env w buf stream,
  w <> WFail -> blen stream < header_size ->
  hs_entry which k env (stalled w) buf stream = Returned (Err E_deadline).
Proof. exact hs_entry_truncated_header_deadline. Qed.
Print Assumptions c11_handshake_truncated_header_deadline.

(* the design "conversation inline + context.AfterFunc(ctx, conn.Close)" (NOT the code): indistinguishable on
   connections whose Close interrupts a pending Read, a hang on a QUIC-stream-like connection *)
Theorem c11_inline_close_on_done_same_when_close_interrupts : forall inner,
  entry_inline_close_on_done KCloseInterrupts inner = entry_with_ctx KCloseInterrupts inner.
Proof. exact inline_close_on_done_same_when_close_interrupts. Qed.
Print Assumptions c11_inline_close_on_done_same_when_close_interrupts.

Theorem c11_inline_close_on_done_refuted : exists which env stream,
  class_of_run (entry_inline_close_on_done KCloseSendOnly (hs_inner which env (stalled WOk) pool_buf stream)) = CHang.
Proof. exact inline_close_on_done_refuted. Qed.
Print Assumptions c11_inline_close_on_done_refuted.

Theorem c11_model_meets_spec_stall : forall which k env w buf stream (points : list N),
  spec_C11_stall (map (fun n => class_of_run (hs_entry which k env (stalled w) buf (stall_at n stream))) points) = true.
Proof. exact hs_entry_meets_spec_stall. Qed.
Print Assumptions c11_model_meets_spec_stall.

(* ---- (2) keepidentity.go: the hand-written protobuf wire parser (varints, length-delimited nesting) ---- *)
Theorem c11_consume_varint_no_panic : forall b w, consume_varint b <> Panic w.
Proof. exact consume_varint_no_panic. Qed.
Print Assumptions c11_consume_varint_no_panic.

(* a decoded varint / tag / length-delimited field never claims more bytes than the buffer holds *)
Theorem c11_consume_bytes_in_bounds : forall b v n, consume_bytes b = Ok (v, n) -> 0 < n /\ n <= blen b /\ blen v < n.
Proof. exact (fun b => proj2 (consume_bytes_spec b)). Qed.
Print Assumptions c11_consume_bytes_in_bounds.

Theorem c11_read_tag_no_panic : forall d i w, i <= blen d -> read_tag d i <> Panic w.
Proof. exact (fun d i w H => proj1 (read_tag_spec d i H) w). Qed.
Print Assumptions c11_read_tag_no_panic.

Theorem c11_read_bytes_no_panic : forall d i w, i <= blen d -> read_bytes d i <> Panic w.
Proof. exact (fun d i w H => proj1 (read_bytes_spec d i H) w). Qed.
Print Assumptions c11_read_bytes_no_panic.

(* the fast path, for EVERY byte string, every isOurs predicate and every behaviour of the generated
   AclEncryptedReadKey decoder that itself does not panic: no slice fault, and the loops terminate within
   len+1 rounds (fuel exhaustion is Panic PStack) *)
Theorem c11_keep_identity_fast_with_no_panic : forall vt ours d w,
  (forall b w', vt b <> Panic w') -> keep_identity_fast_with vt ours d <> Panic w.
Proof. exact (fun vt ours d w H => keep_identity_fast_with_no_panic vt H ours d w). Qed.
Print Assumptions c11_keep_identity_fast_with_no_panic.

(* ... and with the byte-level model of the generated decoder + protohelpers.Skip plugged in *)
Theorem c11_keep_identity_fast_no_panic : forall ours d w, keep_identity_fast ours d <> Panic w.
Proof. exact keep_identity_fast_no_panic. Qed.
Print Assumptions c11_keep_identity_fast_no_panic.

Theorem c11_enc_key_unmarshal_no_panic : forall skip d w,
  (forall b w', skip b <> Panic w') -> enc_key_unmarshal_with skip d <> Panic w.
Proof. exact (fun skip d w H => enc_key_unmarshal_with_no_panic skip H d w). Qed.
Print Assumptions c11_enc_key_unmarshal_no_panic.

Theorem c11_vt_skip_no_panic : forall d w, vt_skip d <> Panic w.
Proof. exact vt_skip_no_panic. Qed.
Print Assumptions c11_vt_skip_no_panic.

Theorem c11_unmarshal_keep_identity_no_panic : forall full ours d w,
  (forall b w', full b <> Panic w') -> unmarshal_keep_identity full ours d <> Panic w.
Proof. exact (fun full ours d w H => unmarshal_keep_identity_no_panic full ours d H w). Qed.
Print Assumptions c11_unmarshal_keep_identity_no_panic.

(* ---- (4) pubsub ---- *)
Theorem c11_split_topic_no_panic : forall topic w, split_topic topic <> Panic w.
Proof. exact split_topic_no_panic. Qed.
Print Assumptions c11_split_topic_no_panic.

Theorem c11_split_topic_bounded : forall topic segs, split_topic topic = Ok segs ->
  1 <= N.of_nat (length segs) /\ N.of_nat (length segs) <= max_segments + 1.
Proof. exact split_topic_len. Qed.
Print Assumptions c11_split_topic_bounded.

Theorem c11_validate_topic_no_panic : forall topic w, validate_topic topic <> Panic w.
Proof. exact validate_topic_no_panic. Qed.
Print Assumptions c11_validate_topic_no_panic.

Theorem c11_topic_owner_no_panic : forall topic w, topic_owner topic <> Panic w.
Proof. exact topic_owner_no_panic. Qed.
Print Assumptions c11_topic_owner_no_panic.

Theorem c11_handle_publish_guard_no_panic : forall id pl mx topic w, handle_publish_guard id pl mx topic <> Panic w.
Proof. exact handle_publish_guard_no_panic. Qed.
Print Assumptions c11_handle_publish_guard_no_panic.

Theorem c11_dedup_key_no_panic : forall id w, dedup_key id <> Panic w.
Proof. exact dedup_key_no_panic. Qed.
Print Assumptions c11_dedup_key_no_panic.

(* ---- (5) space payloads ---- *)
Theorem c11_validate_space_header_no_panic : forall h w, validate_space_header h <> Panic w.
Proof. exact validate_space_header_no_panic. Qed.
Print Assumptions c11_validate_space_header_no_panic.

Theorem c11_validate_create_no_panic : forall p w, validate_create p <> Panic w.
Proof. exact validate_create_no_panic. Qed.
Print Assumptions c11_validate_create_no_panic.

Theorem c11_validate_create_legacy_refuted : exists p w, validate_create_legacy p = Panic w.
Proof. exact validate_create_legacy_refuted. Qed.
Print Assumptions c11_validate_create_legacy_refuted.

Theorem c11_validate_create_legacy_panics_iff : forall p,
  (exists w, validate_create_legacy p = Panic w) <-> (p_acl p = None \/ p_settings p = None).
Proof. exact validate_create_legacy_panics_iff. Qed.
Print Assumptions c11_validate_create_legacy_panics_iff.

(* ---- (6) ACL optional sub-messages (with F9 and F10 repaired) ---- *)
Theorem c11_apply_contents_no_panic : forall should_validate cs w, apply_contents true should_validate cs <> Panic w.
Proof. exact apply_contents_no_panic. Qed.
Print Assumptions c11_apply_contents_no_panic.

Theorem c11_apply_contents_legacy_refuted_nil : forall should_validate,
  exists cs w, apply_contents false should_validate cs = Panic w.
Proof. exact apply_contents_legacy_refuted_nil. Qed.
Print Assumptions c11_apply_contents_legacy_refuted_nil.

Theorem c11_apply_contents_legacy_refuted_short_key : exists cs w, apply_contents false false cs = Panic w.
Proof. exact apply_contents_legacy_refuted_short_key. Qed.
Print Assumptions c11_apply_contents_legacy_refuted_short_key.

(* ---- (7) head-sync range requests ---- *)
Theorem c11_handle_range_request_no_panic : forall known elems ranges w, handle_range_request known elems ranges <> Panic w.
Proof. exact handle_range_request_no_panic. Qed.
Print Assumptions c11_handle_range_request_no_panic.

Theorem c11_range_response_bound : forall known elems ranges res,
  handle_range_request known elems ranges = Ok res ->
  length res = length ranges /\ response_elements res <= N.of_nat (length ranges) * N.of_nat (length elems).
Proof. exact range_response_bound. Qed.
Print Assumptions c11_range_response_bound.

Theorem c11_range_inverted_empty : forall known elems r,
  r_to r < r_from r -> lookup_range known (r_from r) (r_to r) = None -> get_range known elems r = (0, 0).
Proof. exact range_inverted_empty. Qed.
Print Assumptions c11_range_inverted_empty.

(* FINDING (resource): the product bound is attained — the response to k full-window ranges carries k times the
   whole index, HeadSyncRange.Limit is not consulted by the serving side. "Allocation proportional to the input"
   is therefore false of the faithful model of HandleRangeRequest; kept as a refutation, not repaired (the
   repair needs a policy decision: cap on ranges per request / honour Limit). *)
Theorem c11_range_allocation_linear_refuted : forall elems k lim,
  (forall h, In h elems -> h < two64) ->
  exists res, handle_range_request [] elems (repeat (mkRange 0 (two64 - 1) true lim) k) = Ok res /\
              response_elements res = N.of_nat k * N.of_nat (length elems).
Proof. exact range_amplification. Qed.
Print Assumptions c11_range_allocation_linear_refuted.

(* ---- the executable predicate applied to observed classes accepts every outcome of the model ---- *)
Theorem c11_model_meets_spec_crypto : forall open enc key conv_ok,
  spec_C11 (class_of (decrypt_x25519 open enc)) = true /\
  spec_C11 (class_of (ed25519_decrypt conv_ok open enc)) = true /\
  spec_C11 (class_of (aes_decrypt key open enc)) = true.
Proof.
  exact (fun open enc key conv_ok =>
    conj (proj1 (no_panic_spec _ _) (decrypt_x25519_no_panic open enc))
    (conj (proj1 (no_panic_spec _ _) (ed25519_decrypt_no_panic conv_ok open enc))
          (proj1 (no_panic_spec _ _) (aes_decrypt_no_panic key open enc)))).
Qed.
Print Assumptions c11_model_meets_spec_crypto.

Theorem c11_model_meets_spec_handshake : forall env buf stream,
  spec_C11 (class_of (incoming_handshake env buf stream)) = true /\
  spec_C11 (class_of (outgoing_handshake env buf stream)) = true /\
  spec_C11 (class_of (incoming_proto_handshake env buf stream)) = true.
Proof.
  exact (fun env buf stream =>
    conj (proj1 (no_panic_spec _ _) (incoming_handshake_no_panic env buf stream))
    (conj (proj1 (no_panic_spec _ _) (outgoing_handshake_no_panic env buf stream))
          (proj1 (no_panic_spec _ _) (incoming_proto_handshake_no_panic env buf stream)))).
Qed.
Print Assumptions c11_model_meets_spec_handshake.

Theorem c11_model_meets_spec_decoders : forall ours d topic id p sv cs known elems ranges,
  spec_C11 (class_of (keep_identity_fast ours d)) = true /\
  spec_C11 (class_of (validate_topic topic)) = true /\
  spec_C11 (class_of (dedup_key id)) = true /\
  spec_C11 (class_of (validate_create p)) = true /\
  spec_C11 (class_of (apply_contents true sv cs)) = true /\
  spec_C11 (class_of (handle_range_request known elems ranges)) = true.
Proof.
  exact (fun ours d topic id p sv cs known elems ranges =>
    conj (proj1 (no_panic_spec _ _) (keep_identity_fast_no_panic ours d))
    (conj (proj1 (no_panic_spec _ _) (validate_topic_no_panic topic))
    (conj (proj1 (no_panic_spec _ _) (dedup_key_no_panic id))
    (conj (proj1 (no_panic_spec _ _) (validate_create_no_panic p))
    (conj (proj1 (no_panic_spec _ _) (apply_contents_no_panic sv cs))
          (proj1 (no_panic_spec _ _) (handle_range_request_no_panic known elems ranges))))))).
Qed.
Print Assumptions c11_model_meets_spec_decoders.

(* ---- non-vacuity: the models do accept, reject and (legacy) panic on concrete inputs ---- *)
Example c11_x25519_nonvacuous :
  class_of (decrypt_x25519 (fun _ _ => Some [7]) (repeat 1 40)) = COk /\
  class_of (decrypt_x25519 (fun _ _ => None) (repeat 1 40)) = CErr /\
  class_of (decrypt_x25519 (fun _ _ => Some [7]) (repeat 1 31)) = CErr /\
  class_of (decrypt_x25519_legacy (fun _ _ => Some [7]) (repeat 1 31)) = CPanic.
Proof. vm_compute. auto. Qed.

Example c11_handshake_nonvacuous :
  let env := mkEnv (fun _ _ => true) true (fun _ => true) (fun _ => true) true in
  (* cred frame with 2-byte body, then ack frame with empty body *)
  class_of (incoming_handshake env pool_buf [1; 2;0;0;0; 9;9; 2; 0;0;0;0]) = COk /\
  (* declared size 1 MiB: rejected before any buffer growth *)
  class_of (incoming_handshake env pool_buf [1; 0;0;16;0; 9]) = CErr /\
  (* ack where credentials are expected *)
  class_of (incoming_handshake env pool_buf [2; 0;0;0;0]) = CErr /\
  (* truncated body *)
  class_of (incoming_handshake env pool_buf [1; 9;0;0;0; 1;2;3]) = CErr.
Proof. vm_compute. auto. Qed.

(* stall points of one valid inbound conversation (cred frame, 2-byte body; ack frame, empty body): parked at every
   proper prefix => ctx error; complete => accepted; the same on the three kinds of connection; with parked writes
   the conversation parks once it has to answer; a rejected stream is rejected without waiting for the deadline *)
Example c11_stall_nonvacuous :
  let env := mkEnv (fun _ _ => true) true (fun _ => true) (fun _ => true) true in
  let s := [1; 2;0;0;0; 9;9; 2; 0;0;0;0] in
  map (fun n => hs_entry 0 KCloseSendOnly env (stalled WOk) pool_buf (stall_at n s)) [0; 1; 5; 6; 7; 11] =
    repeat (Returned (Err E_deadline)) 6 /\
  hs_entry 0 KCloseSendOnly env (stalled WOk) pool_buf (stall_at 12 s) = Returned (Ok tt) /\
  hs_entry 0 KCloseInert env (stalled WBlock) pool_buf (stall_at 12 s) = Returned (Err E_deadline) /\
  hs_entry 0 KCloseInterrupts env (stalled WOk) pool_buf [2; 0;0;0;0] = Returned (Err E_unexpected) /\
  hs_entry 3 KCloseSendOnly env (stalled WOk) pool_buf [3; 0;0;0;0] = Returned (Ok tt) /\
  hs_entry 1 KCloseSendOnly env (stalled WFail) pool_buf [] = Returned (Err E_eof).
Proof. vm_compute. repeat split. Qed.

Definition ours_ex (id : bytes) : bool := match id with [79] => true | _ => false end.
(* AclData{ content{ readKeyChange{ accountKeys{identity="O", key="k"}, accountKeys{identity="x", key="k"}, meta="m" } } } *)
Definition rkc_bytes : bytes := [10;6; 10;1;79; 18;1;107] ++ [10;6; 10;1;120; 18;1;107] ++ [18;1;109].
Definition acl_data_ex : bytes := [10; 21; 58; 19] ++ rkc_bytes.
Example c11_keepid_nonvacuous :
  option_map (map content_summary) (match keep_identity_fast ours_ex acl_data_ex with Ok v => Some v | _ => None end)
    = Some [(7, 1, 0, 0)] /\
  (* a length field pointing one byte past the end: rejected *)
  class_of (keep_identity_fast ours_ex ([10; 22; 58; 19] ++ rkc_bytes)) = CErr /\
  (* an unknown field in the read key change: defers to the full decoder *)
  class_of (keep_identity_fast ours_ex ([10; 24; 58; 22] ++ rkc_bytes ++ [50; 1; 1])) = CErr /\
  (* a 10-byte varint length with an overflowing last byte *)
  class_of (keep_identity_fast ours_ex [10; 255;255;255;255;255;255;255;255;255;2]) = CErr.
Proof. vm_compute. auto. Qed.

Example c11_struct_nonvacuous :
  class_of (validate_topic [97; 47; 98]) = COk /\ class_of (validate_topic [97; 47; 47; 98]) = CErr /\
  option_map (@length bytes) (match split_topic (repeat 47 40) with Ok s => Some s | _ => None end) = Some 17%nat /\
  class_of (validate_create (mkPayload (Some (mkHdr [1; 46; 2] true)) (Some true) (Some true) true)) = COk /\
  class_of (validate_create (mkPayload (Some (mkHdr [1; 2] true)) (Some true) (Some true) true)) = CErr /\
  class_of (validate_create (mkPayload (Some (mkHdr [1; 46; 2] true)) None (Some true) true)) = CErr /\
  class_of (validate_create_legacy (mkPayload (Some (mkHdr [1; 46; 2] true)) None (Some true) true)) = CPanic /\
  class_of (apply_contents true false [AC_account_remove true None]) = CErr /\
  class_of (apply_contents false false [AC_account_remove true None]) = CPanic /\
  class_of (apply_contents true true [AC_unset; AC_space_options true None]) = COk /\
  handle_range_request [] [5; 9; 20] [mkRange 9 5 true 0; mkRange 5 9 true 1] = Ok [(0, 0); (2, 2)].
Proof. vm_compute. repeat split. Qed.

(* ---- (9) tree-change entry point: objectTree.AddRawChanges on batches with hostile parent references / orders ----
   Model: Model/DecodersTree.v over the tree of Model/Tree.v; proofs: Proofs/DecodersTree.v.
   [run_ops ops]: any tree reached by Tree.Add / Tree.AddFast calls from the empty tree; batches are arbitrary lists
   of changes (parents repeated, dangling, cyclic; any delivery order; repeated changes). *)
(* Tree.Add reports every change at most once, and only changes of the batch *)
Theorem c11_tree_add_reports_once : forall ops cs,
  t_att (run_ops ops) <> [] ->
  NoDup (snd (tree_add (run_ops ops) cs)) /\
  (forall i, In i (snd (tree_add (run_ops ops) cs)) -> In i (ids cs)).
Proof. exact tree_add_reports_once. Qed.
Print Assumptions c11_tree_add_reports_once.

(* ... which is exactly what createAddResult needs: a change reported twice dereferences its cleared rawChange *)
Theorem c11_reported_twice_panics : forall raw i rest, exists w, create_add_result raw (i :: i :: rest) = Panic w.
Proof. exact reported_twice_panics. Qed.
Print Assumptions c11_reported_twice_panics.

(* AddRawChanges (normal path) never panics: any reachable tree, any batch, any verdict of the validator *)
Theorem c11_add_raw_changes_no_panic : forall ops valid batch w,
  t_att (run_ops ops) <> [] -> snd (add_raw_normal valid (run_ops ops) batch) <> Panic w.
Proof. exact add_raw_changes_no_panic. Qed.
Print Assumptions c11_add_raw_changes_no_panic.

(* a whole stream of batches against a fresh object tree: every delivered batch is accepted or rejected *)
Theorem c11_add_raw_stream_no_panic : forall root bs row,
  In row (add_raw_run (ta_init root) bs) -> spec_C11 (fst (fst row)) = true.
Proof. exact add_raw_stream_no_panic. Qed.
Print Assumptions c11_add_raw_stream_no_panic.

Theorem c11_model_meets_spec_treeadd : forall root bs,
  spec_C11_treeadd (map fst bs) (add_raw_run (ta_init root) bs) true true = true.
Proof. exact add_raw_stream_meets_spec. Qed.
Print Assumptions c11_model_meets_spec_treeadd.

(* the design "the wait list holds the waiting changes, no second lookup in unAttached" (NOT the code) panics *)
Theorem c11_ptr_waitlist_refuted : exists att batch w, p_add_raw att batch = Panic w.
Proof. exact ptr_waitlist_refuted_ex. Qed.
Print Assumptions c11_ptr_waitlist_refuted.

(* non-vacuity: child 3 citing parent 2 twice, delivered before 2, on the tree {1}: the code attaches 3 once;
   a stale wait entry of an earlier batch plus a re-delivery gives the same duplicate wait entry; the pointer
   wait list reports 3 twice *)
Example c11_treeadd_nonvacuous :
  add_raw_run (ta_init (mkChange 1 [] 0 true)) [([mkChange 3 [2; 2] 1 false; mkChange 2 [1] 1 false], true)]
    = [(COk, [2; 3], [3])] /\
  add_raw_run (ta_init (mkChange 1 [] 0 true))
    [([mkChange 3 [2] 1 false], true); ([mkChange 3 [2] 1 false; mkChange 2 [1] 1 false], true)]
    = [(COk, [], [1]); (COk, [2; 3], [3])] /\
  p_add_raw [1] [mkChange 3 [2; 2] 1 false; mkChange 2 [1] 1 false] = Panic PNil /\
  p_add_raw [1] [mkChange 2 [1] 1 false; mkChange 3 [2; 2] 1 false] = Ok [2; 3].
Proof. vm_compute. repeat split. Qed.
