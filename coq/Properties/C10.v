(* C10 — Tree and ACL persistence is all-or-nothing under crashes and storage faults.
   This file contains only property theorems (closed by [exact]), their non-vacuity examples,
   [Print Assumptions], and the refutations of the ORIGINAL error paths (findings F13, F14, F15, F21, F22).
   Model: Model/Store.v (the REPAIRED behaviour, fixes/C10-*.patch);
   proofs: Proofs/StoreProofs.v, StoreInv.v, StoreSpec.v, StoreAtomic.v.

   The real store is the variable [disk]; every theorem about crash images carries the hypothesis
   [forall t l, disk t l = ref_disk t l] — the store implements the reference transactional semantics
   (nothing of a transaction is durable before its outermost Commit has returned, all of it afterwards).
   That is the trusted SQLite / any-store layer. *)
From Coq Require Import List NArith Bool Arith.
Import ListNotations.
From AnySync Require Import Model.Store Proofs.StoreProofs Proofs.StoreInv Proofs.StoreSpec Proofs.StoreAtomic.
Open Scope N_scope.

(* ---- every operation is ONE transaction that contains all of its writes (incl. deferred creation) *)
Theorem c10_one_transaction : forall w o, one_tx (script w o) = true.
Proof. exact script_one_tx. Qed.
Print Assumptions c10_one_transaction.

(* ---- for every operation, every world and every k: the crash image is the state before or the state after *)
Theorem c10_crash_atomic :
  forall (disk : table -> list call -> table), (forall t l, disk t l = ref_disk t l) ->
  forall w o k,
    crash_image disk w o k = w_store w
    \/ (crash_image disk w o k = post w o /\ (length (script w o) <= k)%nat).
Proof. exact crash_atomic. Qed.
Print Assumptions c10_crash_atomic.

Theorem c10_crash_before_commit_is_pre :
  forall (disk : table -> list call -> table), (forall t l, disk t l = ref_disk t l) ->
  forall w o k, (k < length (script w o))%nat -> crash_image disk w o k = w_store w.
Proof. exact crash_before_commit. Qed.
Print Assumptions c10_crash_before_commit_is_pre.

(* ---- the durable invariant is preserved by every operation (space create, tree create eager/deferred,
        local add, snapshot add, remote add, remote add forcing a rebuild, ACL add, mark deleted, delete) *)
Theorem c10_inv_preserved : forall w o,
  inv_b (w_store w) = true -> uniq (w_store w) = true -> consistent w = true -> op_wf w o = true ->
  inv_b (post w o) = true.
Proof. exact inv_preserved. Qed.
Print Assumptions c10_inv_preserved.

(* ---- hence Inv holds in every crash image *)
Theorem c10_crash_inv :
  forall (disk : table -> list call -> table), (forall t l, disk t l = ref_disk t l) ->
  forall w o k,
    inv_b (w_store w) = true -> uniq (w_store w) = true -> consistent w = true -> op_wf w o = true ->
    inv_b (crash_image disk w o k) = true.
Proof. exact crash_inv. Qed.
Print Assumptions c10_crash_inv.

(* ---- ... along every well-formed operation sequence from the empty store (unbounded) *)
Theorem c10_crash_inv_all_sequences :
  forall (disk : table -> list call -> table), (forall t l, disk t l = ref_disk t l) ->
  forall ops j o k,
    wf_seq (mkW [] [] []) ops = true -> nth_error ops j = Some o ->
    let w := run_seq (mkW [] [] []) (firstn j ops) in
    inv_b (crash_image disk w o k) = true
    /\ (crash_image disk w o k = w_store w \/ crash_image disk w o k = post w o).
Proof. exact crash_inv_seq. Qed.
Print Assumptions c10_crash_inv_all_sequences.

Theorem c10_reachable_good : forall ops k,
  wf_seq (mkW [] [] []) ops = true -> good (run_seq (mkW [] [] []) (firstn k ops)).
Proof. exact good_from_empty. Qed.
Print Assumptions c10_reachable_good.

(* ---- injected fault at call k: nothing becomes durable ... *)
Theorem c10_fault_durable : forall w o k,
  (1 <= k <= length (script w o))%nat -> w_store (fst (fault w o k)) = w_store w.
Proof. exact fault_durable. Qed.
Print Assumptions c10_fault_durable.

(* ---- ... the live objects equal a fresh build from storage (the whole world is unchanged) ... *)
Theorem c10_fault_realigned : forall w o k,
  consistent w = true -> (1 <= k <= length (script w o))%nat -> fst (fault w o k) = w.
Proof. exact fault_realigned. Qed.
Print Assumptions c10_fault_realigned.

(* ---- ... and re-submitting the same input behaves exactly as the fault-free run, which succeeds *)
Theorem c10_fault_retry : forall w o k,
  consistent w = true -> (1 <= k <= length (script w o))%nat -> run (fst (fault w o k)) o = run w o.
Proof. exact fault_retry. Qed.
Print Assumptions c10_fault_retry.

Theorem c10_run_succeeds : forall w o,
  consistent w = true -> op_wf w o = true -> prep w o <> None -> snd (run w o) = true.
Proof. exact run_ok. Qed.
Print Assumptions c10_run_succeeds.

(* ---- live objects agree with storage after every operation *)
Theorem c10_consistent_preserved : forall w o,
  consistent w = true -> tuniq (w_trees w) = true -> op_wf w o = true -> op_wf2 w o = true ->
  consistent (fst (run w o)) = true.
Proof. exact consistent_preserved. Qed.
Print Assumptions c10_consistent_preserved.

(* ---- the model satisfies the observed-behaviour predicate *)
Theorem c10_model_satisfies_spec : forall w o,
  inv_b (w_store w) = true -> uniq (w_store w) = true -> consistent w = true ->
  op_wf w o = true -> op_live w o = true ->
  spec_C10 (model_obs w o) = true.
Proof. exact model_satisfies_spec. Qed.
Print Assumptions c10_model_satisfies_spec.

Theorem c10_spec_along_sequences : forall ops w k o,
  good w -> wf_seq w ops = true -> nth_error ops k = Some o ->
  op_live (run_seq w (firstn k ops)) o = true ->
  spec_C10 (model_obs (run_seq w (firstn k ops)) o) = true.
Proof. exact spec_along_seq. Qed.
Print Assumptions c10_spec_along_sequences.

(* ------------------------------------------------------------------ non-vacuity *)

(* the Section hypothesis is satisfiable: the reference semantics itself *)
Example c10_disk_nonvacuous : forall t l, ref_disk t l = ref_disk t l.
Proof. reflexivity. Qed.

(* a 9-operation sequence using every kind of operation (deferred creation, a two-change remote batch,
   snapshot, ACL add, deletion) is well-formed, every operation succeeds and satisfies spec_C10 *)
Example c10_sequence_nonvacuous :
  wf_seq (mkW [] [] []) demo_ops = true
  /\ forallb (fun k => match nth_error demo_ops k with
                       | Some o => let w := run_seq (mkW [] [] []) (firstn k demo_ops) in
                                   snd (run w o) && op_live w o && spec_C10 (model_obs w o)
                       | None => false end) (seq 0 (length demo_ops)) = true.
Proof. split; [exact demo_wf | exact demo_all_succeed_and_live]. Qed.

Definition c10_w3 : world := run_seq (mkW [] [] []) [OSpaceCreate 1 2 3 10; OTreeCreate 5 10; OLocalAdd 5 6 20 false].

(* a crash image of a real transaction: before the commit = pre, after = post, and they differ *)
Example c10_crash_nonvacuous :
  crash c10_w3 (OLocalAdd 5 7 30 false) 3 = w_store c10_w3
  /\ crash c10_w3 (OLocalAdd 5 7 30 false) 4 = post c10_w3 (OLocalAdd 5 7 30 false)
  /\ table_eqb (w_store c10_w3) (post c10_w3 (OLocalAdd 5 7 30 false)) = false
  /\ inv_b (post c10_w3 (OLocalAdd 5 7 30 false)) = true.
Proof. vm_compute. repeat split. Qed.

(* the invariant is not trivially true: a change whose parent is not stored violates it *)
Example c10_inv_nonvacuous :
  inv_b (w_store c10_w3 ++ [(KChanges, 9, DChange 5 [8] 5 40)]) = false.
Proof. vm_compute. reflexivity. Qed.

(* ------------------------------------------------------------------ the ORIGINAL error paths are refuted
   (each witness is replayed on the real code by the fault injector; see notes/C10.md) *)

(* F13: AddContentWithValidator kept the unsaved head after a failed AddAll; the retry then PERSISTS a change
   whose parent was never stored *)
Example c10_F13_addcontent_legacy_refuted :
  let w1 := legacy_fault_local c10_w3 5 7 false in
  consistent w1 = false
  /\ inv_b (w_store (fst (run w1 (OLocalAdd 5 8 40 false)))) = false.
Proof. vm_compute. split; reflexivity. Qed.

(* F13, snapshot path: the live tree is reduced to the unsaved snapshot *)
Example c10_F13_snapshot_legacy_refuted :
  let w1 := legacy_fault_local c10_w3 5 7 true in
  consistent w1 = false
  /\ inv_b (w_store (fst (run w1 (OLocalAdd 5 8 40 false)))) = false.
Proof. vm_compute. split; reflexivity. Qed.

(* F14: AddRawRecord appended the record before the failed storage.AddAll; the same record is then refused
   (record already exists) and never stored *)
Example c10_F14_acl_legacy_refuted :
  let w1 := legacy_fault_acl c10_w3 4 in
  consistent w1 = false
  /\ snd (run w1 (OAclAdd 4)) = false
  /\ w_store (fst (run w1 (OAclAdd 4))) = w_store c10_w3.
Proof. vm_compute. repeat split. Qed.

(* F15: failed deferred creation left s.storage set; the retried AddAll stores the batch WITHOUT the root *)
Definition c10_wd : world := run_seq (mkW [] [] []) [OSpaceCreate 1 2 3 10; ODeferredOpen 5 10].
Example c10_F15_deferred_legacy_refuted :
  let w1 := legacy_fault_deferred c10_wd 5 in
  let w2 := fst (run w1 (ORemoteAdd 5 [mkChg 6 [5] 5 20] [6] 5)) in
  get (w_store w2) KChanges 6 <> None /\ get (w_store w2) KChanges 5 = None /\ inv_b (w_store w2) = false.
Proof. vm_compute. repeat split. discriminate. Qed.

(* F21: storage.AddAll swallowed the Commit error (unnamed result): the caller sees success, nothing is
   durable, the live tree is ahead of storage — the world after such a "successful" run is not consistent *)
Example c10_F21_commit_error_legacy_refuted :
  let o := OLocalAdd 5 7 30 false in
  let w1 := mkW (w_store (fst (fault c10_w3 o 4))) (w_trees (fst (run c10_w3 o))) (w_acl c10_w3) in
  consistent w1 = false.
Proof. vm_compute. reflexivity. Qed.

(* F22: ObjectTree.Delete set isDeleted before storage.Delete failed: the retry is a no-op that reports
   success while the tree's changes stay stored — the durable state after the retry is not the post state *)
Example c10_F22_delete_legacy_refuted :
  let w := fst (run c10_w3 (OMarkDeleted 5 1)) in
  let w1 := mkW (w_store w) (tdel (w_trees w) 5) (w_acl w) in   (* the object believes it is deleted *)
  snd (run w1 (ODeleteTree 5)) = false
  /\ table_eqb (w_store (fst (run w1 (ODeleteTree 5)))) (post w (ODeleteTree 5)) = false.
Proof. vm_compute. split; reflexivity. Qed.
