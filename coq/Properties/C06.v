(* C06 — Change order is a function of the change set; incremental equals rebuilt.
   Only property theorems (closed by [exact]), non-vacuity examples and Print Assumptions.
   Model: Lib/Dag.v, Model/Dfs.v, Model/Tree.v; proofs: Proofs/DfsBase.v, Proofs/TreeInc.v. *)
From Coq Require Import List NArith Bool Arith Permutation.
Import ListNotations.
From AnySync Require Import Lib.Dag Model.Dfs Model.Tree Proofs.DfsBase Proofs.TreeInc.
Open Scope N_scope.

(* The canonical order (reverse post-order of the topSort DFS over id-sorted Next lists) is defined for every
   change set and root: the fuel of the model never runs out. *)
Theorem c06_order_total : forall S root, order_opt S root = Some (order S root).
Proof. exact order_opt_order. Qed.
Print Assumptions c06_order_total.

(* It depends only on the SET of changes held (any permutation / re-listing of the same changes). *)
Theorem c06_order_function_of_set : forall S S' root, Permutation S S' -> order S root = order S' root.
Proof. exact order_perm. Qed.
Print Assumptions c06_order_function_of_set.

(* Incremental = canonical.  After ANY sequence of Tree.Add / Tree.AddFast calls on an initially empty tree —
   any arrival order, any partition into batches, duplicates inside and across batches, changes that stay
   unattached and are dropped, arbitrary (even malformed) change records — the Next lists the tree maintains by
   sorted insertion are exactly the canonical ones of the attached set ... *)
Theorem c06_next_lists_canonical : forall ops p,
  nxf (run_ops ops) p = next_of (view (t_att (run_ops ops)) (t_root (run_ops ops))) p.
Proof. exact (fun ops => inv_next _ (run_ops_inv ops)). Qed.
Print Assumptions c06_next_lists_canonical.

(* ... hence the sequence it presents is the canonical order of its attached set ("incremental equals rebuilt":
   rebuilding is AddFast of the whole set on an empty tree, one particular history). *)
Theorem c06_incremental_canonical : forall ops,
  t_att (run_ops ops) <> [] ->
  iter_tree (run_ops ops) = Some (order (t_att (run_ops ops)) (t_root (run_ops ops))).
Proof. exact incremental_canonical. Qed.
Print Assumptions c06_incremental_canonical.

(* The same on every replica with that set: two arbitrary histories ending with the same attached set (as a
   set) and the same root present the same sequence. *)
Theorem c06_same_set_same_order : forall ops1 ops2,
  Permutation (t_att (run_ops ops1)) (t_att (run_ops ops2)) ->
  t_root (run_ops ops1) = t_root (run_ops ops2) ->
  iter_ids (run_ops ops1) = iter_ids (run_ops ops2).
Proof. exact same_set_same_order. Qed.
Print Assumptions c06_same_set_same_order.

(* PARTIAL.  The full statement "forall G hists, spec_C06 G (model outputs along hists) = true" additionally needs,
   about [order]:  (1) topological (every change after its previous changes in the view),
   (2) old-order stability under growth / views are restrictions of the full order (reduced, rebuilt at a
   snapshot, reopened),  (3) Append => the old sequence is a prefix of the new one,  (4) heads = childless members.
   (1)-(4) are NOT proved here; they are part of the executable predicate spec_C06, which bin/check evaluates on the
   implementation's observed sequences in every case (and model outputs = observed outputs in every case).
   What is proved of spec_C06's "function of the set" component is c06_same_set_same_order above. *)
Theorem c06_model_meets_spec_partial : forall ops1 ops2,
  Permutation (t_att (run_ops ops1)) (t_att (run_ops ops2)) ->
  t_root (run_ops ops1) = t_root (run_ops ops2) ->
  fun_of_set (keyed_of [iter_ids (run_ops ops1); iter_ids (run_ops ops2)]) = true.
Proof. exact meets_fun_of_set. Qed.
Print Assumptions c06_model_meets_spec_partial.

(* ---- non-vacuity: a diamond with a concurrent snapshot, ids chosen so that id order <> creation order ---- *)
Definition g_root := mkChange 5 [] 0 true.
Definition g_a := mkChange 9 [5] 5 false.
Definition g_b := mkChange 3 [5] 5 false.
Definition g_s := mkChange 7 [5] 5 true.        (* concurrent snapshot *)
Definition g_m := mkChange 4 [9; 3] 5 false.     (* merge of a and b *)
Definition g_t := mkChange 8 [4; 7] 5 false.     (* merge of everything *)

Definition hist1 := [OpAdd [g_root]; OpAdd [g_a; g_b]; OpAdd [g_s]; OpAdd [g_m; g_t]].
(* reverse arrival, duplicates, a batch whose members have to wait for each other, a dropped change re-sent *)
Definition hist2 := [OpAdd [g_root; g_t]; OpAddFast [g_t; g_m; g_s; g_s; g_b]; OpAdd [g_a; g_t; g_m; g_a]].

Example c06_nonvacuous_orders :
  iter_ids (run_ops hist1) = [5; 3; 7; 9; 4; 8] /\ iter_ids (run_ops hist2) = [5; 3; 7; 9; 4; 8] /\
  order [g_t; g_m; g_s; g_b; g_a; g_root] 5 = [5; 3; 7; 9; 4; 8] /\
  t_heads (run_ops hist2) = [8] /\ t_oof (run_ops hist2) = false.
Proof. vm_compute. repeat split. Qed.

Example c06_nonvacuous_same_set :
  Permutation (t_att (run_ops hist1)) (t_att (run_ops hist2)) /\ t_root (run_ops hist1) = t_root (run_ops hist2)
  /\ t_att (run_ops hist1) <> t_att (run_ops hist2).
Proof.
  split; [|split; [vm_compute; reflexivity | vm_compute; discriminate]].
  vm_compute. apply perm_skip. apply perm_skip.
  apply Permutation_cons_app with (l1 := [_; _]) (l2 := [_]). cbn [app]. apply perm_swap.
Qed.

(* the mode decision on the example: extending at the last iterated head is Append, a concurrent branch is Rebuild *)
Example c06_nonvacuous_modes :
  snd (fst (tree_add (run_ops [OpAdd [g_root; g_a]]) [mkChange 2 [9] 5 false])) = Append /\
  snd (fst (tree_add (run_ops [OpAdd [g_root; g_a]]) [g_b])) = Rebuild /\
  snd (fst (tree_add (run_ops [OpAdd [g_root; g_a]]) [g_a])) = Nothing.
Proof. vm_compute. repeat split. Qed.
