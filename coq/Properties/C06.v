(* C06 — Change order is a function of the change set; incremental equals rebuilt.
   Only property theorems (closed by [exact]), non-vacuity examples and Print Assumptions.
   Model: Lib/Dag.v, Model/Dfs.v, Model/Tree.v; proofs: Proofs/DfsBase.v, Proofs/TreeInc.v, Proofs/DfsTopo.v, Proofs/TreeTopo.v, Proofs/DfsStable.v,
   Proofs/TreeAppend.v; rejected batches: Model/TreeReject.v, Proofs/TreeReject.v; order ids (the stored order): Model/OrderIds.v,
   Model/OrderIdsQ.v, Proofs/OrderIdsFill.v, Proofs/OrderIdsTree.v, Proofs/OrderIds.v, Proofs/OrderIdsQ.v; several independent
   trees over the shared pool of sort iterators, presentations in progress: Model/TreePool.v, Proofs/TreePool.v. *)
From Coq Require Import List NArith Bool Arith Permutation QArith.
Import ListNotations.
From AnySync Require Import Lib.Dag Model.Dfs Model.Tree Model.TreeReject Proofs.DfsBase Proofs.TreeInc Proofs.DfsTopo Proofs.TreeTopo Proofs.DfsStable Proofs.TreeAppend Proofs.TreeReject.
From AnySync Require Import Model.OrderIds Model.OrderIdsQ Proofs.OrderIdsFill Proofs.OrderIdsTree Proofs.OrderIds Proofs.OrderIdsQ.
From AnySync Require Import Model.TreePool Proofs.TreePool.
Open Scope N_scope.

(* The canonical order (reverse post-order of the topSort DFS over id-sorted Next lists) is defined for every
   change set and root: the fuel of the model never runs out. *)
Theorem c06_order_total : forall S root, order_opt S root = Some (order S root).
Proof. exact order_opt_order. Qed.
Print Assumptions c06_order_total.

(* It depends only on the SET of changes held (any permutation / re-listing of the same changes). *)
Theorem c06_order_function_of_set : forall S S' root, Permutation S S' -> order S root = order S' root.
Proof. exact order_perm. Qed.
Print Assumptions c06_order_function_of_set.

(* Incremental = canonical.  After ANY sequence of Tree.Add / Tree.AddFast calls on an initially empty tree —
   any arrival order, any partition into batches, duplicates inside and across batches, changes that stay
   unattached and are dropped, arbitrary (even malformed) change records — the Next lists the tree maintains by
   sorted insertion are exactly the canonical ones of the attached set ... *)
Theorem c06_next_lists_canonical : forall ops p,
  nxf (run_ops ops) p = next_of (view (t_att (run_ops ops)) (t_root (run_ops ops))) p.
Proof. exact (fun ops => inv_next _ (run_ops_inv ops)). Qed.
Print Assumptions c06_next_lists_canonical.

(* ... hence the sequence it presents is the canonical order of its attached set ("incremental equals rebuilt":
   rebuilding is AddFast of the whole set on an empty tree, one particular history). *)
Theorem c06_incremental_canonical : forall ops,
  t_att (run_ops ops) <> [] ->
  iter_tree (run_ops ops) = Some (order (t_att (run_ops ops)) (t_root (run_ops ops))).
Proof. exact incremental_canonical. Qed.
Print Assumptions c06_incremental_canonical.

(* The same on every replica with that set: two arbitrary histories ending with the same attached set (as a
   set) and the same root present the same sequence. *)
Theorem c06_same_set_same_order : forall ops1 ops2,
  Permutation (t_att (run_ops ops1)) (t_att (run_ops ops2)) ->
  t_root (run_ops ops1) = t_root (run_ops ops2) ->
  iter_ids (run_ops ops1) = iter_ids (run_ops ops2).
Proof. exact same_set_same_order. Qed.
Print Assumptions c06_same_set_same_order.

(* Topological.  On an ACYCLIC change set — there is a rank that every change exceeds over each of its previous ids
   ("created after its previous changes"; [acyclic_by], hypothesis visible here, satisfiable: c06_nonvacuous_acyclic,
   and needed: c06_topological_needs_acyclic) — the canonical order has no repeats and every presented change has
   all the changes of the view that cite it LATER in the sequence.  Proved over the explicit stack machine
   (frames of pending Next entries under the grey path; Proofs/DfsTopo.v). *)
Theorem c06_topological : forall S root rk,
  acyclic_by rk (view S root) ->
  NoDup (order S root) /\
  forall l1 p l2, order S root = l1 ++ p :: l2 ->
    forall c, In c (view S root) -> In p (cprev c) -> In (cid c) l2.
Proof. exact order_topological. Qed.
Print Assumptions c06_topological.

(* the same in the property's words: a change comes after every one of its previous changes that is presented *)
Theorem c06_parents_first : forall S root rk,
  acyclic_by rk (view S root) ->
  forall c p, In c (view S root) -> In p (cprev c) -> In p (order S root) ->
  exists l1 l2 l3, order S root = l1 ++ p :: l2 ++ cid c :: l3 /\ ~ In (cid c) l1 /\ ~ In p (l2 ++ cid c :: l3).
Proof. exact order_parents_first. Qed.
Print Assumptions c06_parents_first.

(* ... and for the sequence the incrementally maintained tree presents, after any history *)
Theorem c06_incremental_topological : forall ops rk,
  t_att (run_ops ops) <> [] ->
  acyclic_by rk (view (t_att (run_ops ops)) (t_root (run_ops ops))) ->
  NoDup (iter_ids (run_ops ops)) /\
  forall l1 p l2, iter_ids (run_ops ops) = l1 ++ p :: l2 ->
    forall c, In c (view (t_att (run_ops ops)) (t_root (run_ops ops))) -> In p (cprev c) -> In (cid c) l2.
Proof. exact incremental_topological. Qed.
Print Assumptions c06_incremental_topological.

(* Growth never reorders.  Let a replica that holds S learn the changes Nw (ids not yet held, and — S being closed
   under previous ids — not cited by anything in S; the root is not among them), in any listing S' of the union.
   Leaving the new changes out of the new order gives EXACTLY the old order: old changes keep their relative order.
   (Stuttering simulation between the two stack machines, Proofs/DfsStable.v.) *)
Theorem c06_old_order_stable : forall S Nw S' root,
  Permutation S' (S ++ Nw) ->
  (forall c, In c S -> ~ In (cid c) (ids Nw)) ->
  (forall c p, In c (view S root) -> In p (cprev c) -> ~ In p (ids Nw)) ->
  ~ In root (ids Nw) ->
  filter (not_new Nw) (order S' root) = order S root.
Proof. exact order_stable_perm. Qed.
Print Assumptions c06_old_order_stable.

(* ... and for the incrementally maintained tree: whatever batch Tree.Add is given on a non-empty tree reached by any
   history, the attached list grows at the front by some Nw and the sequence presented afterwards, with Nw left out,
   is the sequence presented before. *)
Theorem c06_add_keeps_old_order : forall ops cs,
  t_att (run_ops ops) <> [] ->
  exists Nw, t_att (fst (fst (tree_add (run_ops ops) cs))) = Nw ++ t_att (run_ops ops) /\
    filter (not_new Nw) (iter_ids (fst (fst (tree_add (run_ops ops) cs)))) = iter_ids (run_ops ops).
Proof. exact tree_add_old_order_stable. Qed.
Print Assumptions c06_add_keeps_old_order.

(* Append => prefix, at the level of the canonical order.  If in addition the union is acyclic and every new change
   that is presented is a Next-descendant of the LAST change of the old order (this is lastIteratedHeadId, and
   reachability from it is what Tree.Add tests before it answers Append), then the old order is a prefix of the new
   order and everything after it is new. *)
Theorem c06_append_prefix_order : forall S Nw root,
  (forall c, In c S -> ~ In (cid c) (ids Nw)) ->
  (forall c p, In c (view S root) -> In p (cprev c) -> ~ In p (ids Nw)) ->
  ~ In root (ids Nw) ->
  forall rk, acyclic_by rk (view (S ++ Nw) root) ->
  forall A0 last0, order S root = A0 ++ [last0] ->
  (forall y, In y (order (S ++ Nw) root) -> In y (ids Nw) -> reach (next_of (view (S ++ Nw) root)) last0 y) ->
  exists B, order (S ++ Nw) root = order S root ++ B /\ forall b, In b B -> In b (ids Nw).
Proof. exact order_append_prefix. Qed.
Print Assumptions c06_append_prefix_order.

(* Append => prefix, for the model of Tree.Add itself: on every tree reached by Tree.Add / Tree.AddFast calls from the
   empty tree (arbitrary batches), if Tree.Add answers Append — its own decision: every attached batch member's
   object was really added and is reachable through Next from the old lastIteratedHeadId — and the resulting attached
   set is acyclic, then the sequence presented before is a prefix of the sequence presented after.
   (Second invariant of the tree: attached ids pairwise different, previous ids of attached non-root changes attached,
   nothing unattached between calls, lastIteratedHeadId = last childless change presented; reach_loop sound;
   Proofs/TreeAppend.v.) *)
Theorem c06_append_prefix : forall ops cs t2 added rk,
  tree_add (run_ops ops) cs = (t2, Append, added) ->
  acyclic_by rk (view (t_att t2) (t_root t2)) ->
  exists B, iter_ids t2 = iter_ids (run_ops ops) ++ B.
Proof. exact tree_add_append_prefix. Qed.
Print Assumptions c06_append_prefix.

(* PARTIAL.  The full statement "forall G hists, spec_C06 G (model outputs along hists) = true" additionally needs:
   (1) topological — PROVED above (c06_topological / c06_incremental_topological, for acyclic sets; spec_C06's executable
   [topo_b] additionally looks every id up in G, that translation is not made),
   (2) old-order stability under growth — PROVED above for growth by new changes (c06_old_order_stable, c06_add_keeps_old_order);
   NOT proved: the views of a reduced / rebuilt-at-a-snapshot / reopened object tree are restrictions of the STORED
   order (the stored order is realised by lexid order ids, which are not modelled),
   (3) Append => the old sequence is a prefix of the new one — PROVED above for Tree.Add (c06_append_prefix); not proved for
   the object-tree layer (AddRawChanges: reduce, "last head gone => Rebuild", rebuild from storage),
   (4) heads = childless members — not proved for the tree's headIds (the invariant used for (3) gives lastIteratedHeadId =
   last childless change; the analogous statement for the response iterator's heads is c09_heads_fold_is_childless).
   The unproved parts are conjuncts of the executable predicate spec_C06, which bin/check evaluates on the
   implementation's observed sequences in every case (and model outputs = observed outputs in every case).
   What is proved of spec_C06's "function of the set" component is c06_same_set_same_order above. *)
Theorem c06_model_meets_spec_partial : forall ops1 ops2,
  Permutation (t_att (run_ops ops1)) (t_att (run_ops ops2)) ->
  t_root (run_ops ops1) = t_root (run_ops ops2) ->
  fun_of_set (keyed_of [iter_ids (run_ops ops1); iter_ids (run_ops ops2)]) = true.
Proof. exact meets_fun_of_set. Qed.
Print Assumptions c06_model_meets_spec_partial.

(* ---- non-vacuity: a diamond with a concurrent snapshot, ids chosen so that id order <> creation order ---- *)
Definition g_root := mkChange 5 [] 0 true.
Definition g_a := mkChange 9 [5] 5 false.
Definition g_b := mkChange 3 [5] 5 false.
Definition g_s := mkChange 7 [5] 5 true.        (* concurrent snapshot *)
Definition g_m := mkChange 4 [9; 3] 5 false.     (* merge of a and b *)
Definition g_t := mkChange 8 [4; 7] 5 false.     (* merge of everything *)

Definition hist1 := [OpAdd [g_root]; OpAdd [g_a; g_b]; OpAdd [g_s]; OpAdd [g_m; g_t]].
(* reverse arrival, duplicates, a batch whose members have to wait for each other, a dropped change re-sent *)
Definition hist2 := [OpAdd [g_root; g_t]; OpAddFast [g_t; g_m; g_s; g_s; g_b]; OpAdd [g_a; g_t; g_m; g_a]].

Example c06_nonvacuous_orders :
  iter_ids (run_ops hist1) = [5; 3; 7; 9; 4; 8] /\ iter_ids (run_ops hist2) = [5; 3; 7; 9; 4; 8] /\
  order [g_t; g_m; g_s; g_b; g_a; g_root] 5 = [5; 3; 7; 9; 4; 8] /\
  t_heads (run_ops hist2) = [8] /\ t_oof (run_ops hist2) = false.
Proof. vm_compute. repeat split. Qed.

Example c06_nonvacuous_same_set :
  Permutation (t_att (run_ops hist1)) (t_att (run_ops hist2)) /\ t_root (run_ops hist1) = t_root (run_ops hist2)
  /\ t_att (run_ops hist1) <> t_att (run_ops hist2).
Proof.
  split; [|split; [vm_compute; reflexivity | vm_compute; discriminate]].
  vm_compute. apply perm_skip. apply perm_skip.
  apply Permutation_cons_app with (l1 := [_; _]) (l2 := [_]). cbn [app]. apply perm_swap.
Qed.

(* the acyclicity hypothesis of c06_topological holds on the example (rank = generation) ... *)
Definition g_rk (i : N) : nat :=
  match i with 5 => 0%nat | 9 => 1%nat | 3 => 1%nat | 7 => 1%nat | 4 => 2%nat | 8 => 3%nat | _ => 0%nat end.

Example c06_nonvacuous_acyclic : acyclic_by g_rk (view [g_t; g_m; g_s; g_b; g_a; g_root] 5).
Proof.
  intros c p Hc Hp. vm_compute in Hc.
  repeat (destruct Hc as [Hc|Hc];
          [subst c; vm_compute in Hp; repeat (destruct Hp as [Hp|Hp]; [subst p; vm_compute; repeat constructor|]); destruct Hp|]).
  destruct Hc.
Qed.

(* ... and cannot be dropped: with a cycle 1 -> 2 -> 3 -> 2 the machine (like topSort) presents 2 before 3 although
   3 is a previous change of 2 *)
Example c06_topological_needs_acyclic :
  order [mkChange 1 [] 0 true; mkChange 2 [1; 3] 1 false; mkChange 3 [2] 1 false] 1 = [1; 2; 3].
Proof. vm_compute. reflexivity. Qed.

(* growth on the example: a replica holding root, a, b, s learns the merges m and t; both descend from a = the last
   change of its old order, so the old order [5;3;7;9] is a prefix of the new one *)
Example c06_nonvacuous_growth :
  (forall c, In c [g_root; g_a; g_b; g_s] -> ~ In (cid c) (ids [g_m; g_t])) /\
  (forall c p, In c (view [g_root; g_a; g_b; g_s] 5) -> In p (cprev c) -> ~ In p (ids [g_m; g_t])) /\
  ~ In 5 (ids [g_m; g_t]) /\
  order [g_root; g_a; g_b; g_s] 5 = [5; 3; 7] ++ [9] /\
  order ([g_root; g_a; g_b; g_s] ++ [g_m; g_t]) 5 = [5; 3; 7; 9; 4; 8] /\
  filter (not_new [g_m; g_t]) [5; 3; 7; 9; 4; 8] = [5; 3; 7; 9] /\
  reach (next_of (view ([g_root; g_a; g_b; g_s] ++ [g_m; g_t]) 5)) 9 4 /\
  reach (next_of (view ([g_root; g_a; g_b; g_s] ++ [g_m; g_t]) 5)) 9 8.
Proof.
  repeat split; try (vm_compute; reflexivity).
  - intros c Hc Hin. vm_compute in Hc.
    repeat (destruct Hc as [Hc|Hc]; [subst c; vm_compute in Hin; intuition discriminate|]). destruct Hc.
  - intros c p Hc Hp Hin. vm_compute in Hc.
    repeat (destruct Hc as [Hc|Hc]; [subst c; vm_compute in Hp; vm_compute in Hin; intuition (subst; discriminate)|]). destruct Hc.
  - vm_compute. intuition discriminate.
  - apply reach_one. vm_compute. auto.
  - apply (reach_step _ 9 4 8); [vm_compute; auto | apply reach_one; vm_compute; auto].
Qed.

(* c06_append_prefix on the example: the tree root, a answers Append to a child of a, its attached set is acyclic, and the
   old sequence [5;9] is a prefix of the new one *)
Example c06_nonvacuous_append :
  snd (fst (tree_add (run_ops [OpAdd [g_root; g_a]]) [mkChange 2 [9] 5 false])) = Append /\
  iter_ids (run_ops [OpAdd [g_root; g_a]]) = [5; 9] /\
  iter_ids (fst (fst (tree_add (run_ops [OpAdd [g_root; g_a]]) [mkChange 2 [9] 5 false]))) = [5; 9; 2] /\
  acyclic_by (fun i => match i with 5 => 0%nat | 9 => 1%nat | _ => 2%nat end)
    (view (t_att (fst (fst (tree_add (run_ops [OpAdd [g_root; g_a]]) [mkChange 2 [9] 5 false])))) 5).
Proof.
  repeat split; try (vm_compute; reflexivity).
  intros c p Hc Hp. vm_compute in Hc.
  repeat (destruct Hc as [Hc|Hc];
          [subst c; vm_compute in Hp; repeat (destruct Hp as [Hp|Hp]; [subst p; vm_compute; repeat constructor|]); destruct Hp|]).
  destruct Hc.
Qed.

(* the mode decision on the example: extending at the last iterated head is Append, a concurrent branch is Rebuild *)
Example c06_nonvacuous_modes :
  snd (fst (tree_add (run_ops [OpAdd [g_root; g_a]]) [mkChange 2 [9] 5 false])) = Append /\
  snd (fst (tree_add (run_ops [OpAdd [g_root; g_a]]) [g_b])) = Rebuild /\
  snd (fst (tree_add (run_ops [OpAdd [g_root; g_a]]) [g_a])) = Nothing.
Proof. vm_compute. repeat split. Qed.

(* Rejected batches (Model/TreeReject.v: the rollback closure of addChangesToTree).  FULL statement: on every tree
   reached by Add / AddFast calls, for every batch, rolling back what Tree.Add attached restores the attached set, the
   root, the heads, lastIteratedHeadId and the presented sequence.  PROVED PART: the same under the visible hypothesis
   that the ids Tree.Add reports as added are exactly the ids of the changes it attached (MISSING: that fact about
   [add_all]/[attach]; Proofs/TreeAppend.v records only the length of the added list).  The order-preserving filter of
   the Next lists is what makes it true: they stay the canonical sorted lists of the restored set. *)
Theorem c06_rejected_unchanged_partial : forall ops cs t1 m added,
  t_att (run_ops ops) <> [] ->
  tree_add (run_ops ops) cs = (t1, m, added) ->
  (forall Nw, t_att t1 = Nw ++ t_att (run_ops ops) -> forall i, mem i added = has_change Nw i) ->
  let t := run_ops ops in
  let tr := rollback t t1 added in
  t_att tr = t_att t /\ t_root tr = t_root t /\ t_heads tr = t_heads t /\ t_last tr = t_last t /\
  iter_ids tr = iter_ids t.
Proof. exact rollback_unchanged_partial. Qed.
Print Assumptions c06_rejected_unchanged_partial.

(* root 1 with the branches 3 - 4 and 5; the invalid change 2 (a child of 1 sorting before both siblings) is attached
   by Tree.Add and the batch is rejected: same sequence, same heads, nothing stored; a later valid change 6 on top of
   the heads is appended *)
Example c06_nonvacuous_rejected :
  let c1 := mkChange 1 [] 0 true in let c3 := mkChange 3 [1] 1 false in let c5 := mkChange 5 [1] 1 false in
  let c4 := mkChange 4 [3] 1 false in let c2 := mkChange 2 [1] 1 false in let c6 := mkChange 6 [4; 5] 1 false in
  let o1 := fst (ot_add_raw_v [2] (ot_init c1) [c3; c5; c4] [1]) in
  let r2 := ot_add_raw_v [2] o1 [c2] [1] in
  let r3 := ot_add_raw_v [2] (fst r2) [c6] [1] in
  iter_ids (o_tree o1) = [1; 3; 4; 5] /\ snd r2 = AddErr /\
  iter_ids (o_tree (fst r2)) = [1; 3; 4; 5] /\ t_heads (o_tree (fst r2)) = [4; 5] /\ stored_seq (fst r2) = [1; 3; 4; 5] /\
  snd r3 = AddOk Append [6] /\ iter_ids (o_tree (fst r3)) = [1; 3; 4; 5; 6].
Proof. vm_compute. repeat split. Qed.

(* ================================================================ ORDER IDS: the stored order ================================================================

   Every stored change carries an OrderId string (github.com/anyproto/lexid); storage streams changes in OrderId order.
   Model/OrderIds.v models the ids as elements of an abstract order and mirrors Tree.updateHeads' gap filling
   ([fill]: keep assigned ids, NextBefore for a gap that has a later assigned id, Next for the tail), Tree.add's
   Next("") for a root, and ObjectTree.AddContent (Next of the id of lastIteratedHeadId + Tree.AddMergedHead).
   Histories [irun ops]: any list of Tree.Add / Tree.AddFast calls with arbitrary batches and local adds, from the
   empty tree.  VISIBLE HYPOTHESES of the theorems below:
     lexid_laws          what lexid promises: < is a strict order, prev < Next(prev), prev < b -> prev < NextBefore(prev,b) < b
                         (satisfiable: c06_oid_laws_satisfiable; checked on every adjacent pair of real stored OrderId
                         strings by the harness, direct violation "lexid-law")
     hist_acyclic rk ops one rank that every attached change exceeds over each of its previous ids, in every state the
                         history goes through ("created after its previous changes"; satisfiable: c06_oid_nonvacuous).
                         NOT proved: that acyclicity of the final state implies it for the earlier ones (the attached
                         set only grows) — the hypothesis is therefore stated for every state.
     wf_prev             (only for "sorting gives the presented sequence") every attached change other than the root has
                         a previous id — a change without one is attached by Tree.add but never presented and never
                         gets an order id. *)

(* the ids strictly increase along the presented sequence and every presented change has one *)
Theorem c06_oid_increase_along_presented : forall oid oltb first_id next_id between, lexid_laws oid oltb next_id between ->
  forall ops rk, hist_acyclic oid first_id next_id between rk ops ->
  sorted_ids oid oltb (it_ids oid (irun oid first_id next_id between ops)) (iter_ids (it_tree oid (irun oid first_id next_id between ops))).
Proof.
  exact (fun oid oltb f n b L => ids_increase_along_presented oid oltb f n b (proj1 (proj2 (proj2 L))) (proj2 (proj2 (proj2 L)))).
Qed.
Print Assumptions c06_oid_increase_along_presented.

(* (a) assigned order ids are pairwise different ... *)
Theorem c06_oid_distinct : forall oid oltb first_id next_id between, lexid_laws oid oltb next_id between ->
  forall ops rk, hist_acyclic oid first_id next_id between rk ops ->
  forall i j x, oget oid (it_ids oid (irun oid first_id next_id between ops)) i = Some x ->
                oget oid (it_ids oid (irun oid first_id next_id between ops)) j = Some x -> i = j.
Proof.
  exact (fun oid oltb f n b L => ids_distinct oid oltb f n b (proj1 L) (proj1 (proj2 L)) (proj1 (proj2 (proj2 L))) (proj2 (proj2 (proj2 L)))).
Qed.
Print Assumptions c06_oid_distinct.

(* ... and never change once assigned, whatever happens later (growth never reorders, c06_old_order_stable: the ids already
   assigned stay increasing along the new presented sequence, so updateHeads only has to fill the gaps) *)
Theorem c06_oid_stable : forall oid oltb first_id next_id between, lexid_laws oid oltb next_id between ->
  forall ops1 ops2 rk, hist_acyclic oid first_id next_id between rk (ops1 ++ ops2) ->
  forall i x, oget oid (it_ids oid (irun oid first_id next_id between ops1)) i = Some x ->
              oget oid (it_ids oid (irun oid first_id next_id between (ops1 ++ ops2))) i = Some x.
Proof.
  exact (fun oid oltb f n b L => ids_stable oid oltb f n b (proj1 (proj2 (proj2 L))) (proj2 (proj2 (proj2 L)))).
Qed.
Print Assumptions c06_oid_stable.

(* (b) sorting the attached changes by order id — what Storage.GetAfterOrder streams — gives exactly the canonical order
   of the attached set, the sequence the tree presents: the model assumption "stored order = order S root" *)
Theorem c06_storage_order_eq : forall oid oltb first_id next_id between, lexid_laws oid oltb next_id between ->
  forall ops rk, hist_acyclic oid first_id next_id between rk ops ->
  t_att (it_tree oid (irun oid first_id next_id between ops)) <> [] ->
  wf_prev (it_tree oid (irun oid first_id next_id between ops)) ->
  it_stored oid oltb (irun oid first_id next_id between ops)
  = order (t_att (it_tree oid (irun oid first_id next_id between ops))) (t_root (it_tree oid (irun oid first_id next_id between ops))).
Proof.
  exact (fun oid oltb f n b L => storage_order_eq oid oltb f n b (proj1 L) (proj1 (proj2 L)) (proj1 (proj2 (proj2 L))) (proj2 (proj2 (proj2 L)))).
Qed.
Print Assumptions c06_storage_order_eq.

(* ... hence (with c06_topological) the stored order is a linear extension of causality: no repeats, every stored change
   has all the attached changes that cite it later in the stored order *)
Theorem c06_stored_order_causal : forall oid oltb first_id next_id between, lexid_laws oid oltb next_id between ->
  forall ops rk, hist_acyclic oid first_id next_id between rk ops ->
  t_att (it_tree oid (irun oid first_id next_id between ops)) <> [] ->
  wf_prev (it_tree oid (irun oid first_id next_id between ops)) ->
  NoDup (it_stored oid oltb (irun oid first_id next_id between ops)) /\
  forall l1 p l2, it_stored oid oltb (irun oid first_id next_id between ops) = l1 ++ p :: l2 ->
    forall c, In c (view (t_att (it_tree oid (irun oid first_id next_id between ops))) (t_root (it_tree oid (irun oid first_id next_id between ops)))) ->
    In p (cprev c) -> In (cid c) l2.
Proof.
  exact (fun oid oltb f n b L => stored_order_causal oid oltb f n b (proj1 L) (proj1 (proj2 L)) (proj1 (proj2 (proj2 L))) (proj2 (proj2 (proj2 L)))).
Qed.
Print Assumptions c06_stored_order_causal.

(* (c) a local add (AddContent) that goes through cites exactly the heads and gets an order id above the stored id of
   every one of them (its id is Next of the id of lastIteratedHeadId, which is the last presented change and so carries
   the greatest id — the place where the seeded change C06-seed1 = C09-seed1 breaks the code) *)
Theorem c06_local_id_above_parents : forall oid oltb first_id next_id between, lexid_laws oid oltb next_id between ->
  forall ops id rk, hist_acyclic oid first_id next_id between rk (ops ++ [ILocal id]) ->
  it_local oid next_id (irun oid first_id next_id between ops) id <> irun oid first_id next_id between ops ->
  exists y, oget oid (it_ids oid (irun oid first_id next_id between (ops ++ [ILocal id]))) id = Some y /\
    cprev (local_change (it_tree oid (irun oid first_id next_id between ops)) id false) = t_heads (it_tree oid (irun oid first_id next_id between ops)) /\
    forall p, In p (t_heads (it_tree oid (irun oid first_id next_id between ops))) ->
      exists xp, oget oid (it_ids oid (irun oid first_id next_id between ops)) p = Some xp /\
                 oget oid (it_ids oid (irun oid first_id next_id between (ops ++ [ILocal id]))) p = Some xp /\ olt oid oltb xp y.
Proof.
  exact (fun oid oltb f n b L => local_id_above_parents oid oltb f n b (proj1 L) (proj1 (proj2 (proj2 L))) (proj2 (proj2 (proj2 L)))).
Qed.
Print Assumptions c06_local_id_above_parents.

(* the laws are satisfiable: the rationals with a+1 and the midpoint (the instance the correspondence runs execute) *)
Theorem c06_oid_laws_satisfiable : lexid_laws Q qltb q_next q_between.
Proof. exact q_laws. Qed.
Print Assumptions c06_oid_laws_satisfiable.

(* non-vacuity: root 5 with the concurrent children 9, 3, 7 (presented 5 3 7 9: the last iterated head 9 happens to be the
   greatest here), a LOCAL merge 50 of the three heads, then a late child 8 of 3 and a late child 4 of 5 arrive (gaps
   filled with [between]), a second local change 60 merges the heads {4, 8, 50} — last iterated head 50 — and 2, a late
   child of 9, arrives.  The hypotheses hold, sorting by order id gives the presented sequence. *)
Definition oid_ops : list iop :=
  [IAdd [g_root]; IAdd [g_a; g_b]; IAddFast [g_s]; ILocal 50; IAdd [mkChange 8 [3] 5 false; mkChange 4 [5] 5 false]; ILocal 60;
   IAdd [mkChange 2 [9] 5 false]].
Definition oid_rk (i : N) : nat :=
  match i with 5 => 0%nat | 9 => 1%nat | 3 => 1%nat | 7 => 1%nat | 50 => 2%nat | 8 => 2%nat | 4 => 1%nat | 60 => 3%nat | 2 => 2%nat | _ => 0%nat end.

(* (conversions are kept in VM casts of goals: [vm_compute in H] would leave a conversion for the kernel's lazy machine) *)
Ltac vm_list_in H :=
  match type of H with In _ ?V => let v := eval vm_compute in V in replace V with v in H by (vm_compute; reflexivity) end.
Ltac vm_lhs :=
  match goal with |- ?A <> _ => let v := eval vm_compute in A in replace A with v by (vm_compute; reflexivity) end.

Example c06_oid_nonvacuous :
  hist_acyclic Q q_first q_next q_between oid_rk oid_ops /\
  t_att (it_tree Q (qrun oid_ops)) <> [] /\ wf_prev (it_tree Q (qrun oid_ops)) /\
  iter_ids (it_tree Q (qrun oid_ops)) = [5; 3; 8; 4; 7; 9; 2; 50; 60] /\
  qstored (qrun oid_ops) = [5; 3; 8; 4; 7; 9; 2; 50; 60] /\
  it_local Q q_next (qrun (firstn 3 oid_ops)) 50 <> qrun (firstn 3 oid_ops) /\
  t_heads (it_tree Q (qrun (firstn 5 oid_ops))) = [4; 8; 50] /\ t_last (it_tree Q (qrun (firstn 5 oid_ops))) = 50.
Proof.
  split; [|split; [|split; [|split; [|split; [|split; [|split]]]]]].
  - unfold hist_acyclic, oid_ops. cbn [acyclic_along].
    do 7 (split; [intros c p Hc Hp; vm_list_in Hc; cbn [In] in Hc;
      repeat (destruct Hc as [Hc|Hc];
              [subst c; cbn [cprev In] in Hp; repeat (destruct Hp as [Hp|Hp]; [subst p; vm_compute; repeat constructor|]); destruct Hp|]);
      destruct Hc|]). exact I.
  - vm_lhs. discriminate.
  - intros c Hc. vm_list_in Hc. cbn [In] in Hc. repeat (destruct Hc as [Hc|Hc]; [subst c; cbn [cprev]; discriminate|]). destruct Hc.
  - vm_compute. reflexivity.
  - vm_compute. reflexivity.
  - assert (E : Nat.eqb (length (it_ids Q (it_local Q q_next (qrun (firstn 3 oid_ops)) 50))) (length (it_ids Q (qrun (firstn 3 oid_ops)))) = false)
      by (vm_compute; reflexivity).
    intro H. rewrite H, Nat.eqb_refl in E. discriminate E.
  - vm_compute. reflexivity.
  - vm_compute. reflexivity.
Qed.

(* ------------------------------------------------------------------------------------------------------------------
   SEVERAL INDEPENDENT TREES, PRESENTATIONS IN PROGRESS (Model/TreePool.v).  All trees of a process share one pool of sort
   iterators; the model has the heap of iterator buffers, the pool, and readers = presentations in progress that read the
   HEAP at every step.  Traces = arbitrary flat interleavings of Tree.Add / Tree.AddFast on any tree, whole reads, and
   POpen / PNext / PClose of any number of readers (nested use from consumer callbacks, goroutines blocked inside their
   callbacks).  No hypotheses on the trace (ill-formed events are no-ops). *)

(* Ownership: in every reachable state the iterators of the readers in progress are pairwise different, are not in the
   pool, and still hold what was sorted into them when their reader was opened. *)
Theorem c06_pool_iterators_owned : forall G evs, inv_pool (fst (prun false G p_init evs)).
Proof. exact reachable_inv. Qed.
Print Assumptions c06_pool_iterators_owned.

(* Frame: the state of tree k after any trace is the state after the additions addressed to k alone (a history of
   Tree.Add / Tree.AddFast calls from the empty tree, so every c06_ theorem about [run_ops] applies to it). *)
Theorem c06_pool_tree_is_own_history : forall early G evs k,
  tget (fst (prun early G p_init evs)) k = run_ops (ops_of G k evs).
Proof. exact pool_tree_is_own_history. Qed.
Print Assumptions c06_pool_tree_is_own_history.

(* What a reader in progress is handed next is the next element of the sequence recorded when it was opened. *)
Theorem c06_pool_next_is_recorded : forall G s r rd,
  inv_pool s -> pget (p_readers s) r = Some rd ->
  snd (pstep false G s (PNext r)) = OItem (nth_error (rd_seq rd) (rd_pos rd)).
Proof. exact next_obs. Qed.
Print Assumptions c06_pool_next_is_recorded.

(* The presentation of a tree is a function of that tree's set alone: after ANY trace [pre], a reader opened on tree k
   is handed the first change of L = the canonical order of what k holds (a function of the additions to k in [pre]),
   from its start change on; and whatever trace [post] follows — reads of and additions to other trees or k itself,
   other readers opened, stepped and closed — the changes handed to it by its PNext events are, in order, the following
   elements of L (a prefix of the rest of L; all of it if the reader runs to the end: c06_presentation_complete). *)
Theorem c06_presentation_private : forall G pre r k from post,
  let s := fst (prun false G p_init pre) in
  let t := run_ops (ops_of G k pre) in
  let L := iter_ids t in
  pget (p_readers s) r = None ->
  (t_att t <> [] -> L = order (t_att t) (t_root t)) /\
  snd (pstep false G s (POpen r k from)) = OItem (nth_error L (find_pos from L)) /\
  (forall x, nth_error L (find_pos from L) = Some x ->
     exists rest,
       skipn (S (find_pos from L)) L
       = items_of r post (snd (prun false G (fst (pstep false G s (POpen r k from))) post)) ++ rest).
Proof. exact presentation_private. Qed.
Print Assumptions c06_presentation_private.

(* ... and if the reader runs to the end of its iteration within [post] (its PNext finds nothing left, before any PClose),
   it has been handed ALL the remaining elements of L. *)
Theorem c06_presentation_complete : forall G pre r k from post x,
  let s := fst (prun false G p_init pre) in
  let L := iter_ids (run_ops (ops_of G k pre)) in
  let obs := snd (prun false G (fst (pstep false G s (POpen r k from))) post) in
  pget (p_readers s) r = None ->
  nth_error L (find_pos from L) = Some x ->
  ended_in r post obs = true ->
  skipn (S (find_pos from L)) L = items_of r post obs.
Proof. exact presentation_complete. Qed.
Print Assumptions c06_presentation_complete.

(* Non-vacuity: tree 1 = 1 -> 2 -> {3,4} -> 5, tree 2 = a chain 21..26.  Reader 7 is opened on tree 1, then tree 2 is
   read as a whole and grown, then the reader is stepped to its end: it is handed 1 2 3 4 5; the property predicate
   accepts the trace.  With the iterator released before the walk ([early = true]: the buffer is given back to the pool
   as soon as it is built) the same trace hands the reader changes of tree 2, and the predicate rejects it. *)
Definition pool_G : list change :=
  [mkChange 1 [] 0 true; mkChange 2 [1] 1 false; mkChange 3 [2] 1 false; mkChange 4 [2] 1 false; mkChange 5 [3; 4] 1 false;
   mkChange 21 [] 0 true; mkChange 22 [21] 21 false; mkChange 23 [22] 21 false; mkChange 24 [23] 21 false;
   mkChange 25 [24] 21 false; mkChange 26 [25] 21 false].
Definition pool_pre : list pev :=
  [PFast 1 [1]; PAdd 1 [2; 3; 4; 5]; PRead 1; PFast 2 [21]; PAdd 2 [22; 23; 24; 25]; PRead 2].
Definition pool_post : list pev :=
  [PRead 2; PNext 7; PAdd 2 [26]; PNext 7; PRead 2; PNext 7; PNext 7; PNext 7; PRead 1].
Definition pool_trace : list pev := pool_pre ++ POpen 7 1 1 :: pool_post.

Example c06_pool_nonvacuous :
  pget (p_readers (fst (prun false pool_G p_init pool_pre))) 7 = None /\
  t_att (run_ops (ops_of pool_G 1 pool_pre)) <> [] /\
  iter_ids (run_ops (ops_of pool_G 1 pool_pre)) = [1; 2; 3; 4; 5] /\
  items_of 7 pool_post
    (snd (prun false pool_G (fst (pstep false pool_G (fst (prun false pool_G p_init pool_pre)) (POpen 7 1 1))) pool_post))
  = [2; 3; 4; 5] /\
  ended_in 7 pool_post
    (snd (prun false pool_G (fst (pstep false pool_G (fst (prun false pool_G p_init pool_pre)) (POpen 7 1 1))) pool_post))
  = true /\
  spec_C06_pool pool_G (combine pool_trace (snd (prun false pool_G p_init pool_trace))) = true.
Proof.
  split; [vm_compute; reflexivity|]. split; [vm_lhs; discriminate|].
  split; [vm_compute; reflexivity|]. split; [vm_compute; reflexivity|]. split; vm_compute; reflexivity.
Qed.

Example c06_pool_early_release_refuted :
  items_of 7 pool_post
    (snd (prun true pool_G (fst (pstep true pool_G (fst (prun true pool_G p_init pool_pre)) (POpen 7 1 1))) pool_post))
  = [22; 23; 24; 25; 26] /\
  spec_C06_pool pool_G (combine pool_trace (snd (prun true pool_G p_init pool_trace))) = false.
Proof. split; vm_compute; reflexivity. Qed.
