(* C20 — Component container: ordered start, reverse-ordered stop, no use-before-init.
   This file contains only property theorems (closed by [exact]), their non-vacuity examples and
   [Print Assumptions].  Model: Model/App.v; proofs: Proofs/AppProofs.v, Proofs/AppLife.v. *)
From Coq Require Import List NArith Bool Arith.
Import ListNotations.
From AnySync Require Import Model.App Proofs.AppProofs Proofs.AppLife.

(* The loops of App.Start / App.Close / App.Component compute exactly the declarative specification. *)
Theorem c20_start_is_spec : forall cs, start cs = spec_start cs.
Proof. exact start_eq_spec. Qed.
Print Assumptions c20_start_is_spec.

Theorem c20_close_is_spec : forall cs, close cs = spec_close cs.
Proof. exact close_eq_spec. Qed.
Print Assumptions c20_close_is_spec.

Theorem c20_lookup_is_spec : forall p chain lvl, lookup p chain lvl = spec_lookup p chain lvl.
Proof. exact lookup_eq_spec. Qed.
Print Assumptions c20_lookup_is_spec.

(* no failing component: Init all in registration order, then Run the runnable ones in order, no Close *)
Theorem c20_start_ok : forall cs,
  first_init_fail cs = None -> first_run_fail cs = None ->
  start cs = (map EInit (seq 0 (length cs)) ++ map ERun (runnable_idx cs (length cs)), StartOk).
Proof. exact start_ok. Qed.
Print Assumptions c20_start_ok.

(* a Run event is only ever preceded by the Init of ALL components, and no Init follows *)
Theorem c20_no_use_before_init : forall cs k,
  In (ERun k) (fst (start cs)) ->
  exists tail, fst (start cs) = map EInit (seq 0 (length cs)) ++ tail /\ (forall j, ~ In (EInit j) tail).
Proof. exact no_run_before_all_init. Qed.
Print Assumptions c20_no_use_before_init.

(* Init of component i fails (i = first failing): error, nothing after i touched, closes = runnable among first i+1, reversed *)
Theorem c20_init_failure : forall cs i,
  first_init_fail cs = Some i ->
  start cs = (map EInit (seq 0 (S i)) ++ map EClose (rev (runnable_idx cs (S i))), ErrInit i).
Proof. exact init_failure. Qed.
Print Assumptions c20_init_failure.

Theorem c20_first_init_fail_char : forall cs i,
  first_init_fail cs = Some i <->
  (exists c, nth_error cs i = Some c /\ init_fails c = true) /\
  (forall j c, j < i -> nth_error cs j = Some c -> init_fails c = false).
Proof. exact first_init_fail_char. Qed.
Print Assumptions c20_first_init_fail_char.

Theorem c20_run_failure : forall cs i,
  first_init_fail cs = None -> first_run_fail cs = Some i ->
  start cs = (map EInit (seq 0 (length cs)) ++ map ERun (runnable_idx cs (S i))
                ++ map EClose (rev (runnable_idx cs (S i))), ErrRun i).
Proof. exact run_failure. Qed.
Print Assumptions c20_run_failure.

(* shutdown: exactly the runnable components, each once, nothing else, later-registered first *)
Theorem c20_close_exactly_runnable : forall cs i,
  In (EClose i) (fst (close cs)) <-> (exists c, nth_error cs i = Some c /\ runnable c = true).
Proof. exact close_exactly_runnable. Qed.
Print Assumptions c20_close_exactly_runnable.

Theorem c20_close_only_closes : forall cs e, In e (fst (close cs)) -> exists i, e = EClose i.
Proof. exact close_no_other_events. Qed.

Theorem c20_close_each_once : forall cs, NoDup (fst (close cs)).
Proof. exact close_each_once. Qed.
Print Assumptions c20_close_each_once.

Theorem c20_close_reverse : forall cs i j,
  i < j -> In (EClose i) (fst (close cs)) -> In (EClose j) (fst (close cs)) ->
  before (EClose j) (EClose i) (fst (close cs)).
Proof. exact close_reverse_order. Qed.
Print Assumptions c20_close_reverse.

(* name / interface resolution: local first, then the nearest ancestor that has a match *)
Theorem c20_lookup_child_first : forall p chain lvl i,
  lookup p chain 0 = Some (lvl, i) ->
  (exists cs c, nth_error chain lvl = Some cs /\ nth_error cs i = Some c /\ p c = true /\
     (forall j c', j < i -> nth_error cs j = Some c' -> p c' = false)) /\
  (forall l cs, l < lvl -> nth_error chain l = Some cs -> existsb p cs = false).
Proof. exact lookup_child_first. Qed.
Print Assumptions c20_lookup_child_first.

Theorem c20_lookup_none : forall p chain,
  lookup p chain 0 = None <-> forall cs, In cs chain -> existsb p cs = false.
Proof. exact lookup_none. Qed.
Print Assumptions c20_lookup_none.

(* the executable predicate used on the implementation's observed behaviour accepts the model *)
Theorem c20_model_meets_spec : forall cs,
  spec_C20_start cs (start cs) = true /\ spec_C20_close cs (close cs) = true.
Proof. exact (fun cs => conj (model_meets_spec_start cs) (model_meets_spec_close cs)). Qed.
Print Assumptions c20_model_meets_spec.

Theorem c20_model_meets_spec_lookup : forall p chain, spec_C20_lookup p chain (lookup p chain 0) = true.
Proof. exact model_meets_spec_lookup. Qed.

(* histories: whatever registrations and lookups happened before, a lookup answers from the registrations made so
   far, child first — no earlier answer is remembered *)
Theorem c20_lookup_history_is_spec : forall ops chain, run_lops chain ops = spec_run_lops chain ops.
Proof. exact run_lops_eq_spec. Qed.
Print Assumptions c20_lookup_history_is_spec.

Theorem c20_lookup_sees_local_registration : forall chain l c key bk,
  (l < length chain)%nat -> look_pred bk key c = true ->
  (forall cs rest, skipn l chain = cs :: rest -> existsb (look_pred bk key) cs = false) ->
  exists i, lookup (look_pred bk key) (skipn l (reg_at chain l c)) l = Some (l, i).
Proof. exact lookup_sees_local_registration. Qed.
Print Assumptions c20_lookup_sees_local_registration.

Theorem c20_model_meets_spec_lookup_history : forall depth ops,
  spec_C20_lops depth ops (run_lops (repeat [] depth) ops) = true.
Proof. exact model_meets_spec_lops. Qed.
Print Assumptions c20_model_meets_spec_lookup_history.

(* ---- lifecycle histories: Register / Start / Close in any order on one container, and registrations attempted
   by another goroutine while a Start is executing ---- *)

(* the discipline "no use before init" on the log of every Start, for every component list *)
Theorem c20_start_ordered : forall cs, ordered (fst (start cs)) = true.
Proof. exact ordered_start. Qed.
Print Assumptions c20_start_ordered.

(* ... and what the discipline means: a Run of i is preceded by the Init of i, and no Init follows any Run *)
Theorem c20_ordered_means : forall ev pre i post,
  ordered ev = true -> ev = pre ++ ERun i :: post ->
  In (EInit i) pre /\ (forall j, ~ In (EInit j) post).
Proof. exact ordered_sound. Qed.
Print Assumptions c20_ordered_means.

(* a Start only ever touches components registered before it began *)
Theorem c20_start_touches_registered_only : forall cs e, In e (fst (start cs)) -> (event_idx e < length cs)%nat.
Proof. exact start_events_registered. Qed.
Print Assumptions c20_start_touches_registered_only.

(* a registration attempted while Start executes is inert for that Start (not initialised, not run, not closed by
   its rollback) and the rest of the history continues from the list it leaves *)
Theorem c20_late_registration_inert : forall cs late ops ev res rest,
  run_hops cs (HStart late :: ops) = (ev, res) :: rest ->
  (ev, res) = (fst (start cs), HRStart (snd (start cs))) /\
  (forall e, In e ev -> (event_idx e < length cs)%nat) /\
  rest = run_hops (after_start cs ev late) ops.
Proof. exact late_registration_inert. Qed.
Print Assumptions c20_late_registration_inert.

(* every lifecycle history of the model satisfies the predicate applied to the implementation's logs *)
Theorem c20_model_meets_spec_lifecycle : forall ops cs, spec_C20_hops cs ops (run_hops cs ops) = true.
Proof. exact model_meets_spec_hops. Qed.
Print Assumptions c20_model_meets_spec_lifecycle.

(* ---- non-vacuity: concrete component lists meeting the hypotheses ---- *)
Definition cR := mkComp 1 0 true false false false.   (* runnable *)
Definition cP := mkComp 2 0 false false false false.  (* plain *)
Definition cIF := mkComp 3 0 true true false false.   (* runnable, Init fails *)
Definition cRF := mkComp 4 0 true false true true.    (* runnable, Run fails, Close fails *)

Example c20_nonvacuous_ok : first_init_fail [cR; cP; cR] = None /\ first_run_fail [cR; cP; cR] = None /\
  start [cR; cP; cR] = ([EInit 0; EInit 1; EInit 2; ERun 0; ERun 2], StartOk).
Proof. vm_compute. auto. Qed.

Example c20_nonvacuous_init : first_init_fail [cR; cP; cIF; cR] = Some 2 /\
  start [cR; cP; cIF; cR] = ([EInit 0; EInit 1; EInit 2; EClose 2; EClose 0], ErrInit 2).
Proof. vm_compute. auto. Qed.

Example c20_nonvacuous_run : first_run_fail [cR; cP; cRF; cR] = Some 2 /\
  start [cR; cP; cRF; cR] =
    ([EInit 0; EInit 1; EInit 2; EInit 3; ERun 0; ERun 2; EClose 2; EClose 0], ErrRun 2).
Proof. vm_compute. auto. Qed.

Example c20_nonvacuous_close : close [cR; cP; cRF; cR] = ([EClose 3; EClose 2; EClose 0], [2]).
Proof. vm_compute. auto. Qed.

Example c20_nonvacuous_lookup :
  lookup (by_name 2) [[cR]; [cIF; cP]; [cP]] 0 = Some (1, 1).
Proof. vm_compute. auto. Qed.

(* child looks X up (gets the parent's), registers its own X, looks X up again (gets its own) *)
Example c20_nonvacuous_lookup_history :
  run_lops [[]; []] [LReg 1 cP; LLook 0 false 2; LReg 0 (mkComp 2 0 true false false false); LLook 0 false 2; LLook 1 false 2]
  = [Some (1, 0); Some (0, 0); Some (1, 0)]%nat.
Proof. vm_compute. reflexivity. Qed.

(* second component's Init triggers a registration from another goroutine: it lands after Start, is neither
   initialised nor run by it, and is closed (first) by the later Close *)
Example c20_nonvacuous_lifecycle :
  run_hops [] [HReg cR; HReg cP; HStart (Some (PInit, 1%nat, cR)); HClose]
  = [([], HRReg); ([], HRReg); ([EInit 0; EInit 1; ERun 0], HRStart StartOk); ([EClose 2; EClose 0], HRClose [])]%nat.
Proof. vm_compute. reflexivity. Qed.

(* a log in which the late component is run without having been initialised violates the predicate *)
Example c20_lifecycle_spec_rejects_run_before_init :
  spec_C20_start_late [cR; cP] ([EInit 0; EInit 1; ERun 0; ERun 2]%nat, StartOk) = false.
Proof. vm_compute. reflexivity. Qed.
