(* C16 — placeholder while the pipeline is brought up; replaced below. *)
From Coq Require Import List NArith Bool.
Import ListNotations.
From AnySync Require Import Model.OCache.
