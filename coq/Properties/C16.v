(* C16 — Object cache keeps at most one live instance per id under any interleaving.
   Only property theorems (closed by [exact]), non-vacuity / refutation examples and [Print Assumptions].
   Model: Model/OCache.v (labelled transition system of app/ocache, REPAIRED behaviour = cfg [fixed]);
   proofs: Proofs/OCacheProofs.v (invariant), Proofs/OCacheSim.v (simulation with the monitor of spec_C16),
   Proofs/OCacheCorollaries.v.

   A schedule is any list of (thread, action) labels; [run fixed init ls = Some s] says the schedule ls is
   executable from the empty cache (any number of threads, ids, calls; thread programs are whatever calls the
   schedule starts on idle threads).  [obs s] is the harness-visible trace of the run. *)
From Coq Require Import List NArith Bool.
Import ListNotations.
From AnySync Require Import Model.OCache Proofs.OCacheProofs Proofs.OCacheSim Proofs.OCacheAccept
  Proofs.OCacheCorollaries Proofs.OCacheLive Proofs.OCacheGap.
Open Scope N_scope.

(* The whole property as the executable trace predicate that the correspondence check also evaluates on every
   OBSERVED trace of the real cache: single live instance per id, load start only when no live instance and no
   other load of the id, returned instances were created for that id, no double close, nothing returned that
   was closed before the call started, result shapes, and none left open after Close() returned with all
   calls finished. *)
Theorem c16_model_satisfies_spec : forall ls s, run fixed init ls = Some s -> spec_C16 (obs s) = true.
Proof. exact model_satisfies_spec. Qed.
Print Assumptions c16_model_satisfies_spec.

(* No step dereferences an absent value (e.value.Close() / e.value.TryClose() on nil). *)
Theorem c16_no_panic : forall ls s, run fixed init ls = Some s -> panicked s = false.
Proof. exact no_panic. Qed.
Print Assumptions c16_no_panic.

(* At most one live instance per id: two entries that hold an instance whose close has not finished and
   that belong to the same id are the same entry (and the same instance). *)
Theorem c16_single_live : forall ls s id r1 n1 r2 n2,
  run fixed init ls = Some s -> live_in s r1 id n1 -> live_in s r2 id n2 -> r1 = r2 /\ n1 = n2.
Proof. exact single_live. Qed.
Print Assumptions c16_single_live.

(* A load of id is in flight (between load start and load end) only while no instance of id is live ... *)
Theorem c16_load_only_when_none_live : forall ls s t id r rt r' n,
  run fixed init ls = Some s -> threads s t = GInLoad id r rt -> ~ live_in s r' id n.
Proof. exact load_excludes_live. Qed.
Print Assumptions c16_load_only_when_none_live.

(* ... and loads of one id never overlap (single flight). *)
Theorem c16_single_flight : forall ls s t t' id r rt r' rt',
  run fixed init ls = Some s -> threads s t = GInLoad id r rt -> threads s t' = GInLoad id r' rt' -> t = t'.
Proof. exact single_flight. Qed.
Print Assumptions c16_single_flight.

(* Every instance about to be handed to a caller sits in an entry whose load has finished successfully
   (or that was Added). *)
Theorem c16_returned_is_loaded : forall ls s t n,
  run fixed init ls = Some s -> threads s t = PRet (RVal n) ->
  exists r e, heap s r = Some e /\ e_value e = Some n /\ e_loaddone e = true /\ e_failed e = false.
Proof. exact returned_is_loaded. Qed.
Print Assumptions c16_returned_is_loaded.

(* No instance is closed twice: once Close() of n has been entered (or has returned, or TryClose() of n has
   returned true), neither Close() nor TryClose() of n is entered again, by any thread. *)
Theorem c16_no_double_close : forall ls s l1 l2 t n e,
  run fixed init ls = Some s -> obs s = l1 ++ e :: l2 ->
  (e = ECloseEntry t n \/ e = ECloseExit t n \/ e = ETryExit t n true) ->
  forall t', ~ In (ECloseEntry t' n) l2 /\ ~ In (ETryEntry t' n) l2.
Proof. exact no_double_close. Qed.
Print Assumptions c16_no_double_close.

(* Close() / TryClose() of one entry is in progress in at most one thread. *)
Theorem c16_single_closer : forall ls s t t' r n r',
  run fixed init ls = Some s ->
  owner (threads s t) = Some (r, n) -> owner (threads s t') = Some (r', n) -> t = t' \/ r <> r'.
Proof. exact single_closer. Qed.
Print Assumptions c16_single_closer.

(* None is left open once the cache has shut down: closed flag set and every call returned
   => every entry that ever received an instance is in state closed (its Close/TryClose has returned). *)
Theorem c16_none_left_open : forall ls s r e n,
  run fixed init ls = Some s -> closed s = true -> (forall t, threads s t = Idle) ->
  heap s r = Some e -> e_value e = Some n -> e_state e = SClosed.
Proof. exact none_left_open. Qed.
Print Assumptions c16_none_left_open.

(* A lookup that starts after a removal completed never returns the removed instance: if thread t is about to
   return instance n from a call that started at trace position st, a close end of n, if any, is at a later
   position (positions = monitor clock = number of events so far, [mon_clock_length]). *)
Theorem c16_no_stale_after_remove : forall ls s m t n c st,
  run fixed init ls = Some s -> mon_run mon0 (obs s) = Some m ->
  threads s t = PRet (RVal n) -> m_call m t = Some (c, st) ->
  forall ce, m_cend m n = Some ce -> st < ce.
Proof. exact no_stale_after_remove. Qed.
Print Assumptions c16_no_stale_after_remove.

(* The acceptance function of the correspondence check is sound: an observed trace (macro steps of the
   schedule-forcing harness) that [accept] accepts IS the observable trace of a schedule of the model, hence it
   satisfies the property. *)
Theorem c16_accepted_is_model_trace : forall n steps,
  accept n steps = true ->
  exists ls s, run fixed init ls = Some s /\ obs s = concat steps /\ panicked s = false.
Proof. exact accept_sound. Qed.
Print Assumptions c16_accepted_is_model_trace.

Theorem c16_accepted_satisfies_spec : forall n steps, accept n steps = true -> spec_C16 (concat steps) = true.
Proof. exact accepted_satisfies_spec. Qed.
Print Assumptions c16_accepted_satisfies_spec.

(* The same for the interleaving families of the check (schedules forced at lock-region granularity, observed as
   [CFine] cases: per scheduler action the goroutines that were not frozen at a gate and the events logged). *)
Theorem c16_fine_accepted_is_model_trace : forall steps,
  accept_fine steps = true ->
  exists ls s, run fixed init ls = Some s /\ obs s = fine_events steps /\ panicked s = false.
Proof. exact accept_fine_sound. Qed.
Print Assumptions c16_fine_accepted_is_model_trace.

Theorem c16_fine_accepted_satisfies_spec : forall steps,
  accept_fine steps = true -> spec_C16 (fine_events steps) = true.
Proof. exact fine_accepted_satisfies_spec. Qed.
Print Assumptions c16_fine_accepted_satisfies_spec.

(* Check-then-act gaps.  TryRemove / GC test the entry's state under c.mu, release c.mu and only then claim the
   entry (setClosing); Remove / RemoveSame / Close look it up under c.mu and claim it later.  Whatever other
   goroutines did in between (the hypothesis is only "reachable state, thread t sits between check and claim"):
   the entry still exists and carries a loaded instance; the claim takes it only if it is active at that moment
   (then Close/TryClose of exactly that instance is entered), and if another closer holds it or HAS FINISHED with
   it the claim backs off (try-close path: result false; removeCtx: wait, resp. result false) without touching
   entry, map or instance and without a harness-visible event. *)
Theorem c16_tryclose_gap_claim : forall ls s t r k,
  run fixed init ls = Some s -> threads s t = TrSetClosing r k ->
  exists e n, heap s r = Some e /\ e_value e = Some n /\ e_loaddone e = true /\ e_failed e = false /\
    ((e_state e = SActive /\
      step_core fixed s t AStep =
        Some (set_pc (set_entry s r (set_closing e)) t (TrInTry r n k), Some (ETryEntry t n))) \/
     ((e_state e = SClosing \/ e_state e = SClosed) /\
      step_core fixed s t AStep = Some (set_pc s t (tk_done k (ROk false)), None))).
Proof. exact tryclose_gap_claim. Qed.
Print Assumptions c16_tryclose_gap_claim.

Theorem c16_remove_gap_claim : forall ls s t r k,
  run fixed init ls = Some s -> threads s t = RmSetClosing r k ->
  exists e n, heap s r = Some e /\ e_value e = Some n /\ e_loaddone e = true /\ e_failed e = false /\
    ((e_state e = SActive /\
      step_core fixed s t AStep =
        Some (set_pc (set_entry s r (set_closing e)) t (RmInClose r n k), Some (ECloseEntry t n))) \/
     (e_state e = SClosing /\
      step_core fixed s t AStep = Some (set_pc s t (RmBlock r (e_epoch e) k), None)) \/
     (e_state e = SClosed /\
      step_core fixed s t AStep = Some (set_pc s t (rk_done k (ROk false)), None))).
Proof. exact remove_gap_claim. Qed.
Print Assumptions c16_remove_gap_claim.

(* a complete removal that fits into TryRemove's / GC's gap makes the late claim a no-op *)
Theorem c16_claim_after_completed_removal : forall ls s t r k e s' ev,
  run fixed init ls = Some s -> threads s t = TrSetClosing r k ->
  heap s r = Some e -> e_state e = SClosed ->
  step_core fixed s t AStep = Some (s', ev) ->
  ev = None /\ heap s' = heap s /\ data s' = data s /\ threads s' t = tk_done k (ROk false).
Proof. exact claim_after_completed_removal. Qed.
Print Assumptions c16_claim_after_completed_removal.

(* No global deadlock: whenever some call is unfinished, some step is possible — a thread's own move, or the
   return of a harness-owned callback that is in progress (those return labels are always enabled in the model:
   "LoadFunc / Close / TryClose eventually return").  Every awaited channel has a live owner: a thread blocked on
   a close channel waits for a thread inside Close/TryClose, a thread blocked on a load channel waits for the
   thread that is loading.  (Per-thread progress under fairness is NOT proved.) *)
Theorem c16_no_deadlock : forall ls s t,
  run fixed init ls = Some s -> threads s t <> Idle -> exists l s', step fixed s l = Some s'.
Proof. exact progress. Qed.
Print Assumptions c16_no_deadlock.

(* ---------------------------------------------------------------- non-vacuity *)

(* Get(1) loads instance 1; Remove(1) closes it while a second Get(1) waits on the close channel; the second
   Get then reloads (instance 2). *)
Definition sched_reload : list (N * act) :=
  [ (0, ACall (CGet 1)); (0, AStep); (0, AStep); (0, AStep); (0, ALoadEnd (Some 1)); (0, AStep);
    (1, ACall (CRemove 1)); (1, AStep); (1, AStep); (1, AStep);
    (0, ACall (CGet 1)); (0, AStep); (0, AStep);
    (1, ACloseExit); (1, AStep);
    (0, AStep); (0, AStep); (0, AStep); (0, AStep); (0, ALoadEnd (Some 2)); (0, AStep) ].

Example c16_run_nonvacuous :
  option_map obs (run fixed init sched_reload) =
  Some [ ECall 0 (CGet 1); ELoadStart 0 1; ELoadEnd 0 1 (Some 1); ERet 0 (RVal 1);
         ECall 1 (CRemove 1); ECloseEntry 1 1;
         ECall 0 (CGet 1);
         ECloseExit 1 1; ERet 1 (ROk true);
         ELoadStart 0 1; ELoadEnd 0 1 (Some 2); ERet 0 (RVal 2) ].
Proof. vm_compute. reflexivity. Qed.

(* the hypotheses of c16_single_live / c16_none_left_open are satisfiable *)
Example c16_live_nonvacuous :
  exists s, run fixed init sched_reload = Some s /\ live_in s 1 1 2 /\ ~ live_in s 0 1 1.
Proof.
  destruct (run fixed init sched_reload) as [s|] eqn:E; [| vm_compute in E; discriminate].
  exists s. split; [reflexivity|]. vm_compute in E. inversion E; subst; clear E. split.
  - eexists. repeat split; simpl; try reflexivity. discriminate.
  - intros [e [Hr [_ [_ Hst]]]]. simpl in Hr. inversion Hr; subst. apply Hst. reflexivity.
Qed.

(* spec_C16 is not trivially true: it rejects a second load while an instance is live, a double close, a
   stale return and an instance left open after Close *)
Example c16_spec_rejects_second_load :
  spec_C16 [ECall 0 (CGet 1); ELoadStart 0 1; ELoadEnd 0 1 (Some 1); ERet 0 (RVal 1);
            ECall 1 (CGet 1); ELoadStart 1 1] = false.
Proof. vm_compute. reflexivity. Qed.
Example c16_spec_rejects_double_close :
  spec_C16 [ECall 0 (CAdd 1 1); ERet 0 RNil; ECall 0 (CRemove 1); ECloseEntry 0 1;
            ECall 1 (CTryRemove 1); ETryEntry 1 1] = false.
Proof. vm_compute. reflexivity. Qed.
Example c16_spec_rejects_stale :
  spec_C16 [ECall 0 (CAdd 1 1); ERet 0 RNil; ECall 0 (CRemove 1); ECloseEntry 0 1; ECloseExit 0 1;
            ERet 0 (ROk true); ECall 1 (CGet 1); ERet 1 (RVal 1)] = false.
Proof. vm_compute. reflexivity. Qed.
Example c16_spec_rejects_left_open :
  spec_C16 [ECall 0 (CAdd 1 1); ERet 0 RNil; ECall 0 CClose; ERet 0 RNil] = false.
Proof. vm_compute. reflexivity. Qed.

(* the acceptance function used by the correspondence check accepts the observed form of the run above *)
Example c16_accept_nonvacuous :
  accept 2 [ [ECall 0 (CGet 1); ELoadStart 0 1]; [ELoadEnd 0 1 (Some 1); ERet 0 (RVal 1)];
             [ECall 1 (CRemove 1); ECloseEntry 1 1]; [ECall 0 (CGet 1)];
             [ECloseExit 1 1; ERet 1 (ROk true); ELoadStart 0 1]; [ELoadEnd 0 1 (Some 2); ERet 0 (RVal 2)] ] = true.
Proof. vm_compute. reflexivity. Qed.

(* an observed trace (thorough run, real cache) on which the committing acceptance fails and the backtracking
   search is needed: Close() blocks on one of two entries and only later events tell which one it took first *)
Example c16_accept_needs_search :
  let tr := [[ECall 2 CGC; ERet 2 RNil]; [ECall 0 CGC; ERet 0 RNil]; [ECall 1 (CGet 2); ELoadStart 1 2];
             [ECall 3 (CGet 1); ELoadStart 3 1]; [ELoadEnd 1 2 (Some 1); ERet 1 (RVal 1)];
             [ECall 0 (CRemoveSame 1 0); ERet 0 RErrNotExists]; [ELoadEnd 3 1 None; ERet 3 RErrLoad];
             [ECall 2 CGC; ETryEntry 2 1]; [ECall 3 (CGet 1); ELoadStart 3 1]; [ECall 0 CClose];
             [ELoadEnd 3 1 (Some 2); ERet 3 (RVal 2); ECloseEntry 0 2]; [ECall 3 (CRemoveSame 1 2); ERet 3 RErrClosed];
             [ECloseExit 0 2]; [ECall 1 (CGet 1); ERet 1 RErrClosed]; [ECall 1 (CTryRemove 1); ERet 1 RErrClosed];
             [ECall 3 (CTryRemove 1); ERet 3 RErrClosed]; [ETryExit 2 1 false; ERet 2 RNil; ECloseEntry 0 1];
             [ECall 2 (CAdd 2 3); ERet 2 RErrClosed]; [ECall 3 (CPick 1); ERet 3 RErrNotExists];
             [ECloseExit 0 1; ERet 0 RNil]; [ECall 2 (CPick 1); ERet 2 RErrNotExists];
             [ECall 2 (CPick 1); ERet 2 RErrNotExists]] in
  accept_fast 4 tr = false /\ accept 4 tr = true /\ spec_C16 (concat tr) = true.
Proof. vm_compute. repeat split. Qed.

(* ---------------------------------------------------------------- the check-then-act gap *)

(* TryRemove(1) passes its activity check, a whole Remove(1) runs in the gap, TryRemove's claim backs off. *)
Definition sched_gap_prefix : list (N * act) :=
  [ (2, ACall (CGet 1)); (2, AStep); (2, AStep); (2, AStep); (2, ALoadEnd (Some 1)); (2, AStep);
    (0, ACall (CTryRemove 1)); (0, AStep);
    (1, ACall (CRemove 1)); (1, AStep); (1, AStep); (1, AStep); (1, ACloseExit); (1, AStep) ].
Definition sched_gap : list (N * act) := sched_gap_prefix ++ [ (0, AStep); (0, AStep) ].

(* the hypotheses of c16_claim_after_completed_removal are satisfiable: after the prefix thread 0 sits in the gap
   and its entry is closed *)
Example c16_gap_nonvacuous :
  exists s e, run fixed init sched_gap_prefix = Some s /\ threads s 0 = TrSetClosing 0 KTry /\
              heap s 0 = Some e /\ e_state e = SClosed /\ e_value e = Some 1 /\ data s 1 = None.
Proof.
  destruct (run fixed init sched_gap_prefix) as [s|] eqn:E; [| vm_compute in E; discriminate].
  vm_compute in E. inversion E; subst; clear E. eexists. eexists. repeat split; reflexivity.
Qed.

Example c16_gap_run :
  option_map obs (run fixed init sched_gap) =
  Some [ ECall 2 (CGet 1); ELoadStart 2 1; ELoadEnd 2 1 (Some 1); ERet 2 (RVal 1);
         ECall 0 (CTryRemove 1); ECall 1 (CRemove 1); ECloseEntry 1 1; ECloseExit 1 1; ERet 1 (ROk true);
         ERet 0 (ROk false) ].
Proof. vm_compute. reflexivity. Qed.

(* the same schedule as the interleaving families observe it on the real cache (thread 2 preloads the instance;
   thread 0 is frozen in front of e.mx while thread 1 moves) is accepted ... *)
Definition fine_gap_clean : list (list N * list event) :=
  [ ([0; 1; 2], [ECall 2 (CGet 1); ELoadStart 2 1]); ([0; 1; 2], [ELoadEnd 2 1 (Some 1); ERet 2 (RVal 1)]);
    ([0; 1; 2], [ECall 0 (CTryRemove 1)]); ([0; 1; 2], []);
    ([1; 2], [ECall 1 (CRemove 1)]); ([1; 2], []); ([1; 2], [ECloseEntry 1 1]);
    ([1; 2], [ECloseExit 1 1; ERet 1 (ROk true)]);
    ([0; 1; 2], [ERet 0 (ROk false)]) ].
Example c16_accept_fine_nonvacuous :
  accept_fine fine_gap_clean = true /\ spec_C16 (fine_events fine_gap_clean) = true.
Proof. vm_compute. split; reflexivity. Qed.

(* ... and what a cache whose TryRemove does not back off from a closed entry shows in that schedule (observed on a
   mutant of the real code: TryClose is entered on the instance Remove has closed) is rejected by both checks;
   so is an observation in which a frozen goroutine moves *)
Example c16_fine_rejects_reclaim :
  let tr := [ ([0; 1; 2], [ECall 2 (CGet 1); ELoadStart 2 1]); ([0; 1; 2], [ELoadEnd 2 1 (Some 1); ERet 2 (RVal 1)]);
              ([0; 1; 2], [ECall 0 (CTryRemove 1)]); ([0; 1; 2], []);
              ([1; 2], [ECall 1 (CRemove 1)]); ([1; 2], []); ([1; 2], [ECloseEntry 1 1]);
              ([1; 2], [ECloseExit 1 1; ERet 1 (ROk true)]);
              ([0; 1; 2], [ETryEntry 0 1]); ([0; 1; 2], [ETryExit 0 1 true]) ] in
  spec_C16 (fine_events tr) = false /\ accept_fine tr = false.
Proof. vm_compute. split; reflexivity. Qed.
Example c16_fine_rejects_frozen_move :
  accept_fine [ ([0; 1], [ECall 0 (CAdd 1 1)]); ([1], [ERet 0 RNil]) ] = false /\
  accept_fine [ ([0; 1], [ECall 0 (CAdd 1 1)]); ([0; 1], [ERet 0 RNil]) ] = true.
Proof. vm_compute. split; reflexivity. Qed.

(* ---------------------------------------------------------------- the ORIGINAL code (cfg [legacy]) violates the property *)

(* F8: TryRemove(id) while the load of id is in flight: the entry is in state loading with a nil value;
   TryRemove moves it to closing and calls value.TryClose -> nil dereference. *)
Example c16_no_panic_legacy_refuted :
  exists ls s, run legacy init ls = Some s /\ panicked s = true.
Proof.
  exists [ (0, ACall (CGet 1)); (0, AStep); (0, AStep); (0, AStep);
           (1, ACall (CTryRemove 1)); (1, AStep); (1, AStep) ].
  eexists. split; [vm_compute; reflexivity | reflexivity].
Qed.

(* F17: Add after Close succeeds; the added instance is never closed. *)
Example c16_none_left_open_legacy_refuted :
  exists ls s, run (mkCfg true false) init ls = Some s /\ spec_C16 (obs s) = false /\
               closed s = true /\ (forall t, threads s t = Idle) /\
               exists r e n, heap s r = Some e /\ e_value e = Some n /\ e_state e = SActive.
Proof.
  exists [ (0, ACall CClose); (0, AStep); (0, AStep); (0, AStep);
           (1, ACall (CAdd 1 1)); (1, AStep) ].
  eexists. split; [vm_compute; reflexivity|]. split; [vm_compute; reflexivity|]. split; [reflexivity|].
  split.
  - intros t. destruct t as [|[p|p|]]; reflexivity.
  - exists 0, (new_active 1 1), 1. repeat split.
Qed.
