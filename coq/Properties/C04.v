(* C04 — ACL privilege rules cannot be bypassed by any constructible record.
   Only property theorems (closed by [exact]), non-vacuity examples and [Print Assumptions].
   Model: Model/Acl.v (machine with legacy := false = behaviour after fixes/C04-*.patch, v := true = fully
   validating verifier); proofs: Proofs/AclBase.v, Proofs/AclC04.v.
   Reading guide:  [StepOK s au s'] = all rules of one content step (s --content by author au--> s');
   [Chain au s s1] = a record's contents applied in order, every step [StepOK] and re-establishing [Inv];
   [run me s recs] = fold_left over records (author, id, contents), rejected records leave the state alone;
   [fresh_run_b] = every record id is new (names no request record yet) — ids are CIDs and AddRawRecord refuses
   known ids; this is the only hypothesis on the sequence. *)
From Coq Require Import List NArith Bool.
Import ListNotations.
From AnySync Require Import Model.Acl Proofs.AclBase Proofs.AclC04.
Open Scope N_scope.

(* ---- the model satisfies the executable specification used on the implementation's observations *)
Theorem c04_model_satisfies_spec : forall me s au r cs,
  (forall q, mget r (requests s) = Some q -> r_ident q = au) ->
  spec_C04 s au (content_chain false true me s au r cs) = true.
Proof. exact model_spec_C04. Qed.
Print Assumptions c04_model_satisfies_spec.

(* ---- every content of every record, by any author, from any state satisfying the invariant *)
Theorem c04_content_step : forall me s au r c s',
  Inv s -> req_fresh s au r -> apply_content false true me s au r c = Some s' ->
  StepOK s au s' /\ Inv s' /\ req_fresh s' au r.
Proof. exact content_ok. Qed.
Print Assumptions c04_content_step.

Theorem c04_record : forall me s au r cs s',
  Inv s -> req_fresh s au r -> apply_record false true me s au r cs = Some s' ->
  Inv s' /\ exists s1, Chain au s s1 /\ s' = set_last s1 r.
Proof. exact record_ok. Qed.
Print Assumptions c04_record.

(* ---- sequences: exactly one owner (and sane invites) in every reachable state *)
Theorem c04_one_owner : forall me owner root opts recs,
  fresh_run_b me (init_state me owner root opts) recs = true ->
  one_owner (run me (init_state me owner root opts) recs).
Proof. intros me owner root opts recs H. exact (proj1 (run_inv me recs _ (Inv_init me owner root opts) H)). Qed.
Print Assumptions c04_one_owner.

Theorem c04_invariant_b : forall me owner root opts recs,
  fresh_run_b me (init_state me owner root opts) recs = true ->
  inv_b (run me (init_state me owner root opts) recs) = true.
Proof. intros me owner root opts recs H. exact (proj2 (inv_b_iff _) (run_inv me recs _ (Inv_init me owner root opts) H)). Qed.
Print Assumptions c04_invariant_b.

(* every accepted record of a run, wherever it occurs, is a chain of rule-abiding steps *)
Theorem c04_every_accepted_record : forall me recs s pre au r cs post s',
  Inv s -> fresh_run_b me s recs = true -> recs = pre ++ (au, r, cs) :: post ->
  apply_record false true me (run me s pre) au r cs = Some s' ->
  Inv (run me s pre) /\ Inv s' /\ exists s1, Chain au (run me s pre) s1 /\ s' = set_last s1 r.
Proof. exact run_steps. Qed.
Print Assumptions c04_every_accepted_record.

(* ---- the rules of one step, in property language *)
(* Admin is granted only by the owner — by any route — or to the author itself through a live Admin invite
   (which only the owner can create, see c04_admin_invite_owner_only) *)
Theorem c04_admin_grant_owner_only : forall s au s', StepOK s au s' ->
  forall a, perm_of s' a = pAdmin -> perm_of s a <> pAdmin ->
  perm_of s au = pOwner \/ (a = au /\ perm_of s a = pNone /\ has_admin_invite s = true).
Proof. exact admin_granted. Qed.
Print Assumptions c04_admin_grant_owner_only.

Theorem c04_admin_revoke_owner_only : forall s au s', StepOK s au s' ->
  forall a, perm_of s a = pAdmin -> perm_of s' a <> pAdmin -> perm_of s au = pOwner.
Proof. exact admin_revoked. Qed.
Print Assumptions c04_admin_revoke_owner_only.

Theorem c04_admin_invite_owner_only : forall s au s', StepOK s au s' ->
  forall r i', mget r (invites s') = Some i' -> admin_invite i' = true ->
  perm_of s au = pOwner \/ exists i, mget r (invites s) = Some i /\ admin_invite i = true.
Proof. exact admin_invite_owner_only. Qed.
Print Assumptions c04_admin_invite_owner_only.

Theorem c04_owner_transfer_owner_only : forall s au s', StepOK s au s' ->
  forall a, (perm_of s a =? pOwner) <> (perm_of s' a =? pOwner) -> perm_of s au = pOwner.
Proof. exact ownership_changed. Qed.
Print Assumptions c04_owner_transfer_owner_only.

Theorem c04_options_owner_only : forall s au s', StepOK s au s' ->
  list_eqb opt_entry_eqb (options s) (options s') = false -> perm_of s au = pOwner.
Proof. exact options_owner_only. Qed.
Print Assumptions c04_options_owner_only.

(* any change to ANOTHER account's permission, status or pending request, any change of the invite table, any
   read-key rotation => the author is owner or admin in the state at that content *)
Theorem c04_membership_by_managers : forall s au s', StepOK s au s' ->
  forall a, a <> au ->
  perm_of s' a <> perm_of s a \/ status_of s' a <> status_of s a \/ mget a (pending s') <> mget a (pending s) ->
  manager s au = true.
Proof. exact others_by_managers. Qed.
Print Assumptions c04_membership_by_managers.

Theorem c04_invites_by_managers : forall s au s', StepOK s au s' ->
  forall r, opt_eqb invite_eqb (mget r (invites s)) (mget r (invites s')) = false -> manager s au = true.
Proof. exact invites_by_managers. Qed.
Print Assumptions c04_invites_by_managers.

Theorem c04_rotation_by_managers : forall s au s', StepOK s au s' ->
  keychanges s' <> keychanges s -> manager s au = true.
Proof. exact rotation_by_managers. Qed.
Print Assumptions c04_rotation_by_managers.

Theorem c04_guest_frozen : forall s au s', StepOK s au s' ->
  forall a, perm_of s a = pGuest -> perm_of s' a = pGuest \/ perm_of s' a = pNone.
Proof. exact guest_frozen. Qed.
Print Assumptions c04_guest_frozen.

Theorem c04_owner_untouchable : forall s au s', StepOK s au s' ->
  forall a, perm_of s a = pOwner -> perm_of s' a <> pOwner -> a = au.
Proof. exact owner_untouchable. Qed.
Print Assumptions c04_owner_untouchable.

Theorem c04_outsider_needs_invite : forall s au s', StepOK s au s' ->
  perm_of s au = pNone -> perm_of s' au <> pNone ->
  exists r i, In (r, i) (invites s) /\ i_type i = tAnyoneCanJoin /\
              (perm_of s' au = i_perm i \/ perm_le (perm_of s' au) (i_perm i) = true).
Proof. exact outsider_needs_invite. Qed.
Print Assumptions c04_outsider_needs_invite.

(* an ordinary member: own permission frozen; request records it touches are its own; others untouched
   (c04_membership_by_managers / c04_invites_by_managers / c04_rotation_by_managers read contrapositively) *)
Theorem c04_member_self_only : forall s au s', StepOK s au s' ->
  manager s au = false -> perm_of s au <> pNone -> perm_of s' au = perm_of s au.
Proof. exact member_self_frozen. Qed.
Print Assumptions c04_member_self_only.

Theorem c04_member_requests_own : forall s au s', StepOK s au s' ->
  forall r, opt_eqb request_eqb (mget r (requests s)) (mget r (requests s')) = false -> manager s au = false ->
  (forall q, mget r (requests s) = Some q -> r_ident q = au) /\
  (forall q, mget r (requests s') = Some q -> r_ident q = au).
Proof. exact requests_own_or_manager. Qed.
Print Assumptions c04_member_requests_own.

(* ---- non-vacuity: a reachable state with owner 1, admins 2 3, writer 4, reader 5, guest 6, removed 7, pending join 8,
        pending remove 11, declined 12, a request-to-join invite and an open anyone-can-join invite *)
Definition demo_recs : list (rec_t) :=
  [ (1, 2, [CAccountsAdd [(2, 2); (3, 2); (4, 3); (5, 4); (6, 5); (7, 3); (11, 3)]]);
    (1, 3, [CInvite 101 0 0 false]);
    (1, 4, [CInvite 102 1 3 true]);
    (2, 5, [CAccountRemove [7] (Some (mkRk true true [1; 2; 3; 4; 5; 6; 11] [102]))]);
    (8, 6, [CRequestJoin 8 3 101 8 true]);
    (11, 7, [CRequestRemove]);
    (12, 8, [CRequestJoin 12 3 101 12 true]);
    (3, 9, [CRequestDecline 8]) ].
Definition demo_state : state := run 0 (init_state 0 1 1 None) demo_recs.

Example c04_nonvacuous :
  fresh_run_b 0 (init_state 0 1 1 None) demo_recs = true /\
  map (perm_of demo_state) [1; 2; 3; 4; 5; 6; 7; 8; 11; 12] = [1; 2; 2; 3; 4; 5; 0; 0; 3; 0] /\
  map (status_of demo_state) [7; 8; 11; 12] = [SRemoved; SJoining; SRemoving; SDeclined] /\
  length (invites demo_state) = 2%nat /\ length (requests demo_state) = 2%nat /\
  last demo_state = 9 /\ inv_b demo_state = true.
Proof. vm_compute. repeat split; reflexivity. Qed.

(* the hypotheses of the step theorems are satisfiable by hostile records that ARE accepted: an outsider joins through
   the open invite and, in the same record, tries nothing else; an admin removes a writer with a correct rotation *)
Example c04_step_nonvacuous :
  exists s', apply_record false true 0 demo_state 9 10 [CInviteJoin 9 4 0 102 9 true true] = Some s' /\ perm_of s' 9 = 3.
Proof. eexists. split; vm_compute; reflexivity. Qed.

(* rejected by the repaired rules, all accepted by the legacy code (see notes/C04.md, findings F21 F22):
   an admin "accepts" the REMOVE request of writer 11 as a reader; the owner hands ownership to guest 6 *)
Example c04_repaired_rejects :
  apply_record false true 0 demo_state 2 10 [CRequestAccept 11 7 4] = None /\
  apply_record false true 0 demo_state 1 10 [COwnershipChange 6 2] = None /\
  apply_record false true 0 demo_state 2 10 [CAccountRemove [4] None] = None.
Proof. vm_compute. repeat split; reflexivity. Qed.

(* ---- the LEGACY behaviour (before fixes/C04-request-accept-kind.patch) violates the property:
   8 asks to join; admin 2 adds 8 directly (the request stays pending); the owner makes 8 the owner; admin 2 then
   "accepts" the stale request with Writer: every record is accepted and the space has NO owner. *)
Definition legacy_step (s : state) (x : rec_t) : state :=
  let '(au, r, cs) := x in match apply_record true true 0 s au r cs with Some s' => s' | None => s end.
Definition legacy_recs : list rec_t :=
  [ (1, 2, [CAccountsAdd [(2, 2)]]);
    (1, 3, [CInvite 101 0 0 false]);
    (8, 4, [CRequestJoin 8 3 101 8 true]);
    (2, 5, [CAccountsAdd [(8, 3)]]);
    (1, 6, [COwnershipChange 8 2]);
    (2, 7, [CRequestAccept 8 4 3]) ].
Theorem c04_legacy_refuted :
  exists recs, let s := fold_left legacy_step recs (init_state 0 1 1 None) in
    last s = 7 /\ one_owner_b s = false /\ map (perm_of s) [1; 2; 8] = [2; 2; 3].
Proof. exists legacy_recs. vm_compute. repeat split; reflexivity. Qed.
Print Assumptions c04_legacy_refuted.

(* legacy: admin 2 revokes admin 3's role by accepting 3's remove request (Admin revoked by a non-owner) *)
Theorem c04_legacy_refuted_admin_revoke :
  exists s s', apply_record true true 0 s 2 20 [CRequestAccept 3 10 4] = Some s' /\
               inv_b s = true /\ perm_of s 2 = 2 /\ perm_of s 3 = 2 /\ perm_of s' 3 = 4.
Proof.
  exists (run 0 (init_state 0 1 1 None) (demo_recs ++ [(3, 10, [CRequestRemove])])). eexists.
  split; [vm_compute; reflexivity|]. vm_compute. repeat split; reflexivity.
Qed.
Print Assumptions c04_legacy_refuted_admin_revoke.
