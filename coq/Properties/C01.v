(* C01 — Replicas of an object tree converge under any message schedule.
   Only property theorems (closed by [exact]), non-vacuity examples and Print Assumptions.
   Model: Model/TreeSync.v; proofs: Proofs/TreeSyncClosure.v, TreeSyncConverge.v, TreeSyncSpec.v. *)
From Coq Require Import List NArith Bool Arith.
Import ListNotations.
From AnySync Require Import Lib.Dag Model.Dfs Model.Tree Model.LoadIter Model.TreeSync
  Proofs.TreeSyncClosure Proofs.TreeSyncConverge Proofs.TreeSyncSpec Run.C01_run.
Open Scope N_scope.

(* (1) Causal closure is an invariant of EVERY trace: for every number of replicas, every label sequence (local
   adds, plain or snapshot; deliveries of ARBITRARY messages — any ids, heads, paths, not only what some replica
   emitted, in any order, any number of times; SyncWithPeer) and every replica of the reached state: every stored
   change is known and all its previous ids are stored, the heads are stored, the in-memory root is stored.
   Holds for every response iterator [nb]. *)
Theorem c01_causal_closure : forall nb n root size ls,
  cprev root = [] ->
  let w := run nb (init_world n root size) ls in
  forall r, In r (w_reps w) ->
    (forall i, In i (r_have r) ->
       exists c, find_change (wG w) i = Some c /\ forall p, In p (cprev c) -> In p (r_have r))
    /\ incl (rep_heads (wG w) r) (r_have r)
    /\ In (r_root r) (r_have r).
Proof. exact causal_closure_all_traces. Qed.
Print Assumptions c01_causal_closure.

(* ... and what a replica advertises in any step of any trace (heads and changes of head updates, heads of
   full-sync requests and of empty responses) is stored by it. *)
Theorem c01_advertised_is_stored : forall nb n root size ls l w' em,
  cprev root = [] ->
  step nb (run nb (init_world n root size) ls) l = (w', em) ->
  Forall (fun e => adv_ok (r_have (get_rep w' (actor_of l))) (snd e)) em.
Proof. exact advertised_is_stored. Qed.
Print Assumptions c01_advertised_is_stored.

(* The model satisfies the per-replica conjunct of spec_C01 (stored set causally closed, heads stored) in every
   reachable state; the advertised-message conjunct is c01_advertised_is_stored (head updates, requests, empty
   responses; the changes of response batches are C09's c09_nothing_outside). *)
Theorem c01_model_meets_spec_steps_partial : forall nb n root size ls,
  cprev root = [] ->
  let w := run nb (init_world n root size) ls in
  forallb (rep_ok (wG w)) (observe w) = true.
Proof. exact reachable_reps_ok. Qed.
Print Assumptions c01_model_meets_spec_steps_partial.

(* (3a) Stored sets only grow, along every trace from every state satisfying the invariant (in particular from every
   reachable state), and a trace without local adds leaves the universe unchanged. *)
Theorem c01_stored_sets_only_grow : forall nb ls w,
  winv w ->
  length (w_reps (run nb w ls)) = length (w_reps w)
  /\ (forall j, incl (r_have (get_rep w j)) (r_have (get_rep (run nb w ls) j)))
  /\ (forallb (fun l => negb (is_add l)) ls = true -> w_uni (run nb w ls) = w_uni w).
Proof. exact run_mono. Qed.
Print Assumptions c01_stored_sets_only_grow.

(* (3b) "The union": in every reachable state every change that exists is stored by some replica, and every replica
   stores only changes that exist — so the union of the stored sets is exactly the universe. *)
Theorem c01_universe_is_union : forall nb n root size ls,
  cprev root = [] -> (0 < n)%nat ->
  let w := run nb (init_world n root size) ls in
  (forall i, In i (ids (wG w)) -> exists k, (k < length (w_reps w))%nat /\ In i (r_have (get_rep w k)))
  /\ (forall k, (k < length (w_reps w))%nat -> forall i, In i (r_have (get_rep w k)) -> In i (ids (wG w))).
Proof.
  intros nb n root size ls Hp Hn w. split.
  - exact (run_uinv nb ls _ (init_inv n root size Hp) (init_uinv n root size Hn)).
  - intros k Hk. exact (have_in_universe _ k (run_inv nb ls _ (init_inv n root size Hp)) Hk).
Qed.
Print Assumptions c01_universe_is_union.

(* (3) Convergence — PARTIAL.
   Full statement (DESIGN.md c01_convergence): from any reachable state, after any fair anti-entropy phase (every
   unordered pair completes a lossless exchange, in any order, no LocalAdd meanwhile, arbitrary other deliveries /
   drops / duplicates interleaved) all replicas have the same stored set (= the union) and the same heads.
   Proved: for any phase [ls] without local adds, with ARBITRARY deliveries in it, from any state satisfying the
   invariants (every reachable state does): if for every ordered pair (a, b) there is a point of the phase at which b
   stores everything a stored when the phase began (what a completed exchange between a and b achieves for both
   orders), then at the end every replica stores exactly the universe = the union of all stored sets — all stored
   sets are equal.  The argument is the one of the design: sets only grow and stay inside the union.
   Missing (c01_exchange_complete, theorem (2)): that one lossless exchange (request, response batches in order,
   counter-request and its batches) achieves the catch-up.  It needs C09's completeness beyond the common snapshot
   (snapshot discipline) and success of attach / rebuild-from-storage for honest batches; of this only the attach
   pass is proved complete (c01_attach_complete).  Equality of the in-memory HEADS (as opposed to the childless
   members of the equal stored sets) is likewise not proved.  Both are evaluated on every replayed history:
   model and implementation must agree step by step, and spec_C01 demands equal stored sets and equal heads at the end. *)
Theorem c01_convergence_partial : forall nb w ls,
  winv w -> uinv w ->
  forallb (fun l => negb (is_add l)) ls = true ->
  (forall a b, (a < length (w_reps w))%nat -> (b < length (w_reps w))%nat ->
     exists pre post, ls = pre ++ post /\ incl (r_have (get_rep w a)) (r_have (get_rep (run nb w pre) b))) ->
  let w' := run nb w ls in
  wG w' = wG w /\
  forall b, (b < length (w_reps w'))%nat -> forall i, In i (r_have (get_rep w' b)) <-> In i (ids (wG w')).
Proof. exact convergence_from_catch_up. Qed.
Print Assumptions c01_convergence_partial.

(* every reachable state satisfies the two invariants the convergence theorem starts from *)
Theorem c01_reachable_invariants : forall nb n root size ls,
  cprev root = [] -> (0 < n)%nat ->
  winv (run nb (init_world n root size) ls) /\ uinv (run nb (init_world n root size) ls).
Proof.
  intros nb n root size ls Hp Hn. split.
  - exact (run_inv nb ls _ (init_inv n root size Hp)).
  - exact (run_uinv nb ls _ (init_inv n root size Hp) (init_uinv n root size Hn)).
Qed.
Print Assumptions c01_reachable_invariants.

(* The attach pass (= Tree.Add with its wait list, and the load of a tree from storage) is COMPLETE for closed
   offers: every change of a set W that is closed under previous ids and snapshot base, whose members are offered
   (or already attached) and whose dependencies are attached or occur earlier in the creation order, gets attached. *)
Theorem c01_attach_complete : forall cand (W : N -> Prop) G v,
  (forall c, In c G -> W (cid c) -> mem (cid c) cand = true \/ In (cid c) v) ->
  (forall c, In c G -> W (cid c) -> (forall p, In p (cprev c) -> W p) /\ W (csnap c)) ->
  (forall c p, In c G -> W (cid c) -> In p (csnap c :: cprev c) -> In p v \/ exists c', In c' G /\ cid c' = p) ->
  NoDup (ids G) ->
  (forall c, In c G -> forall p, In p (csnap c :: cprev c) -> (exists c', In c' G /\ cid c' = p) ->
      exists pre post, G = pre ++ c :: post /\ In p (ids pre)) ->
  forall c, In c G -> W (cid c) -> In (cid c) (attach_pass G cand v).
Proof. exact attach_pass_complete. Qed.
Print Assumptions c01_attach_complete.

(* ---- non-vacuity: a history OBSERVED on three real SyncTrees (harness c01, variant "example", seed 1012):
   replica 0 makes two snapshots in a row, replica 2 concurrently adds a plain change on the tree root, one head
   update is delivered to replica 1, the rest is delayed past the final phase; replica 2 then has to be brought up
   across two snapshots (stale changes citing the old root, rebuild at the common snapshot), counter-requests and
   empty responses occur, late duplicates of head updates arrive after convergence. *)
Definition example_history : case :=
(CHist 3%nat (mkChange 1 [] 0 true) 63 5%nat [
  ((LAdd 0%nat true (mkChange 4 [1] 1 true) 223), (mkSO false [([1; 4], [4]); ([1], [1]); ([1], [1])] [(1%nat, (MHead [4] [4] [4; 1])); (2%nat, (MHead [4] [4] [4; 1]))]));
  ((LDeliver 1%nat 0%nat (MHead [4] [4] [4; 1])), (mkSO false [([1; 4], [4]); ([1; 4], [4]); ([1], [1])] [(0%nat, (MHead [4] [] [4; 1])); (2%nat, (MHead [4] [4] [4; 1]))]));
  ((LAdd 0%nat true (mkChange 2 [4] 4 true) 316), (mkSO false [([1; 2; 4], [2]); ([1; 4], [4]); ([1], [1])] [(1%nat, (MHead [2] [2] [2; 4; 1])); (2%nat, (MHead [2] [2] [2; 4; 1]))]));
  ((LAdd 2%nat false (mkChange 3 [1] 1 false) 222), (mkSO false [([1; 2; 4], [2]); ([1; 4], [4]); ([1; 3], [3])] [(0%nat, (MHead [3] [3] [1])); (1%nat, (MHead [3] [3] [1]))]));
  ((LDeliver 1%nat 0%nat (MHead [2] [2] [2; 4; 1])), (mkSO false [([1; 2; 4], [2]); ([1; 2; 4], [2]); ([1; 3], [3])] [(0%nat, (MHead [2] [] [2; 4; 1])); (2%nat, (MHead [2] [2] [2; 4; 1]))]));
  ((LSync 2%nat 1%nat), (mkSO false [([1; 2; 4], [2]); ([1; 2; 4], [2]); ([1; 3], [3])] [(1%nat, (MReq [3] [1]))]));
  ((LDeliver 1%nat 2%nat (MReq [3] [1])), (mkSO false [([1; 2; 4], [2]); ([1; 2; 4], [2]); ([1; 3], [3])] [(2%nat, (MResp [2] [1; 2; 4] [2; 4; 1])); (2%nat, (MReq [2] [2; 4; 1]))]));
  ((LDeliver 2%nat 1%nat (MResp [2] [1; 2; 4] [2; 4; 1])), (mkSO false [([1; 2; 4], [2]); ([1; 2; 4], [2]); ([1; 2; 3; 4], [2; 3])] [(0%nat, (MHead [2; 3] [2; 4] [1])); (1%nat, (MHead [2; 3] [] [1]))]));
  ((LDeliver 2%nat 1%nat (MReq [2] [2; 4; 1])), (mkSO false [([1; 2; 4], [2]); ([1; 2; 4], [2]); ([1; 2; 3; 4], [2; 3])] [(1%nat, (MResp [2; 3] [3] [1])); (1%nat, (MReq [2; 3] [1]))]));
  ((LDeliver 1%nat 2%nat (MResp [2; 3] [3] [1])), (mkSO false [([1; 2; 4], [2]); ([1; 2; 3; 4], [2; 3]); ([1; 2; 3; 4], [2; 3])] [(0%nat, (MHead [2; 3] [3] [1])); (2%nat, (MHead [2; 3] [] [1]))]));
  ((LDeliver 1%nat 2%nat (MReq [2; 3] [1])), (mkSO false [([1; 2; 4], [2]); ([1; 2; 3; 4], [2; 3]); ([1; 2; 3; 4], [2; 3])] [(2%nat, (MResp [2; 3] [] [1]))]));
  ((LDeliver 2%nat 1%nat (MResp [2; 3] [] [1])), (mkSO false [([1; 2; 4], [2]); ([1; 2; 3; 4], [2; 3]); ([1; 2; 3; 4], [2; 3])] []));
  ((LSync 0%nat 2%nat), (mkSO false [([1; 2; 4], [2]); ([1; 2; 3; 4], [2; 3]); ([1; 2; 3; 4], [2; 3])] [(2%nat, (MReq [2] [2; 4; 1]))]));
  ((LDeliver 0%nat 1%nat (MHead [4] [] [4; 1])), (mkSO false [([1; 2; 4], [2]); ([1; 2; 3; 4], [2; 3]); ([1; 2; 3; 4], [2; 3])] [(1%nat, (MReq [2] [2; 4; 1]))]));
  ((LDeliver 2%nat 0%nat (MReq [2] [2; 4; 1])), (mkSO false [([1; 2; 4], [2]); ([1; 2; 3; 4], [2; 3]); ([1; 2; 3; 4], [2; 3])] [(0%nat, (MResp [2; 3] [3] [1])); (0%nat, (MReq [2; 3] [1]))]));
  ((LDeliver 1%nat 0%nat (MReq [2] [2; 4; 1])), (mkSO false [([1; 2; 4], [2]); ([1; 2; 3; 4], [2; 3]); ([1; 2; 3; 4], [2; 3])] [(0%nat, (MResp [2; 3] [3] [1])); (0%nat, (MReq [2; 3] [1]))]));
  ((LDeliver 0%nat 2%nat (MResp [2; 3] [3] [1])), (mkSO false [([1; 2; 3; 4], [2; 3]); ([1; 2; 3; 4], [2; 3]); ([1; 2; 3; 4], [2; 3])] [(1%nat, (MHead [2; 3] [3] [1])); (2%nat, (MHead [2; 3] [] [1]))]));
  ((LDeliver 0%nat 2%nat (MReq [2; 3] [1])), (mkSO false [([1; 2; 3; 4], [2; 3]); ([1; 2; 3; 4], [2; 3]); ([1; 2; 3; 4], [2; 3])] [(2%nat, (MResp [2; 3] [] [1]))]));
  ((LDeliver 2%nat 0%nat (MResp [2; 3] [] [1])), (mkSO false [([1; 2; 3; 4], [2; 3]); ([1; 2; 3; 4], [2; 3]); ([1; 2; 3; 4], [2; 3])] []));
  ((LSync 0%nat 1%nat), (mkSO false [([1; 2; 3; 4], [2; 3]); ([1; 2; 3; 4], [2; 3]); ([1; 2; 3; 4], [2; 3])] [(1%nat, (MReq [2; 3] [1]))]));
  ((LDeliver 1%nat 2%nat (MHead [3] [3] [1])), (mkSO false [([1; 2; 3; 4], [2; 3]); ([1; 2; 3; 4], [2; 3]); ([1; 2; 3; 4], [2; 3])] []));
  ((LDeliver 1%nat 0%nat (MReq [2; 3] [1])), (mkSO false [([1; 2; 3; 4], [2; 3]); ([1; 2; 3; 4], [2; 3]); ([1; 2; 3; 4], [2; 3])] [(0%nat, (MResp [2; 3] [] [1]))]));
  ((LDeliver 0%nat 1%nat (MResp [2; 3] [] [1])), (mkSO false [([1; 2; 3; 4], [2; 3]); ([1; 2; 3; 4], [2; 3]); ([1; 2; 3; 4], [2; 3])] []));
  ((LDeliver 2%nat 1%nat (MHead [2] [2] [2; 4; 1])), (mkSO false [([1; 2; 3; 4], [2; 3]); ([1; 2; 3; 4], [2; 3]); ([1; 2; 3; 4], [2; 3])] []));
  ((LDeliver 2%nat 1%nat (MHead [4] [4] [4; 1])), (mkSO false [([1; 2; 3; 4], [2; 3]); ([1; 2; 3; 4], [2; 3]); ([1; 2; 3; 4], [2; 3])] []));
  ((LDeliver 2%nat 0%nat (MHead [2; 3] [] [1])), (mkSO false [([1; 2; 3; 4], [2; 3]); ([1; 2; 3; 4], [2; 3]); ([1; 2; 3; 4], [2; 3])] []));
  ((LDeliver 0%nat 2%nat (MHead [2; 3] [2; 4] [1])), (mkSO false [([1; 2; 3; 4], [2; 3]); ([1; 2; 3; 4], [2; 3]); ([1; 2; 3; 4], [2; 3])] []));
  ((LDeliver 2%nat 0%nat (MHead [2] [2] [2; 4; 1])), (mkSO false [([1; 2; 3; 4], [2; 3]); ([1; 2; 3; 4], [2; 3]); ([1; 2; 3; 4], [2; 3])] []));
  ((LDeliver 0%nat 1%nat (MHead [2] [] [2; 4; 1])), (mkSO false [([1; 2; 3; 4], [2; 3]); ([1; 2; 3; 4], [2; 3]); ([1; 2; 3; 4], [2; 3])] []))]).

Definition example_labels : list label :=
  match example_history with CHist _ _ _ _ steps => map (fun s => to_label (fst s)) steps end.

(* the model replays the observed history step by step (stored sets, heads, every emitted message) and the observed
   history satisfies spec_C01 *)
Example c01_nonvacuous_history : model_ok example_history = true /\ spec_ok example_history = true.
Proof. vm_compute. split; reflexivity. Qed.

(* the premises of (1)/(3) hold of this trace and the model ends with all three stored sets equal to the universe,
   with equal heads; the phase (labels from index 5 on) contains no local add *)
Example c01_nonvacuous_model :
  let w := run next_batch (init_world 3 (mkChange 1 [] 0 true) 63) example_labels in
  map (fun r => (isort (r_have r), rep_heads (wG w) r)) (w_reps w)
    = [([1; 2; 3; 4], [2; 3]); ([1; 2; 3; 4], [2; 3]); ([1; 2; 3; 4], [2; 3])]
  /\ isort (ids (wG w)) = [1; 2; 3; 4]
  /\ forallb (fun l => negb (is_add l)) (skipn 5 example_labels) = true
  /\ forallb is_add (firstn 5 example_labels) = false.
Proof. vm_compute. repeat split; reflexivity. Qed.
