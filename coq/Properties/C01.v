(* C01 — Replicas of an object tree converge under any message schedule.
   Only property theorems (closed by [exact]), non-vacuity examples and Print Assumptions.
   Model: Model/TreeSync.v; proofs: Proofs/TreeSyncClosure.v, TreeSyncConverge.v, TreeSyncSpec.v, TreeSyncSnapshot.v
   (snapshot discipline), TreeSyncExchange.v (one answered request / one exchange / convergence of the stored sets),
   TreeSyncHeads.v (heads = childless members of the store; model meets the final conjunct of spec_C01),
   TreeSyncFair.v (executable recognisers of exchanges, for the examples), TreeSyncExact.v (upper bounds: an exchange
   gives exactly the union; responses carry only stored changes), TreeSyncSpecFull.v (model meets spec_C01). *)
From Coq Require Import List NArith Bool Arith.
Import ListNotations.
From AnySync Require Import Lib.Dag Model.Dfs Model.Tree Model.LoadIter Model.TreeSync
  Proofs.LoadIter Proofs.TreeSyncClosure Proofs.TreeSyncConverge Proofs.TreeSyncSpec Proofs.TreeSyncSnapshot
  Proofs.TreeSyncExchange Proofs.TreeSyncHeads Proofs.TreeSyncFair Proofs.TreeSyncExact Proofs.TreeSyncSpecFull Run.C01_run.
Open Scope N_scope.

(* (1) Causal closure is an invariant of EVERY trace: for every number of replicas, every label sequence (local
   adds, plain or snapshot; deliveries of ARBITRARY messages — any ids, heads, paths, not only what some replica
   emitted, in any order, any number of times; SyncWithPeer) and every replica of the reached state: every stored
   change is known and all its previous ids are stored, the heads are stored, the in-memory root is stored.
   Holds for every response iterator [nb]. *)
Theorem c01_causal_closure : forall nb n root size ls,
  cprev root = [] ->
  let w := run nb (init_world n root size) ls in
  forall r, In r (w_reps w) ->
    (forall i, In i (r_have r) ->
       exists c, find_change (wG w) i = Some c /\ forall p, In p (cprev c) -> In p (r_have r))
    /\ incl (rep_heads (wG w) r) (r_have r)
    /\ In (r_root r) (r_have r).
Proof. exact causal_closure_all_traces. Qed.
Print Assumptions c01_causal_closure.

(* ... and what a replica advertises in any step of any trace (heads and changes of head updates, heads of
   full-sync requests and of empty responses) is stored by it. *)
Theorem c01_advertised_is_stored : forall nb n root size ls l w' em,
  cprev root = [] ->
  step nb (run nb (init_world n root size) ls) l = (w', em) ->
  Forall (fun e => adv_ok (r_have (get_rep w' (actor_of l))) (snd e)) em.
Proof. exact advertised_is_stored. Qed.
Print Assumptions c01_advertised_is_stored.

(* The model satisfies the per-replica conjunct of spec_C01 (stored set causally closed, heads stored) in every
   reachable state; the advertised-message conjunct is c01_advertised_is_stored (head updates, requests, empty
   responses) + c01_responses_are_stored (response batches, below); the final conjunct is c01_model_meets_spec_final. *)
Theorem c01_model_meets_spec_steps_partial : forall nb n root size ls,
  cprev root = [] ->
  let w := run nb (init_world n root size) ls in
  forallb (rep_ok (wG w)) (observe w) = true.
Proof. exact reachable_reps_ok. Qed.
Print Assumptions c01_model_meets_spec_steps_partial.

(* (3a) Stored sets only grow, along every trace from every state satisfying the invariant (in particular from every
   reachable state), and a trace without local adds leaves the universe unchanged. *)
Theorem c01_stored_sets_only_grow : forall nb ls w,
  winv w ->
  length (w_reps (run nb w ls)) = length (w_reps w)
  /\ (forall j, incl (r_have (get_rep w j)) (r_have (get_rep (run nb w ls) j)))
  /\ (forallb (fun l => negb (is_add l)) ls = true -> w_uni (run nb w ls) = w_uni w).
Proof. exact run_mono. Qed.
Print Assumptions c01_stored_sets_only_grow.

(* (3b) "The union": in every reachable state every change that exists is stored by some replica, and every replica
   stores only changes that exist — so the union of the stored sets is exactly the universe. *)
Theorem c01_universe_is_union : forall nb n root size ls,
  cprev root = [] -> (0 < n)%nat ->
  let w := run nb (init_world n root size) ls in
  (forall i, In i (ids (wG w)) -> exists k, (k < length (w_reps w))%nat /\ In i (r_have (get_rep w k)))
  /\ (forall k, (k < length (w_reps w))%nat -> forall i, In i (r_have (get_rep w k)) -> In i (ids (wG w))).
Proof.
  intros nb n root size ls Hp Hn w. split.
  - exact (run_uinv nb ls _ (init_inv n root size Hp) (init_uinv n root size Hn)).
  - intros k Hk. exact (have_in_universe _ k (run_inv nb ls _ (init_inv n root size Hp)) Hk).
Qed.
Print Assumptions c01_universe_is_union.

(* (3, lemma) Convergence from per-pair catch-up: for any phase [ls] without local adds, with ARBITRARY deliveries in it, from
   any state satisfying the invariants: if for every ordered pair (a, b) there is a point of the phase at which b stores
   everything a stored when the phase began, then at the end every replica stores exactly the universe = the union of all
   stored sets.  (Kept under its old name; the per-pair premise is discharged by c01_exchange_complete below, which gives
   the unconditional c01_convergence.) *)
Theorem c01_convergence_partial : forall nb w ls,
  winv w -> uinv w ->
  forallb (fun l => negb (is_add l)) ls = true ->
  (forall a b, (a < length (w_reps w))%nat -> (b < length (w_reps w))%nat ->
     exists pre post, ls = pre ++ post /\ incl (r_have (get_rep w a)) (r_have (get_rep (run nb w pre) b))) ->
  let w' := run nb w ls in
  wG w' = wG w /\
  forall b, (b < length (w_reps w'))%nat -> forall i, In i (r_have (get_rep w' b)) <-> In i (ids (wG w')).
Proof. exact convergence_from_catch_up. Qed.
Print Assumptions c01_convergence_partial.

(* every reachable state satisfies the two invariants the convergence theorem starts from *)
Theorem c01_reachable_invariants : forall nb n root size ls,
  cprev root = [] -> (0 < n)%nat ->
  winv (run nb (init_world n root size) ls) /\ uinv (run nb (init_world n root size) ls).
Proof.
  intros nb n root size ls Hp Hn. split.
  - exact (run_inv nb ls _ (init_inv n root size Hp)).
  - exact (run_uinv nb ls _ (init_inv n root size Hp) (init_uinv n root size Hn)).
Qed.
Print Assumptions c01_reachable_invariants.

(* The attach pass (= Tree.Add with its wait list, and the load of a tree from storage) is COMPLETE for closed
   offers: every change of a set W that is closed under previous ids and snapshot base, whose members are offered
   (or already attached) and whose dependencies are attached or occur earlier in the creation order, gets attached. *)
Theorem c01_attach_complete : forall cand (W : N -> Prop) G v,
  (forall c, In c G -> W (cid c) -> mem (cid c) cand = true \/ In (cid c) v) ->
  (forall c, In c G -> W (cid c) -> (forall p, In p (cprev c) -> W p) /\ W (csnap c)) ->
  (forall c p, In c G -> W (cid c) -> In p (csnap c :: cprev c) -> In p v \/ exists c', In c' G /\ cid c' = p) ->
  NoDup (ids G) ->
  (forall c, In c G -> forall p, In p (csnap c :: cprev c) -> (exists c', In c' G /\ cid c' = p) ->
      exists pre post, G = pre ++ c :: post /\ In p (ids pre)) ->
  forall c, In c G -> W (cid c) -> In (cid c) (attach_pass G cand v).
Proof. exact attach_pass_complete. Qed.
Print Assumptions c01_attach_complete.

(* ------------------------------------------------------------------------------------------------
   HONEST trees.  From here on the tree root is the root of an honest tree ([honest_root]: no previous ids, no snapshot
   base, a snapshot, id <> 0); every other change is created by LocalAdd (previous ids = the creator's heads, snapshot
   base = its in-memory root).  Deliveries stay ARBITRARY (any heads / ids / path): a message can only name changes. *)

(* (i) Snapshot discipline — an invariant of EVERY trace.  For every replica of every reachable state:
   (D) every stored change is an ancestor of the in-memory root or has the root on its snapshot chain;
   for every snapshot s on the replica's snapshot path, every stored change has s on its snapshot chain (is "after" s)
   or is an ancestor of s — nothing is stored "beside" a snapshot of the path;
   the in-memory view is exactly the stored changes that have the root on their snapshot chain. *)
Theorem c01_snapshot_discipline : forall nb n root size ls,
  honest_root root ->
  let w := run nb (init_world n root size) ls in
  forall r, In r (w_reps w) ->
    (forall x, In x (r_have r) -> anc (wG w) x (r_root r) \/ onchain (wG w) (r_root r) x)
    /\ (forall P s x, rep_path (wG w) r = Some P -> In s P -> In x (r_have r) -> onchain (wG w) s x \/ anc (wG w) x s)
    /\ (forall x, In x (rep_view (wG w) r) <-> In x (r_have r) /\ onchain (wG w) (r_root r) x).
Proof. exact snapshot_discipline_all_traces. Qed.
Print Assumptions c01_snapshot_discipline.

(* every reachable state of an honest tree satisfies the invariants the theorems below start from:
   [sinv] = universe invariant (creation order, every change attachable at its own snapshot base, snapshot bases are
   snapshots, one root) + per replica: causal closure, root stored and a snapshot, (D); [uinv] = universe is the union *)
Theorem c01_reachable_honest_invariants : forall nb n root size ls,
  honest_root root -> (0 < n)%nat ->
  sinv (run nb (init_world n root size) ls) /\ uinv (run nb (init_world n root size) ls).
Proof. exact reachable_sinv_uinv. Qed.
Print Assumptions c01_reachable_honest_invariants.

(* (ii) Completeness of the response (C09's c09_complete re-derived for the stored sequence [sigma_of] of a replica, with
   its hypothesis "the requester's set is closed in the range" discharged, and extended BELOW the common snapshot by the
   discipline): for a responder rq and a requester rp satisfying the invariants and a snapshot cs stored by the requester
   and on the responder's snapshot chain (the common snapshot of their paths), every change the responder stores is
   stored by the requester or is among the not-removed entries of the responder's stored range from cs on — which is
   exactly what the batches contain (c09_exact_bounded_progress). *)
Theorem c01_response_complete : forall U,
  ginv (map se_ch U) ->
  forall rq rp, rinv (map se_ch U) rq -> rinv (map se_ch U) rp ->
  forall cs, In cs (r_have rp) -> onchain (map se_ch U) cs (r_root rq) ->
  forall x, In x (r_have rq) ->
    In x (r_have rp)
    \/ In x (map se_id (nonrem (removed_of (sigma_of U rq (groot (map se_ch U))) cs (rep_heads (map se_ch U) rp))
                               (from_id cs (sigma_of U rq (groot (map se_ch U)))))).
Proof. exact response_complete. Qed.
Print Assumptions c01_response_complete.

(* (iii) Success of attach / rebuild-at-the-common-snapshot: a response batch [chs] with announced heads [hs] and the
   sender's snapshot path, where the sender rq satisfies the invariants and stores chs, chs together with the receiver's
   store is causally closed, and every change of the batch is below an announced head — is stored by the receiver
   afterwards (normal path, rebuild path, or the hasHeads short cut). *)
Theorem c01_batch_attached : forall G r rq chs path hs n me from r' em,
  ginv G -> rinv G r -> rinv G rq -> rep_path G rq = Some path -> incl chs (r_have rq) ->
  (forall x, In x chs -> forall c, find_change G x = Some c -> forall p, In p (cprev c) -> In p (r_have r) \/ In p chs) ->
  (forall x, In x chs -> exists h, In h hs /\ anc G x h) ->
  handle_resp G n me from r hs chs path = (r', em) -> incl chs (r_have r').
Proof. exact deliver_resp_catch. Qed.
Print Assumptions c01_batch_attached.

(* (2a) One answered request.  In a phase without local adds from a state with the invariants: if q handles a full-sync
   request that p made (heads and snapshot path of p at some point of the phase) and the response batches — produced by
   the C09 loader model [next_batch] over q's stored sequence — are delivered to p in order, with ARBITRARY other steps
   interleaved anywhere (other deliveries to p and q included, duplicates, garbage), then at the end of the phase p
   stores everything q stored when the phase began (indeed when it answered). *)
Theorem c01_answered_request_catches_up : forall w ls p q,
  sinv w -> noadd ls -> (p < length (w_reps w))%nat -> (q < length (w_reps w))%nat ->
  answered next_batch w ls p q ->
  incl (r_have (get_rep w q)) (r_have (get_rep (run next_batch w ls) p)).
Proof. exact answered_catch_up. Qed.
Print Assumptions c01_answered_request_catches_up.

(* (2) One exchange.  [exchange next_batch w ls i j]: somewhere in the phase i runs SyncWithPeer j, the request (i's heads
   and snapshot path) is delivered to j, j's response batches are delivered to i in order, and if j's answer contains
   its counter-request (it does unless i's heads are all among j's), the counter-request is delivered to i (possibly
   overtaking the batches) and i's response batches are delivered to j in order; arbitrary other steps interleaved.
   Then afterwards BOTH replicas store the union of what the two stored when the phase began.  (Stored sets stay
   inside the universe = the union over all replicas, c01_universe_is_union; when nothing else is delivered to the two,
   nothing else can arrive.) *)
Theorem c01_exchange_complete : forall w ls i j,
  sinv w -> noadd ls -> (i < length (w_reps w))%nat -> (j < length (w_reps w))%nat ->
  exchange next_batch w ls i j ->
  incl (r_have (get_rep w j)) (r_have (get_rep (run next_batch w ls) i))
  /\ incl (r_have (get_rep w i)) (r_have (get_rep (run next_batch w ls) j)).
Proof. exact exchange_catch_up. Qed.
Print Assumptions c01_exchange_complete.

(* (2, exact form) One lossless exchange between two replicas makes both stored sets EQUAL to the union: if in addition
   only the two partners act in the phase, only on messages from each other, and every delivered message carries only
   changes its sender stores at that moment ([between_ok]; true of everything replicas emit: c01_advertised_is_stored,
   c01_responses_are_stored), nothing else can arrive. *)
Theorem c01_exchange_exact : forall w ls i j,
  sinv w -> (i < length (w_reps w))%nat -> (j < length (w_reps w))%nat ->
  exchange next_batch w ls i j -> between_ok next_batch w ls i j ->
  let w' := run next_batch w ls in
  (forall x, In x (r_have (get_rep w' i)) <-> In x (r_have (get_rep w i)) \/ In x (r_have (get_rep w j)))
  /\ (forall x, In x (r_have (get_rep w' j)) <-> In x (r_have (get_rep w i)) \/ In x (r_have (get_rep w j))).
Proof. exact exchange_exact. Qed.
Print Assumptions c01_exchange_exact.

(* what a replica sends in answer to ANY full-sync request (arbitrary heads and path) in any reachable state — response
   batches included — consists of changes it stores (the conjunct of spec_C01 that c01_advertised_is_stored left to C09) *)
Theorem c01_responses_are_stored : forall n root size ls q p heads path w' em,
  honest_root root ->
  step next_batch (run next_batch (init_world n root size) ls) (Deliver q p (MReq heads path)) = (w', em) ->
  Forall (fun e => incl (msg_changes (snd e)) (r_have (get_rep w' q))) em.
Proof. exact reachable_req_stored. Qed.
Print Assumptions c01_responses_are_stored.

(* the in-memory heads of a replica are exactly the childless members of its stored set, whatever its in-memory root *)
Theorem c01_heads_are_childless_stored : forall G r h, ginv G -> rinv G r ->
  (In h (rep_heads G r) <->
   In h (r_have r) /\ forall c, In c G -> In (cid c) (r_have r) -> ~ In h (cprev c)).
Proof. exact heads_childless_of_store. Qed.
Print Assumptions c01_heads_are_childless_stored.

(* (3) CONVERGENCE, unconditional.  From any reachable state of an honest tree (any number of replicas, any prefix [pre]
   of local adds / arbitrary deliveries / syncs), after any fair anti-entropy phase [ls] — no LocalAdd; every pair of
   replicas completes an exchange, initiated by either side, in any order; arbitrary other deliveries, drops (= labels
   that never occur), duplicates and garbage interleaved — the universe is unchanged, every replica stores exactly the
   universe (= the union of the stored sets: all stored sets are equal), and all replicas have the same heads. *)
Theorem c01_convergence : forall n root size pre ls,
  honest_root root -> (0 < n)%nat ->
  let w := run next_batch (init_world n root size) pre in
  noadd ls -> fair next_batch w ls ->
  let w' := run next_batch w ls in
  wG w' = wG w
  /\ (forall b, (b < length (w_reps w'))%nat -> forall i, In i (r_have (get_rep w' b)) <-> In i (ids (wG w')))
  /\ (forall a b, (a < length (w_reps w'))%nat -> (b < length (w_reps w'))%nat ->
        rep_heads (wG w') (get_rep w' a) = rep_heads (wG w') (get_rep w' b)).
Proof. exact convergence_reachable. Qed.
Print Assumptions c01_convergence.

(* the same from any state satisfying the invariants *)
Theorem c01_convergence_from_invariants : forall w ls,
  sinv w -> uinv w -> noadd ls -> fair next_batch w ls ->
  let w' := run next_batch w ls in
  wG w' = wG w
  /\ (forall b, (b < length (w_reps w'))%nat -> forall i, In i (r_have (get_rep w' b)) <-> In i (ids (wG w')))
  /\ (forall a b, (a < length (w_reps w'))%nat -> (b < length (w_reps w'))%nat ->
        rep_heads (wG w') (get_rep w' a) = rep_heads (wG w') (get_rep w' b)).
Proof. exact convergence_all. Qed.
Print Assumptions c01_convergence_from_invariants.

(* The model satisfies the FINAL conjunct of spec_C01 (identical stored sets and identical heads, as sorted lists) after
   every fair anti-entropy phase from every reachable state; with c01_model_meets_spec_steps_partial (per-replica
   conjunct in every state) and c01_advertised_is_stored this is "model meets spec_C01" up to the changes of response
   batches being stored by the responder (shown inside c01_answered_request_catches_up for honest answers). *)
Theorem c01_model_meets_spec_final : forall n root size pre ls,
  honest_root root -> (0 < n)%nat ->
  let w := run next_batch (init_world n root size) pre in
  noadd ls -> fair next_batch w ls ->
  let w' := run next_batch w ls in
  all_equal (observe w') = true.
Proof. exact final_all_equal. Qed.
Print Assumptions c01_model_meets_spec_final.

(* MODEL MEETS SPEC.  The history the model itself produces ([model_hist]: after every step the acting replica, every
   replica's stored ids and heads, the emitted messages) on ANY label sequence [pre] (local adds, arbitrary deliveries,
   syncs) followed by ANY fair anti-entropy phase [ls], for any number of replicas of an honest tree, passes the
   executable property predicate spec_C01 in full: every step (closure, heads stored, heads and changes of every emitted
   message — response batches included — stored by the emitter) and the final conjunct (identical stored sets and heads). *)
Theorem c01_model_meets_spec : forall n root size pre ls,
  honest_root root -> (0 < n)%nat ->
  let w := run next_batch (init_world n root size) pre in
  noadd ls -> fair next_batch w ls ->
  let w' := run next_batch w ls in
  spec_C01 (wG w') (model_hist next_batch (init_world n root size) (pre ++ ls)) = true.
Proof. exact model_meets_spec. Qed.
Print Assumptions c01_model_meets_spec.

(* the executable recognisers used in the examples are sound *)
Theorem c01_fair_recogniser_sound : forall nb w ls sched, fair_by nb w ls sched = true -> fair nb w ls.
Proof. exact fair_by_sound. Qed.
Print Assumptions c01_fair_recogniser_sound.

(* ---- non-vacuity: a history OBSERVED on three real SyncTrees (harness c01, variant "example", seed 1012):
   replica 0 makes two snapshots in a row, replica 2 concurrently adds a plain change on the tree root, one head
   update is delivered to replica 1, the rest is delayed past the final phase; replica 2 then has to be brought up
   across two snapshots (stale changes citing the old root, rebuild at the common snapshot), counter-requests and
   empty responses occur, late duplicates of head updates arrive after convergence. *)
Definition example_history : case :=
(CHist 3%nat (mkChange 1 [] 0 true) 63 5%nat [
  ((LAdd 0%nat true (mkChange 4 [1] 1 true) 223), (mkSO false [([1; 4], [4]); ([1], [1]); ([1], [1])] [(1%nat, (MHead [4] [4] [4; 1])); (2%nat, (MHead [4] [4] [4; 1]))]));
  ((LDeliver 1%nat 0%nat (MHead [4] [4] [4; 1])), (mkSO false [([1; 4], [4]); ([1; 4], [4]); ([1], [1])] [(0%nat, (MHead [4] [] [4; 1])); (2%nat, (MHead [4] [4] [4; 1]))]));
  ((LAdd 0%nat true (mkChange 2 [4] 4 true) 316), (mkSO false [([1; 2; 4], [2]); ([1; 4], [4]); ([1], [1])] [(1%nat, (MHead [2] [2] [2; 4; 1])); (2%nat, (MHead [2] [2] [2; 4; 1]))]));
  ((LAdd 2%nat false (mkChange 3 [1] 1 false) 222), (mkSO false [([1; 2; 4], [2]); ([1; 4], [4]); ([1; 3], [3])] [(0%nat, (MHead [3] [3] [1])); (1%nat, (MHead [3] [3] [1]))]));
  ((LDeliver 1%nat 0%nat (MHead [2] [2] [2; 4; 1])), (mkSO false [([1; 2; 4], [2]); ([1; 2; 4], [2]); ([1; 3], [3])] [(0%nat, (MHead [2] [] [2; 4; 1])); (2%nat, (MHead [2] [2] [2; 4; 1]))]));
  ((LSync 2%nat 1%nat), (mkSO false [([1; 2; 4], [2]); ([1; 2; 4], [2]); ([1; 3], [3])] [(1%nat, (MReq [3] [1]))]));
  ((LDeliver 1%nat 2%nat (MReq [3] [1])), (mkSO false [([1; 2; 4], [2]); ([1; 2; 4], [2]); ([1; 3], [3])] [(2%nat, (MResp [2] [1; 2; 4] [2; 4; 1])); (2%nat, (MReq [2] [2; 4; 1]))]));
  ((LDeliver 2%nat 1%nat (MResp [2] [1; 2; 4] [2; 4; 1])), (mkSO false [([1; 2; 4], [2]); ([1; 2; 4], [2]); ([1; 2; 3; 4], [2; 3])] [(0%nat, (MHead [2; 3] [2; 4] [1])); (1%nat, (MHead [2; 3] [] [1]))]));
  ((LDeliver 2%nat 1%nat (MReq [2] [2; 4; 1])), (mkSO false [([1; 2; 4], [2]); ([1; 2; 4], [2]); ([1; 2; 3; 4], [2; 3])] [(1%nat, (MResp [2; 3] [3] [1])); (1%nat, (MReq [2; 3] [1]))]));
  ((LDeliver 1%nat 2%nat (MResp [2; 3] [3] [1])), (mkSO false [([1; 2; 4], [2]); ([1; 2; 3; 4], [2; 3]); ([1; 2; 3; 4], [2; 3])] [(0%nat, (MHead [2; 3] [3] [1])); (2%nat, (MHead [2; 3] [] [1]))]));
  ((LDeliver 1%nat 2%nat (MReq [2; 3] [1])), (mkSO false [([1; 2; 4], [2]); ([1; 2; 3; 4], [2; 3]); ([1; 2; 3; 4], [2; 3])] [(2%nat, (MResp [2; 3] [] [1]))]));
  ((LDeliver 2%nat 1%nat (MResp [2; 3] [] [1])), (mkSO false [([1; 2; 4], [2]); ([1; 2; 3; 4], [2; 3]); ([1; 2; 3; 4], [2; 3])] []));
  ((LSync 0%nat 2%nat), (mkSO false [([1; 2; 4], [2]); ([1; 2; 3; 4], [2; 3]); ([1; 2; 3; 4], [2; 3])] [(2%nat, (MReq [2] [2; 4; 1]))]));
  ((LDeliver 0%nat 1%nat (MHead [4] [] [4; 1])), (mkSO false [([1; 2; 4], [2]); ([1; 2; 3; 4], [2; 3]); ([1; 2; 3; 4], [2; 3])] [(1%nat, (MReq [2] [2; 4; 1]))]));
  ((LDeliver 2%nat 0%nat (MReq [2] [2; 4; 1])), (mkSO false [([1; 2; 4], [2]); ([1; 2; 3; 4], [2; 3]); ([1; 2; 3; 4], [2; 3])] [(0%nat, (MResp [2; 3] [3] [1])); (0%nat, (MReq [2; 3] [1]))]));
  ((LDeliver 1%nat 0%nat (MReq [2] [2; 4; 1])), (mkSO false [([1; 2; 4], [2]); ([1; 2; 3; 4], [2; 3]); ([1; 2; 3; 4], [2; 3])] [(0%nat, (MResp [2; 3] [3] [1])); (0%nat, (MReq [2; 3] [1]))]));
  ((LDeliver 0%nat 2%nat (MResp [2; 3] [3] [1])), (mkSO false [([1; 2; 3; 4], [2; 3]); ([1; 2; 3; 4], [2; 3]); ([1; 2; 3; 4], [2; 3])] [(1%nat, (MHead [2; 3] [3] [1])); (2%nat, (MHead [2; 3] [] [1]))]));
  ((LDeliver 0%nat 2%nat (MReq [2; 3] [1])), (mkSO false [([1; 2; 3; 4], [2; 3]); ([1; 2; 3; 4], [2; 3]); ([1; 2; 3; 4], [2; 3])] [(2%nat, (MResp [2; 3] [] [1]))]));
  ((LDeliver 2%nat 0%nat (MResp [2; 3] [] [1])), (mkSO false [([1; 2; 3; 4], [2; 3]); ([1; 2; 3; 4], [2; 3]); ([1; 2; 3; 4], [2; 3])] []));
  ((LSync 0%nat 1%nat), (mkSO false [([1; 2; 3; 4], [2; 3]); ([1; 2; 3; 4], [2; 3]); ([1; 2; 3; 4], [2; 3])] [(1%nat, (MReq [2; 3] [1]))]));
  ((LDeliver 1%nat 2%nat (MHead [3] [3] [1])), (mkSO false [([1; 2; 3; 4], [2; 3]); ([1; 2; 3; 4], [2; 3]); ([1; 2; 3; 4], [2; 3])] []));
  ((LDeliver 1%nat 0%nat (MReq [2; 3] [1])), (mkSO false [([1; 2; 3; 4], [2; 3]); ([1; 2; 3; 4], [2; 3]); ([1; 2; 3; 4], [2; 3])] [(0%nat, (MResp [2; 3] [] [1]))]));
  ((LDeliver 0%nat 1%nat (MResp [2; 3] [] [1])), (mkSO false [([1; 2; 3; 4], [2; 3]); ([1; 2; 3; 4], [2; 3]); ([1; 2; 3; 4], [2; 3])] []));
  ((LDeliver 2%nat 1%nat (MHead [2] [2] [2; 4; 1])), (mkSO false [([1; 2; 3; 4], [2; 3]); ([1; 2; 3; 4], [2; 3]); ([1; 2; 3; 4], [2; 3])] []));
  ((LDeliver 2%nat 1%nat (MHead [4] [4] [4; 1])), (mkSO false [([1; 2; 3; 4], [2; 3]); ([1; 2; 3; 4], [2; 3]); ([1; 2; 3; 4], [2; 3])] []));
  ((LDeliver 2%nat 0%nat (MHead [2; 3] [] [1])), (mkSO false [([1; 2; 3; 4], [2; 3]); ([1; 2; 3; 4], [2; 3]); ([1; 2; 3; 4], [2; 3])] []));
  ((LDeliver 0%nat 2%nat (MHead [2; 3] [2; 4] [1])), (mkSO false [([1; 2; 3; 4], [2; 3]); ([1; 2; 3; 4], [2; 3]); ([1; 2; 3; 4], [2; 3])] []));
  ((LDeliver 2%nat 0%nat (MHead [2] [2] [2; 4; 1])), (mkSO false [([1; 2; 3; 4], [2; 3]); ([1; 2; 3; 4], [2; 3]); ([1; 2; 3; 4], [2; 3])] []));
  ((LDeliver 0%nat 1%nat (MHead [2] [] [2; 4; 1])), (mkSO false [([1; 2; 3; 4], [2; 3]); ([1; 2; 3; 4], [2; 3]); ([1; 2; 3; 4], [2; 3])] []))]).

Definition example_labels : list label :=
  match example_history with CHist _ _ _ _ steps => map (fun s => to_label (fst s)) steps end.

(* the model replays the observed history step by step (stored sets, heads, every emitted message) and the observed
   history satisfies spec_C01 *)
Example c01_nonvacuous_history : model_ok example_history = true /\ spec_ok example_history = true.
Proof. vm_compute. split; reflexivity. Qed.

(* the premises of (1)/(3) hold of this trace and the model ends with all three stored sets equal to the universe,
   with equal heads; the phase (labels from index 5 on) contains no local add *)
Example c01_nonvacuous_model :
  let w := run next_batch (init_world 3 (mkChange 1 [] 0 true) 63) example_labels in
  map (fun r => (isort (r_have r), rep_heads (wG w) r)) (w_reps w)
    = [([1; 2; 3; 4], [2; 3]); ([1; 2; 3; 4], [2; 3]); ([1; 2; 3; 4], [2; 3])]
  /\ isort (ids (wG w)) = [1; 2; 3; 4]
  /\ forallb (fun l => negb (is_add l)) (skipn 5 example_labels) = true
  /\ forallb is_add (firstn 5 example_labels) = false.
Proof. vm_compute. repeat split; reflexivity. Qed.

(* ---- non-vacuity of (2)/(3): three replicas; replica 0 and replica 1 make CONCURRENT SNAPSHOTS (2 and 3, both on the tree
   root), replica 2 adds a plain change 4; of the six head updates only 0's update reaches 1 in the first phase (1 then
   holds both snapshots and rebuilds at the tree root) — 0's update to 2 and all updates of 1 are DROPPED, 2's update to 1
   arrives late.  Anti-entropy phase (no local add): exchange 0-1 (request, batch, counter-request, empty response),
   a DUPLICATE of the response batch, the late head update, exchange 0-2 with a duplicated empty response interleaved
   between request and answer (batch [1;4], counter-request, batch [2;3] attached by REBUILD at the common snapshot),
   exchange 2-1 (heads already equal: empty response, no counter-request). *)
Definition ex2_root := mkChange 1 [] 0 true.
Definition ex2_pre : list label :=
  [LocalAdd 0 true 2 100; LocalAdd 1 true 3 100; LocalAdd 2 false 4 100; Deliver 1 0 (MHead [2] [2] [2; 1])].
Definition ex2_phase : list label :=
  [SyncWithPeer 0 1; Deliver 1 0 (MReq [2] [2; 1]); Deliver 0 1 (MResp [2; 3] [3] [1]); Deliver 0 1 (MReq [2; 3] [1]);
   Deliver 1 0 (MResp [2; 3] [] [1]);
   Deliver 0 1 (MResp [2; 3] [3] [1]); Deliver 1 2 (MHead [4] [4] [1]);
   SyncWithPeer 0 2; Deliver 2 0 (MReq [2; 3] [1]); Deliver 1 0 (MResp [2; 3] [] [1]);
   Deliver 0 2 (MResp [4] [1; 4] [1]); Deliver 0 2 (MReq [4] [1]); Deliver 2 0 (MResp [2; 3; 4] [2; 3] [1]);
   SyncWithPeer 2 1; Deliver 1 2 (MReq [2; 3; 4] [1]); Deliver 2 1 (MResp [2; 3; 4] [] [1])].
Definition ex2_w := run next_batch (init_world 3 ex2_root 63) ex2_pre.
(* (initiator, peer, index of SyncWithPeer, labels before the request delivery, index of the counter-request after it) *)
Definition ex2_sched : list (nat * nat * nat * nat * nat) := [(0, 1, 0, 0, 1); (0, 2, 7, 0, 2); (2, 1, 13, 0, 0)]%nat.

(* the premises of c01_convergence hold of this trace ... *)
Example c01_convergence_nonvacuous :
  honest_root ex2_root /\ noadd ex2_phase /\ fair next_batch ex2_w ex2_phase.
Proof.
  split; [vm_compute; repeat split; discriminate|]. split; [vm_compute; reflexivity|].
  apply (fair_by_sound next_batch ex2_w ex2_phase ex2_sched). vm_compute. reflexivity.
Qed.

(* ... the states before and after are as described (stored set, in-memory root, heads), and the three stored sets were
   pairwise different before the phase *)
Example c01_convergence_nonvacuous_states :
  map (fun r => (isort (r_have r), r_root r, rep_heads (wG ex2_w) r)) (w_reps ex2_w)
    = [([1; 2], 2, [2]); ([1; 2; 3], 1, [2; 3]); ([1; 4], 1, [4])]
  /\ (let w' := run next_batch ex2_w ex2_phase in
      map (fun r => (isort (r_have r), r_root r, rep_heads (wG w') r)) (w_reps w')
        = [([1; 2; 3; 4], 1, [2; 3; 4]); ([1; 2; 3; 4], 1, [2; 3; 4]); ([1; 2; 3; 4], 1, [2; 3; 4])])
  /\ exchange_at next_batch ex2_w ex2_phase 0 2 7 0 2 = true.
Proof. vm_compute. repeat split; reflexivity. Qed.

(* the snapshot discipline is not vacuous: after the first phase replica 1 stores two concurrent snapshots and has moved its
   in-memory root back to the tree root; replica 0 keeps its own snapshot as root and stores nothing beside it *)
Example c01_snapshot_discipline_nonvacuous :
  map (fun r => (r_root r, path_or_nil (wG ex2_w) r, rep_view (wG ex2_w) r)) (w_reps ex2_w)
    = [(2, [2; 1], [2]); (1, [1], [3; 2; 1]); (1, [1], [4; 1])].
Proof. vm_compute. reflexivity. Qed.

(* non-vacuity of c01_exchange_exact: the first exchange of the phase above on its own (SyncWithPeer, request, batch,
   counter-request, empty response) — only 0 and 1 act — leaves both with exactly {1,2} U {1,2,3} *)
Example c01_exchange_exact_nonvacuous :
  let ls := firstn 5 ex2_phase in
  exchange next_batch ex2_w ls 0 1 /\ between_ok next_batch ex2_w ls 0 1
  /\ map (fun r => isort (r_have r)) (w_reps (run next_batch ex2_w ls)) = [[1; 2; 3]; [1; 2; 3]; [1; 4]].
Proof.
  split; [apply (exchange_at_sound next_batch ex2_w _ 0 1 0 0 1); vm_compute; reflexivity|].
  split; [apply between_b_sound; vm_compute; reflexivity | vm_compute; reflexivity].
Qed.

(* the model's own history of the example: 20 steps, passes spec_C01 (as c01_model_meets_spec says it must) *)
Example c01_model_meets_spec_nonvacuous :
  let h := model_hist next_batch (init_world 3 ex2_root 63) (ex2_pre ++ ex2_phase) in
  length h = 20%nat
  /\ spec_C01 (wG (run next_batch ex2_w ex2_phase)) h = true
  /\ length (flat_map (fun s => so_emit (snd s)) h) = 29%nat.
Proof. vm_compute. repeat split; reflexivity. Qed.
