(* C18 — All participants agree on which nodes are responsible for a space.
   Only property theorems (closed by [exact]), non-vacuity examples and [Print Assumptions].
   Model: Model/Chash.v (go-chash), Model/NodeConf.v (nodeconf); proofs: Proofs/ChashProofs.v, Proofs/NodeConfProofs.v.

   Every theorem is quantified over
     PH : the partition hashes (any number P >= 1 of them, any values),
     VH : member id -> hashes of its virtual nodes (any non-empty lists: any hash function, any multiply factor),
     KH : the hash of a replication key (any function),
   i.e. it holds for EVERY hash function; 64-bit-ness is never used.
   A configuration is a list of nodes (id, addresses, types); its sync nodes are [tree_ids cfg].
   [table cfg = Ok t] says the ring walk finished within its fuel; [c18_fill_total] shows it always does. *)
From Coq Require Import List NArith ZArith Bool Arith Permutation.
Import ListNotations.
From AnySync Require Import Model.Chash Model.NodeConf Proofs.ChashProofs Proofs.ChashTotal Proofs.ChashSearch Proofs.NodeConfProofs.

(* ------------------------------------------------------------------------------------------------
   1. The responsible set is a function of the SET of sync-node ids and of the replication key only. *)

(* not of the order of the nodes, their addresses, their other types, or nodes of other types *)
Theorem c18_set_function : forall PH VH cfg1 cfg2,
  NoDup (tree_ids cfg1) -> NoDup (tree_ids cfg2) ->
  (forall p, In p (tree_ids cfg1) <-> In p (tree_ids cfg2)) ->
  table PH VH cfg1 = table PH VH cfg2.
Proof. exact table_set. Qed.
Print Assumptions c18_set_function.

(* the general form (also for configurations that list a sync node twice): a function of the multiset *)
Theorem c18_multiset_function : forall PH VH cfg1 cfg2,
  Permutation (tree_ids cfg1) (tree_ids cfg2) -> table PH VH cfg1 = table PH VH cfg2.
Proof. exact table_perm. Qed.
Print Assumptions c18_multiset_function.

(* the replication key is the text after the last '.', the whole id if there is none *)
Theorem c18_replkey_whole : forall s, memN DOT s = false -> repl_key s = s.
Proof. exact repl_key_nodot. Qed.
Print Assumptions c18_replkey_whole.

Theorem c18_replkey_suffix : forall pre suf, memN DOT suf = false -> repl_key (pre ++ DOT :: suf) = suf.
Proof. exact repl_key_suffix. Qed.
Print Assumptions c18_replkey_suffix.

(* ------------------------------------------------------------------------------------------------
   2. It has min(rf, n) pairwise-distinct members, all of them sync nodes. *)
Theorem c18_size_distinct : forall PH VH KH,
  (forall m, VH m <> []) -> PH <> [] ->
  forall cfg t s, table PH VH cfg = Ok t ->
    NoDup (members_in PH KH t s) /\
    (forall x, In x (members_in PH KH t s) -> In x (tree_ids cfg)) /\
    length (members_in PH KH t s) = Nat.min REPLICATION_FACTOR (member_count (tree_ids cfg)).
Proof. exact members_shape. Qed.
Print Assumptions c18_size_distinct.

(* ------------------------------------------------------------------------------------------------
   3. Self rules: responsible <=> member; peer list = members minus self; a client gets all members. *)
Theorem c18_is_responsible : forall PH KH t p s,
  is_responsible_in PH KH t p s = true <-> In p (members_in PH KH t s).
Proof. exact is_responsible_iff. Qed.
Print Assumptions c18_is_responsible.

Theorem c18_node_ids : forall PH KH t p s x,
  In x (node_ids_in PH KH t p s) <-> In x (members_in PH KH t s) /\ x <> p.
Proof. exact node_ids_iff. Qed.
Print Assumptions c18_node_ids.

Theorem c18_client : forall PH VH KH,
  (forall m, VH m <> []) -> PH <> [] ->
  forall cfg t p s, table PH VH cfg = Ok t -> ~ In p (tree_ids cfg) ->
    node_ids_in PH KH t p s = members_in PH KH t s /\ is_responsible_in PH KH t p s = false.
Proof. exact client_gets_all. Qed.
Print Assumptions c18_client.

(* ------------------------------------------------------------------------------------------------
   4. Agreement: any two participants holding the same table stand for the same set
      (peer list, plus the participant itself iff it says it is responsible). *)
Theorem c18_agreement : forall PH KH t p q s x,
  In x (resp_set (model_obs PH KH t p s)) <-> In x (resp_set (model_obs PH KH t q s)).
Proof. exact agreement_in. Qed.
Print Assumptions c18_agreement.

(* ------------------------------------------------------------------------------------------------
   5. The model's answers satisfy the executable property predicate that the correspondence check evaluates on the
      answers of the real implementation. *)
Theorem c18_model_meets_spec : forall PH VH KH,
  (forall m, VH m <> []) -> PH <> [] ->
  forall cfg t (qs : list (N * list N)), table PH VH cfg = Ok t ->
    spec_C18 cfg REPLICATION_FACTOR (map (fun q => model_obs PH KH t (fst q) (snd q)) qs) = true.
Proof. exact model_meets_spec. Qed.
Print Assumptions c18_model_meets_spec.

(* ------------------------------------------------------------------------------------------------
   6. Totality: fillClosest's ring walk always terminates within the model's fuel
      (the OutOfFuel outcome is unreachable), for every hash function. *)
Theorem c18_fill_total : forall PH RF VH ms,
  (forall m, In m ms -> VH m <> []) -> exists t, distribute PH RF VH ms = Ok t.
Proof. exact distribute_total. Qed.
Print Assumptions c18_fill_total.

Theorem c18_table_total : forall PH VH,
  (forall m, VH m <> []) -> forall cfg, exists t, table PH VH cfg = Ok t.
Proof. exact table_total. Qed.
Print Assumptions c18_table_total.

(* ------------------------------------------------------------------------------------------------
   7. The property in one statement (top-level NodeIds / IsResponsible, no side condition on fuel):
      for every configuration and space id there is ONE member set M of min(rf, n) pairwise-distinct sync nodes such
      that EVERY participant p (node or client) gets NodeIds = M minus p and IsResponsible = (p in M). *)
Theorem c18_participants_agree : forall PH VH KH,
  (forall m, VH m <> []) -> PH <> [] ->
  forall cfg s, exists M,
    members PH VH KH cfg s = Ok M /\
    NoDup M /\ (forall x, In x M -> In x (tree_ids cfg)) /\
    length M = Nat.min REPLICATION_FACTOR (member_count (tree_ids cfg)) /\
    forall p, node_ids PH VH KH cfg p s = Ok (filter (fun m => negb (m =? p)%N) M) /\
              exists b, is_responsible PH VH KH cfg p s = Ok b /\ (b = true <-> In p M).
Proof. exact participants_agree. Qed.
Print Assumptions c18_participants_agree.

(* ------------------------------------------------------------------------------------------------
   8. Fidelity of the search: on the model's ring (the unique sort.Sort result) the skip index used for evaluation
      returns exactly what sort.Search returns - the suffix starting at the first virtual node with hash >= h. *)
Theorem c18_search_is_sort_search : forall VH ms h,
  find_start (mk_index (ring VH ms)) (ring VH ms) h = drop_lt h (ring VH ms).
Proof. exact find_start_ring. Qed.
Print Assumptions c18_search_is_sort_search.

Theorem c18_sort_search_meaning : forall h l, exists pre,
  l = pre ++ drop_lt h l /\ (forall v, In v pre -> (fst v < h)%N) /\
  match drop_lt h l with [] => True | v :: _ => (h <= fst v)%N end.
Proof. exact drop_lt_spec. Qed.
Print Assumptions c18_sort_search_meaning.

(* ------------------------------------------------------------------------------------------------
   9. Configuration histories.  A running participant receives configurations one after the other
      (service.setLastConfiguration: same id as the active one => ignored, otherwise the active configuration is
      REPLACED).  When ids identify configurations, its state after any history (role swaps, additions, removals,
      re-deliveries, returns to an earlier configuration, ...) is the LAST configuration delivered, so all its answers
      equal those of a participant freshly started on that configuration: "given the same configuration" does not
      depend on how a participant got there.  The correspondence check drives real services through such histories. *)
Theorem c18_history_last : forall ups init,
  ids_identify (init :: ups) -> run_history init ups = last ups init.
Proof. exact run_history_last. Qed.
Print Assumptions c18_history_last.

Theorem c18_history_independent : forall PH VH KH i1 u1 i2 u2,
  ids_identify (i1 :: u1) -> ids_identify (i2 :: u2) -> last u1 i1 = last u2 i2 ->
  table PH VH (c_nodes (run_history i1 u1)) = table PH VH (c_nodes (run_history i2 u2)) /\
  forall p s,
    members PH VH KH (c_nodes (run_history i1 u1)) s = members PH VH KH (c_nodes (run_history i2 u2)) s /\
    node_ids PH VH KH (c_nodes (run_history i1 u1)) p s = node_ids PH VH KH (c_nodes (run_history i2 u2)) p s /\
    is_responsible PH VH KH (c_nodes (run_history i1 u1)) p s
      = is_responsible PH VH KH (c_nodes (run_history i2 u2)) p s.
Proof. exact history_independent. Qed.
Print Assumptions c18_history_independent.

(* ------------------------------------------------------------------------------------------------
   Non-vacuity: a concrete ring (10 partitions, 3 virtual nodes per member, 4 sync nodes + a coordinator + a node with
   an unknown type) on which the hypotheses hold, overflow handling is exercised, and the predicate discriminates. *)
Definition ex_PH : list N := [5; 93; 41; 77; 12; 60; 28; 99; 3; 50]%N.
Definition ex_VH (m : N) : list N := [(m * 37 + 11) mod 101; (m * 59 + 7) mod 101; (m * 83 + 40) mod 101]%N.
Definition ex_KH (k : list N) : N := fold_left (fun a c => (a * 31 + c) mod 1009)%N k 7%N.
Definition ex_cfg : list node :=
  [mkNode 4 [1] [0]; mkNode 9 [] [4]; mkNode 2 [2; 3] [1; 0]; mkNode 7 [] [0]; mkNode 5 [] [8]; mkNode 1 [4] [0; 2]]%N.
Definition ex_cfg' : list node :=   (* same sync-node set: other order, other addresses, other extra nodes *)
  [mkNode 1 [] [0]; mkNode 7 [9] [3; 0]; mkNode 6 [] [2]; mkNode 2 [] [0]; mkNode 4 [5; 6] [0; 0]]%N.
Definition ex_space1 : list N := [98; 97; 102; 46; 107; 49]%N.    (* "baf.k1" *)
Definition ex_space2 : list N := [120; 46; 121; 46; 107; 49]%N.   (* "x.y.k1" *)

Example c18_hypotheses_nonvacuous : (forall m, ex_VH m <> []) /\ ex_PH <> [].
Proof. split; [intro m; unfold ex_VH|unfold ex_PH]; discriminate. Qed.

Example c18_table_nonvacuous :
  table ex_PH ex_VH ex_cfg
  = Ok [[7; 1; 2]; [2; 7; 1]; [4; 1; 7]; [2; 7; 1]; [7; 1; 2]; [1; 7; 4]; [4; 1; 7]; [2; 7; 1]; [2; 4; 1]; [4; 2; 7]]%N
  /\ table ex_PH ex_VH ex_cfg' = table ex_PH ex_VH ex_cfg
  /\ repl_key ex_space1 = [107; 49]%N /\ repl_key ex_space2 = repl_key ex_space1.
Proof. vm_compute. repeat split. Qed.

(* Why c18_set_function needs NoDup: listing sync node 2 twice (its virtual nodes then sit on the ring twice, as in
   go-chash's AddMembers) changes the member SET of partition 8.  Reproduced on the real go-chash, see notes/C18.md. *)
Example c18_duplicate_listing_matters :
  match distribute ex_PH 3 ex_VH [2; 4; 7; 1]%N, distribute ex_PH 3 ex_VH [2; 4; 2; 7; 1]%N with
  | Ok t1, Ok t2 => nth 8 t1 [] = [2; 4; 1]%N /\ nth 8 t2 [] = [2; 7; 1]%N
  | _, _ => False
  end.
Proof. vm_compute. repeat split. Qed.

(* four participants (three sync nodes and a client, id 100) asked about two ids with the same key *)
Example c18_spec_nonvacuous :
  match table ex_PH ex_VH ex_cfg with
  | Ok t =>
      let os := map (fun q => model_obs ex_PH ex_KH t (fst q) (snd q))
                    [(4, ex_space1); (7, ex_space2); (2, ex_space1); (100, ex_space2); (1, ex_space1)]%N in
      map o_nodeids os = [[2; 7; 1]; [2; 1]; [7; 1]; [2; 7; 1]; [2; 7]]%N
      /\ map o_resp os = [false; true; true; false; true]
      /\ spec_C18 ex_cfg REPLICATION_FACTOR os = true
  | OutOfFuel => False
  end.
Proof. vm_compute. repeat split. Qed.

(* the predicate is not trivially true: a participant that keeps itself in its peer list, one that disagrees with the
   others, one that names a non-sync node, and one that cuts the key at the FIRST dot are all rejected *)
Local Open Scope N_scope.
Example c18_spec_discriminates :
  let k := [107; 49]%N in
  spec_C18 ex_cfg 3%nat [mkObs 7 ex_space1 k 3 [2; 1] true; mkObs 2 ex_space2 k 3 [7; 1] true; mkObs 4 ex_space1 k 3 [2; 7; 1] false] = true
  /\ spec_C18 ex_cfg 3%nat [mkObs 7 ex_space1 k 3 [2; 1; 7] false] = false
  /\ spec_C18 ex_cfg 3%nat [mkObs 7 ex_space1 k 3 [2; 1] true; mkObs 2 ex_space1 k 3 [7; 4] true] = false
  /\ spec_C18 ex_cfg 3%nat [mkObs 7 ex_space1 k 3 [9; 1] true] = false
  /\ spec_C18 ex_cfg 3%nat [mkObs 7 ex_space1 k 3 [2; 1] false] = false
  /\ spec_C18 ex_cfg 3%nat [mkObs 7 ex_space2 [121; 46; 107; 49]%N 3 [2; 1] true] = false.
Proof. vm_compute. repeat split. Qed.

(* histories: A (sync nodes 4,2,7,1) -> B (role swap: 7 demoted to a file node, the coordinator 9 promoted; same NUMBER
   of sync nodes, every sync node of B known in A) -> B re-delivered -> A -> B.  The state is B, the table is B's and
   differs from A's (a participant that kept A's ring would disagree with a freshly started one). *)
Definition ex_confA : conf := mkConf 1 ex_cfg.
Definition ex_confB : conf :=
  mkConf 2 [mkNode 4 [1] [0]; mkNode 9 [] [4; 0]; mkNode 2 [2; 3] [1; 0]; mkNode 7 [] [2]; mkNode 5 [] [8]; mkNode 1 [4] [0; 2]]%N.
Example c18_history_nonvacuous :
  ids_identify [ex_confA; ex_confB; ex_confB; ex_confA; ex_confB]
  /\ run_history ex_confA [ex_confB; ex_confB; ex_confA; ex_confB] = ex_confB
  /\ run_history ex_confB [] = ex_confB
  /\ table ex_PH ex_VH (c_nodes ex_confB) <> table ex_PH ex_VH (c_nodes ex_confA)
  /\ length (tree_ids (c_nodes ex_confB)) = length (tree_ids (c_nodes ex_confA)).
Proof.
  split; [|vm_compute; repeat split; discriminate].
  intros a b Ha Hb Hid. cbn [In] in Ha, Hb.
  repeat (destruct Ha as [<-|Ha]; [|]); try contradiction;
  repeat (destruct Hb as [<-|Hb]; [|]); try contradiction; try reflexivity; discriminate Hid.
Qed.

(* ------------------------------------------------------------------------------------------------
   10. Service lives: starts with a populated store, restarts, updates.
       A participant's nodeconf service is started (Init) with whatever its local store holds: nothing (the app
       configuration bundled with the binary becomes active), or the configuration saved by an earlier run - into which
       Init merges the coordinator nodes / coordinator addresses of the app configuration that it lacks; if anything
       was added the result gets the id "-1" (MERGED_ID), is saved and becomes active.  The running service then
       receives updates (saved, then set); the process may be restarted any number of times (new service object,
       same identity, same store).  The nodeConf that answers NodeIds / IsResponsible is stamped with the service's
       account id when it is installed.  [life self store0 app0 evs] is the service after such a life. *)

(* whatever the life, the answers are computed for the participant ITSELF (the account id is in place before the first
   nodeConf is installed, and every later one is stamped with it) ... *)
Theorem c18_life_self : forall self store0 app0 evs, svc_self (life self store0 app0 evs) = self.
Proof. exact life_self. Qed.
Print Assumptions c18_life_self.

(* ... so the service's NodeIds / IsResponsible are those of its active configuration asked by the participant *)
Theorem c18_life_answers : forall PH VH KH self store0 app0 evs space,
  svc_node_ids PH VH KH (life self store0 app0 evs) space
    = node_ids PH VH KH (c_nodes (svc_conf (life self store0 app0 evs))) self space /\
  svc_is_responsible PH VH KH (life self store0 app0 evs) space
    = is_responsible PH VH KH (c_nodes (svc_conf (life self store0 app0 evs))) self space.
Proof. exact life_answers. Qed.
Print Assumptions c18_life_answers.

(* what a (re)start leaves active: the app configuration when nothing is stored; the stored configuration when the app
   configuration knows no coordinator node/address it lacks; otherwise the merged configuration with id "-1" *)
Theorem c18_start_nothing_stored : forall self app,
  svc_conf (svc_init self None app) = app /\ s_store (svc_init self None app) = None.
Proof. exact svc_init_fresh. Qed.
Print Assumptions c18_start_nothing_stored.

Theorem c18_start_stored : forall self st app,
  snd (merge_coord (c_nodes app) (c_nodes st)) = false ->
  svc_conf (svc_init self (Some st) app) = st /\ s_store (svc_init self (Some st) app) = Some st.
Proof. exact svc_init_stored. Qed.
Print Assumptions c18_start_stored.

Theorem c18_start_merged : forall self st app,
  snd (merge_coord (c_nodes app) (c_nodes st)) = true ->
  let m := mkConf MERGED_ID (fst (merge_coord (c_nodes app) (c_nodes st))) in
  svc_conf (svc_init self (Some st) app) = m /\ s_store (svc_init self (Some st) app) = Some m.
Proof. exact svc_init_merged. Qed.
Print Assumptions c18_start_merged.

(* the sync nodes of the merged configuration: those of the stored one, followed by the app configuration's coordinator
   nodes (one per peer id) unknown to the stored one that are ALSO typed "tree" - merging addresses never touches the
   ring, an appended coordinator changes it only if it is a sync node as well *)
Theorem c18_merge_sync_nodes : forall app st,
  tree_ids (fst (merge_coord app st)) = tree_ids st ++ tree_ids (filter (unknown_to st) (coord_entries app)).
Proof. exact merge_coord_tree_ids. Qed.
Print Assumptions c18_merge_sync_nodes.

Theorem c18_merge_nothing_to_add : forall app st,
  snd (merge_coord app st) = false -> fst (merge_coord app st) = st.
Proof. exact merge_coord_unchanged. Qed.
Print Assumptions c18_merge_nothing_to_add.

(* merging the same app configuration again adds nothing (every coordinator node / address of the app configuration
   is in the merged result), so a second restart with the same binary keeps the configuration and the store *)
Theorem c18_merge_idempotent : forall app st,
  merge_coord app (fst (merge_coord app st)) = (fst (merge_coord app st), false).
Proof. exact merge_coord_idempotent. Qed.
Print Assumptions c18_merge_idempotent.

Theorem c18_restart_again_stable : forall self self' st app,
  let s1 := svc_init self (Some st) app in
  svc_conf (svc_init self' (s_store s1) app) = svc_conf s1 /\ s_store (svc_init self' (s_store s1) app) = s_store s1.
Proof. exact restart_again_stable. Qed.
Print Assumptions c18_restart_again_stable.

(* only the last session matters, and of everything before it only what the store holds; within a session the
   configuration evolves as in section 9 *)
Theorem c18_life_last_session : forall self store0 app0 evs a us,
  let before := life self store0 app0 evs in
  svc_conf (life self store0 app0 (evs ++ EStart a :: map EUpd us))
  = run_history (svc_conf (svc_init self (s_store before) a)) us.
Proof. exact life_last_session. Qed.
Print Assumptions c18_life_last_session.

(* THE PROPERTY for participants with arbitrary lives: if the configurations two participants ended up with have the
   same sync nodes (in particular: the same configuration), ONE member set M - min(rf, n) distinct sync nodes - serves
   both: NodeIds = M minus self, IsResponsible = (self in M). *)
Theorem c18_lives_agree : forall PH VH KH,
  (forall m, VH m <> []) -> PH <> [] ->
  forall p sp ap ep q sq aq eq_ s,
    let Lp := life p sp ap ep in
    let Lq := life q sq aq eq_ in
    Permutation (tree_ids (c_nodes (svc_conf Lp))) (tree_ids (c_nodes (svc_conf Lq))) ->
    exists M,
      NoDup M /\ (forall x, In x M -> In x (tree_ids (c_nodes (svc_conf Lp)))) /\
      length M = Nat.min REPLICATION_FACTOR (member_count (tree_ids (c_nodes (svc_conf Lp)))) /\
      svc_node_ids PH VH KH Lp s = Ok (filter (fun m => negb (m =? p)%N) M) /\
      svc_node_ids PH VH KH Lq s = Ok (filter (fun m => negb (m =? q)%N) M) /\
      (exists b, svc_is_responsible PH VH KH Lp s = Ok b /\ (b = true <-> In p M)) /\
      (exists b, svc_is_responsible PH VH KH Lq s = Ok b /\ (b = true <-> In q M)).
Proof. exact lives_agree. Qed.
Print Assumptions c18_lives_agree.

(* the answers the correspondence runner computes for participants with lives satisfy the property predicate *)
Theorem c18_life_model_meets_spec : forall PH VH KH,
  (forall m, VH m <> []) -> PH <> [] ->
  forall cfg t (qs : list ((N * option conf * conf * list event) * list N)),
    table PH VH cfg = Ok t ->
    spec_C18 cfg REPLICATION_FACTOR
      (map (fun q => let '(self, st, app, evs) := fst q in
                     model_obs PH KH t (svc_self (life self st app evs)) (snd q)) qs) = true.
Proof. exact life_model_meets_spec. Qed.
Print Assumptions c18_life_model_meets_spec.

(* Non-vacuity.  Stored: ex_cfg under id 5 (coordinator 9 without addresses).  The upgraded binary's app configuration
   knows an address (77) of coordinator 9 and a new coordinator 8 that is also a sync node.  Restarting sync node 7:
   the merged configuration has id "-1" (0), the address was added to node 9, node 8 was appended and joined the ring
   (the table changes), node 7's answers are computed for 7 - it is responsible for "baf.k1" and does not list itself (a client gets 2, 8, 7).
   A second restart with the same app configuration finds nothing to merge and keeps the stored "-1" configuration;
   an update with another id replaces it; a restart when stored and app coordinators agree keeps the stored one. *)
Definition ex_stored : conf := mkConf 5 ex_cfg.
Definition ex_app : conf := mkConf 6 [mkNode 8 [70] [4; 0]; mkNode 9 [77] [4]; mkNode 3 [] [0]]%N.
Definition ex_app_same : conf := mkConf 6 [mkNode 9 [] [4]; mkNode 3 [] [0]]%N.
Example c18_restart_nonvacuous :
  let s1 := life 7 (Some ex_stored) ex_app [] in
  let s2 := life 7 (Some ex_stored) ex_app [EStart ex_app] in
  let s3 := life 7 (Some ex_stored) ex_app [EUpd ex_confB; EStart ex_app_same] in
  svc_conf s1 = mkConf MERGED_ID
     [mkNode 4 [1] [0]; mkNode 9 [77] [4]; mkNode 2 [2; 3] [1; 0]; mkNode 7 [] [0]; mkNode 5 [] [8]; mkNode 1 [4] [0; 2];
      mkNode 8 [70] [4; 0]]%N
  /\ svc_self s1 = 7%N /\ s_store s1 = Some (svc_conf s1)
  /\ svc_conf s2 = svc_conf s1
  /\ svc_conf s3 = ex_confB /\ s_store s3 = Some ex_confB
  /\ svc_conf (life 7 (Some ex_stored) ex_app_same []) = ex_stored
  /\ svc_conf (life 7 None ex_app []) = ex_app
  /\ table ex_PH ex_VH (c_nodes (svc_conf s1)) <> table ex_PH ex_VH ex_cfg
  /\ svc_node_ids ex_PH ex_VH ex_KH s1 ex_space1 = Ok [2; 8]%N
  /\ svc_is_responsible ex_PH ex_VH ex_KH s1 ex_space1 = Ok true
  /\ svc_node_ids ex_PH ex_VH ex_KH (life 100 (Some ex_stored) ex_app []) ex_space1 = Ok [2; 8; 7]%N.
Proof. vm_compute. repeat split; discriminate. Qed.
