(* C14 -- Handshake: mutual version gating, proven identity, same verdict on both sides.
   Model: Model/Handshake.v ([fx = true] = release() as repaired by fixes/C14-pool-reset.patch).
   Everything below is about [hs_run true]; c14_pool_legacy_refuted is about the original release(). *)
From Coq Require Import List NArith Bool.
Import ListNotations.
From AnySync Require Import Model.Handshake Proofs.HandshakeProofs Proofs.HandshakeRun Proofs.HandshakeTamper
  Proofs.HandshakeCancel.
Open Scope N_scope.

(* ---- concrete ends used by the examples *)
Definition exA (ver : N) (acc : list N) (verify : bool) : side_cfg :=
  mkSide [80; 65; 65; 65] [80; 66; 66; 66] ver acc verify (mkCv 2 false) 0.
Definition exB (ver : N) (acc : list N) (verify : bool) : side_cfg :=
  mkSide [80; 66; 66; 66] [80; 65; 65; 65] ver acc verify (mkCv 3 false) 1.
Definition exCase (o i : side_cfg) : hs_case := mkCase o i APass APass APass APass None false pooled_zero pooled_zero.

(* ---- the model satisfies the executable property predicate: EVERY case -- man in the middle or not, a context
        cancelled on either side while any frame is in flight or not, either kind of pipe, any pooled objects.
   spec_C14 = spec_C14_core (success justified; honest peers: same verdict, success iff mutual acceptance; cancellation)
              && tamper_ok (tampered frames never end in success, see c14_tampered_* below; says nothing when a
                            cancellation can have an effect).
   (Until 2026-09-23 this was c14_model_meets_spec_partial, proved for k_cancel c = None only; the cancellation clause
   is c14_cancel_safe below, Proofs/HandshakeCancel.v.) *)
Theorem c14_model_meets_spec : forall c, spec_C14 c (fst (hs_run true c)) (snd (hs_run true c)) = true.
Proof. exact model_meets_spec. Qed.
Print Assumptions c14_model_meets_spec.

Theorem c14_success_justified : forall c oo oi, hs_run true c = (oo, oi) ->
  success_sound (k_in c) (k_out c) (k_a1 c) oi = true /\ success_sound (k_out c) (k_in c) (k_a2 c) oo = true.
Proof. exact run_sound. Qed.
Print Assumptions c14_success_justified.

(* ---- honest peers, reliable stream: same verdict; success iff mutually acceptable; labels are the peer's *)
Theorem c14_same_verdict : forall c, all_pass c = true -> k_cancel c = None ->
  is_ok (fst (hs_run true c)) = is_ok (snd (hs_run true c)) /\
  is_ok (fst (hs_run true c)) = accepts (k_in c) (k_out c) && accepts (k_out c) (k_in c) /\
  (is_ok (fst (hs_run true c)) = true ->
     hs_run true c = (Ok (label (k_out c) (k_in c)), Ok (label (k_in c) (k_out c)))).
Proof. exact honest_nocancel. Qed.
Print Assumptions c14_same_verdict.

(* what "V accepts P" means: version gate, (hot-fix: client version not banned), and where V verifies, P presented
   SignedPeerIds signed over exactly (P's peer id ++ the id P knows V by) = (the id V knows P by ++ V's peer id) *)
Theorem c14_success_iff : forall V P, accepts V P = true <->
  In (s_ver P) (s_acc V) /\ cv_banned (s_cv P) = false /\
  (s_verify V = true -> s_verify P = true /\ s_peer P ++ s_remote P = s_remote V ++ s_peer V).
Proof. exact accepts_iff. Qed.
Print Assumptions c14_success_iff.

Example c14_same_verdict_nonvacuous :
  hs_run true (exCase (exA 5 [5; 6] true) (exB 6 [5] true)) =
    (Ok (mkRes (Some 1) 6 (mkCv 3 false)), Ok (mkRes (Some 0) 5 (mkCv 2 false))) /\
  hs_run true (exCase (exA 5 [5; 6] true) (exB 6 [6] true)) = (Err (EProto 6), Err (EProto 6)) /\
  hs_run true (exCase (exA 5 [5] true) (exB 6 [5] true)) = (Err (EProto 6), Err (EProto 6)) /\
  hs_run true (exCase (exA 5 [6] true) (exB 6 [5] false)) = (Err (EProto 4), Err (EProto 4)).
Proof. vm_compute. repeat split; reflexivity. Qed.

(* ---- the checker: success is exactly the declarative condition; the identity is the signer *)
Theorem c14_checker_sound : forall V v cv c r, check_cred V v cv c = inl r -> cred_sound V c v cv r.
Proof. exact check_cred_ok. Qed.
Print Assumptions c14_checker_sound.
Theorem c14_checker_complete : forall V v cv c r, cred_sound V c v cv r -> check_cred V v cv c = inl r.
Proof. exact check_cred_complete. Qed.
Print Assumptions c14_checker_complete.

Theorem c14_identity_is_proven_in : forall c r, snd (hs_run true c) = Ok r ->
  match k_a1 c with
  | APass => accepts (k_in c) (k_out c) = true /\ r = label (k_in c) (k_out c)
  | AReplace (it :: _) _ =>
      exists c0, w_body it = BCred c0 /\ In (dflt_ver (c_ver c0)) (s_acc (k_in c)) /\ r_ver r = dflt_ver (c_ver c0) /\
        r_cv r = dflt_cv (c_cv c0) /\
        (s_verify (k_in c) = true ->
         exists k, c_type c0 = CT_SignedPeerIds /\
                   c_payload c0 = PSigned (Some k) (SigOf k (s_remote (k_in c) ++ s_peer (k_in c))) /\ r_ident r = Some k)
  | AReplace [] _ => False
  end.
Proof. exact identity_is_proven_in. Qed.
Print Assumptions c14_identity_is_proven_in.

Theorem c14_identity_is_proven_out : forall c r, fst (hs_run true c) = Ok r ->
  match k_a2 c with
  | APass => accepts (k_out c) (k_in c) = true /\ r = label (k_out c) (k_in c)
  | AReplace (it :: _) _ =>
      exists c0, w_body it = BCred c0 /\ In (dflt_ver (c_ver c0)) (s_acc (k_out c)) /\ r_ver r = dflt_ver (c_ver c0) /\
        r_cv r = dflt_cv (c_cv c0) /\
        (s_verify (k_out c) = true ->
         exists k, c_type c0 = CT_SignedPeerIds /\
                   c_payload c0 = PSigned (Some k) (SigOf k (s_remote (k_out c) ++ s_peer (k_out c))) /\ r_ident r = Some k)
  | AReplace [] _ => False
  end.
Proof. exact identity_is_proven_out. Qed.
Print Assumptions c14_identity_is_proven_out.

(* ---- credentials made for connection (A,B) are refused on (A',B') <> (A,B) -- for peer ids of one fixed length *)
Theorem c14_not_transferable : forall P V v cv,
  s_verify V = true ->
  length (s_peer P) = length (s_remote V) ->
  (s_peer P, s_remote P) <> (s_remote V, s_peer V) ->
  exists e, check_cred V v cv (mk_cred P) = inr e.
Proof. exact not_transferable. Qed.
Print Assumptions c14_not_transferable.

(* ... and why the length hypothesis is needed: the signed message is a plain concatenation.
   P = "PA" talking to "AAPBBB";  V = "PBBB" talking to "PAAA":  "PA"++"AAPBBB" = "PAAA"++"PBBB". *)
Example c14_concat_refuted :
  exists P V, s_verify V = true /\ (s_peer P, s_remote P) <> (s_remote V, s_peer V) /\
              check_cred V 5 cv_empty (mk_cred P) = inl (mkRes (Some 0) 5 cv_empty).
Proof.
  exists (mkSide [80; 65] [65; 65; 80; 66; 66; 66] 5 [5] true cv_empty 0),
         (mkSide [80; 66; 66; 66] [80; 65; 65; 65] 5 [5] true cv_empty 1).
  split; [reflexivity|]. split; [intro H; discriminate | vm_compute; reflexivity].
Qed.

Example c14_not_transferable_nonvacuous :
  check_cred (mkSide [80; 66; 66; 66] [80; 67; 67; 67] 5 [5] true cv_empty 1) 5 cv_empty (mk_cred (exA 5 [5] true))
    = inr E_InvalidCredentials /\
  check_cred (exB 5 [5] true) 5 cv_empty (mk_cred (exA 5 [5] true)) = inl (mkRes (Some 0) 5 cv_empty).
Proof. vm_compute. split; reflexivity. Qed.

(* ---- garbage, truncated, oversized, out-of-order first frames never give success; the model is a total function,
        so every read returns (the harness checks the real code under a wall-clock guard) *)
Theorem c14_garbage_never_success_in : forall c it rest cut,
  k_a1 c = AReplace (it :: rest) cut -> malformed it -> is_ok (snd (hs_run true c)) = false.
Proof. exact garbage_never_success_in. Qed.
Print Assumptions c14_garbage_never_success_in.

Theorem c14_garbage_never_success_out : forall c it rest cut,
  k_a2 c = AReplace (it :: rest) cut -> malformed it -> is_ok (fst (hs_run true c)) = false.
Proof. exact garbage_never_success_out. Qed.
Print Assumptions c14_garbage_never_success_out.

Theorem c14_cut_never_success : forall c cut,
  (k_a1 c = AReplace [] cut -> is_ok (snd (hs_run true c)) = false) /\
  (k_a2 c = AReplace [] cut -> is_ok (fst (hs_run true c)) = false).
Proof. exact nothing_never_success. Qed.
Print Assumptions c14_cut_never_success.

Example c14_garbage_nonvacuous :
  let good := exCase (exA 5 [5] false) (exB 5 [5] false) in
  let over := mkItem 1 204801 0 BUndecodable in
  let ack := mkItem 2 0 0 (BAck 0) in
  hs_run true good = (Ok (mkRes None 5 (mkCv 3 false)), Ok (mkRes None 5 (mkCv 2 false))) /\
  hs_run true (mkCase (k_out good) (k_in good) (AReplace [over] false) APass APass APass None false pooled_zero pooled_zero)
    = (Err (EProto 1), Err EOther) /\
  hs_run true (mkCase (k_out good) (k_in good) APass (AReplace [ack] false) APass APass None false pooled_zero pooled_zero)
    = (Err (EProto 0), Err EOther) /\
  (* frames 3 and 4 forged/garbled: *)
  hs_run true (mkCase (k_out good) (k_in good) APass APass (AReplace [mkItem 2 3 1 BUndecodable] true) APass None false pooled_zero pooled_zero)
    = (Err EOther, Err EOther) /\
  hs_run true (mkCase (k_out good) (k_in good) APass APass APass (AReplace [mkItem 1 0 0 (BCred (mk_cred (k_in good)))] false) None false pooled_zero pooled_zero)
    = (Err (EProto 3), Ok (mkRes None 5 (mkCv 2 false))).
Proof. vm_compute. repeat split; reflexivity. Qed.

(* ---- tampered frames, all four positions (1: initiator's credentials, 2: responder's credentials, 3: initiator's
        Ack{Null}, 4: responder's Ack{Null}).  [bad_edit k a]: the man in the middle puts in the place of frame k nothing at
        all, or something whose first frame is oversized (> 200 KiB announced), truncated, of a type that does not belong
        at position k (out of order), undecodable, or an acknowledgement other than Ack{Null} where Ack{Null} belongs.
        Exactly one frame edited, k <= 3: NEITHER side reports success. *)
Theorem c14_tampered_never_success : forall c, k_cancel c = None ->
  (bad_edit 1 (k_a1 c) = true /\ k_a2 c = APass /\ k_a3 c = APass /\ k_a4 c = APass) \/
  (k_a1 c = APass /\ bad_edit 2 (k_a2 c) = true /\ k_a3 c = APass /\ k_a4 c = APass) \/
  (k_a1 c = APass /\ k_a2 c = APass /\ bad_edit 3 (k_a3 c) = true /\ k_a4 c = APass) ->
  is_ok (fst (hs_run true c)) = false /\ is_ok (snd (hs_run true c)) = false.
Proof. exact single_bad_edit_no_success. Qed.
Print Assumptions c14_tampered_never_success.

(* the LAST frame: its sender (the responder) has returned before the frame travels and cannot learn its fate, so the
   only thing the property can demand is: the responder's verdict is that of the untampered handshake, and the
   initiator never reports success on a bad frame 4 *)
Theorem c14_tampered_last_frame : forall c, k_cancel c = None ->
  k_a1 c = APass -> k_a2 c = APass -> k_a3 c = APass -> k_a4 c <> APass ->
  is_ok (snd (hs_run true c)) = accepts (k_in c) (k_out c) && accepts (k_out c) (k_in c) /\
  (bad_edit 4 (k_a4 c) = true -> is_ok (fst (hs_run true c)) = false).
Proof. exact last_frame_edit. Qed.
Print Assumptions c14_tampered_last_frame.

(* whatever ELSE the man in the middle edits: a side whose first frame was untouched never succeeds on a bad second frame *)
Theorem c14_bad_third_frame_fails_responder : forall c, k_cancel c = None -> k_a1 c = APass ->
  bad_edit 3 (k_a3 c) = true -> is_ok (snd (hs_run true c)) = false.
Proof. exact bad3_in_fails. Qed.
Print Assumptions c14_bad_third_frame_fails_responder.
Theorem c14_bad_fourth_frame_fails_initiator : forall c, k_cancel c = None -> k_a2 c = APass ->
  bad_edit 4 (k_a4 c) = true -> is_ok (fst (hs_run true c)) = false.
Proof. exact bad4_out_fails. Qed.
Print Assumptions c14_bad_fourth_frame_fails_initiator.

(* the clauses as the executable predicate evaluated on the implementation's observed outcomes *)
Theorem c14_model_meets_tamper_clauses : forall c, tamper_ok c (fst (hs_run true c)) (snd (hs_run true c)) = true.
Proof. exact model_tamper_ok_all. Qed.
Print Assumptions c14_model_meets_tamper_clauses.

(* non-vacuity: an oversized size field in each of the four frames, over both kinds of pipe; and observations a buggy
   implementation could produce (the rejecting side acknowledges the oversized frame with Ack{Null} = "success") are
   refused by spec_C14 *)
Definition exOver (tp : N) : act := AReplace [mkItem tp 204801 9 BUndecodable] false.
Definition exT (a1 a2 a3 a4 : act) (wf : bool) : hs_case :=
  mkCase (exA 5 [5] true) (exB 5 [5] true) a1 a2 a3 a4 None wf pooled_zero pooled_zero.
Example c14_tampered_nonvacuous :
  let okO := Ok (mkRes (Some 1) 5 (mkCv 3 false)) in
  let okI := Ok (mkRes (Some 0) 5 (mkCv 2 false)) in
  bad_edit 1 (exOver 1) = true /\ bad_edit 2 (exOver 1) = true /\ bad_edit 3 (exOver 2) = true /\ bad_edit 4 (exOver 2) = true /\
  bad_edit 3 (AReplace [mkItem 2 2 2 (BAck 0)] false) = false /\ bad_edit 3 (AReplace [mkItem 2 2 2 (BAck 8)] false) = true /\
  map (fun wf => hs_run true (exT (exOver 1) APass APass APass wf)) [false; true]
    = [(Err (EProto 1), Err EOther); (Err (EProto 1), Err EOther)] /\
  map (fun wf => hs_run true (exT APass (exOver 1) APass APass wf)) [false; true]
    = [(Err EOther, Err (EProto 1)); (Err EOther, Err (EProto 1))] /\
  map (fun wf => hs_run true (exT APass APass (exOver 2) APass wf)) [false; true]
    = [(Err (EProto 1), Err EOther); (Err (EProto 1), Err EOther)] /\
  map (fun wf => hs_run true (exT APass APass APass (exOver 2) wf)) [false; true]
    = [(Err EOther, okI); (Err EOther, okI)] /\
  (* the rejecting side answered Ack{Null}: frame 3 oversized, initiator reports success -- refused *)
  spec_C14 (exT APass APass (exOver 2) APass true) okO (Err EOther) = false /\
  (* frame 2 oversized over a buffered pipe, responder reports success -- refused *)
  spec_C14 (exT APass (exOver 1) APass APass false) (Err EOther) okI = false /\
  (* a forged error acknowledgement in the place of frame 4 taken for success -- refused *)
  spec_C14 (exT APass APass APass (AReplace [mkItem 2 2 2 (BAck 8)] false) false) okO okI = false /\
  (* the legitimate asymmetry of the last frame is accepted *)
  spec_C14 (exT APass APass APass (exOver 2) false) (Err EOther) okI = true.
Proof. vm_compute. repeat split; reflexivity. Qed.

(* ---- the result does not depend on what the pooled objects were used for before *)
Theorem c14_pool_independent : forall c po pi po' pi',
  hs_run true (with_pools c po pi) = hs_run true (with_pools c po' pi').
Proof. exact pool_independent. Qed.
Print Assumptions c14_pool_independent.

Theorem c14_session_pool_independent : forall l po pi po' pi',
  session true po pi l = session true po' pi' l.
Proof. exact session_pool_independent. Qed.
Print Assumptions c14_session_pool_independent.

(* The ORIGINAL release() (fx = false): after a handshake between two version-5 peers, a peer whose credentials carry
   no version field (version 0) is accepted by a side that accepts only [5] and the connection is labelled version 5;
   spec_C14 is false on that outcome.  Same second handshake with the repaired release(): refused on both sides. *)
Definition legacy_seed := exCase (exA 5 [5] false) (exB 5 [5] false).
Definition legacy_victim := exCase (exA 0 [0; 5] false) (exB 5 [5] false).
Example c14_pool_legacy_refuted :
  session false pooled_zero pooled_zero [(legacy_seed, false); (legacy_victim, false)] =
    [ (Ok (mkRes None 5 (mkCv 3 false)), Ok (mkRes None 5 (mkCv 2 false)));
      (Ok (mkRes None 5 (mkCv 3 false)), Ok (mkRes None 5 (mkCv 2 false))) ] /\
  mem 0 (s_acc (k_in legacy_victim)) = false /\
  spec_C14 legacy_victim (Ok (mkRes None 5 (mkCv 3 false))) (Ok (mkRes None 5 (mkCv 2 false))) = false /\
  hs_run false legacy_victim = (Err (EProto 6), Err (EProto 6)) /\
  session true pooled_zero pooled_zero [(legacy_seed, false); (legacy_victim, false)] =
    [ (Ok (mkRes None 5 (mkCv 3 false)), Ok (mkRes None 5 (mkCv 2 false))); (Err (EProto 6), Err (EProto 6)) ].
Proof. vm_compute. repeat split; reflexivity. Qed.

(* ---- sessions: the labels attached to a connection never change after its handshake completed.
   A session is any number of consecutive handshakes served by the same service objects (same credential checker, same
   pooled handshake objects), for whatever accounts, accepted or rejected; every connection's labels (identity, proto
   version, client version) are read again [no]/[ni] times later.  The model's session meets the session predicate
   that the correspondence check evaluates on the labels re-read from the real connection contexts. *)
Theorem c14_session_labels_stable : forall l po pi, spec_C14_session (model_session true po pi l) = true.
Proof. exact model_session_meets_spec_all. Qed.
Print Assumptions c14_session_labels_stable.
(* (was c14_session_labels_stable_partial, restricted to sessions without cancellation.)  The stability clause itself: *)
Theorem c14_labels_stable : forall o n, labels_stable o (later_reads o n) = true.
Proof. exact labels_stable_later_reads. Qed.
Print Assumptions c14_labels_stable.

Theorem c14_session_outcomes : forall fx l po pi,
  map (fun s => (so_out s, so_in s)) (model_session fx po pi l)
  = session fx po pi (map (fun x => (fst (fst x), false)) l).
Proof. exact model_session_outcomes. Qed.
Print Assumptions c14_session_outcomes.

(* server B (verifying) is connected by account 0 as PAAA, then by account 2 as PCCC, then a forger presents account 0's
   identity with a junk signature (rejected).  The first connection stays attributed to account 0; an observation in
   which it reads as account 2 after the second handshake is rejected by the predicate. *)
Definition exC (ver : N) (acc : list N) : side_cfg :=
  mkSide [80; 67; 67; 67] [80; 66; 66; 66] ver acc true (mkCv 4 false) 2.
Definition exBfor (remote : list N) : side_cfg := mkSide [80; 66; 66; 66] remote 5 [5] true (mkCv 3 false) 1.
Definition exForged : act :=
  AReplace [mkItem T_Cred 10 10 (BCred (mkCred CT_SignedPeerIds (PSigned (Some 0) SigJunk) (Some 5) (Some (mkCv 2 false))))] false.
Definition exSession : list (hs_case * nat * nat) :=
  [ (exCase (exA 5 [5] true) (exBfor [80; 65; 65; 65]), 2%nat, 2%nat);
    (exCase (exC 5 [5]) (exBfor [80; 67; 67; 67]), 1%nat, 1%nat);
    (mkCase (exC 5 [5]) (exBfor [80; 67; 67; 67]) exForged APass APass APass None false pooled_zero pooled_zero, 0%nat, 0%nat) ].
Example c14_session_nonvacuous :
  let ms := model_session true pooled_zero pooled_zero exSession in
  map so_in ms = [Ok (mkRes (Some 0) 5 (mkCv 2 false)); Ok (mkRes (Some 2) 5 (mkCv 4 false)); Err (EProto 2)] /\
  map so_later_in ms = [[mkRes (Some 0) 5 (mkCv 2 false); mkRes (Some 0) 5 (mkCv 2 false)]; [mkRes (Some 2) 5 (mkCv 4 false)]; []] /\
  spec_C14_session ms = true /\
  (* the first connection re-attributed to account 2 after the second handshake: rejected *)
  spec_C14_session
    (match ms with
     | s1 :: rest => mkSessObs (so_case s1) (so_out s1) (so_in s1) (so_later_out s1)
                               [mkRes (Some 2) 5 (mkCv 2 false); mkRes (Some 2) 5 (mkCv 2 false)] :: rest
     | [] => [] end) = false.
Proof. vm_compute. repeat split; reflexivity. Qed.

(* ---- cancellation.  [k_cancel c = Some (side, k)]: the context of one side (true = initiator, false = responder) is
   cancelled while frame k is in flight.  [cancel_eff c] = that cancellation when it falls into the window in which it
   can matter: the initiator while frame 1..4 travels, the responder while frame 1..3 travels (when frame 4 travels the
   responder has returned).
   Honest peers, reliable stream, cancellation inside the window: the cancelled side ends in an error; the OTHER side
   ends in an error as well (it meets the closed stream / the deadline) -- the only exception is the unavoidable
   two-generals case: the initiator is cancelled after it has sent its acknowledgement (k >= 3), the responder already
   has / is about to receive every frame it waits for, and then it succeeds only if the handshake was mutually
   acceptable.  (The mirror case -- the responder cancelled after its final ack, k = 4 -- is outside the window:
   c14_cancel_outside_window_no_effect.) *)
Theorem c14_cancel_safe : forall c side k, all_pass c = true -> cancel_eff c = Some (side, k) ->
  is_ok (fst (hs_run true c)) = false /\
  (is_ok (snd (hs_run true c)) = true ->
     side = true /\ 3 <= k /\ accepts (k_in c) (k_out c) && accepts (k_out c) (k_in c) = true).
Proof. exact cancel_safe. Qed.
Print Assumptions c14_cancel_safe.

(* the same as the clause of the executable predicate, with the success-justification conjuncts, for EVERY case with an
   effective cancellation (man in the middle included: then only the justification conjuncts say something) *)
Theorem c14_model_meets_cancel_clause : forall c side k, cancel_eff c = Some (side, k) ->
  spec_C14_core c (fst (hs_run true c)) (snd (hs_run true c)) = true.
Proof. exact model_meets_core_cancel. Qed.
Print Assumptions c14_model_meets_cancel_clause.

(* a cancellation outside the window -- frame number not 1..4, or the responder's context while its own final ack
   (frame 4) travels -- changes nothing at all, whatever the man in the middle does, for both variants of release() *)
Theorem c14_cancel_outside_window_no_effect : forall fx c, cancel_eff c = None -> hs_run fx c = hs_run fx (no_cancel c).
Proof. exact cancel_outside_window. Qed.
Print Assumptions c14_cancel_outside_window_no_effect.

(* nobody is left waiting: at the end of every run -- any edits, any cancellation, either pipe -- both role automata are
   in a returned state and the outcomes are what they returned (in the model a read on a stream on which nothing more
   will arrive ends in an error: EOF after the caller closed the failed connection, the deadline otherwise; the harness
   checks the real code under a wall-clock guard) *)
Theorem c14_both_sides_return : forall fx c, exists oo oi,
  w_o (hs_world fx c) = OD oo /\ w_i (hs_world fx c) = ID oi /\ hs_run fx c = (oo, oi).
Proof. exact both_sides_return. Qed.
Print Assumptions c14_both_sides_return.

(* non-vacuity: the hypotheses of c14_cancel_safe hold for each of the 7 positions of the window, compatible and
   incompatible ends; the two-generals exception really occurs; outside the window the run is the uncancelled one *)
Definition exCancel (side : bool) (k : N) (wfail : bool) : hs_case :=
  mkCase (exA 5 [5] true) (exB 5 [5] true) APass APass APass APass (Some (side, k)) wfail pooled_zero pooled_zero.
Example c14_cancel_examples :
  forallb (fun c => spec_C14 c (fst (hs_run true c)) (snd (hs_run true c)))
    (flat_map (fun k => [exCancel true k false; exCancel true k true; exCancel false k false; exCancel false k true])
              [0; 1; 2; 3; 4; 5]) = true /\
  hs_run true (exCancel true 3 false) = (Err ECtx, Ok (mkRes (Some 0) 5 (mkCv 2 false))) /\  (* two generals *)
  hs_run true (exCancel true 3 true) = (Err ECtx, Err EOther) /\
  hs_run true (exCancel false 2 false) = (Err EOther, Err ECtx).
Proof. vm_compute. repeat split; reflexivity. Qed.

Example c14_cancel_safe_nonvacuous :
  let okO := Ok (mkRes (Some 1) 5 (mkCv 3 false)) in
  let okI := Ok (mkRes (Some 0) 5 (mkCv 2 false)) in
  let window := [(true, 1); (false, 1); (true, 2); (false, 2); (true, 3); (false, 3); (true, 4)] in
  (* the hypotheses of c14_cancel_safe are met at all 7 positions *)
  map (fun sk => cancel_eff (exCancel (fst sk) (snd sk) false)) window = map (@Some _) window /\
  forallb (fun sk => all_pass (exCancel (fst sk) (snd sk) true)) window = true /\
  (* what happens there, buffered pipe (a write to a closed end vanishes) ... *)
  map (fun sk => hs_run true (exCancel (fst sk) (snd sk) false)) window =
    [ (Err ECtx, Err EOther); (Err EOther, Err ECtx); (Err ECtx, Err EOther); (Err EOther, Err ECtx);
      (Err ECtx, okI) (* two generals *); (Err EOther, Err ECtx); (Err ECtx, okI) (* two generals *) ] /\
  (* ... and net.Pipe-like (the write of the final ack to the closed end fails) *)
  map (fun sk => hs_run true (exCancel (fst sk) (snd sk) true)) window =
    [ (Err ECtx, Err EOther); (Err EOther, Err ECtx); (Err ECtx, Err EOther); (Err EOther, Err ECtx);
      (Err ECtx, Err EOther); (Err EOther, Err ECtx); (Err ECtx, okI) ] /\
  (* ends that do not accept each other, initiator cancelled late: nobody succeeds *)
  hs_run true (mkCase (exA 5 [5] true) (exB 6 [5] true) APass APass APass APass (Some (true, 3)) false pooled_zero pooled_zero)
    = (Err (EProto 6), Err (EProto 6)) /\
  (* outside the window: the responder's context cancelled while its final ack travels -- the run of the uncancelled case *)
  cancel_eff (exCancel false 4 true) = None /\
  hs_run true (exCancel false 4 true) = (okO, okI) /\ hs_run true (no_cancel (exCancel false 4 true)) = (okO, okI) /\
  (* observations the predicate refuses: the cancelled initiator reports success; the responder reports success although
     the initiator was cancelled before it acknowledged; the initiator succeeds next to a cancelled responder *)
  spec_C14 (exCancel true 3 false) okO okI = false /\
  spec_C14 (exCancel true 2 false) (Err ECtx) okI = false /\
  spec_C14 (exCancel false 3 false) okO (Err ECtx) = false /\
  (* and the two-generals observation it accepts *)
  spec_C14 (exCancel true 3 false) (Err ECtx) okI = true.
Proof. vm_compute. repeat split; reflexivity. Qed.
