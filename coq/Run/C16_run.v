(* Correspondence runner for C16.  A case is what the harness observed while forcing one schedule on the
   real ocache: the number of goroutines and the macro steps (one harness action + the events logged until
   quiescence).  code 1 = the model does not accept the observed trace, code 2 = spec_C16 false on it.
   [CFine]: a schedule forced at lock-region granularity (interleaving families: goroutines are also parked in
   front of every outermost c.mu / e.mx acquisition); per scheduler action the goroutines that were able to
   move during it and the events logged; accepted by [accept_fine] (open macro steps, frozen goroutines). *)
From Coq Require Import List NArith Bool.
Import ListNotations.
From AnySync Require Export Model.OCache.

Inductive case :=
| CSched (nthreads : N) (steps : list (list event))
| CFine (steps : list (list N * list event)).

Definition model_ok (c : case) : bool :=
  match c with
  | CSched n steps => accept n steps
  | CFine steps => accept_fine steps
  end.

Definition spec_ok (c : case) : bool :=
  match c with
  | CSched n steps => spec_C16 (concat steps)
  | CFine steps => spec_C16 (fine_events steps)
  end.

Fixpoint check_from (i : N) (l : list case) : list (N * N) :=
  match l with
  | [] => []
  | c :: r =>
      (if spec_ok c then (if model_ok c then [] else [(i, 1%N)]) else [(i, 2%N)])
        ++ check_from (N.succ i) r
  end.

Definition check_all (base : N) (l : list case) : list (N * N) := check_from base l.
