(* Correspondence runner for C02.  One case = one scenario: an ACL log, a tree root, and a sequence of AddRawChanges
   calls on ONE real object tree (verifying change builder, real validator) with what was observed after each call.
   [check_all] returns (index, code) for bad cases:
     code 1 = the observables differ from the model's (Model/TreeAuth.v: build / accept over Model/Acl.v),
     code 2 = the observed behaviour violates spec_C02 (an unauthentic / unauthorised change became part of the tree,
              or a rejected batch left a trace).
   Projection: result class, Added / Heads / IterateRoot / stored ids as SETS (order is C06's business), Storage.Has. *)
From Coq Require Import List NArith Bool Arith.
Import ListNotations.
From AnySync Require Export Model.TreeAuth.
Open Scope N_scope.

(* CRoots: one ACL world shared by many ROOT deliveries -- whole trees (root alone, root + changes) handed to every
   construction path (eager / deferred storage + BuildObjectTree, ValidateRawTreeDefault, ValidateFilterRawTree), the
   root being honest or mutated; code 1 = live / heads / ids / stored differ from Model/TreeAuth.v model_rootdel,
   code 2 = spec_roots false on what was observed (a root that is not authentic and authorised is in memory or on disk). *)
(* CRace: a scenario during which a concurrent ACL writer holds pending records while AddRawChanges runs; the harness
   lets it take every lock-free point the call offers and reports how many records landed while the call was running
   (rs_mid).  code 1 = some call's observables are those of NEITHER serial order (records before the call / after it;
   Model/TreeAuth.v model_race with the serial order chosen call by call), code 2 = spec_race false (a change that is not
   authentic and authorised at a record held when the call returned became part of the tree, or a rejected call left a
   trace). *)
Inductive case := CScen (sc : scenario) | CRoots (rw : rootworld) | CRace (rs : racescen).

Definition hist_eqb (a b : list (rid * perm)) : bool :=
  list_eqb (fun x y => (fst x =? fst y) && (snd x =? snd y)) a b.

(* the model's ACL state agrees with the real one on every account's PermissionChanges *)
Definition hists_ok (sc : scenario) : bool :=
  match acl_states (sc_me sc) (sc_owner sc) (sc_aclroot sc) (sc_recs sc) with
  | None => false
  | Some sts =>
      match nth_error sts (length (sc_recs sc)) with
      | None => false
      | Some s =>
          Nat.eqb (length (accounts s)) (length (sc_hists sc)) &&
          forallb (fun ah => hist_eqb (a_hist (acc_of s (fst ah))) (snd ah)) (sc_hists sc)
      end
  end.

Definition del_eqb (m o : delivery) : bool :=
  Bool.eqb (d_ok m) (d_ok o) && (d_eclass m =? d_eclass o) &&
  sameset (d_added m) (d_added o) && sameset (d_heads m) (d_heads o) &&
  sameset (d_iter m) (d_iter o) && sameset (d_stored m) (d_stored o) &&
  list_bool_eqb (d_has m) (d_has o).

Definition rw_hists_ok (rw : rootworld) : bool :=
  hists_ok (mkScen (rw_me rw) (rw_owner rw) (rw_aclroot rw) (rw_recs rw) (rw_hists rw)
                   (mkRC 0 false false false false [] 0 false 0 0) false 1%nat false [] [] [] []).

Definition rootdel_ok (me : acct) (ids : list rid) (sts : list state) (d : rootdel) : bool :=
  match view_at ids sts (rd_acl_len d) with
  | None => false
  | Some a =>
      match model_rootdel me a d with
      | None => true                                  (* no prediction: only the specification is checked *)
      | Some o =>
          Bool.eqb (ro_live o) (rd_live d) && Bool.eqb (ro_live o) (rd_rebuilt d) &&
          sameset (ro_heads o) (rd_lheads d) && sameset (ro_iter o) (rd_iter d) &&
          sameset (ro_stored o) (rd_stored d) && sameset (ro_added o) (rd_added d)
      end
  end.

(* the serial order every call of a race scenario took, found call by call: "after" (false) when the observables are
   those of [accept] under the entry view, otherwise "before" (true); the tree the model continues with is the one of
   the chosen order *)
Fixpoint race_choices (ids : list rid) (sts : list state) (t : atree) (ds : list delivery) (mid : list nat) : list bool :=
  match ds with
  | [] => []
  | d :: rest =>
      let run (n : nat) :=
        match view_at ids sts n with
        | None => None
        | Some a =>
            let '(t', r) := accept a t (d_batch d) in
            Some (t', mkDel n (d_batch d) (ok_of r) (class_of r) (added_of r) (at_heads t') (iter_seq t') (at_stored t')
                            (map (fun c => memN (rc_id c) (at_stored t')) (d_batch d)))
        end in
      let late := run (d_acl_len d + hd O mid)%nat in
      match run (d_acl_len d) with
      | Some (t', m) =>
          if del_eqb m d then false :: race_choices ids sts t' rest (tl mid)
          else match late with
               | Some (t2, _) => true :: race_choices ids sts t2 rest (tl mid)
               | None => []
               end
      | None => []
      end
  end.

Definition race_model_ok (rs : racescen) : bool :=
  let sc := rs_sc rs in
  let ids := acl_ids (sc_aclroot sc) (sc_recs sc) in
  let ch :=
    match acl_states (sc_me sc) (sc_owner sc) (sc_aclroot sc) (sc_recs sc) with
    | None => []
    | Some sts =>
        match view_at ids sts (sc_root_len sc) with
        | None => []
        | Some a => match build a (sc_root sc) (sc_derived sc) with
                    | None => []
                    | Some t0 => race_choices ids sts t0 (sc_dels sc) (rs_mid rs)
                    end
        end
    end in
  let m := rs_sc (model_race ch rs) in
  hists_ok sc &&
  Bool.eqb (sc_built m) (sc_built sc) &&
  sameset (sc_heads0 m) (sc_heads0 sc) && sameset (sc_iter0 m) (sc_iter0 sc) &&
  sameset (sc_stored0 m) (sc_stored0 sc) &&
  list_eqb del_eqb (sc_dels m) (sc_dels sc).

Definition model_ok (c : case) : bool :=
  match c with
  | CRace rs => race_model_ok rs
  | CRoots rw =>
      rw_hists_ok rw &&
      match acl_states (rw_me rw) (rw_owner rw) (rw_aclroot rw) (rw_recs rw) with
      | None => false
      | Some sts => forallb (rootdel_ok (rw_me rw) (acl_ids (rw_aclroot rw) (rw_recs rw)) sts) (rw_dels rw)
      end
  | CScen sc =>
      let m := model_scenario sc in
      hists_ok sc &&
      Bool.eqb (sc_built m) (sc_built sc) &&
      sameset (sc_heads0 m) (sc_heads0 sc) && sameset (sc_iter0 m) (sc_iter0 sc) &&
      sameset (sc_stored0 m) (sc_stored0 sc) &&
      list_eqb del_eqb (sc_dels m) (sc_dels sc)
  end.

Definition spec_ok (c : case) : bool := match c with CScen sc => spec_C02 sc | CRoots rw => spec_roots rw | CRace rs => spec_race rs end.

Fixpoint check_from (i : N) (l : list case) : list (N * N) :=
  match l with
  | [] => []
  | c :: r =>
      (if spec_ok c then (if model_ok c then [] else [(i, 1%N)]) else [(i, 2%N)])
        ++ check_from (N.succ i) r
  end.

Definition check_all (base : N) (l : list case) : list (N * N) := check_from base l.
