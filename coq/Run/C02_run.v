(* Correspondence runner for C02.  One case = one scenario: an ACL log, a tree root, and a sequence of AddRawChanges
   calls on ONE real object tree (verifying change builder, real validator) with what was observed after each call.
   [check_all] returns (index, code) for bad cases:
     code 1 = the observables differ from the model's (Model/TreeAuth.v: build / accept over Model/Acl.v),
     code 2 = the observed behaviour violates spec_C02 (an unauthentic / unauthorised change became part of the tree,
              or a rejected batch left a trace).
   Projection: result class, Added / Heads / IterateRoot / stored ids as SETS (order is C06's business), Storage.Has. *)
From Coq Require Import List NArith Bool Arith.
Import ListNotations.
From AnySync Require Export Model.TreeAuth.
Open Scope N_scope.

Inductive case := CScen (sc : scenario).

Definition hist_eqb (a b : list (rid * perm)) : bool :=
  list_eqb (fun x y => (fst x =? fst y) && (snd x =? snd y)) a b.

(* the model's ACL state agrees with the real one on every account's PermissionChanges *)
Definition hists_ok (sc : scenario) : bool :=
  match acl_states (sc_me sc) (sc_owner sc) (sc_aclroot sc) (sc_recs sc) with
  | None => false
  | Some sts =>
      match nth_error sts (length (sc_recs sc)) with
      | None => false
      | Some s =>
          Nat.eqb (length (accounts s)) (length (sc_hists sc)) &&
          forallb (fun ah => hist_eqb (a_hist (acc_of s (fst ah))) (snd ah)) (sc_hists sc)
      end
  end.

Definition del_eqb (m o : delivery) : bool :=
  Bool.eqb (d_ok m) (d_ok o) && (d_eclass m =? d_eclass o) &&
  sameset (d_added m) (d_added o) && sameset (d_heads m) (d_heads o) &&
  sameset (d_iter m) (d_iter o) && sameset (d_stored m) (d_stored o) &&
  list_bool_eqb (d_has m) (d_has o).

Definition model_ok (c : case) : bool :=
  match c with
  | CScen sc =>
      let m := model_scenario sc in
      hists_ok sc &&
      Bool.eqb (sc_built m) (sc_built sc) &&
      sameset (sc_heads0 m) (sc_heads0 sc) && sameset (sc_iter0 m) (sc_iter0 sc) &&
      sameset (sc_stored0 m) (sc_stored0 sc) &&
      list_eqb del_eqb (sc_dels m) (sc_dels sc)
  end.

Definition spec_ok (c : case) : bool := match c with CScen sc => spec_C02 sc end.

Fixpoint check_from (i : N) (l : list case) : list (N * N) :=
  match l with
  | [] => []
  | c :: r =>
      (if spec_ok c then (if model_ok c then [] else [(i, 1%N)]) else [(i, 2%N)])
        ++ check_from (N.succ i) r
  end.

Definition check_all (base : N) (l : list case) : list (N * N) := check_from base l.
