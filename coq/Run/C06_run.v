(* Correspondence runner for C06.  One case = one DAG replayed in several arrival histories on the real
   objecttree.Tree (CTree) or on a real object tree over real storage (COT); every step carries what the
   implementation presented after it.  check_all returns (index, code) for bad cases:
     code 1 = an observable differs from the model's (Model/Tree.v),
     code 2 = the observed behaviour violates the property predicate spec_C06 (Model/Tree.v). *)
From Coq Require Import List NArith Bool Arith.
Import ListNotations.
From AnySync Require Export Model.Tree Model.TreeReject.

Definition mode_eqb (a b : mode) : bool :=
  match a, b with
  | Append, Append | Rebuild, Rebuild | Nothing, Nothing => true
  | _, _ => false
  end.

(* level 1: run the Tree model along a history *)
Fixpoint run_tree (G : list change) (t : tree) (h : list step) : bool :=
  match h with
  | [] => true
  | SAdd batch m heads iter :: r =>
      let '(t', m', _) := tree_add t (find_all G batch) in
      negb (t_oof t') && mode_eqb m m' && list_eqb heads (t_heads t') && list_eqb iter (iter_ids t')
      && run_tree G t' r
  | SAddFast batch heads iter :: r =>
      let '(t', _) := tree_add_fast t (find_all G batch) in
      negb (t_oof t') && list_eqb heads (t_heads t') && list_eqb iter (iter_ids t') && run_tree G t' r
  | _ :: _ => false
  end.

Definition obs_ot (o : otree) (heads iter stored : list N) : bool :=
  negb (t_oof (o_tree o)) && list_eqb heads (t_heads (o_tree o)) && list_eqb iter (iter_ids (o_tree o))
  && list_eqb stored (stored_seq o).

Fixpoint run_ot (G : list change) (o : otree) (h : list step) : bool :=
  match h with
  | [] => true
  | SRaw batch path ok m heads iter stored :: r =>
      let '(o', res) := ot_add_raw o (find_all G batch) path in
      match res with
      | AddErr => negb ok
      | AddOk m' hs' => ok && mode_eqb m m' && list_eqb heads hs'
      end && obs_ot o' heads iter stored && run_ot G o' r
  | SReopen ok heads iter stored :: r =>
      let o' := reopen o in
      ok && obs_ot o' heads iter stored && run_ot G o' r
  | _ :: _ => false
  end.

(* level 3: object trees built with the REAL validator; [bad] = ids of the changes of G that fail validateChange.
   A batch that attaches one of them is rejected and rolled back (Model/TreeReject.v); the same step kinds are
   used: a rejected delivery is an SRaw with ok = false. *)
Fixpoint run_otv (G : list change) (bad : list N) (o : otree) (h : list step) : bool :=
  match h with
  | [] => true
  | SRaw batch path ok m heads iter stored :: r =>
      let '(o', res) := ot_add_raw_v bad o (find_all G batch) path in
      match res with
      | AddErr => negb ok
      | AddOk m' hs' => ok && mode_eqb m m' && list_eqb heads hs'
      end && obs_ot o' heads iter stored && run_otv G bad o' r
  | SReopen ok heads iter stored :: r =>
      let o' := reopen o in
      ok && obs_ot o' heads iter stored && run_otv G bad o' r
  | _ :: _ => false
  end.

(* nothing invalid is ever presented or stored *)
Definition no_bad_shown (bad : list N) (hists : list (list step)) : bool :=
  forallb (forallb (fun s => let o := obs_of s in
                             negb (any_bad bad (ob_iter o)) && negb (any_bad bad (ob_heads o))
                             && match ob_stored o with Some st => negb (any_bad bad st) | None => true end)) hists.

Inductive case :=
| CTree (G : list change) (hists : list (list step))
| COT (G : list change) (hists : list (list step))
| COTV (G : list change) (bad : list N) (hists : list (list step)).

Definition model_ok (c : case) : bool :=
  match c with
  | CTree G hists => forallb (run_tree G empty_tree) hists
  | COT G hists =>
      match G with
      | [] => false
      | root :: _ => forallb (run_ot G (ot_init root)) hists
      end
  | COTV G bad hists =>
      match G with
      | [] => false
      | root :: _ => forallb (run_otv G bad (ot_init root)) hists
      end
  end.

Definition spec_ok (c : case) : bool :=
  match c with
  | CTree G hists => spec_C06 G hists
  | COT G hists => spec_C06 G hists
  | COTV G bad hists => spec_C06 G hists && spec_C06_rej G hists && no_bad_shown bad hists
  end.

Fixpoint check_from (i : N) (l : list case) : list (N * N) :=
  match l with
  | [] => []
  | c :: r =>
      (if spec_ok c then (if model_ok c then [] else [(i, 1%N)]) else [(i, 2%N)])
        ++ check_from (N.succ i) r
  end.

Definition check_all (base : N) (l : list case) : list (N * N) := check_from base l.
