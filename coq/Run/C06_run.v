(* Correspondence runner for C06.  One case = one DAG replayed in several arrival histories on the real
   objecttree.Tree (CTree) or on a real object tree over real storage (COT); every step carries what the
   implementation presented after it.  check_all returns (index, code) for bad cases:
     code 1 = an observable differs from the model's (Model/Tree.v),
     code 2 = the observed behaviour violates the property predicate spec_C06 (Model/Tree.v).
   COI cases (object trees with ORDER IDS, Model/OrderIds.v instantiated with rationals, Model/OrderIdsQ.v): every step
   also carries [rank] = the stored changes of the replica sorted by their real OrderId STRINGS (computed by the harness
   from the strings themselves, not from GetAfterOrder); the model's order ids must induce the same ranking (code 1), and
   the ranking must be the stored sequence, causal, stable over time and a function of the stored set (code 2,
   spec_oid).  These histories contain local AddContent steps (XLocal).
   CPool cases (Model/TreePool.v): several independent trees + one flat trace of additions, whole reads and readers in
   progress (open / next / close), every event with what the implementation returned / handed out; code 1 = an
   observation differs from the model's ([pstep false]), code 2 = spec_C06_pool false on the observed trace. *)
From Coq Require Import List NArith Bool Arith.
Import ListNotations.
From AnySync Require Export Model.Tree Model.TreeReject Model.OrderIds Model.OrderIdsQ Model.TreePool.

Definition mode_eqb (a b : mode) : bool :=
  match a, b with
  | Append, Append | Rebuild, Rebuild | Nothing, Nothing => true
  | _, _ => false
  end.

(* level 1: run the Tree model along a history *)
Fixpoint run_tree (G : list change) (t : tree) (h : list step) : bool :=
  match h with
  | [] => true
  | SAdd batch m heads iter :: r =>
      let '(t', m', _) := tree_add t (find_all G batch) in
      negb (t_oof t') && mode_eqb m m' && list_eqb heads (t_heads t') && list_eqb iter (iter_ids t')
      && run_tree G t' r
  | SAddFast batch heads iter :: r =>
      let '(t', _) := tree_add_fast t (find_all G batch) in
      negb (t_oof t') && list_eqb heads (t_heads t') && list_eqb iter (iter_ids t') && run_tree G t' r
  | _ :: _ => false
  end.

Definition obs_ot (o : otree) (heads iter stored : list N) : bool :=
  negb (t_oof (o_tree o)) && list_eqb heads (t_heads (o_tree o)) && list_eqb iter (iter_ids (o_tree o))
  && list_eqb stored (stored_seq o).

Fixpoint run_ot (G : list change) (o : otree) (h : list step) : bool :=
  match h with
  | [] => true
  | SRaw batch path ok m heads iter stored :: r =>
      let '(o', res) := ot_add_raw o (find_all G batch) path in
      match res with
      | AddErr => negb ok
      | AddOk m' hs' => ok && mode_eqb m m' && list_eqb heads hs'
      end && obs_ot o' heads iter stored && run_ot G o' r
  | SReopen ok heads iter stored :: r =>
      let o' := reopen o in
      ok && obs_ot o' heads iter stored && run_ot G o' r
  | _ :: _ => false
  end.

(* level 3: object trees built with the REAL validator; [bad] = ids of the changes of G that fail validateChange.
   A batch that attaches one of them is rejected and rolled back (Model/TreeReject.v); the same step kinds are
   used: a rejected delivery is an SRaw with ok = false. *)
Fixpoint run_otv (G : list change) (bad : list N) (o : otree) (h : list step) : bool :=
  match h with
  | [] => true
  | SRaw batch path ok m heads iter stored :: r =>
      let '(o', res) := ot_add_raw_v bad o (find_all G batch) path in
      match res with
      | AddErr => negb ok
      | AddOk m' hs' => ok && mode_eqb m m' && list_eqb heads hs'
      end && obs_ot o' heads iter stored && run_otv G bad o' r
  | SReopen ok heads iter stored :: r =>
      let o' := reopen o in
      ok && obs_ot o' heads iter stored && run_otv G bad o' r
  | _ :: _ => false
  end.

(* nothing invalid is ever presented or stored *)
Definition no_bad_shown (bad : list N) (hists : list (list step)) : bool :=
  forallb (forallb (fun s => let o := obs_of s in
                             negb (any_bad bad (ob_iter o)) && negb (any_bad bad (ob_heads o))
                             && match ob_stored o with Some st => negb (any_bad bad st) | None => true end)) hists.

(* level 4: object trees with order ids; deliveries (accepted or rejected), reopen, local AddContent *)
Inductive istep :=
| XRaw    (batch path : list N) (ok : bool) (m : mode) (heads iter stored rank : list N)
| XReopen (ok : bool) (heads iter stored rank : list N)
| XLocal  (id : N) (snap ok : bool) (heads iter stored rank : list N).

Definition obs_io (o : iotree qid) (heads iter stored rank : list N) : bool :=
  obs_ot (q_io_ot o) heads iter stored && list_eqb rank (q_io_stored o).

(* the change the real tree built for a local add (as recorded in G) is the one the model builds *)
Definition same_change (a b : change) : bool :=
  N.eqb (cid a) (cid b) && list_eqb (isort (cprev a)) (isort (cprev b)) && N.eqb (csnap a) (csnap b)
  && Bool.eqb (cissnap a) (cissnap b).

Fixpoint run_io (G : list change) (bad : list N) (o : iotree qid) (h : list istep) : bool :=
  match h with
  | [] => true
  | XRaw batch path ok m heads iter stored rank :: r =>
      let '(o', res) := q_io_add_raw bad o (find_all G batch) path in
      match res with
      | AddErr => negb ok
      | AddOk m' hs' => ok && mode_eqb m m' && list_eqb heads hs'
      end && obs_io o' heads iter stored rank && run_io G bad o' r
  | XReopen ok heads iter stored rank :: r =>
      let o' := q_io_reopen o in
      ok && obs_io o' heads iter stored rank && run_io G bad o' r
  | XLocal id snap ok heads iter stored rank :: r =>
      match q_io_add_content o id snap with
      | None => false
      | Some o' =>
          ok && match find_change G id with
                | Some c => same_change c (local_change (o_tree (q_io_ot o)) id snap)
                | None => false
                end
          && obs_io o' heads iter stored rank && run_io G bad o' r
      end
  end.

Definition step_of (s : istep) : step :=
  match s with
  | XRaw batch path ok m heads iter stored _ => SRaw batch path ok m heads iter stored
  | XReopen ok heads iter stored _ => SReopen ok heads iter stored
  | XLocal id snap ok heads iter stored _ => SRaw [id] [] ok (if snap then Rebuild else Append) heads iter stored
  end.

Definition rank_of (s : istep) : list N :=
  match s with
  | XRaw _ _ _ _ _ _ _ rk => rk
  | XReopen _ _ _ _ rk => rk
  | XLocal _ _ _ _ _ _ rk => rk
  end.

Definition stored_of (s : istep) : list N :=
  match s with
  | XRaw _ _ _ _ _ _ st _ => st
  | XReopen _ _ _ st _ => st
  | XLocal _ _ _ _ _ st _ => st
  end.

(* order ids never change and never reorder: an earlier ranking is the later one restricted *)
Fixpoint rank_hist_ok (prev : list N) (h : list istep) : bool :=
  match h with
  | [] => true
  | s :: r => list_eqb prev (restrict prev (rank_of s)) && rank_hist_ok (rank_of s) r
  end.

(* a locally created change is ranked after every one of its previous changes *)
Definition local_after_parents (G : list change) (s : istep) : bool :=
  match s with
  | XLocal id _ true _ _ _ rk =>
      match find_change G id, drop_to id rk with
      | Some c, Some tl => forallb (fun p => negb (mem p tl)) (cprev c) && mem id rk
      | _, _ => false
      end
  | _ => true
  end.

(* the STORED-ORDER predicate on the observed OrderId strings: ranking by the strings = what GetAfterOrder streams, it
   has no repeats and is causal (every change after its previous changes), it only grows, a local change comes after
   its parents, and two replicas (histories) holding the same set rank it the same way *)
Definition spec_oid (G : list change) (hists : list (list istep)) : bool :=
  forallb (forallb (fun s => list_eqb (rank_of s) (stored_of s) && seq_ok G (rank_of s) && local_after_parents G s)) hists
  && forallb (rank_hist_ok []) hists
  && fun_of_set (keyed_of (map rank_of (concat hists))).

(* level 5: several independent trees, interleaved operations, readers in progress (Model/TreePool.v): the model's
   observation of every event of the trace must be the observed one *)
Definition opt_eqb (a b : option N) : bool :=
  match a, b with
  | Some x, Some y => N.eqb x y
  | None, None => true
  | _, _ => false
  end.

Definition pobs_eqb (a b : pobs) : bool :=
  match a, b with
  | OAdd m hs, OAdd m' hs' => mode_eqb m m' && list_eqb hs hs'
  | OFast hs, OFast hs' => list_eqb hs hs'
  | ORead l, ORead l' => list_eqb l l'
  | OItem x, OItem y => opt_eqb x y
  | ONone, ONone => true
  | _, _ => false
  end.

Fixpoint run_pool (G : list change) (s : pstate) (tr : list (pev * pobs)) : bool :=
  match tr with
  | [] => true
  | (e, o) :: r =>
      let '(s', o') := pstep false G s e in
      negb (existsb (fun kt => t_oof (snd kt)) (p_trees s')) && pobs_eqb o o' && run_pool G s' r
  end.

Inductive case :=
| CPool (G : list change) (tr : list (pev * pobs))
| CTree (G : list change) (hists : list (list step))
| COT (G : list change) (hists : list (list step))
| COTV (G : list change) (bad : list N) (hists : list (list step))
| COI (G : list change) (bad : list N) (hists : list (list istep)).

Definition model_ok (c : case) : bool :=
  match c with
  | CPool G tr => run_pool G p_init tr
  | CTree G hists => forallb (run_tree G empty_tree) hists
  | COT G hists =>
      match G with
      | [] => false
      | root :: _ => forallb (run_ot G (ot_init root)) hists
      end
  | COTV G bad hists =>
      match G with
      | [] => false
      | root :: _ => forallb (run_otv G bad (ot_init root)) hists
      end
  | COI G bad hists =>
      match G with
      | [] => false
      | root :: _ => forallb (run_io G bad (q_io_init root)) hists
      end
  end.

Definition spec_ok (c : case) : bool :=
  match c with
  | CPool G tr => spec_C06_pool G tr
  | CTree G hists => spec_C06 G hists
  | COT G hists => spec_C06 G hists
  | COTV G bad hists => spec_C06 G hists && spec_C06_rej G hists && no_bad_shown bad hists
  | COI G bad hists =>
      let hs := map (map step_of) hists in
      spec_C06 G hs && spec_C06_rej G hs && no_bad_shown bad hs && spec_oid G hists
  end.

Fixpoint check_from (i : N) (l : list case) : list (N * N) :=
  match l with
  | [] => []
  | c :: r =>
      (if spec_ok c then (if model_ok c then [] else [(i, 1%N)]) else [(i, 2%N)])
        ++ check_from (N.succ i) r
  end.

Definition check_all (base : N) (l : list case) : list (N * N) := check_from base l.
