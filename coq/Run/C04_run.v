(* Correspondence runner for C04.  One case = one hand-assembled, hand-signed raw record offered to a fully
   validating AclList in an observed state [s]:
     CStep me s au r cs obs accepted s_after
       me        identity the list was built with (an observer that is never a member)
       s         OBSERVED state before
       au, cs    author and contents of the record
       obs       OBSERVED states after each accepted content prefix cs[:1], cs[:2], ... (ValidateRawRecord on the
                 prefix record; it applies with an empty record id = 0, so the model chain uses record id 0)
       r         the number of the id under which the full record was applied (0 = ValidateRawRecord, else AddRawRecord)
       accepted  whether the full record was accepted; s_after the OBSERVED state afterwards.
   check_all: code 1 = model differs from the observation, code 2 = spec_C04 false on the observation. *)
From Coq Require Import List NArith Bool.
Import ListNotations.
From AnySync Require Export Model.Acl.
Open Scope N_scope.

Inductive case :=
| CStep (me : acct) (s : state) (au : acct) (r : rid) (cs : list content) (obs : list state) (accepted : bool) (s_after : state).

Definition model_ok (c : case) : bool :=
  match c with
  | CStep me s au r cs obs accepted s_after =>
      list_eqb obs_eqb_nolast (content_chain false true me s au 0 cs) obs &&
      match apply_record false true me s au r cs with
      | Some s' => accepted && obs_eqb s' s_after
      | None => negb accepted && obs_eqb s s_after
      end
  end.

Definition spec_ok (c : case) : bool :=
  match c with
  | CStep me s au r cs obs accepted s_after =>
      spec_C04 s au obs &&
      (if accepted then (N.of_nat (length obs) =? N.of_nat (length cs)) else obs_eqb s s_after)
  end.

Fixpoint check_from (i : N) (l : list case) : list (N * N) :=
  match l with
  | [] => []
  | c :: r =>
      (if spec_ok c then (if model_ok c then [] else [(i, 1)]) else [(i, 2)])
        ++ check_from (N.succ i) r
  end.

Definition check_all (base : N) (l : list case) : list (N * N) := check_from base l.
