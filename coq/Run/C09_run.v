(* Correspondence runner for C09.  One case = one request (snapshot path + heads of a real requester tree)
   answered by a real responder tree through ChangesAfterCommonSnapshotLoader / NextBatch(maxSize) until an
   empty batch, the batches then applied to the requester.  check_all returns (index, code):
     code 1 = the observed batches (ids, announced heads as sets) differ from Model/LoadIter.v [respond],
     code 2 = the observed behaviour violates spec_C09. *)
From Coq Require Import List NArith Bool Arith.
Import ListNotations.
From AnySync Require Export Model.LoadIter Model.LoadIterMid.

Inductive case :=
| CResp (G : list change) (sigma : list sentry) (ourPath theirPath theirHeads haveB : list N) (maxSize : N)
        (ok : bool) (bs : list (list N * list N)) (finalB : list N)
(* mid-stream stores: the responder's store is sigma0 when the request is handled and changes to s from the k-th
   NextBatch call on for every (k, s) of chg (changes added by a third peer / locally while the response is streamed) *)
| CMid (G : list change) (sigma0 : list sentry) (chg : list (N * list sentry))
       (ourPath theirPath theirHeads haveB : list N) (maxSize : N)
       (ok : bool) (bs : list (list N * list N)) (finalB : list N).

Fixpoint batches_eqb (m : list batch) (o : list (list N * list N)) : bool :=
  match m, o with
  | [], [] => true
  | b :: r1, (ids, hs) :: r2 =>
      list_eqb (map se_id (b_changes b)) ids && list_eqb (isort (b_heads b)) (isort hs) && batches_eqb r1 r2
  | _, _ => false
  end.

Definition model_ok (c : case) : bool :=
  match c with
  | CResp G sigma ourPath theirPath theirHeads haveB maxSize ok bs finalB =>
      match respond sigma ourPath theirPath theirHeads maxSize with
      | None => negb ok
      | Some m => ok && batches_eqb m bs
      end
  | CMid G sigma0 chg ourPath theirPath theirHeads haveB maxSize ok bs finalB =>
      match respond_mid sigma0 (store_at sigma0 chg) ourPath theirPath theirHeads maxSize with
      | None => negb ok
      | Some m => ok && batches_eqb m bs
      end
  end.

Definition spec_ok (c : case) : bool :=
  match c with
  | CResp G sigma ourPath theirPath theirHeads haveB maxSize ok bs finalB =>
      if ok then spec_C09 G sigma ourPath theirPath theirHeads haveB maxSize bs finalB
      else true   (* an error answer (no common snapshot) sends nothing; the model decides whether it is expected *)
  | CMid G sigma0 chg ourPath theirPath theirHeads haveB maxSize ok bs finalB =>
      if ok then spec_C09_mid G sigma0 (final_store sigma0 chg) ourPath theirPath theirHeads haveB maxSize bs finalB
      else true
  end.

Fixpoint check_from (i : N) (l : list case) : list (N * N) :=
  match l with
  | [] => []
  | c :: r =>
      (if spec_ok c then (if model_ok c then [] else [(i, 1%N)]) else [(i, 2%N)])
        ++ check_from (N.succ i) r
  end.

Definition check_all (base : N) (l : list case) : list (N * N) := check_from base l.
