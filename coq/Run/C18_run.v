(* Correspondence runner for C18.  One case = one configuration under test, reached by every participant through its
   own HISTORY of configurations (or one bare go-chash instance):
   the hash tables the model needs (Go's xxhash64 of the exact byte strings go-chash hashes), the observed
   GetPartitionMembers table, and the answers of every participant (each node and a client) for a list of space ids.
   [check_all] returns (index, code) for bad cases: 1 = model output differs from the observed one,
   2 = spec_C18 is false on the observed answers.
   Member lists are compared as SETS (equal length + same elements): the property constrains sets only.

   Encoding.  A 12-node configuration carries 27000 64-bit hashes.  Coq parses and VM-compiles N literals of that
   size at ~0.7 ms each, primitive 63-bit integers at ~0.06 ms, so the case files carry primitive integers
   (Uint63) only and this module decodes them to the N-based inputs of the model:
     a hash            = two ints  hi, lo   (value hi * 2^32 + lo)
     a member list     = one int, base-256 digits (id + 1), most significant first, 0 = empty list
     a byte string     = list of ints
   The decoder is part of the (unverified) glue, like the harness' printer. *)
From Coq Require Import List NArith ZArith Bool Arith.
From Coq Require Export Uint63.
Import ListNotations.
From AnySync Require Export Model.NodeConf.

Inductive case :=
(* nodeconf *)
| CConf (ph : list int)                         (* partition hashes: hi, lo, hi, lo, ... *)
        (rows : list (int * list int))          (* member id, its virtual-node hashes (hi, lo, ...) *)
        (keys : list (list int * int * int))    (* candidate replication key (bytes), hash hi, lo *)
        (confs : list (int * list (int * list int * list int)))
                                                (* pool of configurations: Configuration.Id (numbered), nodes in
                                                   configuration order: id, addresses, types *)
        (fin : int)                             (* index (in the pool) of the configuration under test: the LAST one
                                                   every participant received; rows / ptable belong to it *)
        (hists : list (int * int * list int))   (* per participant: self; what its store holds before the first start
                                                   (pool index + 1, 0 = nothing stored); its LIFE through the real
                                                   service as events 2*i = pool[i] delivered as an update
                                                   (Run -> updateConfiguration), 2*i+1 = the process (re)started with
                                                   app configuration pool[i] (Init, same store); the first event is a
                                                   start *)
        (actives : list (int * list int))       (* per participant (same order): observed Service.Id() (numbered) and
                                                   the tree-typed peer ids of the observed Service.Configuration() *)
        (ptable : list int)                     (* observed CHash().GetPartitionMembers(0..P-1), packed *)
        (spaces : list (list int * list int))   (* space id (bytes), observed ReplKey(space id) (bytes) *)
        (answers : list int)                    (* 5 ints per answer: self, space index, Partition, packed NodeIds,
                                                   IsResponsible (0/1) *)
(* go-chash driven directly (custom Hasher / PartitionCount / MultiplyFactor / ReplicationFactor):
   members in AddMembers order (duplicates allowed), observed partition table *)
| CChash (ph : list int) (rf : int) (rows : list (int * list int)) (ms : list int) (ptable : list int).

(* ---------------------------------------------------------------- decoding *)
Definition n_of (i : int) : N := Z.to_N (Uint63.to_Z i).

Fixpoint hashes (l : list int) : list N :=
  match l with
  | hi :: lo :: r => (n_of hi * 4294967296 + n_of lo)%N :: hashes r
  | _ => []
  end.

Fixpoint unpack_aux (fuel : nat) (n : N) (acc : list N) : list N :=
  match fuel with
  | O => acc
  | S f => if (n =? 0)%N then acc else unpack_aux f (n / 256)%N ((n mod 256 - 1)%N :: acc)
  end.
Definition unpack (i : int) : list N := unpack_aux 8 (n_of i) [].

Definition dec_rows (rows : list (int * list int)) : list (N * list N) :=
  map (fun r => (n_of (fst r), hashes (snd r))) rows.

Definition dec_keys (keys : list (list int * int * int)) : list (list N * N) :=
  map (fun k => (map n_of (fst (fst k)), (n_of (snd (fst k)) * 4294967296 + n_of (snd k))%N)) keys.

Definition dec_cfg (cfg : list (int * list int * list int)) : list node :=
  map (fun n => mkNode (n_of (fst (fst n))) (map n_of (snd (fst n))) (map n_of (snd n))) cfg.

Definition dec_confs (confs : list (int * list (int * list int * list int))) : list conf :=
  map (fun c => mkConf (n_of (fst c)) (dec_cfg (snd c))) confs.

Fixpoint dec_answers (spaces : list (list N * list N)) (l : list int) : list obs :=
  match l with
  | self :: si :: part :: ids :: resp :: r =>
      let sp := nth (N.to_nat (n_of si)) spaces ([], []) in
      mkObs (n_of self) (fst sp) (snd sp) (n_of part) (unpack ids) (negb (n_of resp =? 0)%N)
        :: dec_answers spaces r
  | _ => []
  end.

Fixpoint row_of (rows : list (N * list N)) (m : N) : list N :=
  match rows with
  | [] => []
  | (k, r) :: rest => if (k =? m)%N then r else row_of rest m
  end.

Fixpoint key_hash (keys : list (list N * N)) (k : list N) : N :=
  match keys with
  | [] => 0%N
  | (s, h) :: rest => if list_eqb N.eqb s k then h else key_hash rest k
  end.

(* ---------------------------------------------------------------- checks *)
Definition same_set (a b : list N) : bool := Nat.eqb (length a) (length b) && set_eqb a b.

Definition obs_matches (m o : obs) : bool :=
  list_eqb N.eqb (o_replkey m) (o_replkey o)
  && (o_part m =? o_part o)%N
  && same_set (o_nodeids m) (o_nodeids o)
  && Bool.eqb (o_resp m) (o_resp o).

(* every partition of an observed table: distinct members of the member set, min(rf, #members) of them *)
Definition spec_row (ms : list N) (rf : nat) (r : list N) : bool :=
  nodupb r && subsetb r ms && Nat.eqb (length r) (Nat.min rf (count_distinct ms)).

(* ---------------------------------------------------------------- histories *)
Definition node_eqb (a b : node) : bool :=
  (n_id a =? n_id b)%N && list_eqb N.eqb (n_addrs a) (n_addrs b) && list_eqb N.eqb (n_types a) (n_types b).
Definition conf_eqb (a b : conf) : bool := (c_id a =? c_id b)%N && list_eqb node_eqb (c_nodes a) (c_nodes b).

(* node lists equal as multisets (mergeCoordinatorAddrs appends nodes in Go's map iteration order) *)
Definition count_node (n : node) (l : list node) : nat := length (filter (node_eqb n) l).
Definition nodes_equiv (a b : list node) : bool :=
  Nat.eqb (length a) (length b) && forallb (fun n => Nat.eqb (count_node n a) (count_node n b)) a.
Definition conf_equiv (a b : conf) : bool := (c_id a =? c_id b)%N && nodes_equiv (c_nodes a) (c_nodes b).

Fixpoint dec_events (pool : list conf) (l : list N) : option (list event) :=
  match l with
  | [] => Some []
  | e :: r =>
      match nth_error pool (N.to_nat (e / 2)), dec_events pool r with
      | Some c, Some evs => Some ((if (e mod 2 =? 1)%N then EStart c else EUpd c) :: evs)
      | _, _ => None
      end
  end.

(* the model's service state of a participant after its life (None: malformed description) *)
Definition life_state (pool : list conf) (self stored0 : N) (h : list N) : option service :=
  let store0 := if (stored0 =? 0)%N then Some None
                else match nth_error pool (N.to_nat (stored0 - 1)) with Some c => Some (Some c) | None => None end in
  match store0, dec_events pool h with
  | Some st, Some (EStart app :: evs) => Some (life self st app evs)
  | _, _ => None
  end.

Fixpoint life_of (pool : list conf) (hists : list (N * N * list N)) (p : N) : option service :=
  match hists with
  | [] => None
  | (self, stored0, h) :: r => if (self =? p)%N then life_state pool self stored0 h else life_of pool r p
  end.

(* every participant's model state after its life holds the configuration under test (same id, same nodes up to
   order), and every answer comes from a participant whose life is given: then the model's answers are those of its
   nodeConf - computed from [fin]'s table for the account id the nodeConf was stamped with *)
Definition hists_ok (pool : list conf) (fin : conf) (hists : list (N * N * list N)) (os : list obs) : bool :=
  forallb (fun h => match life_state pool (fst (fst h)) (snd (fst h)) (snd h) with
                    | Some s => conf_equiv (svc_conf s) fin
                    | None => false
                    end) hists
  && forallb (fun o => memN (o_self o) (map (fun h => fst (fst h)) hists)) os.

Definition countN (x : N) (l : list N) : nat := length (filter (N.eqb x) l).
Definition multiset_eqb (a b : list N) : bool :=
  Nat.eqb (length a) (length b) && forallb (fun x => Nat.eqb (countN x a) (countN x b)) a.

(* what every participant's real service says it holds: the id and the sync nodes of the configuration under test *)
Definition actives_ok (fin : conf) (hists : list (N * N * list N)) (acts : list (N * list N)) : bool :=
  Nat.eqb (length acts) (length hists)
  && forallb (fun a => (fst a =? c_id fin)%N
                       && multiset_eqb (snd a) (tree_ids (c_nodes fin))) acts.

Definition conf_model_ok (ph : list N) (rows : list (N * list N)) (keys : list (list N * N)) (cfg : list node)
           (pool : list conf) (hists : list (N * N * list N)) (ptable : list (list N)) (os : list obs) : bool :=
  match table ph (row_of rows) cfg with
  | OutOfFuel => false
  | Ok t =>
      list_eqb same_set t ptable
      && forallb (fun o => match life_of pool hists (o_self o) with
                           | Some s => obs_matches (model_obs ph (key_hash keys) t (svc_self s) (o_space o)) o
                           | None => false
                           end) os
  end.

Definition conf_spec_ok (cfg : list node) (ptable : list (list N)) (os : list obs) : bool :=
  spec_C18 cfg REPLICATION_FACTOR os
  && forallb (spec_row (map n_id (filter (fun n => memN T_TREE (n_types n)) cfg)) REPLICATION_FACTOR) ptable.

Definition chash_model_ok (ph : list N) (rf : nat) (rows : list (N * list N)) (ms : list N)
           (ptable : list (list N)) : bool :=
  match distribute ph rf (row_of rows) ms with
  | OutOfFuel => false
  | Ok t => list_eqb same_set t ptable
  end.

(* (spec_ok, model_ok) of a case *)
Definition verdict (c : case) : bool * bool :=
  match c with
  | CConf ph rows keys confs fin hists actives ptable spaces answers =>
      let ph' := hashes ph in
      let pool := dec_confs confs in
      let finc := nth (N.to_nat (n_of fin)) pool (mkConf 0 []) in
      let cfg' := c_nodes finc in
      let hs := map (fun h => (n_of (fst (fst h)), n_of (snd (fst h)), map n_of (snd h))) hists in
      let acts := map (fun a => (n_of (fst a), map n_of (snd a))) actives in
      let pt := map unpack ptable in
      let sp := map (fun s => (map n_of (fst s), map n_of (snd s))) spaces in
      let os := dec_answers sp answers in
      (conf_spec_ok cfg' pt os,
       hists_ok pool finc hs os && actives_ok finc hs acts
       && conf_model_ok ph' (dec_rows rows) (dec_keys keys) cfg' pool hs pt os)
  | CChash ph rf rows ms ptable =>
      let ms' := map n_of ms in
      let rf' := N.to_nat (n_of rf) in
      let pt := map unpack ptable in
      (forallb (spec_row ms' rf') pt, chash_model_ok (hashes ph) rf' (dec_rows rows) ms' pt)
  end.

Definition spec_ok (c : case) : bool := fst (verdict c).
Definition model_ok (c : case) : bool := snd (verdict c).

Fixpoint check_from (i : N) (l : list case) : list (N * N) :=
  match l with
  | [] => []
  | c :: r =>
      (let '(s, m) := verdict c in if s then (if m then [] else [(i, 1%N)]) else [(i, 2%N)])
        ++ check_from (N.succ i) r
  end.

Definition check_all (base : N) (l : list case) : list (N * N) := check_from base l.
