(* Correspondence runner for C18.  One case = one configuration under test, reached by every participant through its
   own HISTORY of configurations (or one bare go-chash instance):
   the hash tables the model needs (Go's xxhash64 of the exact byte strings go-chash hashes), the observed
   GetPartitionMembers table, and the answers of every participant (each node and a client) for a list of space ids.
   [check_all] returns (index, code) for bad cases: 1 = model output differs from the observed one,
   2 = spec_C18 is false on the observed answers.
   Member lists are compared as SETS (equal length + same elements): the property constrains sets only.

   Encoding.  A 12-node configuration carries 27000 64-bit hashes.  Coq parses and VM-compiles N literals of that
   size at ~0.7 ms each, primitive 63-bit integers at ~0.06 ms, so the case files carry primitive integers
   (Uint63) only and this module decodes them to the N-based inputs of the model:
     a hash            = two ints  hi, lo   (value hi * 2^32 + lo)
     a member list     = one int, base-256 digits (id + 1), most significant first, 0 = empty list
     a byte string     = list of ints
   The decoder is part of the (unverified) glue, like the harness' printer. *)
From Coq Require Import List NArith ZArith Bool Arith.
From Coq Require Export Uint63.
Import ListNotations.
From AnySync Require Export Model.NodeConf.

Inductive case :=
(* nodeconf *)
| CConf (ph : list int)                         (* partition hashes: hi, lo, hi, lo, ... *)
        (rows : list (int * list int))          (* member id, its virtual-node hashes (hi, lo, ...) *)
        (keys : list (list int * int * int))    (* candidate replication key (bytes), hash hi, lo *)
        (confs : list (int * list (int * list int * list int)))
                                                (* pool of configurations: Configuration.Id (numbered), nodes in
                                                   configuration order: id, addresses, types *)
        (fin : int)                             (* index (in the pool) of the configuration under test: the LAST one
                                                   every participant received; rows / ptable belong to it *)
        (hists : list (int * list int))         (* per participant: self, the pool indices of the configurations it
                                                   received through the real service: first = the one it was started
                                                   with (Init), the others = updates (Run -> updateConfiguration) *)
        (ptable : list int)                     (* observed CHash().GetPartitionMembers(0..P-1), packed *)
        (spaces : list (list int * list int))   (* space id (bytes), observed ReplKey(space id) (bytes) *)
        (answers : list int)                    (* 5 ints per answer: self, space index, Partition, packed NodeIds,
                                                   IsResponsible (0/1) *)
(* go-chash driven directly (custom Hasher / PartitionCount / MultiplyFactor / ReplicationFactor):
   members in AddMembers order (duplicates allowed), observed partition table *)
| CChash (ph : list int) (rf : int) (rows : list (int * list int)) (ms : list int) (ptable : list int).

(* ---------------------------------------------------------------- decoding *)
Definition n_of (i : int) : N := Z.to_N (Uint63.to_Z i).

Fixpoint hashes (l : list int) : list N :=
  match l with
  | hi :: lo :: r => (n_of hi * 4294967296 + n_of lo)%N :: hashes r
  | _ => []
  end.

Fixpoint unpack_aux (fuel : nat) (n : N) (acc : list N) : list N :=
  match fuel with
  | O => acc
  | S f => if (n =? 0)%N then acc else unpack_aux f (n / 256)%N ((n mod 256 - 1)%N :: acc)
  end.
Definition unpack (i : int) : list N := unpack_aux 8 (n_of i) [].

Definition dec_rows (rows : list (int * list int)) : list (N * list N) :=
  map (fun r => (n_of (fst r), hashes (snd r))) rows.

Definition dec_keys (keys : list (list int * int * int)) : list (list N * N) :=
  map (fun k => (map n_of (fst (fst k)), (n_of (snd (fst k)) * 4294967296 + n_of (snd k))%N)) keys.

Definition dec_cfg (cfg : list (int * list int * list int)) : list node :=
  map (fun n => mkNode (n_of (fst (fst n))) (map n_of (snd (fst n))) (map n_of (snd n))) cfg.

Definition dec_confs (confs : list (int * list (int * list int * list int))) : list conf :=
  map (fun c => mkConf (n_of (fst c)) (dec_cfg (snd c))) confs.

Fixpoint dec_answers (spaces : list (list N * list N)) (l : list int) : list obs :=
  match l with
  | self :: si :: part :: ids :: resp :: r =>
      let sp := nth (N.to_nat (n_of si)) spaces ([], []) in
      mkObs (n_of self) (fst sp) (snd sp) (n_of part) (unpack ids) (negb (n_of resp =? 0)%N)
        :: dec_answers spaces r
  | _ => []
  end.

Fixpoint row_of (rows : list (N * list N)) (m : N) : list N :=
  match rows with
  | [] => []
  | (k, r) :: rest => if (k =? m)%N then r else row_of rest m
  end.

Fixpoint key_hash (keys : list (list N * N)) (k : list N) : N :=
  match keys with
  | [] => 0%N
  | (s, h) :: rest => if list_eqb N.eqb s k then h else key_hash rest k
  end.

(* ---------------------------------------------------------------- checks *)
Definition same_set (a b : list N) : bool := Nat.eqb (length a) (length b) && set_eqb a b.

Definition obs_matches (m o : obs) : bool :=
  list_eqb N.eqb (o_replkey m) (o_replkey o)
  && (o_part m =? o_part o)%N
  && same_set (o_nodeids m) (o_nodeids o)
  && Bool.eqb (o_resp m) (o_resp o).

(* every partition of an observed table: distinct members of the member set, min(rf, #members) of them *)
Definition spec_row (ms : list N) (rf : nat) (r : list N) : bool :=
  nodupb r && subsetb r ms && Nat.eqb (length r) (Nat.min rf (count_distinct ms)).

(* ---------------------------------------------------------------- histories *)
Definition node_eqb (a b : node) : bool :=
  (n_id a =? n_id b)%N && list_eqb N.eqb (n_addrs a) (n_addrs b) && list_eqb N.eqb (n_types a) (n_types b).
Definition conf_eqb (a b : conf) : bool := (c_id a =? c_id b)%N && list_eqb node_eqb (c_nodes a) (c_nodes b).

(* the model's state of a participant after its history (None: malformed history) *)
Definition hist_state (pool : list conf) (h : list N) : option conf :=
  match h with
  | [] => None
  | i :: r =>
      match nth_error pool (N.to_nat i) with
      | None => None
      | Some c0 =>
          if forallb (fun j => match nth_error pool (N.to_nat j) with Some _ => true | None => false end) r
          then Some (run_history c0 (flat_map (fun j => match nth_error pool (N.to_nat j) with
                                                        | Some c => [c] | None => [] end) r))
          else None
      end
  end.

(* every participant's model state after its history is the configuration under test, and every answer comes from a
   participant whose history is given: then the model's answers are those computed from [fin]'s table *)
Definition hists_ok (pool : list conf) (fin : conf) (hists : list (N * list N)) (os : list obs) : bool :=
  forallb (fun h => match hist_state pool (snd h) with Some c => conf_eqb c fin | None => false end) hists
  && forallb (fun o => memN (o_self o) (map fst hists)) os.

Definition conf_model_ok (ph : list N) (rows : list (N * list N)) (keys : list (list N * N)) (cfg : list node)
           (ptable : list (list N)) (os : list obs) : bool :=
  match table ph (row_of rows) cfg with
  | OutOfFuel => false
  | Ok t =>
      list_eqb same_set t ptable
      && forallb (fun o => obs_matches (model_obs ph (key_hash keys) t (o_self o) (o_space o)) o) os
  end.

Definition conf_spec_ok (cfg : list node) (ptable : list (list N)) (os : list obs) : bool :=
  spec_C18 cfg REPLICATION_FACTOR os
  && forallb (spec_row (map n_id (filter (fun n => memN T_TREE (n_types n)) cfg)) REPLICATION_FACTOR) ptable.

Definition chash_model_ok (ph : list N) (rf : nat) (rows : list (N * list N)) (ms : list N)
           (ptable : list (list N)) : bool :=
  match distribute ph rf (row_of rows) ms with
  | OutOfFuel => false
  | Ok t => list_eqb same_set t ptable
  end.

(* (spec_ok, model_ok) of a case *)
Definition verdict (c : case) : bool * bool :=
  match c with
  | CConf ph rows keys confs fin hists ptable spaces answers =>
      let ph' := hashes ph in
      let pool := dec_confs confs in
      let finc := nth (N.to_nat (n_of fin)) pool (mkConf 0 []) in
      let cfg' := c_nodes finc in
      let hs := map (fun h => (n_of (fst h), map n_of (snd h))) hists in
      let pt := map unpack ptable in
      let sp := map (fun s => (map n_of (fst s), map n_of (snd s))) spaces in
      let os := dec_answers sp answers in
      (conf_spec_ok cfg' pt os,
       hists_ok pool finc hs os && conf_model_ok ph' (dec_rows rows) (dec_keys keys) cfg' pt os)
  | CChash ph rf rows ms ptable =>
      let ms' := map n_of ms in
      let rf' := N.to_nat (n_of rf) in
      let pt := map unpack ptable in
      (forallb (spec_row ms' rf') pt, chash_model_ok (hashes ph) rf' (dec_rows rows) ms' pt)
  end.

Definition spec_ok (c : case) : bool := fst (verdict c).
Definition model_ok (c : case) : bool := snd (verdict c).

Fixpoint check_from (i : N) (l : list case) : list (N * N) :=
  match l with
  | [] => []
  | c :: r =>
      (let '(s, m) := verdict c in if s then (if m then [] else [(i, 1%N)]) else [(i, 2%N)])
        ++ check_from (N.succ i) r
  end.

Definition check_all (base : N) (l : list case) : list (N * N) := check_from base l.
