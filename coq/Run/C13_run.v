(* Correspondence runner for C13: the harness writes what the real validators / constructors of
   commonspace/spacepayloads did as [case]s; [check_all] returns (index, code) for every bad case:
     code 1 = the implementation's observable differs from the model's,
     code 2 = the implementation's observable violates the property predicate spec_C13. *)
From Coq Require Import List NArith Bool.
Import ListNotations.
From AnySync Require Export Model.Payloads.

(* six observed fields of a constructor output, as interned byte strings:
   space id, raw header, acl id, acl payload, settings id, settings payload *)
Definition out6 := (N * N * N * N * N * N)%type.

Inductive case :=
(* ValidateSpaceStorageCreatePayload on a delivered payload (view with harness-computed flags) *)
| CCreate (p : payload N) (pristine : bool) (obs : verdict)
(* ValidateSpaceHeader(h, identity, aclPayload, settingsPayload) *)
| CHeader (h : option (hpart N)) (identity acl_arg set_arg : option N) (pristine : bool)
          (obs : verdict) (need : bool)
(* the same delivered payload described as a symbolic term (structured cases only) *)
| CTerm (p : tpayload) (obs : verdict)
(* one-to-one constructors for (a,B), (b,A), (a,C); keys numbered in the byte order of their marshalled
   public keys; st = 1 anytype.onetoone, 2 any.onetoone; outputs as interned byte strings *)
| COto (a b c st : N) (ab ba ac : out6)
(* OVERLAPPING derivations by account a (several goroutines at once, one process).
   kind 0: StoragePayloadForOneToOneSpaceWithType(a, B) -- six fields as in [out6];
   kind 1: GenerateSharedKey(a, B, path) for the three one-to-one paths -- three public keys.
   [contacts] = (key number b', what b' derives ALONE and sequentially for (b', A));
   [obs] = (key number b, one DISTINCT result a obtained for contact b while other derivations were in flight). *)
| CConc (kind a st : N) (contacts : list (N * list N)) (obs : list (N * list N)).

Definition out6_eqs (x y : out6) : list bool :=
  let '(a1, a2, a3, a4, a5, a6) := x in
  let '(b1, b2, b3, b4, b5, b6) := y in
  [N.eqb a1 b1; N.eqb a2 b2; N.eqb a3 b3; N.eqb a4 b4; N.eqb a5 b5; N.eqb a6 b6].

Fixpoint bools_eqb (x y : list bool) : bool :=
  match x, y with
  | [], [] => true
  | a :: x', b :: y' => Bool.eqb a b && bools_eqb x' y'
  | _, _ => false
  end.

Fixpoint fields_eqs (x y : list N) : list bool :=
  match x, y with
  | [], [] => []
  | a :: x', b :: y' => N.eqb a b :: fields_eqs x' y'
  | _, _ => [false; true]          (* different number of fields: neither all-equal nor all-different *)
  end.

(* concrete instances of the Section variables for evaluation: an X25519 stand-in that is commutative and
   injective on unordered pairs, an injective replication-key function, the numeric order on key numbers *)
Definition run_dh (a b : N) : N := (N.min a b) * 4294967296 + N.max a b.
Definition run_rk (k : skey) : N :=
  match k with SKAtom n => 2 * n | SKShared sh _ _ p => 2 * (sh * 16 + p) + 1 end.
Definition run_oto (a b st : N) : tpayload := one_to_one run_rk run_dh N.leb a b st.

(* per (result, contact) pair: model equality pattern / observed equality pattern *)
Definition conc_model (kind a st : N) (b b' : N) : list bool :=
  if N.eqb kind 0 then tp_eqs (run_oto a b st) (run_oto b' a st)
  else keys_eqs run_dh N.leb a b b' a.

Definition conc_obs_pairs (contacts obs : list (N * list N)) : list (bool * list bool) :=
  flat_map (fun o => map (fun c => (N.eqb (fst o) (fst c), fields_eqs (snd o) (snd c))) contacts) obs.

Fixpoint pairs_eqb (x y : list (bool * list bool)) : bool :=
  match x, y with
  | [], [] => true
  | (s, l) :: x', (s', l') :: y' => Bool.eqb s s' && bools_eqb l l' && pairs_eqb x' y'
  | _, _ => false
  end.

Definition model_ok (c : case) : bool :=
  match c with
  | CCreate p _ obs => verdict_eqb (validate_create N N.eqb p) obs
  | CHeader h idt aa sa _ obs need =>
      let '(v, n) := validate_header N N.eqb h idt aa sa in
      verdict_eqb v obs && Bool.eqb n need
  | CTerm p obs => verdict_eqb (validate_t p) obs
  | COto a b c st ab ba ac =>
      bools_eqb (tp_eqs (run_oto a b st) (run_oto b a st)) (out6_eqs ab ba)
      && bools_eqb (tp_eqs (run_oto a b st) (run_oto a c st)) (out6_eqs ab ac)
  | CConc kind a st contacts obs =>
      (* the model's derivation is a function of the call's own arguments under EVERY interleaving
         (own_node_schedule_independent), so a result for b is compared with run_oto a b / shared_key a b *)
      pairs_eqb (conc_pairs (conc_model kind a st) (map fst obs) (map fst contacts))
                (conc_obs_pairs contacts obs)
  end.

Definition spec_ok (c : case) : bool :=
  match c with
  | CCreate p pristine obs => spec_C13_create N N.eqb p pristine obs
  | CHeader h idt aa sa pristine obs need => spec_C13_header N N.eqb h idt aa sa pristine obs need
  | CTerm p obs => true
  | COto a b c st ab ba ac => spec_C13_oto (N.eqb b c) (out6_eqs ab ba) (out6_eqs ab ac)
  | CConc kind a st contacts obs => spec_C13_conc (conc_obs_pairs contacts obs)
  end.

Fixpoint check_from (i : N) (l : list case) : list (N * N) :=
  match l with
  | [] => []
  | c :: r =>
      (if spec_ok c then (if model_ok c then [] else [(i, 1%N)]) else [(i, 2%N)])
        ++ check_from (N.succ i) r
  end.

Definition check_all (base : N) (l : list case) : list (N * N) := check_from base l.
