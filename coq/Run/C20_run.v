(* Correspondence runner for C20: the harness writes observed behaviour of the real app.App as [case]s;
   [check_all] returns, for every case where something is wrong, (index, code):
     code 1 = the implementation's observable differs from the model's,
     code 2 = the implementation's observable violates the property predicate spec_C20. *)
From Coq Require Import List NArith Bool Arith.
Import ListNotations.
From AnySync Require Export Model.App.

Inductive case :=
| CStart  (cs : list comp) (ev : list event) (r : start_result)
| CClose  (cs : list comp) (ev : list event) (errs : list nat)
| CLookupName (chain : list (list comp)) (name : N) (res : option (nat * nat))
| CLookupKind (chain : list (list comp)) (kind : N) (res : option (nat * nat))
| CLookupSeq (depth : nat) (ops : list lop) (res : list (option (nat * nat)))
| CLife (ops : list hop) (obs : list (list event * hres)).

Definition model_ok (c : case) : bool :=
  match c with
  | CStart cs ev r =>
      let '(ev', r') := start cs in list_eqb event_eqb ev' ev && result_eqb r' r
  | CClose cs ev errs =>
      let '(ev', errs') := close cs in list_eqb event_eqb ev' ev && list_eqb Nat.eqb errs' errs
  | CLookupName chain n res => opt_pair_eqb (lookup (by_name n) chain 0) res
  | CLookupKind chain k res => opt_pair_eqb (lookup (by_kind k) chain 0) res
  | CLookupSeq d ops res => opt_list_eqb (run_lops (repeat [] d) ops) res
  | CLife ops obs => hops_eqb (run_hops [] ops) obs
  end.

Definition spec_ok (c : case) : bool :=
  match c with
  | CStart cs ev r => spec_C20_start cs (ev, r)
  | CClose cs ev errs => spec_C20_close cs (ev, errs)
  | CLookupName chain n res => spec_C20_lookup (by_name n) chain res
  | CLookupKind chain k res => spec_C20_lookup (by_kind k) chain res
  | CLookupSeq d ops res => spec_C20_lops d ops res
  | CLife ops obs => spec_C20_hops [] ops obs
  end.

Fixpoint check_from (i : N) (l : list case) : list (N * N) :=
  match l with
  | [] => []
  | c :: r =>
      (if spec_ok c then (if model_ok c then [] else [(i, 1%N)]) else [(i, 2%N)])
        ++ check_from (N.succ i) r
  end.

Definition check_all (base : N) (l : list case) : list (N * N) := check_from base l.
