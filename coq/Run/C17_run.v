(* Correspondence runner for C17.  The harness writes what the real commonspace/pubsub code did as [case]s;
   [check_all] returns (index, code) for every bad case:
     code 1 = the implementation's observable differs from the model's,
     code 2 = the implementation's observable violates the property predicate (the spec_C17 predicates). *)
From Coq Require Import String Ascii.
From Coq Require Import List NArith Bool Arith.
Import ListNotations.
From Coq Require Import ZArith.
From AnySync Require Export Model.Trie Model.PubSub Model.PubSubClient.

(* compact byte-string literals of the client cases (one string literal per byte string parses much faster
   than one numeral per byte): printable characters stand for themselves, '^' for the byte 0, "~hh" for the
   byte with (lowercase) hex code hh *)
Definition hexv (a : ascii) : N :=
  let n := N_of_ascii a in if N.leb 97 n then (n - 87)%N else (n - 48)%N.

Fixpoint bstr (s : string) : list N :=
  match s with
  | EmptyString => []
  | String a r =>
      if Ascii.eqb a "~"%char then
        match r with
        | String h (String l r') => (16 * hexv h + hexv l)%N :: bstr r'
        | _ => []
        end
      else if Ascii.eqb a "^"%char then 0%N :: bstr r
      else N_of_ascii a :: bstr r
  end.

(* the case files do not import Coq.Strings.String; this scope makes "..."%bstr a [string] literal there *)
Declare Scope bstr_scope.
Delimit Scope bstr_scope with bstr.
String Notation string string_of_list_byte list_byte_of_string : bstr_scope.

Inductive case :=
(* one string through splitTopic / ValidateTopic / ValidatePattern / TopicOwner *)
| CValid (s : str) (segs : list str) (topic_ok pattern_ok : bool) (owner : str)
(* a history on a fresh patternTrie with everything it returned *)
| CTrie (ops : list top) (obs : list tobs)
(* an event history on a fresh real pubsub service (node role) with fake streams, and what was observed *)
| CSvc (c : cfg) (evs : list ev) (obs : list out)
(* an event history on a fresh real pubsub service in CLIENT role (local handlers, Publish frames fed through
   the stream read loop, own Publish) and what was observed per event *)
| CClient (c : ccfg) (evs : list cev) (obs : list cobs)
(* the bytes publishSignData produced for these field values *)
| CSign (space topic id key : str) (ts : Z) (payload : str) (bytes : list N)
(* a fresh msgIdDedup of [size] slots, the ids passed to seen() in order, and what it returned *)
| CDedup (size : N) (ids : list str) (res : list bool).

Fixpoint strs_eqb (a b : list str) : bool :=
  match a, b with
  | [], [] => true
  | x :: a', y :: b' => str_eqb x y && strs_eqb a' b'
  | _, _ => false
  end.

(* match results are compared as sets of equal size (the property does not fix an order) *)
Definition tobs_eqb (a b : tobs) : bool :=
  match a, b with
  | OBool x, OBool y => Bool.eqb x y
  | ONum x, ONum y => N.eqb x y
  | OPats x, OPats y => Nat.eqb (length x) (length y) && set_eq_str x y
  | _, _ => false
  end.

Fixpoint obs_eqb (a b : list tobs) : bool :=
  match a, b with
  | [], [] => true
  | x :: a', y :: b' => tobs_eqb x y && obs_eqb a' b'
  | _, _ => false
  end.

Definition len_eq {A B} (a : list A) (b : list B) : bool := Nat.eqb (length a) (length b).

Definition by_eqb (a b : list (N * list str)) : bool :=
  len_eq a b
  && forallb (fun e => match nassoc (fst e) b with
                       | Some l => len_eq (snd e) l && set_eq_str (snd e) l
                       | None => false end) a.

Definition out_eqb (a b : out) : bool :=
  match a, b with
  | ONone, ONone => true
  | OStatus c1 t1, OStatus c2 t2 => N.eqb c1 c2 && strs_eqb t1 t2
  | OPub d1 s1 f1, OPub d2 s2 f2 =>
      len_eq d1 d2 && set_eqN d1 d2
      && (match s1, s2 with Some x, Some y => N.eqb x y | None, None => true | _, _ => false end)
      && Bool.eqb f1 f2
  | OSnap r1 s1 p1, OSnap r2 s2 p2 =>
      len_eq r1 r2
      && forallb (fun e => match nassoc (fst e) r2 with
                           | Some v => N.eqb (fst (snd e)) (fst v) && Bool.eqb (snd (snd e)) (snd v)
                           | None => false end) r1
      && len_eq s1 s2
      && forallb (fun e => match nassoc (fst e) s2 with
                           | Some v => let '(a1, t1, b1) := snd e in let '(a2, t2, b2) := v in
                                       N.eqb a1 a2 && N.eqb t1 t2 && by_eqb b1 b2
                           | None => false end) s1
      && len_eq p1 p2
      && forallb (fun e => match nassoc (fst e) p2 with
                           | Some v => len_eq (snd e) v && set_eq_tag (snd e) v
                           | None => false end) p1
  | _, _ => false
  end.

Fixpoint outs_eqb (a b : list out) : bool :=
  match a, b with
  | [], [] => true
  | x :: a', y :: b' => out_eqb x y && outs_eqb a' b'
  | _, _ => false
  end.

(* handler invocations are compared as multisets (Go map iteration decides the order inside one level) *)
Definition ms_eq (a b : list str) : bool :=
  len_eq a b && forallb (fun x => Nat.eqb (str_count x a) (str_count x b)) a.

Definition optN_eqb (a b : option N) : bool :=
  match a, b with Some x, Some y => N.eqb x y | None, None => true | _, _ => false end.

Definition cobs_eqb (a b : cobs) : bool :=
  match a, b with
  | ONoneC, ONoneC => true
  | OSubR x, OSubR y => Bool.eqb x y
  | ORecv s1 i1, ORecv s2 i2 => optN_eqb s1 s2 && ms_eq i1 i2
  | OPubR o1 i1, OPubR o2 i2 => Bool.eqb o1 o2 && ms_eq i1 i2
  | _, _ => false
  end.

Fixpoint cobss_eqb (a b : list cobs) : bool :=
  match a, b with
  | [], [] => true
  | x :: a', y :: b' => cobs_eqb x y && cobss_eqb a' b'
  | _, _ => false
  end.

Fixpoint dedup_run (r : ring) (ids : list str) : list bool :=
  match ids with
  | [] => []
  | id :: rest => let '(r', b) := seen r id in b :: dedup_run r' rest
  end.

Fixpoint bools_eqb (a b : list bool) : bool :=
  match a, b with
  | [], [] => true
  | x :: a', y :: b' => Bool.eqb x y && bools_eqb a' b'
  | _, _ => false
  end.

(* what the ring must answer, stated without the ring: an id is reported iff it is a 16-byte id among the
   last [size] recorded ones; the recorded ids are those that were not reported *)
Fixpoint spec_dedup (size : nat) (rec : list str) (ids : list str) (res : list bool) : bool :=
  match ids, res with
  | [], [] => true
  | id :: ri, b :: rb =>
      let want := Nat.eqb (length id) msg_id_len && mem_str id (lastn size rec) in
      Bool.eqb b want
      && spec_dedup size (if Nat.eqb (length id) msg_id_len && negb want then rec ++ [id] else rec) ri rb
  | _, _ => false
  end.

Definition model_ok (c : case) : bool :=
  match c with
  | CValid s segs tok pok owner =>
      strs_eqb (split_topic s) segs && Bool.eqb (validate_topic s) tok
      && Bool.eqb (validate_pattern s) pok && str_eqb (topic_owner s) owner
  | CTrie ops obs => obs_eqb (trie_run trie_empty ops) obs
  | CSvc c evs obs => outs_eqb (svc_run c svc_init evs) obs
  | CClient c evs obs => cobss_eqb (client_run c (cinit c) evs) obs
  | CSign space topic id key ts payload bytes => str_eqb (sign_data_of space topic id key ts payload) bytes
  | CDedup size ids res => bools_eqb (dedup_run (ring_new (N.to_nat size)) ids) res
  end.

Definition spec_ok (c : case) : bool :=
  match c with
  | CValid s _ tok pok _ => spec_C17_validate s tok pok
  | CTrie ops obs => spec_C17_trie ops obs
  | CSvc c evs obs => spec_C17_svc c evs obs
  | CClient c evs obs => spec_C17_client c evs obs
  | CSign _ _ _ _ _ _ _ => true
  | CDedup size ids res => spec_dedup (N.to_nat size) [] ids res
  end.

Fixpoint check_from (i : N) (l : list case) : list (N * N) :=
  match l with
  | [] => []
  | c :: r =>
      (if spec_ok c then (if model_ok c then [] else [(i, 1%N)]) else [(i, 2%N)])
        ++ check_from (N.succ i) r
  end.

Definition check_all (base : N) (l : list case) : list (N * N) := check_from base l.
