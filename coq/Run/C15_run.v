(* Correspondence runner for C15: the harness writes observed behaviour of the real deletion machinery as
   [case]s; [check_all] returns (index, code) for bad cases: code 1 = observed differs from the model,
   code 2 = the observed behaviour violates spec_C15. *)
From Coq Require Import List NArith Bool.
Import ListNotations.
From AnySync Require Export Model.Deletion.
Open Scope N_scope.

(* one observation of a real settings object after a step at its replica: ids of the changes it holds; what the
   tree reported (0 init / restart, 1 append, 2 rebuild, 3 nothing); the tree root (0 = the true root, else the id
   of the snapshot change); ids iterated after the start point of the listener's Build (LastIteratedId for append,
   the root otherwise) and after the root; then, sorted: DeletedIds of the incrementally kept state, of a
   from-scratch Build on the same tree, and the accumulated ids handed to DeletionManager.UpdateState *)
Record sobs := mkSObs { ob_held : list N; ob_mode : N; ob_root : N; ob_after : list N; ob_all : list N;
                        ob_state : list N; ob_scratch : list N; ob_seen : list N }.

Inductive case :=
(* a history over the ids [univ], from the empty space: after every op its output and the observation *)
| CHist (univ : list N) (ops : list op) (tr : list (out * list obs))
(* settings log: all changes; observed per build call: (root change index+1 or 0 = true root, ids iterated after
   the start change, incremental?, observed DeletedIds sorted); held = ids of held changes at that time *)
| CSettings (changes : list schange) (builds : list (list N * (N * list N * bool * list N)))
(* branching settings log driven through the real settings objects of several replicas: all changes; per replica
   the observations after every step at that replica *)
| CSObj (changes : list schange) (reps : list (list sobs)).

Fixpoint trace_eqb (a b : list (out * list obs)) : bool :=
  match a, b with
  | [], [] => true
  | (x, o) :: r, (y, p) :: q => out_eqb x y && obsl_eqb o p && trace_eqb r q
  | _, _ => false
  end.

Definition find_sc (cs : list schange) (i : N) : option schange :=
  find (fun c => sc_id c =? i) cs.
Definition pick_sc (cs : list schange) (ids : list N) : list schange :=
  flat_map (fun i => match find_sc cs i with Some c => [c] | None => [] end) ids.

(* model of the sequence of Build calls: the state is carried from call to call; a from-scratch call resets it *)
Fixpoint settings_model (cs : list schange) (st : list N) (bs : list (list N * (N * list N * bool * list N))) : bool :=
  match bs with
  | [] => true
  | (_, (root, after, inc, observed)) :: r =>
      let st' := if inc then sderive_inc st (pick_sc cs after)
                 else sderive_scratch (if root =? 0 then None else find_sc cs root) (pick_sc cs after) in
      nlist_eqb (nsort st') observed && settings_model cs st' r
  end.

(* property: every observed DeletedIds equals the union of the contents of the changes held at that time *)
Definition settings_spec (cs : list schange) (bs : list (list N * (N * list N * bool * list N))) : bool :=
  forallb (fun b => let '(held, (_, _, _, observed)) := b in
                    nlist_eqb (sunion_all (pick_sc cs held)) observed) bs.

Definition smode_of (m : N) : smode :=
  if m =? 0 then SInit else if m =? 1 then SAppend else if m =? 2 then SRebuild else SNothing.
Definition root_of (cs : list schange) (root : N) : option schange :=
  if root =? 0 then None else find_sc cs root.

(* model of one replica: the settings object's kept state and what it handed to the deletion manager are carried
   from step to step (sobj_step); the from-scratch Build is sderive_scratch over the whole tree *)
Fixpoint sobj_model (cs : list schange) (o : sobj) (l : list sobs) : bool :=
  match l with
  | [] => true
  | b :: r =>
      let o' := sobj_step o (mkSEv (smode_of (ob_mode b)) (root_of cs (ob_root b)) (pick_sc cs (ob_after b))) in
      nlist_eqb (nsort (so_state o')) (ob_state b) && nlist_eqb (nsort (so_seen o')) (ob_seen b)
      && nlist_eqb (nsort (sderive_scratch (root_of cs (ob_root b)) (pick_sc cs (ob_all b)))) (ob_scratch b)
      && sobj_model cs o' r
  end.

(* property: after EVERY step the incrementally kept set = the from-scratch set = the ids handed to the deletion
   manager = the union of the contents of the changes the replica holds - in whatever order and batching they came *)
Definition sobj_spec (cs : list schange) (l : list sobs) : bool :=
  forallb (fun b => let u := sunion_all (pick_sc cs (ob_held b)) in
                    nlist_eqb u (ob_state b) && nlist_eqb u (ob_scratch b) && nlist_eqb u (ob_seen b)) l.

Definition model_ok (c : case) : bool :=
  match c with
  | CHist univ ops tr => trace_eqb (trace true univ ops init) tr
  | CSettings cs bs => settings_model cs [] bs
  | CSObj cs reps => forallb (sobj_model cs sobj_init) reps
  end.

Definition spec_ok (c : case) : bool :=
  match c with
  | CHist univ ops tr => spec_C15 univ ops tr
  | CSettings cs bs => settings_spec cs bs
  | CSObj cs reps => forallb (sobj_spec cs) reps
  end.

Fixpoint check_from (i : N) (l : list case) : list (N * N) :=
  match l with
  | [] => []
  | c :: r =>
      (if spec_ok c then (if model_ok c then [] else [(i, 1%N)]) else [(i, 2%N)])
        ++ check_from (N.succ i) r
  end.

Definition check_all (base : N) (l : list case) : list (N * N) := check_from base l.
