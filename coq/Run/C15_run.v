(* Correspondence runner for C15: the harness writes observed behaviour of the real deletion machinery as
   [case]s; [check_all] returns (index, code) for bad cases: code 1 = observed differs from the model,
   code 2 = the observed behaviour violates spec_C15. *)
From Coq Require Import List NArith Bool.
Import ListNotations.
From AnySync Require Export Model.Deletion.
Open Scope N_scope.

Inductive case :=
(* a history over the ids [univ], from the empty space: after every op its output and the observation *)
| CHist (univ : list N) (ops : list op) (tr : list (out * list obs))
(* settings log: all changes; observed per build call: (root change index+1 or 0 = true root, ids iterated after
   the start change, incremental?, observed DeletedIds sorted); held = ids of held changes at that time *)
| CSettings (changes : list schange) (builds : list (list N * (N * list N * bool * list N))).

Fixpoint trace_eqb (a b : list (out * list obs)) : bool :=
  match a, b with
  | [], [] => true
  | (x, o) :: r, (y, p) :: q => out_eqb x y && obsl_eqb o p && trace_eqb r q
  | _, _ => false
  end.

Definition find_sc (cs : list schange) (i : N) : option schange :=
  find (fun c => sc_id c =? i) cs.
Definition pick_sc (cs : list schange) (ids : list N) : list schange :=
  flat_map (fun i => match find_sc cs i with Some c => [c] | None => [] end) ids.

(* model of the sequence of Build calls: the state is carried from call to call; a from-scratch call resets it *)
Fixpoint settings_model (cs : list schange) (st : list N) (bs : list (list N * (N * list N * bool * list N))) : bool :=
  match bs with
  | [] => true
  | (_, (root, after, inc, observed)) :: r =>
      let st' := if inc then sderive_inc st (pick_sc cs after)
                 else sderive_scratch (if root =? 0 then None else find_sc cs root) (pick_sc cs after) in
      nlist_eqb (nsort st') observed && settings_model cs st' r
  end.

(* property: every observed DeletedIds equals the union of the contents of the changes held at that time *)
Definition settings_spec (cs : list schange) (bs : list (list N * (N * list N * bool * list N))) : bool :=
  forallb (fun b => let '(held, (_, _, _, observed)) := b in
                    nlist_eqb (sunion_all (pick_sc cs held)) observed) bs.

Definition model_ok (c : case) : bool :=
  match c with
  | CHist univ ops tr => trace_eqb (trace true univ ops init) tr
  | CSettings cs bs => settings_model cs [] bs
  end.

Definition spec_ok (c : case) : bool :=
  match c with
  | CHist univ ops tr => spec_C15 univ ops tr
  | CSettings cs bs => settings_spec cs bs
  end.

Fixpoint check_from (i : N) (l : list case) : list (N * N) :=
  match l with
  | [] => []
  | c :: r =>
      (if spec_ok c then (if model_ok c then [] else [(i, 1%N)]) else [(i, 2%N)])
        ++ check_from (N.succ i) r
  end.

Definition check_all (base : N) (l : list case) : list (N * N) := check_from base l.
