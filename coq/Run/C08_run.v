(* Correspondence runner for C08 (ldiff range hashes are history free).  A case is a history of Set / RemoveId
   operations; after every operation the harness queried the incrementally maintained real index AND a real
   index freshly filled with the same contents (one Set call) for a list of ranges.
   Hash bytes are interned by the harness as tokens; the model's symbolic digests must be related to the
   tokens by one injective function per case (same digest <-> same token).
   code 1: model answer (count / elements / digest-token relation / RemoveId result) differs from the observed;
   code 2: the incremental index's observed answers differ from the fresh index's (spec_C08). *)
From Coq Require Import List NArith ZArith Bool Arith.
From Coq Require Export Uint63.
Import ListNotations.
From AnySync Require Export Model.Ldiff.
Open Scope N_scope.

Record query := mkQ { q_from : N; q_to : N; q_we : bool }.
Record obs := mkObs { o_tok : N; o_elems : list (N * N); o_count : N }.

(* one step: the operation, RemoveId's ok flag (true for Set), the queries, and the answers of the incremental
   and of the fresh index (position by position) *)
Record stepobs := mkStep { s_op : op; s_ok : bool; s_q : list query; s_inc : list obs; s_fresh : list obs }.

Inductive ncase := CHist (df th : N) (steps : list stepobs).

Fixpoint pairs_eqb (x y : list (N * N)) : bool :=
  match x, y with
  | [], [] => true
  | (a1, a2) :: r1, (b1, b2) :: r2 => (a1 =? b1) && (a2 =? b2) && pairs_eqb r1 r2
  | _, _ => false
  end.

Definition obs_eqb (a b : obs) : bool :=
  (o_tok a =? o_tok b)
  && pairs_eqb (o_elems a) (o_elems b) && (o_count a =? o_count b).

Fixpoint obs_list_eqb (x y : list obs) : bool :=
  match x, y with
  | [], [] => true
  | a :: r, b :: s => obs_eqb a b && obs_list_eqb r s
  | _, _ => false
  end.

(* spec_C08 over observed answers: incrementally maintained == freshly filled, at every step *)
Definition spec_ok (c : ncase) : bool :=
  match c with CHist _ _ steps => forallb (fun s => obs_list_eqb (s_inc s) (s_fresh s)) steps end.

(* model: run the history, answer the same queries; collect (digest, token) pairs *)
Definition answer_ok (df th : N) (ix : index) (qo : query * obs) : bool * (digest * N) :=
  let '(q, o) := qo in
  let r := get_range ix (q_from q) (q_to q) (q_we q) in
  (pairs_eqb (r_elems r) (o_elems o) && (r_count r =? o_count o), (r_hash r, o_tok o)).

Fixpoint run_steps (df th : N) (ix : index) (steps : list stepobs) (acc : list (digest * N)) : bool * list (digest * N) :=
  match steps with
  | [] => (true, acc)
  | s :: r =>
      let '(ix', ok) := match s_op s with
                        | OSet es => (set_many df th ix es, true)
                        | ORemove id => remove_id df th ix id
                        end in
      let res := map (answer_ok df th ix') (combine (s_q s) (s_inc s)) in
      if Bool.eqb ok (s_ok s) && (length (s_q s) =? length (s_inc s))%nat && forallb fst res
      then run_steps df th ix' r (map snd res ++ acc)
      else (false, acc)
  end.

(* the relation digest ~ token must be a partial bijection *)
Fixpoint consistent_with (d : digest) (t : N) (l : list (digest * N)) : bool :=
  match l with
  | [] => true
  | (d', t') :: r => Bool.eqb (digest_eqb d d') (t =? t') && consistent_with d t r
  end.
Fixpoint bijective (l : list (digest * N)) : bool :=
  match l with
  | [] => true
  | (d, t) :: r => consistent_with d t r && bijective r
  end.

Definition model_ok (c : ncase) : bool :=
  match c with
  | CHist df th steps =>
      let '(ok, ps) := run_steps df th (empty_index df th) steps [] in ok && bijective ps
  end.

(* ---- case files carry primitive 63-bit integers only; decoding is unverified glue ---- *)
Definition n_of (i : int) : N := Z.to_N (Uint63.to_Z i).
Definition h64 (hi lo : int) : N := n_of hi * 4294967296 + n_of lo.
Definition el (t : int * int * int * int) : elem :=
  let '(hi, lo, id, hd) := t in mkElem (h64 hi lo) (n_of id) (n_of hd).
Definition prs (l : list (int * int)) : list (N * N) := map (fun p => (n_of (fst p), n_of (snd p))) l.

(* observation: (token, elements, count); query: (from hi, from lo, to hi, to lo, want elements) *)
Definition iobs := (int * list (int * int) * int)%type.
Definition iquery := (int * int * int * int * bool)%type.
Inductive iop := ISet (es : list (int * int * int * int)) | IRemove (id : int).
Definition istep := (iop * bool * list iquery * list iobs * list iobs)%type.
Inductive case := ICHist (df th : int) (steps : list istep).

Definition conv_obs (o : iobs) : obs := let '(t, es, c) := o in mkObs (n_of t) (prs es) (n_of c).
Definition conv_q (q : iquery) : query := let '(fh, fl, th_, tl, we) := q in mkQ (h64 fh fl) (h64 th_ tl) we.
Definition conv_step (s : istep) : stepobs :=
  let '(o, ok, qs, inc, fr) := s in
  mkStep (match o with ISet es => OSet (map el es) | IRemove id => ORemove (n_of id) end) ok
         (map conv_q qs) (map conv_obs inc) (map conv_obs fr).
Definition conv (c : case) : ncase :=
  match c with ICHist df th steps => CHist (n_of df) (n_of th) (map conv_step steps) end.

Fixpoint check_from (i : N) (l : list case) : list (N * N) :=
  match l with
  | [] => []
  | c :: r =>
      let c' := conv c in
      (if spec_ok c' then (if model_ok c' then [] else [(i, 1)]) else [(i, 2)]) ++ check_from (N.succ i) r
  end.

Definition check_all (base : N) (l : list case) : list (N * N) := check_from base l.
