(* Correspondence runner for C08 (ldiff range hashes are history free).  A case is a history of Set / RemoveId
   operations; after every operation the harness queried the incrementally maintained real index AND a real
   index freshly filled with the same contents (one Set call) for a list of ranges.
   Hash bytes are interned by the harness as tokens; the model's symbolic digests must be related to the
   tokens by one injective function per case (same digest <-> same token).
   code 1: model answer (count / elements / digest-token relation / RemoveId result) differs from the observed;
   code 2: the incremental index's observed answers differ from the fresh index's (spec_C08).

   Second kind of case (CDm): the DiffManager layer (Model/HeadIndex.v).  A case is the initial head storage of a
   real space and a list of steps; a step is the list of head-storage events one real operation produced
   (UpdateEntry results in delivery order, deletion-state additions, restart) and what was observed after it:
   Hash() and the elements of the live DiffManager's ldiff, the hash read back from StateStorage, and — at a
   restart point — Hash()/elements of a SECOND DiffManager that ran FillDiff on a fresh ldiff over the same storage
   and the StateStorage hash after that.
   code 1: the model's live / restarted contents, the deletion-state membership seen by UpdateHeads, or the
           digest-token relation differ from the observed;
   code 2: live != restarted != stored at a restart point of a history satisfying [hist_ok] (since the last
           restart), or StateStorage hash != live Hash() at any step, or — for a case driven through the
           repository's own writers ([real] = true) — the history violates [hist_ok] or the readable [hist_wf]. *)
From Coq Require Import List NArith ZArith Bool Arith.
From Coq Require Export Uint63.
Import ListNotations.
From AnySync Require Export Model.Ldiff Model.HeadIndex.
Open Scope N_scope.

Record query := mkQ { q_from : N; q_to : N; q_we : bool }.
Record obs := mkObs { o_tok : N; o_elems : list (N * N); o_count : N }.

(* one step: the operation, RemoveId's ok flag (true for Set), the queries, and the answers of the incremental
   and of the fresh index (position by position) *)
Record stepobs := mkStep { s_op : op; s_ok : bool; s_q : list query; s_inc : list obs; s_fresh : list obs }.

(* DiffManager layer *)
Record dmobs := mkDmObs { d_tok : N; d_stored : N; d_elems : list (N * N) }.   (* elements (id, head) sorted by id *)
Record dmstep := mkDmStep { ds_events : list event; ds_exists : list bool; ds_live : dmobs; ds_restart : option dmobs }.

Inductive ncase :=
| CHist (df th : N) (steps : list stepobs)
| CDm (real : bool) (df th : N) (htab : list (N * N)) (hdtab : list (list N * N)) (s0 : store) (steps : list dmstep).

Fixpoint pairs_eqb (x y : list (N * N)) : bool :=
  match x, y with
  | [], [] => true
  | (a1, a2) :: r1, (b1, b2) :: r2 => (a1 =? b1) && (a2 =? b2) && pairs_eqb r1 r2
  | _, _ => false
  end.

Definition obs_eqb (a b : obs) : bool :=
  (o_tok a =? o_tok b)
  && pairs_eqb (o_elems a) (o_elems b) && (o_count a =? o_count b).

Fixpoint obs_list_eqb (x y : list obs) : bool :=
  match x, y with
  | [], [] => true
  | a :: r, b :: s => obs_eqb a b && obs_list_eqb r s
  | _, _ => false
  end.

(* spec_C08 over observed answers: incrementally maintained == freshly filled, at every step *)
(* ---- DiffManager layer: spec over observed values; the premise [hist_ok] is computed on the events only *)
(* (still ok since the last restart, never violated) after the events of one step; "never violated" also asks for
   the readable condition [event_wf] (W1..W4), which the repository's own writers are claimed to guarantee *)
Fixpoint events_ok (i : istate) (ok all : bool) (evs : list event) : istate * bool * bool :=
  match evs with
  | [] => (i, ok, all)
  | ev :: r =>
      let e := event_ok i ev in
      events_ok (istep i ev) (match ev with EvRestart _ => true | _ => ok && e end) (all && e && event_wf i ev) r
  end.

Fixpoint dm_spec_steps (i : istate) (ok all : bool) (steps : list dmstep) : bool * bool :=
  match steps with
  | [] => (true, all)
  | s :: r =>
      let '(i', ok', all') := events_ok i ok all (ds_events s) in
      let l := ds_live s in
      let here :=
        (d_tok l =? d_stored l)
        && match ds_restart s with
           | None => true
           | Some rs =>
               if ok' then spec_C08_restart (d_tok l) (d_tok rs) (d_stored l) (map fst (d_elems l)) (map fst (d_elems rs))
                           && (d_stored rs =? d_tok l) && pairs_eqb (d_elems l) (d_elems rs)
               else true
           end in
      let '(rest, allf) := dm_spec_steps i' ok' all' r in (here && rest, allf)
  end.

Definition spec_ok (c : ncase) : bool :=
  match c with
  | CHist _ _ steps => forallb (fun s => obs_list_eqb (s_inc s) (s_fresh s)) steps
  | CDm real _ _ _ _ s0 steps =>
      let '(ok, all) := dm_spec_steps (istart s0) true true steps in ok && (negb real || all)
  end.

(* model: run the history, answer the same queries; collect (digest, token) pairs *)
Definition answer_ok (df th : N) (ix : index) (qo : query * obs) : bool * (digest * N) :=
  let '(q, o) := qo in
  let r := get_range ix (q_from q) (q_to q) (q_we q) in
  (pairs_eqb (r_elems r) (o_elems o) && (r_count r =? o_count o), (r_hash r, o_tok o)).

Fixpoint run_steps (df th : N) (ix : index) (steps : list stepobs) (acc : list (digest * N)) : bool * list (digest * N) :=
  match steps with
  | [] => (true, acc)
  | s :: r =>
      let '(ix', ok) := match s_op s with
                        | OSet es => (set_many df th ix es, true)
                        | ORemove id => remove_id df th ix id
                        end in
      let res := map (answer_ok df th ix') (combine (s_q s) (s_inc s)) in
      if Bool.eqb ok (s_ok s) && (length (s_q s) =? length (s_inc s))%nat && forallb fst res
      then run_steps df th ix' r (map snd res ++ acc)
      else (false, acc)
  end.

(* the relation digest ~ token must be a partial bijection *)
Fixpoint consistent_with (d : digest) (t : N) (l : list (digest * N)) : bool :=
  match l with
  | [] => true
  | (d', t') :: r => Bool.eqb (digest_eqb d d') (t =? t') && consistent_with d t r
  end.
Fixpoint bijective (l : list (digest * N)) : bool :=
  match l with
  | [] => true
  | (d, t) :: r => consistent_with d t r && bijective r
  end.

(* ---- DiffManager layer: the model against the observations *)
Fixpoint tab_get (id : N) (t : list (N * N)) : N :=
  match t with [] => 0 | (i, h) :: r => if i =? id then h else tab_get id r end.
Fixpoint hd_get (l : list N) (t : list (list N * N)) : N :=
  match t with [] => 0 | (k, h) :: r => if nl_eqb k l then h else hd_get l r end.

Fixpoint pins (p : N * N) (l : list (N * N)) : list (N * N) :=
  match l with [] => [p] | q :: r => if fst p <=? fst q then p :: l else q :: pins p r end.
Definition by_id (ix : index) : list (N * N) := fold_right pins [] (pairs (contents ix)).

Section DmRun.
  Variables (H : N -> N) (HD : list N -> N) (df th : N).

  (* the events of one step: deletion-state membership seen at each delivery must match *)
  Fixpoint dm_events (w : world) (evs : list event) (ex : list bool) : option world :=
    match evs with
    | [] => match ex with [] => Some w | _ => None end
    | ev :: r =>
        match ev with
        | EvUpd u =>
            match ex with
            | b :: ex' => if Bool.eqb b (mem (e_id u) (w_ds w)) then dm_events (wstep H HD df th w ev) r ex' else None
            | [] => None
            end
        | _ => dm_events (wstep H HD df th w ev) r ex
        end
    end.

  Fixpoint dm_steps (w : world) (steps : list dmstep) (acc : list (digest * N)) : bool * list (digest * N) :=
    match steps with
    | [] => (true, acc)
    | s :: r =>
        match dm_events w (ds_events s) (ds_exists s) with
        | None => (false, acc)
        | Some w' =>
            let l := ds_live s in
            let acc1 := (top_hash (w_ix w'), d_tok l) :: (w_hash w', d_stored l) :: acc in
            if pairs_eqb (by_id (w_ix w')) (d_elems l) then
              match ds_restart s with
              | None => dm_steps w' r acc1
              | Some rs =>
                  let fi := fill_index H HD df th (w_store w') in
                  if pairs_eqb (by_id fi) (d_elems rs)
                  then dm_steps w' r ((top_hash fi, d_tok rs) :: (top_hash fi, d_stored rs) :: acc1)
                  else (false, acc)
              end
            else (false, acc)
        end
    end.
End DmRun.

Definition model_ok (c : ncase) : bool :=
  match c with
  | CHist df th steps =>
      let '(ok, ps) := run_steps df th (empty_index df th) steps [] in ok && bijective ps
  | CDm _ df th htab hdtab s0 steps =>
      let H := fun id => tab_get id htab in
      let HD := fun l => hd_get l hdtab in
      let '(ok, ps) := dm_steps H HD df th (wstart H HD df th s0) steps [] in
      store_okb s0 && ok && bijective ps
  end.

(* ---- case files carry primitive 63-bit integers only; decoding is unverified glue ---- *)
Definition n_of (i : int) : N := Z.to_N (Uint63.to_Z i).
Definition h64 (hi lo : int) : N := n_of hi * 4294967296 + n_of lo.
Definition el (t : int * int * int * int) : elem :=
  let '(hi, lo, id, hd) := t in mkElem (h64 hi lo) (n_of id) (n_of hd).
Definition prs (l : list (int * int)) : list (N * N) := map (fun p => (n_of (fst p), n_of (snd p))) l.

(* observation: (token, elements, count); query: (from hi, from lo, to hi, to lo, want elements) *)
Definition iobs := (int * list (int * int) * int)%type.
Definition iquery := (int * int * int * int * bool)%type.
Inductive iop := ISet (es : list (int * int * int * int)) | IRemove (id : int).
Definition istep := (iop * bool * list iquery * list iobs * list iobs)%type.
(* DiffManager layer: entry = (id, heads, CommonSnapshot != "", IsDerived, d) with d = 0: no "d" key, k+1: status k *)
Definition ientry := (int * list int * bool * bool * int)%type.
Inductive ievent := IEvUpd (u : ientry) | IEvDs (id : int) | IEvRestart (sil : list ientry).
(* observation: (Hash() token, StateStorage hash token, elements (id, head token) sorted by id) *)
Definition idmobs := (int * int * list (int * int))%type.
Definition idmstep := (list ievent * list bool * idmobs * option idmobs)%type.
Inductive case :=
| ICHist (df th : int) (steps : list istep)
| ICDm (real : bool) (df th : int) (htab : list (int * int * int)) (hdtab : list (list int * int))
       (s0 : list ientry) (steps : list idmstep).

Definition conv_entry (e : ientry) : entry :=
  let '(id, hs, cs, der, d) := e in
  mkEntry (n_of id) (map n_of hs) cs der (match n_of d with 0 => None | k => Some (k - 1) end).
Definition conv_event (e : ievent) : event :=
  match e with
  | IEvUpd u => EvUpd (conv_entry u)
  | IEvDs id => EvDs (n_of id)
  | IEvRestart sil => EvRestart (map conv_entry sil)
  end.
Definition conv_dmobs (o : idmobs) : dmobs := let '(t, st, es) := o in mkDmObs (n_of t) (n_of st) (prs es).
Definition conv_dmstep (s : idmstep) : dmstep :=
  let '(evs, ex, l, r) := s in mkDmStep (map conv_event evs) ex (conv_dmobs l) (option_map conv_dmobs r).

Definition conv_obs (o : iobs) : obs := let '(t, es, c) := o in mkObs (n_of t) (prs es) (n_of c).
Definition conv_q (q : iquery) : query := let '(fh, fl, th_, tl, we) := q in mkQ (h64 fh fl) (h64 th_ tl) we.
Definition conv_step (s : istep) : stepobs :=
  let '(o, ok, qs, inc, fr) := s in
  mkStep (match o with ISet es => OSet (map el es) | IRemove id => ORemove (n_of id) end) ok
         (map conv_q qs) (map conv_obs inc) (map conv_obs fr).
Definition conv (c : case) : ncase :=
  match c with
  | ICHist df th steps => CHist (n_of df) (n_of th) (map conv_step steps)
  | ICDm real df th htab hdtab s0 steps =>
      CDm real (n_of df) (n_of th) (map (fun t => let '(id, hi, lo) := t in (n_of id, h64 hi lo)) htab)
          (map (fun p => (map n_of (fst p), n_of (snd p))) hdtab) (map conv_entry s0) (map conv_dmstep steps)
  end.

Fixpoint check_from (i : N) (l : list case) : list (N * N) :=
  match l with
  | [] => []
  | c :: r =>
      let c' := conv c in
      (if spec_ok c' then (if model_ok c' then [] else [(i, 1)]) else [(i, 2)]) ++ check_from (N.succ i) r
  end.

Definition check_all (base : N) (l : list case) : list (N * N) := check_from base l.
