(* Correspondence runner for C07 (ldiff Diff / CompareDiff).  A case carries the two contents, the parameters,
   the variant, whether the remote was reached through the wire adapters, and the OBSERVED result lists of the
   real implementation.  code 1: model result differs (as sets) from the observed one, or the model does not
   terminate; code 2: the observed result violates spec_C07 (is not the exact difference). *)
From Coq Require Import List NArith ZArith Bool.
From Coq Require Export Uint63.
Import ListNotations.
From AnySync Require Export Model.Ldiff.
Open Scope N_scope.

Inductive ncase :=
(* both indexes reached by histories; the responder may use another threshold than the asker *)
| CHistDiff (df thl thr : N) (opsL opsR : list op) (cmpv : bool) (wire_ : bool) (new ours theirs removed : list N)
| CDiff (df th : N) (L R : list elem) (wire_ : bool) (new changed removed : list N)
| CCompare (df th : N) (L R : list elem) (wire_ : bool) (new ours theirs removed : list N).

Definition mk_contents (l : list elem) : list elem := fold_left (fun acc e => set_content e acc) l [].

Definition model_diff (df th : N) (cmp : list (N*N) -> list (N*N) -> list (tag*N)) (L R : list elem) (w : bool)
  : option (list (tag * N)) :=
  let my := fresh df th (mk_contents L) in
  let other := remote_of (fresh df th (mk_contents R)) in
  diff_run df th cmp my (if w then wire other else other).

Definition hist_diff (df thl thr : N) (opsL opsR : list op) (cmpv w : bool) : option (list (tag * N)) :=
  let my := run_ops df thl opsL in
  let other := remote_of (run_ops df thr opsR) in
  diff_run df thl (if cmpv then cmp_greater else cmp_equal) my (if w then wire other else other).

Definition model_ok (c : ncase) : bool :=
  match c with
  | CHistDiff df thl thr oL oR cmpv w n ours theirs rm =>
      match hist_diff df thl thr oL oR cmpv w with
      | Some res => same_ids (ids_with TNew res) n && same_ids (ids_with TChanged res) ours
                    && same_ids (ids_with TTheirChanged res) theirs && same_ids (ids_with TRemoved res) rm
      | None => false
      end
  | CDiff df th L R w n ch rm =>
      match model_diff df th cmp_equal L R w with
      | Some res => same_ids (ids_with TNew res) n && same_ids (ids_with TChanged res) ch
                    && same_ids (ids_with TRemoved res) rm && nlist_eqb (ids_with TTheirChanged res) []
      | None => false
      end
  | CCompare df th L R w n ours theirs rm =>
      match model_diff df th cmp_greater L R w with
      | Some res => same_ids (ids_with TNew res) n && same_ids (ids_with TChanged res) ours
                    && same_ids (ids_with TTheirChanged res) theirs && same_ids (ids_with TRemoved res) rm
      | None => false
      end
  end.

Definition spec_ok (c : ncase) : bool :=
  match c with
  | CHistDiff df thl thr oL oR cmpv w n ours theirs rm =>
      let L := contents (run_ops df thl oL) in
      let R := contents (run_ops df thr oR) in
      if cmpv then spec_C07_compare L R n ours theirs rm
      else spec_C07_diff L R n ours rm && nlist_eqb theirs []
  | CDiff df th L R w n ch rm => spec_C07_diff (mk_contents L) (mk_contents R) n ch rm
  | CCompare df th L R w n ours theirs rm => spec_C07_compare (mk_contents L) (mk_contents R) n ours theirs rm
  end.

(* ---- case files carry primitive 63-bit integers only (Coq parses N literals ~10x slower):
   an element is (hash hi, hash lo, id, head) with hash = hi * 2^32 + lo; this decoder is unverified glue *)
Definition n_of (i : int) : N := Z.to_N (Uint63.to_Z i).
Definition el (t : int * int * int * int) : elem :=
  let '(hi, lo, id, hd) := t in mkElem (n_of hi * 4294967296 + n_of lo) (n_of id) (n_of hd).

Inductive iop := ISet (es : list (int * int * int * int)) | IRemove (id : int).
Definition conv_op (o : iop) : op := match o with ISet es => OSet (map el es) | IRemove id => ORemove (n_of id) end.

Inductive case :=
| ICDiff (df th : int) (L R : list (int * int * int * int)) (wire_ : bool) (new changed removed : list int)
| ICCompare (df th : int) (L R : list (int * int * int * int)) (wire_ : bool) (new ours theirs removed : list int)
| ICHistDiff (df thl thr : int) (opsL opsR : list iop) (cmpv : bool) (wire_ : bool) (new ours theirs removed : list int)
(* a pair too large for vm_compute (thousands of elements): compared by the harness against the set difference only;
   carried here just to give the case an index (sizes of the two sides) *)
| ICLarge (nl nr : int).

Definition conv (c : case) : ncase :=
  match c with
  | ICDiff df th L R w n ch rm =>
      CDiff (n_of df) (n_of th) (map el L) (map el R) w (map n_of n) (map n_of ch) (map n_of rm)
  | ICCompare df th L R w n o t rm =>
      CCompare (n_of df) (n_of th) (map el L) (map el R) w (map n_of n) (map n_of o) (map n_of t) (map n_of rm)
  | ICHistDiff df thl thr oL oR cmpv w n o t rm =>
      CHistDiff (n_of df) (n_of thl) (n_of thr) (map conv_op oL) (map conv_op oR) cmpv w
                (map n_of n) (map n_of o) (map n_of t) (map n_of rm)
  | ICLarge _ _ => CDiff 2 1 [] [] false [] [] []
  end.

Fixpoint check_from (i : N) (l : list case) : list (N * N) :=
  match l with
  | [] => []
  | c :: r =>
      let c' := conv c in
      (if spec_ok c' then (if model_ok c' then [] else [(i, 1)]) else [(i, 2)]) ++ check_from (N.succ i) r
  end.

Definition check_all (base : N) (l : list case) : list (N * N) := check_from base l.
