(* Correspondence runner for C12: the harness drives two real key-value stores (keyvaluestorage.New on any-store,
   real ACL) through a history of operations and writes, after every operation, what it observed on both stores.
   [check_all] returns, for every case where something is wrong, (index, code):
     code 1 = an observable differs from the model's,
     code 2 = an observable violates the property predicate spec_C12. *)
From Coq Require Import List NArith ZArith Bool.
Import ListNotations.
From AnySync Require Export Model.KeyValue.

(* one step: the operation, then the observation of store A (who = false) and store B (who = true);
   o_ok of both observations carries the result of the call. *)
Inductive case :=
| CRun (steps : list (op * obs * obs)).

Fixpoint model_run (w : world) (steps : list (op * obs * obs)) : bool :=
  match steps with
  | [] => true
  | (o, oa, ob) :: r =>
      let '(w', ok) := step w o in
      obs_eqb (observe (fst w') ok) oa && obs_eqb (observe (snd w') ok) ob && model_run w' r
  end.

Definition model_ok (c : case) : bool :=
  match c with CRun steps => model_run (empty_state, empty_state) steps end.

(* delivered sets per store, built from the operations and the OBSERVED results only *)
Fixpoint spec_run (da db : list value) (steps : list (op * obs * obs)) : bool :=
  match steps with
  | [] => true
  | (o, oa, ob) :: r =>
      let '(da', db') :=
        match o with
        | OpRaw who _ b =>
            if o_ok oa then (if who then (da, db ++ b) else (da ++ b, db)) else (da, db)
        | OpLocal who _ v =>
            if o_ok oa then (if who then (da, db ++ [v]) else (da ++ [v], db)) else (da, db)
        | OpSync _ | OpSyncStream _ _ => (da ++ db, da ++ db)
        end in
      spec_C12 da' oa && spec_C12 db' ob && spec_run da' db' r
  end.

Definition spec_ok (c : case) : bool :=
  match c with CRun steps => spec_run [] [] steps end.

Fixpoint check_from (i : N) (l : list case) : list (N * N) :=
  match l with
  | [] => []
  | c :: r =>
      (if spec_ok c then (if model_ok c then [] else [(i, 1%N)]) else [(i, 2%N)])
        ++ check_from (N.succ i) r
  end.

Definition check_all (base : N) (l : list case) : list (N * N) := check_from base l.
