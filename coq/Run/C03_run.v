(* Correspondence runner for C03.
     CAdd need_acc v me s ids w res s_after ids_after stored_after
        one AddRawRecord of raw record [w] on a real replica (verifier: need_acc = recordverifier.New(network key),
        v = ShouldValidate; identity me) whose OBSERVED state is [s] and whose in-memory record ids are [ids];
        res / s_after / ids_after / stored_after (ids in storage, GetAfterOrder 1) are what was observed.
     CSame route with_keys s_ref head_ref s_obs head_obs
        a replica that reached the same accepted history by another route (1 batched AddRawRecords, 2 non-validating
        partial decode, 3 rebuilt from in-memory storage at a prefix, 4 rebuilt from any-store storage, 5 caught up via
        RecordsAfter, 6 other observer identity) must expose the same state and head as the reference replica (own
        read keys are compared only when both replicas have the same identity: with_keys).
     CFold v me owner root opts ws s_obs
        replaying the accepted raw records [ws] from the root state in the model gives the observed state.
   check_all: code 1 = model differs from the observation, code 2 = spec_C03 false on the observation. *)
From Coq Require Import List NArith Bool.
Import ListNotations.
From AnySync Require Export Model.Acl.
Open Scope N_scope.

Inductive case :=
| CAdd (need_acc v : bool) (me : acct) (s : state) (ids : list rid) (w : raw) (res : outcome)
       (s_after : state) (ids_after stored_after : list rid)
| CSame (route : N) (with_keys : bool) (s_ref : state) (head_ref : rid) (s_obs : state) (head_obs : rid)
| CFold (v : bool) (me owner : acct) (root : rid) (opts : option (option bool)) (ws : list raw) (s_obs : state).

Definition no_keys (s : state) : state :=
  mkState (accounts s) (invites s) (requests s) (pending s) (keychanges s) (options s) (last s) [].

Definition model_ok (c : case) : bool :=
  match c with
  | CAdd need_acc v me s ids w res s_after ids_after stored_after =>
      match add_raw false need_acc v me (mkList s ids []) w with
      | AddOk l' => outcome_eqb res OAccepted && obs_eqb (l_state l') s_after && list_N_eqb (l_ids l') ids_after
      | AddDup => outcome_eqb res ODup && obs_eqb s s_after && list_N_eqb ids ids_after
      | AddRejected => outcome_eqb res ORejected && obs_eqb s s_after && list_N_eqb ids ids_after
      end
  | CSame _ _ _ _ _ _ => true
  | CFold v me owner root opts ws s_obs =>
      match replay false false v me (init_state me owner root opts) ws with
      | Some s => obs_eqb s s_obs
      | None => false
      end
  end.

Definition spec_ok (c : case) : bool :=
  match c with
  | CAdd need_acc v me s ids w res s_after ids_after stored_after =>
      spec_C03_add need_acc s ids w res s_after ids_after stored_after
  | CSame _ with_keys s_ref head_ref s_obs head_obs =>
      (head_ref =? head_obs) &&
      (if with_keys then obs_eqb s_ref s_obs else obs_eqb (no_keys s_ref) (no_keys s_obs))
  | CFold _ _ _ _ _ _ _ => true
  end.

Fixpoint check_from (i : N) (l : list case) : list (N * N) :=
  match l with
  | [] => []
  | c :: r =>
      (if spec_ok c then (if model_ok c then [] else [(i, 1)]) else [(i, 2)])
        ++ check_from (N.succ i) r
  end.

Definition check_all (base : N) (l : list case) : list (N * N) := check_from base l.
