(* Correspondence runner for C03.
     CAdd need_acc v me s ids w res s_after ids_after stored_after
        one AddRawRecord of raw record [w] on a real replica (verifier: need_acc = recordverifier.New(network key),
        v = ShouldValidate; identity me) whose OBSERVED state is [s] and whose in-memory record ids are [ids];
        res / s_after / ids_after / stored_after (ids in storage, GetAfterOrder 1) are what was observed.
     CSame route with_keys s_ref head_ref s_obs head_obs
        a replica that reached the same accepted history by another route (1 batched AddRawRecords, 2 non-validating
        partial decode, 3 rebuilt from in-memory storage at a prefix, 4 rebuilt from any-store storage, 5 caught up via
        RecordsAfter, 6 other observer identity) must expose the same state and head as the reference replica (own
        read keys are compared only when both replicas have the same identity: with_keys).
        Routes of the batch stream: 7 a replica that was offered batches / sequences CONTAINING A RECORD THAT MUST BE
        REJECTED (failing at content k of a multi-content record, late in apply, raw mutation) against the one-at-a-time
        reference replica at the same head; 8 such a replica (s_obs) against a list rebuilt from its OWN storage (s_ref).
     CFold v me owner root opts ws s_obs
        replaying the accepted raw records [ws] from the root state in the model gives the observed state.
     CBatch need_acc v me s ids ws ok s_after ids_after stored_after
        one AddRawRecords call with the raw records [ws] (known records, new valid records, a record that must be
        rejected, valid continuation) on a real replica whose OBSERVED state is [s] and in-memory ids [ids]; ok = the
        call returned nil; s_after / ids_after / stored_after observed afterwards.  Model: [add_raws] (skips duplicates,
        stops at the first other error, a rejected record leaves no trace).  Spec: [spec_C03_batch] below.
     COne need_acc v me one s ids w res one_after s_after ids_after stored_after
        one AddRawRecord on a replica of a ONE-TO-ONE space ACL (root with OneToOneInfo); one / one_after = the OBSERVED
        AclState.IsOneToOne() before / after.  Model: [oadd_raw] of Model/AclOneToOne.v with the repaired Copy().  Spec: while
        the replica is one-to-one nothing is accepted and nothing changes ([spec_one_add]); a replica that is not
        one-to-one stays so and obeys [spec_C03_add].
     COneBatch need_acc v me one s ids ws ok one_after s_after ids_after stored_after
        one AddRawRecords call on such a replica (also the catch-up from what another replica's RecordsAfter served).
        Model: [oadd_raws]; spec: [spec_one_batch] / [spec_C03_batch].
     COneBuild need_acc v me owner w1 w2 root ws live ok one_r s_r ids_r
        BuildAclListWithIdentity over a storage holding the one-to-one root (rid [root], shared owner key [owner], writers
        [w1] [w2]) and the raw records [ws]; live = Some (IsOneToOne, state, in-memory ids) of the LIVE replica whose
        storage this is (restart), None for a first build; ok = the build succeeded, one_r / s_r / ids_r observed on
        the rebuilt list.  Model: [obuild] from [init_one]; spec: [spec_rebuild] (the rebuilt list exists and equals the
        live one), for a first build: it exists and is one-to-one.
   check_all: code 1 = model differs from the observation, code 2 = spec_C03 false on the observation. *)
From Coq Require Import List NArith Bool.
Import ListNotations.
From AnySync Require Export Model.Acl Model.AclOneToOne.
Open Scope N_scope.

Inductive case :=
| CAdd (need_acc v : bool) (me : acct) (s : state) (ids : list rid) (w : raw) (res : outcome)
       (s_after : state) (ids_after stored_after : list rid)
| CSame (route : N) (with_keys : bool) (s_ref : state) (head_ref : rid) (s_obs : state) (head_obs : rid)
| CFold (v : bool) (me owner : acct) (root : rid) (opts : option (option bool)) (ws : list raw) (s_obs : state)
| CBatch (need_acc v : bool) (me : acct) (s : state) (ids : list rid) (ws : list raw) (ok : bool)
         (s_after : state) (ids_after stored_after : list rid)
| COne (need_acc v : bool) (me : acct) (one : bool) (s : state) (ids : list rid) (w : raw) (res : outcome)
       (one_after : bool) (s_after : state) (ids_after stored_after : list rid)
| COneBatch (need_acc v : bool) (me : acct) (one : bool) (s : state) (ids : list rid) (ws : list raw) (ok : bool)
            (one_after : bool) (s_after : state) (ids_after stored_after : list rid)
| COneBuild (need_acc v : bool) (me owner w1 w2 : acct) (root : rid) (ws : list raw)
            (live : option (bool * state * list rid)) (ok one_r : bool) (s_r : state) (ids_r : list rid).

(* ---- specification of one AddRawRecords call over OBSERVED behaviour (never calls the machine of Model/Acl.v):
   storage and memory agree; the old log is a prefix of the new one; the new ids are ids of offered records, in the
   offered order, none known before; every newly accepted id belongs to an offered record with that id whose CID,
   signatures and decoding are fine and whose prev is the id accepted just before it (the old head for the first);
   the state's last record id is the new head; nothing accepted => observable state unchanged; the call returns nil
   iff every offered record is in the log afterwards. *)
Fixpoint is_prefix (a b : list N) : bool :=
  match a, b with
  | [], _ => true
  | x :: a', y :: b' => (x =? y) && is_prefix a' b'
  | _ :: _, [] => false
  end.
Fixpoint subseq (a b : list N) : bool :=
  match a, b with
  | [], _ => true
  | _ :: _, [] => false
  | x :: a', y :: b' => if x =? y then subseq a' b' else subseq a b'
  end.
Definition raw_fine (need_acc : bool) (w : raw) : bool :=
  w_cid_ok w && w_sig_ok w && w_decodes w && (negb need_acc || w_acceptor_ok w).
Fixpoint chained (need_acc : bool) (ws : list raw) (prev : rid) (new : list rid) : bool :=
  match new with
  | [] => true
  | x :: rest =>
      existsb (fun w => (w_id w =? x) && raw_fine need_acc w && (w_prev w =? prev)) ws && chained need_acc ws x rest
  end.
Definition spec_C03_batch (need_acc : bool) (s : state) (ids : list rid) (ws : list raw) (ok : bool)
           (s_after : state) (ids_after stored_after : list rid) : bool :=
  let new := skipn (length ids) ids_after in
  list_N_eqb stored_after ids_after &&
  is_prefix ids ids_after &&
  subseq new (map w_id ws) &&
  forallb (fun x => negb (memN x ids)) new &&
  chained need_acc ws (last_or ids 0) new &&
  (last s_after =? last_or ids_after 0) &&
  (match new with [] => obs_eqb s s_after | _ => true end) &&
  Bool.eqb ok (forallb (fun w => memN (w_id w) ids_after) ws).

Definition no_keys (s : state) : state :=
  mkState (accounts s) (invites s) (requests s) (pending s) (keychanges s) (options s) (last s) [].

Definition model_ok (c : case) : bool :=
  match c with
  | CAdd need_acc v me s ids w res s_after ids_after stored_after =>
      match add_raw false need_acc v me (mkList s ids []) w with
      | AddOk l' => outcome_eqb res OAccepted && obs_eqb (l_state l') s_after && list_N_eqb (l_ids l') ids_after
      | AddDup => outcome_eqb res ODup && obs_eqb s s_after && list_N_eqb ids ids_after
      | AddRejected => outcome_eqb res ORejected && obs_eqb s s_after && list_N_eqb ids ids_after
      end
  | CSame _ _ _ _ _ _ => true
  | CFold v me owner root opts ws s_obs =>
      match replay false false v me (init_state me owner root opts) ws with
      | Some s => obs_eqb s s_obs
      | None => false
      end
  | CBatch need_acc v me s ids ws ok s_after ids_after stored_after =>
      match add_raws false need_acc v me (mkList s ids []) ws with
      | (l', ok') => Bool.eqb ok ok' && obs_eqb (l_state l') s_after && list_N_eqb (l_ids l') ids_after
      end
  | COne need_acc v me one s ids w res one_after s_after ids_after stored_after =>
      match oadd_raw false false need_acc v me (mkOList one (mkList s ids [])) w with
      | OAddOk l' => outcome_eqb res OAccepted && Bool.eqb (o_one l') one_after &&
                     obs_eqb (l_state (o_list l')) s_after && list_N_eqb (l_ids (o_list l')) ids_after
      | OAddDup => outcome_eqb res ODup && Bool.eqb one one_after && obs_eqb s s_after && list_N_eqb ids ids_after
      | OAddRejected => outcome_eqb res ORejected && Bool.eqb one one_after && obs_eqb s s_after && list_N_eqb ids ids_after
      end
  | COneBatch need_acc v me one s ids ws ok one_after s_after ids_after stored_after =>
      match oadd_raws false false need_acc v me (mkOList one (mkList s ids [])) ws with
      | (l', ok') => Bool.eqb ok ok' && Bool.eqb (o_one l') one_after &&
                     obs_eqb (l_state (o_list l')) s_after && list_N_eqb (l_ids (o_list l')) ids_after
      end
  | COneBuild need_acc v me owner w1 w2 root ws live ok one_r s_r ids_r =>
      match obuild false need_acc v me true (init_one me owner w1 w2 root) root ws with
      | Some l => ok && Bool.eqb (o_one l) one_r && obs_eqb (l_state (o_list l)) s_r && list_N_eqb (l_ids (o_list l)) ids_r
      | None => negb ok
      end
  end.

Definition spec_ok (c : case) : bool :=
  match c with
  | CAdd need_acc v me s ids w res s_after ids_after stored_after =>
      spec_C03_add need_acc s ids w res s_after ids_after stored_after
  | CSame _ with_keys s_ref head_ref s_obs head_obs =>
      (head_ref =? head_obs) &&
      (if with_keys then obs_eqb s_ref s_obs else obs_eqb (no_keys s_ref) (no_keys s_obs))
  | CFold _ _ _ _ _ _ _ => true
  | CBatch need_acc v me s ids ws ok s_after ids_after stored_after =>
      spec_C03_batch need_acc s ids ws ok s_after ids_after stored_after
  | COne need_acc v me one s ids w res one_after s_after ids_after stored_after =>
      if one then spec_one_add s ids res one_after s_after ids_after stored_after
      else negb one_after && spec_C03_add need_acc s ids w res s_after ids_after stored_after
  | COneBatch need_acc v me one s ids ws ok one_after s_after ids_after stored_after =>
      if one then spec_one_batch s ids ws ok one_after s_after ids_after stored_after
      else negb one_after && spec_C03_batch need_acc s ids ws ok s_after ids_after stored_after
  | COneBuild need_acc v me owner w1 w2 root ws live ok one_r s_r ids_r =>
      match live with
      | Some (one, s, ids) => spec_rebuild one s ids ok one_r s_r ids_r
      | None => ok && one_r
      end
  end.

Fixpoint check_from (i : N) (l : list case) : list (N * N) :=
  match l with
  | [] => []
  | c :: r =>
      (if spec_ok c then (if model_ok c then [] else [(i, 1)]) else [(i, 2)])
        ++ check_from (N.succ i) r
  end.

Definition check_all (base : N) (l : list case) : list (N * N) := check_from base l.
