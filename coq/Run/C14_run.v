(* Correspondence runner for C14: the harness runs the real secureservice.HandshakeOutbound / HandshakeInbound
   (handshake.OutgoingHandshake / IncomingHandshake + the real credential checkers) over an in-memory
   connection with a man in the middle and writes what both ends returned as [case]s.
   [check_all] returns, for every case where something is wrong, (index, code):
     code 1 = the implementation's observable differs from the (repaired) model's,
     code 2 = the implementation's observable violates the property predicate spec_C14. *)
From Coq Require Import List NArith Bool.
Import ListNotations.
From AnySync Require Export Model.Handshake.

Inductive case :=
| HS (c : hs_case) (obs_out obs_in : outcome).

Definition model_ok (c : case) : bool :=
  match c with
  | HS k oo oi => let '(mo, mi) := hs_run true k in outcome_eqb mo oo && outcome_eqb mi oi
  end.

Definition spec_ok (c : case) : bool :=
  match c with
  | HS k oo oi => spec_C14 k oo oi
  end.

Fixpoint check_from (i : N) (l : list case) : list (N * N) :=
  match l with
  | [] => []
  | c :: r =>
      (if spec_ok c then (if model_ok c then [] else [(i, 1%N)]) else [(i, 2%N)])
        ++ check_from (N.succ i) r
  end.

Definition check_all (base : N) (l : list case) : list (N * N) := check_from base l.

(* Diagnostic only (not used by bin/check): compares with the model of the ORIGINAL release() -- on an unrepaired
   tree this must report nothing, which is the evidence that [fx = false] is what the original code does. *)
Definition legacy_ok (c : case) : bool :=
  match c with
  | HS k oo oi => let '(mo, mi) := hs_run false k in outcome_eqb mo oo && outcome_eqb mi oi
  end.
Fixpoint check_legacy_from (i : N) (l : list case) : list N :=
  match l with
  | [] => []
  | c :: r => (if legacy_ok c then [] else [i]) ++ check_legacy_from (N.succ i) r
  end.
