(* Correspondence runner for C14: the harness runs the real secureservice.HandshakeOutbound / HandshakeInbound
   (handshake.OutgoingHandshake / IncomingHandshake + the real credential checkers) over an in-memory
   connection with a man in the middle and writes what both ends returned as [case]s.
   [check_all] returns, for every case where something is wrong, (index, code):
     code 1 = the implementation's observable differs from the (repaired) model's,
     code 2 = the implementation's observable violates the property predicate spec_C14. *)
From Coq Require Import List NArith Bool.
Import ListNotations.
From AnySync Require Export Model.Handshake.

Inductive case :=
| HS (c : hs_case) (obs_out obs_in : outcome)
(* a session: consecutive handshakes on the same secureservice objects (same credential checker, same handshake
   pool); every successful handshake's returned context is kept and its labels (identity, proto version, client
   version) are read again after each later handshake and at the end of the session *)
| SESS (l : list sess_obs).

Fixpoint results_eqb (a b : list result) : bool :=
  match a, b with
  | [], [] => true
  | x :: a', y :: b' => result_eqb x y && results_eqb a' b'
  | _, _ => false
  end.

Definition sess_obs_eqb (m o : sess_obs) : bool :=
  outcome_eqb (so_out m) (so_out o) && outcome_eqb (so_in m) (so_in o)
  && results_eqb (so_later_out m) (so_later_out o) && results_eqb (so_later_in m) (so_later_in o).

Fixpoint sess_eqb (m o : list sess_obs) : bool :=
  match m, o with
  | [], [] => true
  | x :: m', y :: o' => sess_obs_eqb x y && sess_eqb m' o'
  | _, _ => false
  end.

(* the model's session for the same cases and the same number of later reads *)
Definition sess_model (fx : bool) (l : list sess_obs) : list sess_obs :=
  model_session fx pooled_zero pooled_zero
    (map (fun s => (so_case s, length (so_later_out s), length (so_later_in s))) l).

Definition model_ok (c : case) : bool :=
  match c with
  | HS k oo oi => let '(mo, mi) := hs_run true k in outcome_eqb mo oo && outcome_eqb mi oi
  | SESS l => sess_eqb (sess_model true l) l
  end.

Definition spec_ok (c : case) : bool :=
  match c with
  | HS k oo oi => spec_C14 k oo oi
  | SESS l => spec_C14_session l
  end.

Fixpoint check_from (i : N) (l : list case) : list (N * N) :=
  match l with
  | [] => []
  | c :: r =>
      (if spec_ok c then (if model_ok c then [] else [(i, 1%N)]) else [(i, 2%N)])
        ++ check_from (N.succ i) r
  end.

Definition check_all (base : N) (l : list case) : list (N * N) := check_from base l.

(* Diagnostic only (not used by bin/check): compares with the model of the ORIGINAL release() -- on an unrepaired
   tree this must report nothing, which is the evidence that [fx = false] is what the original code does. *)
Definition legacy_ok (c : case) : bool :=
  match c with
  | HS k oo oi => let '(mo, mi) := hs_run false k in outcome_eqb mo oo && outcome_eqb mi oi
  | SESS l => sess_eqb (sess_model false l) l
  end.
Fixpoint check_legacy_from (i : N) (l : list case) : list N :=
  match l with
  | [] => []
  | c :: r => (if legacy_ok c then [] else [i]) ++ check_legacy_from (N.succ i) r
  end.
