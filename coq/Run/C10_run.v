(* Correspondence runner for C10.  One case = one workload operation executed by the real code on a real
   any-store database through the counting / fault-injecting wrapper:
     the model's world before the operation (durable dump + live objects), the operation, and the observation
     (storage calls of the fault-free run, crash image at every boundary, one injected fault per boundary
     followed by a retry).
   [check_all] returns (index, code):  2 = spec_C10 is false on the OBSERVED behaviour,
                                       1 = the observation differs from the model's prediction
                                           (or the case is outside the model's preconditions). *)
From Coq Require Import List NArith Bool Arith.
Import ListNotations.
From AnySync Require Export Model.Store.

(* Second fault kind ("cancel"): the context the operation was called with is cancelled immediately before the
   k-th storage call; the call (and every later one) is answered by the real store.  The model has ONE notion of a
   failed storage call ([fault], Model/Store.v): the recovery may not depend on why the call failed, nor on the
   context of the failed operation being alive.  So the outcome at boundary k is either
     [CErr f]        the operation returned an error: [f] is judged exactly like an injected error
                     ([spec_fault], and compared with [model_fault]); or
     [CDone live im] the store did not react to the dead context any more (any-store's Commit / Rollback take no
                     context) and the operation returned no error: it must then be COMPLETE, i.e. durable state,
                     reopened objects and live heads as after the fault-free run. *)
Inductive cobs :=
| CErr (f : fobs)
| CDone (live : list N) (final : image).

Inductive case :=
| Case (w : world) (o : op) (ob : obs)
| CaseCancel (w : world) (o : op) (ob : obs) (cs : list cobs).
   (* [ob] of a CaseCancel: the fault-free observation with o_images = [] and o_faults = [] (they are judged in
      the Case of the same operation) *)

(* number of modelled calls among the first k observed calls *)
Definition modelled_prefix (l : list ocall) (k : nat) : nat := length (strip (firstn k l)).

Definition image_eqb (a b : image) : bool := table_eqb (im_table a) (im_table b).

Definition fobs_eqb (a b : fobs) : bool :=
  Bool.eqb (f_err a) (f_err b)
  && sorted_eqb (f_live a) (f_live b)
  && sorted_eqb (f_stored a) (f_stored b)
  && table_eqb (f_table a) (f_table b)
  && Bool.eqb (f_retry_ok a) (f_retry_ok b)
  && sorted_eqb (f_live2 a) (f_live2 b)
  && image_eqb (f_final a) (f_final b).

Fixpoint forall_idx {A} (f : nat -> A -> bool) (i : nat) (l : list A) : bool :=
  match l with
  | [] => true
  | x :: r => f i x && forall_idx f (S i) r
  end.

(* the storage calls are compared as a multiset-like projection (same length, each call has a partner):
   the order of the writes inside the one transaction is not constrained by the property; the bracket
   structure of the OBSERVED sequence is checked by spec_C10 *)
Definition calls_sub (a b : list call) : bool := forallb (fun c => existsb (call_eqb c) b) a.
Definition script_eqb (a b : list call) : bool :=
  (length a =? length b)%nat && calls_sub a b && calls_sub b a.

Definition spec_done (ob : obs) (live : list N) (final : image) : bool :=
  table_eqb (im_table final) (o_post ob) && inv_b (im_table final) && reopen_ok final
  && sorted_eqb live (o_live ob).

Definition spec_cancel (ob : obs) (cs : list cobs) : bool :=
  o_ok ob
  && forallb (fun c => match c with CErr f => spec_fault ob f | CDone l im => spec_done ob l im end) cs
  && (length cs =? length (o_calls ob))%nat.

Definition model_cancel_ok (w : world) (o : op) (ob : obs) (cs : list cobs) : bool :=
  let m := model_obs w o in
  inv_b (w_store w) && uniq (w_store w) && consistent w && tuniq (w_trees w)
  && op_wf w o && op_wf2 w o && op_live w o
  && table_eqb (o_pre ob) (w_store w)
  && (o_obj ob =? o_obj m)
  && Bool.eqb (o_ok ob) (o_ok m)
  && script_eqb (strip (o_calls ob)) (script w o)
  && table_eqb (o_post ob) (o_post m)
  && sorted_eqb (o_live ob) (o_live m)
  && forall_idx (fun k c =>
       match c with
       | CErr f => fobs_eqb f (model_fault w o (Nat.max 1 (modelled_prefix (o_calls ob) k)))
       | CDone l im => table_eqb (im_table im) (o_post m) && sorted_eqb l (o_live m)
       end) 1 cs.

Definition model_ok (c : case) : bool :=
  match c with CaseCancel w o ob cs => model_cancel_ok w o ob cs | Case w o ob =>
  let m := model_obs w o in
  (* the case is inside the model's domain *)
  inv_b (w_store w) && uniq (w_store w) && consistent w && tuniq (w_trees w)
  && op_wf w o && op_wf2 w o && op_live w o
  && table_eqb (o_pre ob) (w_store w)
  && (o_obj ob =? o_obj m)
  && Bool.eqb (o_ok ob) (o_ok m)
  && script_eqb (strip (o_calls ob)) (script w o)
  && table_eqb (o_post ob) (o_post m)
  && sorted_eqb (o_live ob) (o_live m)
  && forall_idx (fun k im => table_eqb (im_table im) (crash w o (modelled_prefix (o_calls ob) k))) 0 (o_images ob)
  && forall_idx (fun k f => fobs_eqb f (model_fault w o (Nat.max 1 (modelled_prefix (o_calls ob) k)))) 1 (o_faults ob)
  end.

Definition spec_ok (c : case) : bool :=
  match c with
  | Case _ _ ob => spec_C10 ob
  | CaseCancel _ _ ob cs => spec_cancel ob cs
  end.

Fixpoint check_from (i : N) (l : list case) : list (N * N) :=
  match l with
  | [] => []
  | c :: r =>
      (if spec_ok c then (if model_ok c then [] else [(i, 1%N)]) else [(i, 2%N)])
        ++ check_from (N.succ i) r
  end.

Definition check_all (base : N) (l : list case) : list (N * N) := check_from base l.
