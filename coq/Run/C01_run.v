(* Correspondence runner for C01.  One case = one observed history of N real SyncTrees: the label sequence
   (AddContent with the change the implementation created, deliveries with the delivered message, SyncWithPeer)
   and after every step every replica's stored ids and heads plus the messages the step emitted.
   check_all returns (index, code):
     code 1 = the history differs from Model/TreeSync.v [step] replayed on the same labels
              (created change, stored sets, heads, emitted messages: kind, addressee, heads and change ids as sets,
               snapshot path) — accepted if it matches with NextBatch in its repaired OR its legacy form
              (fixes/C09-batch-heads.patch changes only the heads announced with later batches),
     code 2 = the observed history violates spec_C01. *)
From Coq Require Import List NArith Bool Arith.
Import ListNotations.
From AnySync Require Export Model.TreeSync.

Inductive olabel :=
| LAdd (r : nat) (snap : bool) (c : change) (size : N)
| LDeliver (r from : nat) (m : msg)
| LSync (r p : nat).

Inductive case :=
| CHist (n : nat) (root : change) (rootsize : N) (phase : nat) (steps : list (olabel * sobs)).

Definition to_label (l : olabel) : label :=
  match l with
  | LAdd r s c sz => LocalAdd r s (cid c) sz
  | LDeliver r f m => Deliver r f m
  | LSync r p => SyncWithPeer r p
  end.

Definition actor (l : olabel) : nat :=
  match l with LAdd r _ _ _ => r | LDeliver r _ _ => r | LSync r _ => r end.

Definition set_eqb (a b : list N) : bool := list_eqb (isort a) (isort b).

Definition msg_eqb (a b : msg) : bool :=
  match a, b with
  | MHead h c p, MHead h' c' p' => set_eqb h h' && set_eqb c c' && list_eqb p p'
  | MReq h p, MReq h' p' => set_eqb h h' && list_eqb p p'
  | MResp h c p, MResp h' c' p' => set_eqb h h' && set_eqb c c' && list_eqb p p'
  | _, _ => false
  end.

Fixpoint emis_eqb (a b : list emission) : bool :=
  match a, b with
  | [], [] => true
  | (q, m) :: r, (q', m') :: r' => Nat.eqb q q' && msg_eqb m m' && emis_eqb r r'
  | _, _ => false
  end.

Fixpoint reps_eqb (G : list change) (rs : list replica) (os : list (list N * list N)) : bool :=
  match rs, os with
  | [], [] => true
  | r :: rr, (hv, hd) :: oo => set_eqb (r_have r) hv && set_eqb (rep_heads G r) hd && reps_eqb G rr oo
  | _, _ => false
  end.

Definition created_ok (w : world) (l : olabel) : bool :=
  match l with
  | LAdd _ s c _ =>
      match find_change (wG w) (cid c) with
      | Some c' => set_eqb (cprev c) (cprev c') && N.eqb (csnap c) (csnap c') && Bool.eqb (cissnap c') s
      | None => false
      end
  | _ => true
  end.

(* first step (index, what) at which model and observation differ: 1 created change, 2 replicas, 3 emissions *)
Fixpoint diverge (nb : N -> liter -> batch * liter) (w : world) (k : nat) (steps : list (olabel * sobs))
  : option (nat * N) :=
  match steps with
  | [] => None
  | (l, o) :: r =>
      let '(w', em) := step nb w (to_label l) in
      if negb (created_ok w' l) then Some (k, 1%N)
      else if negb (reps_eqb (wG w') (w_reps w') (so_reps o)) then Some (k, 2%N)
      else if negb (emis_eqb em (so_emit o)) then Some (k, 3%N)
      else diverge nb w' (S k) r
  end.

Definition model_ok (c : case) : bool :=
  match c with
  | CHist n root rs _ steps =>
      let w := init_world n root rs in
      match diverge next_batch w 0 steps with
      | None => true
      | Some _ => match diverge next_batch_legacy w 0 steps with None => true | Some _ => false end
      end
  end.

Definition observed_dag (root : change) (steps : list (olabel * sobs)) : list change :=
  root :: flat_map (fun s => match fst s with LAdd _ _ c _ => [c] | _ => [] end) steps.

Definition no_add_after (phase : nat) (steps : list (olabel * sobs)) : bool :=
  forallb (fun s => match fst s with LAdd _ _ _ _ => false | _ => true end) (skipn phase steps).

Definition spec_ok (c : case) : bool :=
  match c with
  | CHist n root rs phase steps =>
      no_add_after phase steps
      && spec_C01 (observed_dag root steps) (map (fun s => (actor (fst s), snd s)) steps)
  end.

Definition diag (c : case) : option (nat * N) :=
  match c with
  | CHist n root rs _ steps => diverge next_batch (init_world n root rs) 0 steps
  end.

Fixpoint check_from (i : N) (l : list case) : list (N * N) :=
  match l with
  | [] => []
  | c :: r =>
      (if spec_ok c then (if model_ok c then [] else [(i, 1%N)]) else [(i, 2%N)])
        ++ check_from (N.succ i) r
  end.

Definition check_all (base : N) (l : list case) : list (N * N) := check_from base l.
