(* Correspondence runner for C05.  The harness writes, per generated membership history, everything it OBSERVED on the
   real code (raw contents with the generations found inside the ciphertexts, the reference view after every record,
   every account's own key view rebuilt from the raw log), and per tree probe the observed bytes / decryptions.
   [check_all] returns (index, code): 1 = the implementation differs from the model, 2 = spec_C05 false on the
   implementation's observations. *)
From Coq Require Import List NArith Bool.
Import ListNotations.
From AnySync Require Export Model.AclKeys Model.AclKeysTree.

Inductive case :=
| CHist (owner : acct) (root : rid) (U : list acct) (steps : list step)
| CTree (t : tobs)
| COpen (rs : list round)    (* long-lived open trees of all accounts across one history, Model/AclKeysTree.v *)
| CIlv (x : iobs).           (* one tree write racing one ACL record injected at a crossing of the ACL lock *)

Definition model_ok (c : case) : bool :=
  match c with
  | CHist owner root U steps => run_matches false (kinit owner root U) steps
  | CTree t => tree_model_ok t
  | COpen rs => open_tree_model_ok rs
  | CIlv x => ilv_model_ok x
  end.

Definition spec_ok (c : case) : bool :=
  match c with
  | CHist owner root U steps => spec_C05 owner root steps
  | CTree t => spec_C05_tree t
  | COpen rs => spec_C05_open rs
  | CIlv x => spec_C05_ilv x
  end.

Fixpoint check_from (i : N) (l : list case) : list (N * N) :=
  match l with
  | [] => []
  | c :: r =>
      (if spec_ok c then (if model_ok c then [] else [(i, 1%N)]) else [(i, 2%N)])
        ++ check_from (N.succ i) r
  end.

Definition check_all (base : N) (l : list case) : list (N * N) := check_from base l.
