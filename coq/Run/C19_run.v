(* Correspondence runner for C19: the harness drives the real net/streampool with gate-controlled fake
   drpc streams and writes, per case, the operation list and what it observed after every operation.
   [check_all] returns (index, code) for bad cases:
     code 1 = the implementation's observables differ from the model's ([model_hist]),
     code 2 = the observed history violates the property predicate [spec_C19]. *)
From Coq Require Import List NArith Bool Arith.
Import ListNotations.
From AnySync Require Export Model.StreamPool Model.StreamPoolHook.
Open Scope N_scope.

Inductive case :=
| CHist (workers dcap : N) (ops : list hop) (observed : list obs)
(* the same pool driven by an OWNER (lock order owner mutex -> pool.mu, close hook that takes the owner mutex and calls
   back into the pool): Model/StreamPoolHook.v; every pool history of the harness is of this form *)
| CHook (workers dcap : N) (ops : list hop2) (observed : list obs2)
| CMq (cap : N) (ops : list mqop) (observed : list mqobs).

(* monomorphic builders used by the generated case files (fast elaboration) *)
Definition nN : list N := [].
Definition cN (x : N) (l : list N) : list N := x :: l.
Definition pP (a b : N) : N * N := (a, b).
Definition nP : list (N * N) := [].
Definition cP (x : N * N) (l : list (N * N)) := x :: l.
Definition pE (sid m : N) (entered : bool) : ev := (sid, (m, entered)).
Definition nE : list ev := [].
Definition cE (x : ev) (l : list ev) := x :: l.
Definition pK (a : N) (b : list N) : N * list N := (a, b).
Definition nK : list (N * list N) := [].
Definition cK (x : N * list N) (l : list (N * list N)) := x :: l.
Definition pV (a : N) (b : sview) : N * sview := (a, b).
Definition nV : list (N * sview) := [].
Definition cV (x : N * sview) (l : list (N * sview)) := x :: l.
Definition sOpen (cap : N) (tags : list N) (cg : bool) : option (N * list N * bool) := Some (cap, tags, cg).
Definition sFail : option (N * list N * bool) := None.
Definition pS (p : N) (o : option (N * list N * bool)) : N * option (N * list N * bool) := (p, o).
Definition nS : list (N * option (N * list N * bool)) := [].
Definition cS (x : N * option (N * list N * bool)) (l : list (N * option (N * list N * bool))) := x :: l.
Definition nH : list hop := [].
Definition cH (x : hop) (l : list hop) := x :: l.
Definition nM : list mqop := [].
Definition cM (x : mqop) (l : list mqop) := x :: l.
Definition nQ : list mqobs := [].
Definition cQ (x : mqobs) (l : list mqobs) := x :: l.
Definition nO : list obs := [].
Definition cO (x : obs) (l : list obs) := x :: l.
Definition pT (sid : N) (tags view : list N) : note := (sid, (tags, view)).
Definition nT : list note := [].
Definition cT (x : note) (l : list note) := x :: l.
Definition nH2 : list hop2 := [].
Definition cH2 (x : hop2) (l : list hop2) := x :: l.
Definition nO2 : list obs2 := [].
Definition cO2 (x : obs2) (l : list obs2) := x :: l.

Fixpoint list_eqb {A} (e : A -> A -> bool) (a b : list A) : bool :=
  match a, b with
  | [], [] => true
  | x :: a', y :: b' => e x y && list_eqb e a' b'
  | _, _ => false
  end.

Definition pairNN_eqb (a b : N * N) : bool := (fst a =? fst b) && (snd a =? snd b).
Definition ev_eqb (a b : ev) : bool :=
  (fst a =? fst b) && (fst (snd a) =? fst (snd b)) && Bool.eqb (snd (snd a)) (snd (snd b)).
Definition kv_eqb (a b : N * list N) : bool := (fst a =? fst b) && list_eqb N.eqb (snd a) (snd b).
Definition sview_eqb (a b : sview) : bool :=
  (sv_peer a =? sv_peer b) && list_eqb N.eqb (sv_tags a) (sv_tags b) && (sv_qlen a =? sv_qlen b) && (sv_cap a =? sv_cap b).
Definition snap_eqb (a b : snap) : bool :=
  list_eqb (fun x y => (fst x =? fst y) && sview_eqb (snd x) (snd y)) (sn_streams a) (sn_streams b)
  && list_eqb kv_eqb (sn_by_peer a) (sn_by_peer b)
  && list_eqb kv_eqb (sn_by_tag a) (sn_by_tag b).
Definition obs_eqb (a b : obs) : bool :=
  (o_err a =? o_err b) && list_eqb N.eqb (o_ids a) (o_ids b) && list_eqb pairNN_eqb (o_takes a) (o_takes b)
  && list_eqb ev_eqb (o_events a) (o_events b)
  && list_eqb N.eqb (o_closed a) (o_closed b) && list_eqb kv_eqb (o_removed a) (o_removed b)
  && snap_eqb (o_snap a) (o_snap b) && Bool.eqb (o_timely a) (o_timely b).

Definition note_eqb (a b : note) : bool :=
  (fst a =? fst b) && list_eqb N.eqb (fst (snd a)) (fst (snd b)) && list_eqb N.eqb (snd (snd a)) (snd (snd b)).
Definition obs2_eqb (a b : obs2) : bool :=
  obs_eqb (o2_base a) (o2_base b) && list_eqb note_eqb (o2_notes a) (o2_notes b)
  && list_eqb N.eqb (o2_pending a) (o2_pending b).

Definition model_ok (c : case) : bool :=
  match c with
  | CHist w d ops observed => list_eqb obs_eqb (model_hist (mkConfig w d) ops) observed
  | CHook w d ops observed => list_eqb obs2_eqb (model_hist2 (mkConfig w d) ops) observed
  | CMq cap ops observed =>
      list_eqb (fun a b => (mo_err a =? mo_err b) && list_eqb pairNN_eqb (mo_takes a) (mo_takes b)
                           && list_eqb N.eqb (mo_threads a) (mo_threads b))
               (mq_hist (mq_init cap) 0 ops) observed
  end.

Definition spec_ok (c : case) : bool :=
  match c with
  | CHist _ _ ops observed => spec_C19 ops observed
  | CHook _ _ ops observed => spec_C19_hook ops observed
  | CMq _ _ observed => spec_C19_mq observed
  end.

Fixpoint check_from (i : N) (l : list case) : list (N * N) :=
  match l with
  | [] => []
  | c :: r =>
      (if spec_ok c then (if model_ok c then [] else [(i, 1)]) else [(i, 2)])
        ++ check_from (N.succ i) r
  end.

Definition check_all (base : N) (l : list case) : list (N * N) := check_from base l.

(* smoke test of the model itself: the model's own history satisfies the predicate on a small scenario *)
Example smoke :
  let ops := [HAddStream 1 1 [7; 7] false; HAddStream 2 2 [7] true; HBroadcast [7]; HBroadcast [7];
              HBroadcast [7; 8]; HSendById [2; 1]; HRelease 1 true; HAddTags 2 [8; 8]; HRelease 2 false;
              HStreams [7; 8]; HCloseRelease 2; HStreams [7; 8]; HReadErr 1; HBroadcast [7]] in
  spec_C19 ops (model_hist (mkConfig 1 2) ops) = true.
Proof. vm_compute. reflexivity. Qed.

(* the owner layer: a stream ends inside the owner's section (hook parked), the owner changes tags of another stream and
   broadcasts with the hook parked, leaves its section (hook returns, sees only the live stream) *)
Example smoke_hook :
  let ops := [H2 (HAddStream 1 1 [7] false); H2 (HAddStream 2 1 [7; 8] false); H2Lock; H2 (HReadErr 1);
              H2 (HRemoveTags 2 [8] true); H2 (HBroadcast [7]); H2Unlock; H2 (HReadErr 2); H2 (HStreams [7])] in
  spec_C19_hook ops (model_hist2 (mkConfig 1 2) ops) = true
  /\ map (fun o => (map fst (o_removed (o2_base o)), o2_notes o, o2_pending o)) (model_hist2 (mkConfig 1 2) ops) =
     [([], [], []); ([], [], []); ([], [], []); ([1], [], [1]); ([], [], [1]); ([], [], [1]);
      ([], [(1, ([7], [2]))], []); ([2], [(2, ([7], []))], []); ([], [], [])].
Proof. vm_compute. split; reflexivity. Qed.
