(* Correspondence runner for C11: the harness drives the REAL entry points with hostile input and writes what it
   observed (outcome class: nil / error / recovered panic or crash / hang / over-allocation) as [case]s;
   [check_all] returns (index, code) for bad cases:
     code 2 = the observed class violates spec_C11 (panic, crash, hang, allocation out of proportion),
     code 1 = the observed class differs from the class of the model's outcome (modelled entry points only).
   Entry points whose decoding is generated / third-party code are harness-only: [CObserved]. *)
From Coq Require Import List NArith Bool Arith.
Import ListNotations.
From AnySync Require Export Model.Decoders Model.DecodersTree.
Open Scope N_scope.

(* Byte strings are written as ONE hexadecimal numeral (parsing a list literal of thousands of numerals dominates
   the checking time otherwise): [B 0x1<b(n-1)>...<b1><b0>] — a sentinel 1 above the most significant byte, the
   first byte in the least significant position. *)
Fixpoint bits_of_pos (p : positive) : list bool :=
  match p with xH => [true] | xO q => false :: bits_of_pos q | xI q => true :: bits_of_pos q end.
Definition bitw (b : bool) (w : N) : N := if b then w else 0.
Fixpoint group8 (l : list bool) : bytes :=
  match l with
  | b0 :: b1 :: b2 :: b3 :: b4 :: b5 :: b6 :: b7 :: r =>
      (bitw b0 1 + bitw b1 2 + bitw b2 4 + bitw b3 8 + bitw b4 16 + bitw b5 32 + bitw b6 64 + bitw b7 128) :: group8 r
  | _ => []
  end.
Definition B (n : N) : bytes := match n with N0 => [] | Npos p => group8 (bits_of_pos p) end.

(* long byte strings: chunks (literal, repeat count), concatenated *)
Definition rle := list (N * N).
Fixpoint rep (b : bytes) (n : nat) : bytes := match n with O => [] | S k => b ++ rep b k end.
Definition expand (l : rle) : bytes := flat_map (fun c => rep (B (fst c)) (N.to_nat (snd c))) l.

Fixpoint bytes_eqb (a b : bytes) : bool :=
  match a, b with
  | [], [] => true
  | x :: a', y :: b' => (x =? y) && bytes_eqb a' b'
  | _, _ => false
  end.

(* answers of the black-box collaborators of a handshake run, one row per frame the harness put on the wire:
   (type, body, generated decoder accepts, flag) with flag = ack.Error==Null (type 2) / proto allowed (type 3) *)
Definition frame_row := (N * rle * bool * bool)%type.
Definition row_tp (r : frame_row) := fst (fst (fst r)).
Definition row_body (r : frame_row) := snd (fst (fst r)).
Definition row_vt (r : frame_row) := snd (fst r).
Definition row_flag (r : frame_row) := snd r.

Definition env_of (rows : list frame_row) (cred_ok write_ok : bool) : hs_env :=
  mkEnv (fun tp body => existsb (fun r => (row_tp r =? tp) && bytes_eqb (expand (row_body r)) body && row_vt r) rows)
        cred_ok
        (fun body => existsb (fun r => (row_tp r =? msg_ack) && bytes_eqb (expand (row_body r)) body && row_flag r) rows)
        (fun body => existsb (fun r => (row_tp r =? msg_proto) && bytes_eqb (expand (row_body r)) body && row_flag r) rows)
        write_ok.

Definition const_open (ok : bool) : opener := fun _ _ => if ok then Some [] else None.

Inductive case :=
(* (1) crypto *)
| CX25519 (enc : bytes) (open_ok : bool) (obs : cls)
| CEdDecrypt (msg : bytes) (open_ok : bool) (obs : cls)
| CAes (key ct : bytes) (open_ok : bool) (obs : cls)
(* (3) handshake; [which]: 0 incoming credentials, 1 outgoing credentials, 2 incoming proto, 3 outgoing proto *)
| CHandshake (which : N) (stream : rle) (rows : list frame_row) (cred_ok write_ok : bool) (obs : cls)
(* (3b) the exported entry point [which] under a ctx that becomes done, over a connection of [kind]
   (0 Close interrupts a pending Read/Write, 1 Close closes the send side only, 2 Close releases nothing) whose
   peer sends a prefix of [stream] and then stalls; our writes: [wm] 0 succeed, 1 fail, 2 park.
   One real call per stall point: (prefix length, observed class, the returned error is ctx.Err()). *)
| CStall (which kind wm : N) (stream : rle) (rows : list frame_row) (cred_ok : bool) (points : list (N * cls * bool))
(* (2) keepidentity fast path: data, our identity, observed class, observed per-content summary when accepted *)
| CKeepFast (data ours_id : bytes) (obs : cls) (summary : list (N * N * N * N))
(* (4) pubsub: topic, class of ValidateTopic, number of segments of splitTopic, TopicOwner *)
| CTopic (topic : bytes) (obs : cls) (nsegs : N) (owner : bytes)
| CDedup (id : bytes) (obs : cls)
(* (5) space payloads: header (id, rest ok) / acl / settings present?, ids consistent, class *)
| CCreatePayload (hdr : option (bytes * bool)) (acl settings : option bool) (ids_ok : bool) (obs : cls)
(* (6) ACL record contents applied by a real AclList; should_validate = the list's verifier validates *)
| CAclApply (should_validate : bool) (cs : list acl_content) (obs : cls)
(* (7) head-sync request: element hashes, ranges (from, to, elements, limit), class, (Count, #elements) per range *)
| CRanges (elems : list N) (ranges : list (N * N * bool * N)) (obs : cls) (res : list (N * N))
(* (9) objectTree.AddRawChanges on a real object tree holding [root]: a stream of batches of raw changes with
   hostile parent references / delivery orders ([valid] = validateTree accepted the batch), one observed row
   (class, Added ids, heads) per delivered batch (delivery stops at the first batch that is not accepted), then an
   honest AddContent ([follow_ok]) and a rebuild from storage ([rebuilt_same] heads).  Ids are order-preserving
   ranks of the id strings. *)
| CTreeAdd (root : change) (batches : list (list change * bool)) (rows : list ta_row) (follow_ok rebuilt_same : bool)
(* harness-only entry points: name code, input size, observed class *)
| CObserved (entry : N) (size : N) (obs : cls).

Definition model_class (c : case) : option cls :=
  match c with
  | CX25519 enc ok _ => Some (class_of (decrypt_x25519 (const_open ok) enc))
  | CEdDecrypt msg ok _ => Some (class_of (ed25519_decrypt true (const_open ok) msg))
  | CAes key ct ok _ => Some (class_of (aes_decrypt key (const_open ok) ct))
  | CHandshake which stream rows cred_ok write_ok _ =>
      let env := env_of rows cred_ok write_ok in
      let s := expand stream in
      Some (if which =? 0 then class_of (incoming_handshake env pool_buf s)
            else if which =? 1 then class_of (outgoing_handshake env pool_buf s)
            else if which =? 2 then class_of (incoming_proto_handshake env pool_buf s)
            else class_of (outgoing_proto_handshake env pool_buf s))
  | CStall _ _ _ _ _ _ _ => None   (* per stall point: [stall_ok] *)
  | CTreeAdd _ _ _ _ _ => None     (* per batch: [treeadd_ok] *)
  | CKeepFast data ours_id _ _ => Some (class_of (keep_identity_fast (bytes_eqb ours_id) data))
  | CTopic topic _ _ _ => Some (class_of (validate_topic topic))
  | CDedup id _ => Some (class_of (dedup_key id))
  | CCreatePayload hdr acl settings ids_ok _ =>
      Some (class_of (validate_create (mkPayload (option_map (fun h => mkHdr (fst h) (snd h)) hdr) acl settings ids_ok)))
  | CAclApply sv cs _ => Some (class_of (apply_contents true sv cs))
  | CRanges elems ranges _ _ =>
      Some (class_of (handle_range_request [] elems (map (fun r => mkRange (fst (fst (fst r))) (snd (fst (fst r))) (snd (fst r)) (snd r)) ranges)))
  | CObserved _ _ _ => None
  end.

Definition kind_of (n : N) : conn_kind :=
  if n =? 0 then KCloseInterrupts else if n =? 1 then KCloseSendOnly else KCloseInert.
Definition wmode_of (n : N) : wmode := if n =? 0 then WOk else if n =? 1 then WFail else WBlock.

(* a stall experiment: the model is run once per stall point on the bytes the peer sent before going silent *)
Definition stall_model (which kind wm : N) (stream : rle) (rows : list frame_row) (cred_ok : bool) (n : N) : run_result :=
  hs_entry which (kind_of kind) (env_of rows cred_ok true) (stalled (wmode_of wm)) pool_buf (stall_at n (expand stream)).
Definition stall_ok (which kind wm : N) (stream : rle) (rows : list frame_row) (cred_ok : bool)
  (pt : N * cls * bool) : bool :=
  let r := stall_model which kind wm stream rows cred_ok (fst (fst pt)) in
  cls_eqb (class_of_run r) (snd (fst pt)) && Bool.eqb (is_deadline r) (snd pt).

(* the worst observed class of a stall experiment (for reporting); [spec_ok] looks at all of them *)
Fixpoint worst (l : list cls) : cls :=
  match l with
  | [] => COk
  | c :: r => if spec_C11 c then (match worst r with COk => c | w => w end) else c
  end.

(* a batch stream: the model's rows against the observed rows (class; for an accepted batch the SET of reported
   changes and the heads) *)
Definition ta_row_eqb (m o : ta_row) : bool :=
  let '(mc, madded, mheads) := m in
  let '(oc, oadded, oheads) := o in
  cls_eqb mc oc && match oc with COk => same_set madded oadded && same_set mheads oheads | _ => true end.
Fixpoint ta_rows_eqb (m o : list ta_row) : bool :=
  match m, o with
  | [], [] => true
  | x :: m', y :: o' => ta_row_eqb x y && ta_rows_eqb m' o'
  | _, _ => false
  end.
Definition treeadd_ok (root : change) (batches : list (list change * bool)) (rows : list ta_row) : bool :=
  ta_rows_eqb (add_raw_run (ta_init root) batches) rows.

Definition observed (c : case) : cls :=
  match c with
  | CStall _ _ _ _ _ _ pts => worst (map (fun pt => snd (fst pt)) pts)
  | CTreeAdd _ _ rows fo rb =>
      match worst (map (fun r => fst (fst r)) rows) with
      | COk | CErr => if fo && rb then worst (map (fun r => fst (fst r)) rows) else CPanic
      | w => w
      end
  | CX25519 _ _ o | CEdDecrypt _ _ o | CAes _ _ _ o | CHandshake _ _ _ _ _ o | CObserved _ _ o
  | CKeepFast _ _ o _ | CTopic _ o _ _ | CDedup _ o | CCreatePayload _ _ _ _ o | CAclApply _ _ o | CRanges _ _ o _ => o
  end.

Definition quad_eqb (a b : N * N * N * N) : bool :=
  let '(a1, a2, a3, a4) := a in let '(b1, b2, b3, b4) := b in (a1 =? b1) && (a2 =? b2) && (a3 =? b3) && (a4 =? b4).
Fixpoint quads_eqb (a b : list (N * N * N * N)) : bool :=
  match a, b with
  | [], [] => true
  | x :: a', y :: b' => quad_eqb x y && quads_eqb a' b'
  | _, _ => false
  end.

(* beyond the class: an accepted fast-path result must have the same shape (contents, kept keys) *)
Definition model_detail_ok (c : case) : bool :=
  match c with
  | CKeepFast data ours_id COk summary =>
      match keep_identity_fast (bytes_eqb ours_id) data with
      | Ok cs => quads_eqb (map content_summary cs) summary
      | _ => false
      end
  | CTopic topic _ nsegs owner =>
      match split_topic topic, topic_owner topic with
      | Ok segs, Ok o => (N.of_nat (length segs) =? nsegs) && bytes_eqb o owner
      | _, _ => false
      end
  | CRanges elems ranges COk res =>
      (* known = []: the model scans; a served known range reports the same Count and may omit the elements *)
      (fix go (rs : list (N * N * bool * N)) (os : list (N * N)) : bool :=
         match rs, os with
         | [], [] => true
         | r :: rs', (cnt, ne) :: os' =>
             let rg := mkRange (fst (fst (fst r))) (snd (fst (fst r))) (snd (fst r)) (snd r) in
             let k := scan_count elems rg in
             (cnt =? k) && (if r_elements rg then ne =? k else (ne =? k) || (ne =? 0)) && go rs' os'
         | _, _ => false
         end) ranges res
  | CStall which kind wm stream rows cred_ok pts => forallb (stall_ok which kind wm stream rows cred_ok) pts
  | CTreeAdd root batches rows _ _ => treeadd_ok root batches rows
  | _ => true
  end.

Definition model_ok (c : case) : bool :=
  match model_class c with
  | Some m => cls_eqb m (observed c) && model_detail_ok c
  | None => match c with CStall _ _ _ _ _ _ _ | CTreeAdd _ _ _ _ _ => model_detail_ok c | _ => true end
  end.

Definition spec_ok (c : case) : bool :=
  match c with
  | CStall _ _ _ _ _ _ pts => spec_C11_stall (map (fun pt => snd (fst pt)) pts)
  | CTreeAdd _ batches rows fo rb => spec_C11_treeadd (map fst batches) rows fo rb
  | _ => spec_C11 (observed c)
  end.

Fixpoint check_from (i : N) (l : list case) : list (N * N) :=
  match l with
  | [] => []
  | c :: r =>
      (if spec_ok c then (if model_ok c then [] else [(i, 1%N)]) else [(i, 2%N)])
        ++ check_from (N.succ i) r
  end.

Definition check_all (base : N) (l : list case) : list (N * N) := check_from base l.
