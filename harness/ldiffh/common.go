package ldiffh

import (
	"fmt"
	"math"
	"sort"
	"strings"

	"github.com/anyproto/any-sync/app/ldiff"

	"verifharness/vlib"
)

// El is one element of a head index: id = PlaceID(Salt, Hash), head = fixed-width decimal of Head.
type El struct {
	Salt uint64 `json:"salt"`
	Hash uint64 `json:"hash"`
	Head int    `json:"head"`
}

func (e El) ID() string      { return PlaceID(e.Salt, e.Hash) }
func (e El) HeadStr() string { return fmt.Sprintf("h%07d", e.Head) }
func (e El) Element() ldiff.Element {
	return ldiff.Element{Id: e.ID(), Head: e.HeadStr()}
}

func HeadNum(h string) uint64 {
	var v uint64
	fmt.Sscanf(strings.TrimPrefix(h, "h"), "%d", &v)
	return v
}

// Ranker maps id strings to numbers preserving byte-wise order (ids of one case have equal length).
type Ranker struct{ rank map[string]uint64 }

func NewRanker(ids []string) *Ranker {
	u := map[string]struct{}{}
	for _, s := range ids {
		u[s] = struct{}{}
	}
	l := make([]string, 0, len(u))
	for s := range u {
		l = append(l, s)
	}
	sort.Strings(l)
	r := &Ranker{rank: map[string]uint64{}}
	for i, s := range l {
		r.rank[s] = uint64(i + 1)
	}
	return r
}

// Rank returns the number of a known id; unknown ids (the implementation invented one) map to a huge value.
func (r *Ranker) Rank(id string) uint64 {
	if v, ok := r.rank[id]; ok {
		return v
	}
	return 999999999
}

// ElemTerm prints (hash hi, hash lo, id, head) — primitive integers (the case term ends with %uint63)
func (r *Ranker) ElemTerm(e El) string {
	return fmt.Sprintf("(%d, %d, %d, %d)", e.Hash>>32, e.Hash&0xffffffff, r.Rank(e.ID()), e.Head)
}

// HiLo prints a 64-bit value as two 32-bit halves
func HiLo(v uint64) string { return fmt.Sprintf("%d, %d", v>>32, v&0xffffffff) }
func (r *Ranker) ElemsTerm(es []El) string {
	s := make([]string, len(es))
	for i, e := range es {
		s[i] = r.ElemTerm(e)
	}
	return vlib.List(s)
}
func (r *Ranker) IdsTerm(ids []string) string {
	v := make([]uint64, len(ids))
	for i, id := range ids {
		v[i] = r.Rank(id)
	}
	return vlib.NList(v)
}

// GenTupleRanges: the harness' own child-range computation (used only to choose interesting queries / hashes).
func GenTupleRanges(from, to uint64, df int) [][2]uint64 {
	d := uint64(df)
	w := to - from
	per := w / d
	al := (w%d + 1) % d
	if al == 0 {
		per++
	}
	if per == 0 {
		return nil
	}
	var res [][2]uint64
	j := from
	for i := 0; i < df; i++ {
		p := per
		if i == df-1 {
			p += al
		}
		res = append(res, [2]uint64{j, j + p - 1})
		j += p
	}
	return res
}

// PathRanges returns the chain of canonical child ranges containing h, from level 1 down to the given depth.
func PathRanges(h uint64, df, depth int) [][2]uint64 {
	from, to := uint64(0), uint64(math.MaxUint64)
	var res [][2]uint64
	for l := 0; l < depth; l++ {
		ch := GenTupleRanges(from, to, df)
		if ch == nil {
			break
		}
		found := false
		for _, c := range ch {
			if c[0] <= h && h <= c[1] {
				from, to = c[0], c[1]
				res = append(res, c)
				found = true
				break
			}
		}
		if !found || from == to {
			break
		}
	}
	return res
}

// HashGen produces hash values with a chosen shape.
type HashGen struct {
	R    *vlib.Rand
	Df   int
	Kind string
	base uint64
	pool []uint64
}

var HashKinds = []string{"uniform", "deep", "narrow", "boundary", "collide", "mixed"}

func NewHashGen(r *vlib.Rand, df int, kind string) *HashGen {
	g := &HashGen{R: r, Df: df, Kind: kind, base: r.U64()}
	if kind == "deep" {
		// keep the high bits: all hashes fall into one deep bucket
		g.base &^= (uint64(1) << uint(4+r.Intn(40))) - 1
	}
	if kind == "boundary" {
		g.pool = []uint64{0, 1, math.MaxUint64, math.MaxUint64 - 1}
		lv := GenTupleRanges(0, math.MaxUint64, df)
		for _, c := range lv {
			g.pool = append(g.pool, c[0], c[1])
		}
		if len(lv) > 0 {
			last := lv[len(lv)-1]
			for _, c := range GenTupleRanges(last[0], last[1], df) {
				g.pool = append(g.pool, c[0], c[1])
			}
			first := lv[0]
			for _, c := range GenTupleRanges(first[0], first[1], df) {
				g.pool = append(g.pool, c[0], c[1])
			}
		}
	}
	return g
}

func (g *HashGen) Next() uint64 {
	kind := g.Kind
	if kind == "mixed" {
		kind = []string{"uniform", "deep", "narrow", "boundary", "collide"}[g.R.Intn(5)]
	}
	switch kind {
	case "deep":
		span := uint64(1) << uint(2+g.R.Intn(30))
		return g.base + g.R.U64()%span
	case "narrow":
		// a window narrower than most divide factors
		return g.base + uint64(g.R.Intn(6))
	case "boundary":
		if len(g.pool) == 0 {
			return g.R.U64()
		}
		v := g.pool[g.R.Intn(len(g.pool))]
		switch g.R.Intn(4) {
		case 0:
			return v + 1
		case 1:
			return v - 1
		}
		return v
	case "collide":
		return g.base + uint64(g.R.Intn(2))
	}
	return g.R.U64()
}

var Dfs = []int{2, 3, 4, 5, 7, 16, 32, 33}
var Ths = []int{1, 1, 2, 2, 3, 8}
