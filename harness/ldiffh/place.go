// Package ldiffh: helpers shared by the ldiff harnesses (C07, C08): ids with chosen xxhash64 values.
package ldiffh

import (
	"encoding/binary"
	"math/bits"

	"github.com/cespare/xxhash"
)

const (
	p1 uint64 = 11400714785074694791
	p2 uint64 = 14029467366897019727
	p3 uint64 = 1609587929392839161
	p4 uint64 = 9650029242287828579
	p5 uint64 = 2870177450012600261
)

func inv(a uint64) uint64 {
	x := a
	for i := 0; i < 6; i++ {
		x *= 2 - a*x
	}
	return x
}
func unxs(h uint64, s uint) uint64 {
	r := h
	for i := 0; i < 64/int(s)+1; i++ {
		r = h ^ (r >> s)
	}
	return r
}
func round0(w uint64) uint64 { return bits.RotateLeft64(w*p2, 31) * p1 }
func unround0(k uint64) uint64 {
	return bits.RotateLeft64(k*inv(p1), -31) * inv(p2)
}

// PlaceID returns a 16-byte id whose first 8 bytes are the big-endian salt and whose xxhash64 (seed 0, as used
// by ldiff) equals target.  Different salts with the same target give colliding ids.
func PlaceID(salt, target uint64) string {
	var b [16]byte
	binary.BigEndian.PutUint64(b[:8], salt)
	w1 := binary.LittleEndian.Uint64(b[:8])
	h := p5 + 16
	h ^= round0(w1)
	h = bits.RotateLeft64(h, 27)*p1 + p4
	// undo the avalanche
	t := target
	t = unxs(t, 32)
	t *= inv(p3)
	t = unxs(t, 29)
	t *= inv(p2)
	t = unxs(t, 33)
	// t = rotl(h ^ k2, 27)*p1 + p4
	x := bits.RotateLeft64((t-p4)*inv(p1), -27)
	k2 := x ^ h
	w2 := unround0(k2)
	binary.LittleEndian.PutUint64(b[8:], w2)
	id := string(b[:])
	if xxhash.Sum64([]byte(id)) != target {
		panic("PlaceID: inverse is wrong")
	}
	return id
}
