module verifharness

go 1.25.7

require (
	github.com/anyproto/any-store v0.4.7
	github.com/anyproto/any-sync v0.0.0
	github.com/anyproto/go-chash v0.1.0
	github.com/anyproto/lexid v0.0.6
	github.com/cespare/xxhash v1.1.0
	github.com/cheggaaa/mb/v3 v3.0.3
	github.com/ipfs/go-cid v0.6.2
	github.com/multiformats/go-multibase v0.3.0
	github.com/multiformats/go-multihash v0.2.3
	github.com/quic-go/quic-go v0.61.0
	go.uber.org/zap v1.28.0
	google.golang.org/protobuf v1.36.11
	storj.io/drpc v1.0.0
)

require (
	filippo.io/edwards25519 v1.2.0 // indirect
	github.com/anyproto/go-bip39 v1.0.0 // indirect
	github.com/anyproto/go-slip10 v1.0.1 // indirect
	github.com/anyproto/go-slip21 v1.0.0 // indirect
	github.com/anyproto/go-sqlite v1.4.2-any // indirect
	github.com/beorn7/perks v1.0.1 // indirect
	github.com/cespare/xxhash/v2 v2.3.0 // indirect
	github.com/davecgh/go-spew v1.1.1 // indirect
	github.com/davidlazar/go-crypto v0.0.0-20200604182044-b73af7476f6c // indirect
	github.com/decred/dcrd/dcrec/secp256k1/v4 v4.4.1 // indirect
	github.com/disintegration/imaging v1.6.2 // indirect
	github.com/dustin/go-humanize v1.0.1 // indirect
	github.com/flopp/go-findfont v0.1.0 // indirect
	github.com/fogleman/gg v1.3.0 // indirect
	github.com/gobwas/glob v0.2.3 // indirect
	github.com/goccy/go-graphviz v0.2.10 // indirect
	github.com/golang/freetype v0.0.0-20170609003504-e2365dfdc4a0 // indirect
	github.com/golang/snappy v1.0.0 // indirect
	github.com/google/uuid v1.6.0 // indirect
	github.com/hashicorp/yamux v0.1.2 // indirect
	github.com/huandu/skiplist v1.2.1 // indirect
	github.com/jbenet/go-temp-err-catcher v0.1.0 // indirect
	github.com/klauspost/cpuid/v2 v2.4.0 // indirect
	github.com/libp2p/go-buffer-pool v0.1.0 // indirect
	github.com/libp2p/go-libp2p v0.49.0 // indirect
	github.com/mr-tron/base58 v1.3.0 // indirect
	github.com/multiformats/go-base32 v0.1.0 // indirect
	github.com/multiformats/go-base36 v0.2.0 // indirect
	github.com/multiformats/go-multiaddr v0.16.1 // indirect
	github.com/multiformats/go-multicodec v0.10.0 // indirect
	github.com/multiformats/go-multistream v0.6.1 // indirect
	github.com/multiformats/go-varint v0.1.0 // indirect
	github.com/munnerz/goautoneg v0.0.0-20191010083416-a7dc8b61c822 // indirect
	github.com/planetscale/vtprotobuf v0.6.0 // indirect
	github.com/pmezard/go-difflib v1.0.0 // indirect
	github.com/prometheus/client_golang v1.24.1 // indirect
	github.com/prometheus/client_model v0.6.2 // indirect
	github.com/prometheus/common v0.70.1 // indirect
	github.com/prometheus/procfs v0.21.1 // indirect
	github.com/remyoudompheng/bigfft v0.0.0-20230129092748-24d4a6f8daec // indirect
	github.com/spaolacci/murmur3 v1.1.0 // indirect
	github.com/stretchr/testify v1.11.1 // indirect
	github.com/tetratelabs/wazero v1.10.1 // indirect
	github.com/valyala/fastjson v1.6.10 // indirect
	github.com/zeebo/blake3 v0.2.4 // indirect
	github.com/zeebo/errs v1.3.0 // indirect
	go.uber.org/atomic v1.11.0 // indirect
	go.uber.org/multierr v1.11.0 // indirect
	golang.org/x/crypto v0.54.0 // indirect
	golang.org/x/exp v0.0.0-20260718201538-764159d718ef // indirect
	golang.org/x/image v0.21.0 // indirect
	golang.org/x/net v0.57.0 // indirect
	golang.org/x/sys v0.47.0 // indirect
	golang.org/x/text v0.40.0 // indirect
	golang.org/x/time v0.15.0 // indirect
	golang.org/x/tools v0.48.0 // indirect
	gopkg.in/yaml.v3 v3.0.1 // indirect
	lukechampine.com/blake3 v1.4.1 // indirect
	modernc.org/libc v1.66.8 // indirect
	modernc.org/mathutil v1.7.1 // indirect
	modernc.org/memory v1.11.0 // indirect
	modernc.org/sqlite v1.37.1 // indirect
)

replace github.com/anyproto/any-sync => /repo
