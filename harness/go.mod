module verifharness

go 1.25.7

require (
	github.com/anyproto/any-sync v0.0.0
	go.uber.org/zap v1.28.0
)

require (
	github.com/gobwas/glob v0.2.3 // indirect
	go.uber.org/multierr v1.11.0 // indirect
	golang.org/x/exp v0.0.0-20260718201538-764159d718ef // indirect
)

replace github.com/anyproto/any-sync => /repo
