// Correspondence driver for C19: drives the real net/streampool with gate-controlled fake drpc streams
// (every MsgSend parks until the harness lets it return nil / an error / never), from one caller goroutine,
// under a wall-clock latency guard, and writes the operation list plus what it observed after every
// operation as Coq cases (checked against Model/StreamPool.v and spec_C19 by coqc).
package main

import (
	"context"
	"encoding/json"
	"errors"
	"fmt"
	"os"
	"runtime"
	"sort"
	"strings"
	"sync"
	"sync/atomic"
	"time"

	"go.uber.org/zap"
	"go.uber.org/zap/zapcore"
	"storj.io/drpc"

	"github.com/anyproto/any-sync/app"
	"github.com/anyproto/any-sync/app/logger"
	anynet "github.com/anyproto/any-sync/net"
	"github.com/anyproto/any-sync/net/peer"
	"github.com/anyproto/any-sync/net/streampool"
	"github.com/anyproto/any-sync/net/streampool/streamhandler"

	"verifharness/vlib"
)

const (
	latencyGuard  = 3 * time.Second  // a pool call must return within this bound (normally microseconds)
	settleTimeout = 10 * time.Second // waiting for the pool's own goroutines to reach the expected parked state
	probeGuard    = 8 * time.Second  // a read-only accessor that only takes pool.mu must return within this bound (a frozen pool never does)
)

// ------------------------------------------------------------------ operations (JSON = replay format)

type openScript struct {
	Cap   int   `json:"cap"`
	Tags  []int `json:"tags"`
	CGate bool  `json:"cgate,omitempty"`
}

type sendPeer struct {
	Peer int         `json:"peer"`
	Open *openScript `json:"open,omitempty"` // nil: OpenStream fails
}

type op struct {
	K      string     `json:"k"` // add bcast byid addtags rmtags rmtagsid streams release readerr closerel send sendstuck ownerlock ownerunlock
	Peer   int        `json:"peer,omitempty"`
	Cap    int        `json:"cap,omitempty"`
	Tags   []int      `json:"tags,omitempty"`
	CGate  bool       `json:"cgate,omitempty"`
	Read   bool       `json:"read,omitempty"`   // add: use ReadStream instead of AddStream
	Shared bool       `json:"shared,omitempty"` // add: pass a caller-owned tags slice that other adds with the same tags reuse
	Peers  []int      `json:"peers,omitempty"`
	Sid    int        `json:"sid,omitempty"`
	Ok     bool       `json:"ok,omitempty"`
	Send   []sendPeer `json:"send,omitempty"`
}

type caseDesc struct {
	Workers int      `json:"workers"`
	DialCap int      `json:"dial_cap"`
	Ops     []op     `json:"ops"`
	Kinds   string   `json:"kinds,omitempty"` // generator profile, informational
	Tags    []string `json:"tags,omitempty"`
}

// ------------------------------------------------------------------ fakes

// probeCtx counts Done() calls: mb.WaitOne calls Done() once before looking at the buffer and once more when it
// parks, so "two calls since the last MsgSend entry" means the write loop is parked in WaitOne. Used only to
// decide how long to wait before the next operation, never for a verdict.
type probeCtx struct {
	context.Context
	done atomic.Int32
}

func (p *probeCtx) Done() <-chan struct{} { p.done.Add(1); return p.Context.Done() }

type outMsg struct{ id int }
type inMsg struct{ from *fakeStream }

type fakeStream struct {
	h       *world
	peerId  string
	cgate   bool
	ctx     *probeCtx
	dead    chan struct{}
	mu      sync.Mutex
	sid     uint32 // real stream id, learned in the handler
	hctx    context.Context
	ready   chan struct{}
	handle  any
	entered []int // messages for which MsgSend was entered
	// MsgSend entry / return log of this stream, in the order the calls entered / returned (appended under mu at
	// the very beginning and the very end of MsgSend): two write loops on one stream show up as two entries
	// without a return between them, whatever the scheduler does afterwards
	events   []sendEvent
	inFlight int // MsgSend calls entered and not yet returned (a correct pool never has more than one)
	release  chan error
	wdone    bool // MsgSend returned an error: write loop gone
	returns  int  // MsgSend calls that have returned
	cap      int

	recvFirst   bool
	recvCh      chan error
	readerGone  bool
	closeCalls  int
	closeGate   chan struct{}
	closeParked bool
	closeRel    bool
	closeTrig   bool
	removed     bool

	seenEntered int
	seenEvents  int
	seenClose   int
}

type sendEvent struct {
	msg     int
	entered bool // true: MsgSend entered, false: MsgSend returned
}

var errInjected = errors.New("injected")
var errDead = errors.New("case finished")

func (f *fakeStream) Context() context.Context { return f.ctx }
func (f *fakeStream) CloseSend() error         { return nil }

func (f *fakeStream) MsgSend(msg drpc.Message, _ drpc.Encoding) error {
	id := -1
	if m, ok := msg.(*outMsg); ok {
		id = m.id
	}
	f.mu.Lock()
	f.entered = append(f.entered, id)
	f.events = append(f.events, sendEvent{id, true})
	f.inFlight++
	f.ctx.done.Store(0)
	f.mu.Unlock()
	var err error
	select {
	case err = <-f.release:
	case <-f.dead:
		err = errDead
	}
	f.mu.Lock()
	f.events = append(f.events, sendEvent{id, false})
	f.inFlight--
	f.returns++
	if err != nil {
		f.wdone = true
	}
	f.mu.Unlock()
	return err
}

func (f *fakeStream) MsgRecv(msg drpc.Message, _ drpc.Encoding) error {
	f.mu.Lock()
	first := !f.recvFirst
	f.recvFirst = true
	f.mu.Unlock()
	if first {
		if m, ok := msg.(*inMsg); ok {
			m.from = f
		}
		return nil
	}
	var err error
	select {
	case err = <-f.recvCh:
	case <-f.dead:
		err = errDead
	}
	f.mu.Lock()
	f.readerGone = true
	f.mu.Unlock()
	return err
}

func (f *fakeStream) Close() error {
	f.mu.Lock()
	f.closeCalls++
	park := f.cgate
	if park {
		f.closeParked = true
	}
	f.mu.Unlock()
	if park {
		select {
		case <-f.closeGate:
		case <-f.dead:
		}
		f.mu.Lock()
		f.closeParked = false
		f.mu.Unlock()
	}
	return nil
}

type fakePeer struct {
	peer.Peer
	id  string
	ctx context.Context
	w   *world
}

// Id is what the pool calls (under its lock) right before it looks up the peer's streams. A stream that was opened
// by the same Send has a write loop that may not have reached WaitOne yet; whether the first message is handed over
// directly or buffered would then depend on the scheduler. Wait (bounded) until every idle write loop is parked.
// Uses only the fakes' own state (no pool lock).
func (p *fakePeer) Id() string {
	deadline := time.Now().Add(300 * time.Millisecond)
	for !p.w.writersParked() && time.Now().Before(deadline) {
		runtime.Gosched()
	}
	return p.id
}
func (p *fakePeer) Context() context.Context { return p.ctx }

// handler: captures the stream context of every stream, scripts OpenStream
type handler struct{ w *world }

func (h *handler) Init(a *app.App) error { return nil }
func (h *handler) Name() string          { return streamhandler.CName }
func (h *handler) NewReadMessage() drpc.Message {
	return &inMsg{}
}
func (h *handler) HandleMessage(ctx context.Context, peerId string, msg drpc.Message) error {
	m, ok := msg.(*inMsg)
	if !ok || m.from == nil {
		return nil
	}
	f := m.from
	id, _ := streampool.CtxStreamId(ctx)
	f.mu.Lock()
	f.sid = id
	f.hctx = ctx
	f.mu.Unlock()
	close(f.ready)
	return nil
}
func (h *handler) OpenStream(ctx context.Context, p peer.Peer) (drpc.Stream, []string, int, error) {
	pid := p.(*fakePeer).id // not Id(): that one waits and takes the world lock
	h.w.mu.Lock()
	var sc *openScript
	q := h.w.openScripts[pid]
	ok := len(q) > 0
	if ok {
		// the k-th OpenStream call for a peer within one Send belongs to the k-th occurrence of that peer
		sc = q[0]
		h.w.openScripts[pid] = q[1:]
	}
	stuck := h.w.stuckPeers[pid]
	h.w.mu.Unlock()
	if stuck {
		h.w.stuckEntered.Add(1)
		select {
		case <-ctx.Done():
		case <-h.w.dead:
		}
		return nil, nil, 0, errDead
	}
	if !ok || sc == nil {
		return nil, nil, 0, errInjected
	}
	f := h.w.newFake(pid, sc.CGate, sc.Cap)
	return f, tagStrs(sc.Tags), sc.Cap, nil
}

// ------------------------------------------------------------------ one case = one world

type removal struct {
	sid  uint32
	tags []string
}

// hookNote: a close hook that has RETURNED: what its call-back into the pool (Streams(closedTags...)) saw
type hookNote struct {
	sid  uint32
	tags []string
	view []uint64
}

type world struct {
	pool         streampool.StreamPool
	ctx          context.Context
	cancel       context.CancelFunc
	dead         chan struct{}
	mu           sync.Mutex
	fakes        []*fakeStream // in creation order
	openScripts  map[string][]*openScript
	stuckPeers   map[string]bool
	stuckEntered atomic.Int32
	stuckWanted  int
	removals     []removal // close-hook INVOCATIONS (logged at the hook's entry, before the owner's mutex)
	seenRemovals int
	// the pool's owner: lock order ownerMu -> pool.mu (pubsub: remoteMu held across AddTagsCtx / RemoveTagsById); the
	// close hook takes ownerMu and calls back into the pool, which the WithStreamCloseHook contract allows ("outside
	// the pool lock")
	ownerMu      sync.Mutex
	ownerHeld    bool // by the harness goroutine (ops ownerlock / ownerunlock); only touched by that goroutine
	notes        []hookNote
	seenNotes    int
	hookProblems []string
	frozen       atomic.Bool // pool.mu was not obtainable within the guard: no further call into the pool is attempted
	freeWorkers  int
	fatalHits    *atomic.Int32
	sharedTags   map[string][]string // caller-owned tag slices (op.Shared)
}

// tagsFor returns the tags argument of AddStream / ReadStream. With shared=true the caller keeps ONE slice per tag
// list and passes it to every stream created with that list (pool.AddStream(s, n, tags...) hands over the slice itself).
func (w *world) tagsFor(tags []int, shared bool) []string {
	if !shared {
		return tagStrs(tags)
	}
	k := fmt.Sprint(tags)
	if w.sharedTags == nil {
		w.sharedTags = map[string][]string{}
	}
	if _, ok := w.sharedTags[k]; !ok {
		w.sharedTags[k] = tagStrs(tags)
	}
	return w.sharedTags[k]
}

func tagStr(t int) string  { return fmt.Sprintf("t%d", t) }
func peerStr(p int) string { return fmt.Sprintf("p%d", p) }
func tagStrs(ts []int) []string {
	r := make([]string, len(ts))
	for i, t := range ts {
		r[i] = tagStr(t)
	}
	return r
}
func num(s string) uint64 {
	var n uint64
	fmt.Sscanf(s[1:], "%d", &n)
	return n
}

func (w *world) newFake(peerId string, cgate bool, qcap int) *fakeStream {
	if qcap <= 0 {
		qcap = 100
	}
	f := &fakeStream{h: w, peerId: peerId, cgate: cgate, dead: w.dead, cap: qcap,
		ctx:   &probeCtx{Context: peer.CtxWithPeerId(context.Background(), peerId)},
		ready: make(chan struct{}), release: make(chan error, 1), recvCh: make(chan error, 1), closeGate: make(chan struct{}, 1)}
	w.mu.Lock()
	w.fakes = append(w.fakes, f)
	w.mu.Unlock()
	return f
}

func (w *world) writersParked() bool {
	w.mu.Lock()
	fs := append([]*fakeStream(nil), w.fakes...)
	w.mu.Unlock()
	for _, f := range fs {
		f.mu.Lock()
		ok := f.inFlight > 0 || f.wdone || f.closeCalls > 0 || f.ctx.done.Load() >= 2
		f.mu.Unlock()
		if !ok {
			return false
		}
	}
	return true
}

func (w *world) fakeBySid(sid int) *fakeStream {
	w.mu.Lock()
	defer w.mu.Unlock()
	for _, f := range w.fakes {
		f.mu.Lock()
		id := f.sid
		f.mu.Unlock()
		if int(id) == sid && sid != 0 {
			return f
		}
	}
	return nil
}

func newWorld(workers, dialCap int, fatalHits *atomic.Int32) *world {
	w := &world{dead: make(chan struct{}), openScripts: map[string][]*openScript{}, stuckPeers: map[string]bool{},
		freeWorkers: workers, fatalHits: fatalHits}
	w.ctx, w.cancel = context.WithCancel(context.Background())
	w.pool = streampool.NewStreamPool(&handler{w}, streampool.StreamConfig{SendQueueSize: 10, DialQueueWorkers: workers, DialQueueSize: dialCap},
		streampool.WithStreamCloseHook(w.closeHook))
	_ = w.pool.Run(context.Background())
	return w
}

// closeHook is the owner's stream-close callback. Entry is logged first (= the pool has finished removeStream's
// critical section and announced the end of the stream); then the owner's part: take the owner's mutex, look at the
// pool (Streams of the closed tags: the ended stream must be gone already), record, release.
func (w *world) closeHook(streamId uint32, peerId string, tags []string) {
	w.mu.Lock()
	w.removals = append(w.removals, removal{streamId, append([]string(nil), tags...)})
	fs := append([]*fakeStream(nil), w.fakes...)
	w.mu.Unlock()
	for _, f := range fs {
		f.mu.Lock()
		if f.sid == streamId {
			f.removed = true
		}
		f.mu.Unlock()
	}
	w.ownerMu.Lock()
	defer w.ownerMu.Unlock()
	defer func() {
		if p := recover(); p != nil {
			w.mu.Lock()
			w.hookProblems = append(w.hookProblems, fmt.Sprintf("panic in the close hook's Streams call-back: %v", p))
			w.mu.Unlock()
		}
	}()
	n := hookNote{sid: streamId, tags: append([]string(nil), tags...)}
	for _, s := range w.pool.Streams(tags...) {
		if f, ok := s.(*fakeStream); ok && f != nil {
			f.mu.Lock()
			n.view = append(n.view, uint64(f.sid))
			f.mu.Unlock()
		} else {
			n.view = append(n.view, 0)
		}
	}
	sortedU(n.view)
	w.mu.Lock()
	w.notes = append(w.notes, n)
	w.mu.Unlock()
}

const frozenMsg = "pool.mu not obtainable within the guard: the pool is frozen (lock held across a blocking call / a close hook running under the pool lock?)"

// probe runs a read-only verif accessor that takes pool.mu under a (generous) guard: if the pool lock is held for ever
// (that is the property's violation) the harness must notice instead of hanging itself.
func (w *world) probe(f func()) bool {
	if w.frozen.Load() {
		return false
	}
	done := make(chan struct{})
	go func() { defer close(done); f() }()
	select {
	case <-done:
		return true
	case <-time.After(probeGuard):
		w.frozen.Store(true)
		return false
	}
}

func (w *world) teardown() {
	if w.ownerHeld {
		w.ownerHeld = false
		w.ownerMu.Unlock()
	}
	w.cancel()
	close(w.dead)
	done := make(chan struct{})
	go func() { _ = w.pool.Close(context.Background()); close(done) }()
	select {
	case <-done:
	case <-time.After(latencyGuard):
	}
}

// guarded runs a pool call in its own goroutine under the latency guard; panics are caught.
func guarded(f func() error) (err error, timely bool, pan interface{}, dur time.Duration) {
	type res struct {
		err error
		pan interface{}
	}
	ch := make(chan res, 1)
	t0 := time.Now()
	go func() {
		var r res
		defer func() {
			if p := recover(); p != nil {
				r.pan = p
			}
			ch <- r
		}()
		r.err = f()
	}()
	select {
	case r := <-ch:
		return r.err, true, r.pan, time.Since(t0)
	case <-time.After(latencyGuard):
		return nil, false, nil, time.Since(t0)
	}
}

// quiescent: every stream's goroutines are parked where the model expects them (see Model/StreamPool.v, [expand])
func (w *world) quiescentOnce() (bool, string) {
	w.mu.Lock()
	fs := append([]*fakeStream(nil), w.fakes...)
	w.mu.Unlock()
	if int(w.stuckEntered.Load()) < w.stuckWanted {
		return false, "stuck dial not entered"
	}
	for i, f := range fs {
		select {
		case <-f.ready:
		default:
			return false, fmt.Sprintf("fake %d: stream context not seen yet", i)
		}
		f.mu.Lock()
		h, sid := f.handle, f.sid
		f.mu.Unlock()
		if h == nil {
			// never call into the pool while holding a fake's lock (the pool calls the fakes under its own lock)
			if !w.probe(func() { h = streampool.VerifStreamHandle(w.pool, sid) }) {
				return false, frozenMsg
			}
		}
		f.mu.Lock()
		if f.handle == nil {
			f.handle = h
		}
		inSend, wdone, entered := f.inFlight > 0, f.wdone, len(f.entered)
		closeCalls, cgate, closeRel, closeTrig, removed := f.closeCalls, f.cgate, f.closeRel, f.closeTrig, f.removed
		parked := f.ctx.done.Load() >= 2
		f.mu.Unlock()
		if closeTrig && closeCalls == 0 {
			return false, fmt.Sprintf("fake %d: close triggered, Close() not called yet", i)
		}
		if closeCalls > 0 && (!cgate || closeRel) && !removed {
			return false, fmt.Sprintf("fake %d: removal not seen yet", i)
		}
		if h == nil {
			if removed {
				continue
			}
			return false, fmt.Sprintf("fake %d: no handle", i)
		}
		buffered, issued := streampool.VerifQueueStats(h)
		if int64(entered) != issued {
			return false, fmt.Sprintf("fake %d: issued %d entered %d", i, issued, entered)
		}
		if inSend || wdone {
			continue
		}
		if buffered > 0 {
			return false, fmt.Sprintf("fake %d: %d buffered, writer idle", i, buffered)
		}
		if closeCalls > 0 || parked {
			continue
		}
		return false, fmt.Sprintf("fake %d: writer not parked yet", i)
	}
	// every invoked close hook has returned, unless the harness (the owner) holds the owner's mutex
	if !w.ownerHeld {
		w.mu.Lock()
		inv, ret := len(w.removals), len(w.notes)
		w.mu.Unlock()
		if inv != ret {
			return false, fmt.Sprintf("close hook not finished: %d invoked, %d returned", inv, ret)
		}
	}
	return true, ""
}

func (w *world) settle() (bool, string) {
	deadline := time.Now().Add(settleTimeout)
	fallback := time.Now().Add(300 * time.Millisecond)
	nextAlive := time.Now().Add(time.Second)
	why := ""
	for spins := 0; ; spins++ {
		if w.fatalHits.Load() > 0 {
			return true, "" // reported by the caller; the pool lock may be held for ever now
		}
		if w.frozen.Load() {
			return false, frozenMsg
		}
		// something takes long: is the pool lock still obtainable? (bounded, read-only)
		if time.Now().After(nextAlive) {
			if !w.probe(func() { streampool.VerifStreamHandle(w.pool, 0) }) {
				return false, frozenMsg + " [last: " + why + "]"
			}
			nextAlive = time.Now().Add(time.Second)
		}
		ok, y := w.quiescentOnce()
		if ok {
			// confirm once more after yielding: the condition must be stable
			runtime.Gosched()
			if ok2, _ := w.quiescentOnce(); ok2 {
				return true, ""
			}
			continue
		}
		why = y
		// the parked-writer probe depends on mb internals: do not insist on it for more than 300ms
		if strings.HasSuffix(why, "writer not parked yet") && time.Now().After(fallback) {
			return true, "probe-fallback"
		}
		if time.Now().After(deadline) {
			return false, why
		}
		if spins < 200 {
			runtime.Gosched()
		} else {
			time.Sleep(50 * time.Microsecond)
		}
	}
}

// ------------------------------------------------------------------ observation -> Coq terms

type obsT struct {
	Err     int
	Ids     []uint64
	Takes   [][2]uint64
	Events  [][3]uint64 // (stream, message, 1 = MsgSend entered / 0 = MsgSend returned), per stream in order
	Closed  []uint64
	Removed []struct {
		Sid  uint64
		Tags []uint64
	}
	Snap   string
	Timely bool
	// owner layer
	Notes   []hookNote // close hooks that returned during the operation, by stream id
	Pending []uint64   // hooks invoked and still parked after the operation
}

func sortedU(v []uint64) []uint64 {
	sort.Slice(v, func(i, j int) bool { return v[i] < v[j] })
	return v
}

func imapTerm(m map[string][]uint32) string {
	keys := make([]uint64, 0, len(m))
	by := map[uint64][]uint64{}
	for k, ids := range m {
		n := num(k)
		keys = append(keys, n)
		for _, id := range ids {
			by[n] = append(by[n], uint64(id))
		}
	}
	sortedU(keys)
	items := make([]string, len(keys))
	for i, k := range keys {
		items[i] = vlib.App("pK", vlib.N(k), nlist(sortedU(by[k])))
	}
	return mlist("cK", "nK", items)
}

func (w *world) snapTerm() (string, bool) {
	caps := map[uint32]int{}
	w.mu.Lock()
	for _, f := range w.fakes {
		f.mu.Lock()
		caps[f.sid] = f.cap
		f.mu.Unlock()
	}
	w.mu.Unlock()
	var sn streampool.VerifSnapshot
	var ok bool
	if !w.probe(func() { sn, ok = streampool.VerifSnapshotOf(w.pool) }) {
		return "(mkSnap nV nK nK)", false
	}
	if !ok {
		return "(mkSnap nV nK nK)", true
	}
	sort.Slice(sn.Streams, func(i, j int) bool { return sn.Streams[i].StreamId < sn.Streams[j].StreamId })
	items := make([]string, len(sn.Streams))
	for i, s := range sn.Streams {
		tags := make([]uint64, len(s.Tags))
		for j, t := range s.Tags {
			tags[j] = num(t)
		}
		var p uint64
		if s.PeerId != "" {
			p = num(s.PeerId)
		}
		items[i] = vlib.App("pV", vlib.N(uint64(s.StreamId)),
			vlib.App("mkSview", vlib.N(p), nlist(sortedU(tags)), vlib.N(uint64(s.QueueLen)), vlib.N(uint64(caps[s.StreamId]))))
	}
	return vlib.App("mkSnap", mlist("cV", "nV", items), imapTerm(sn.ByPeer), imapTerm(sn.ByTag)), true
}

func (o obsT) term() string {
	takes := make([]string, len(o.Takes))
	for i, t := range o.Takes {
		takes[i] = vlib.App("pP", vlib.N(t[0]), vlib.N(t[1]))
	}
	evs := make([]string, len(o.Events))
	for i, e := range o.Events {
		evs[i] = vlib.App("pE", vlib.N(e[0]), vlib.N(e[1]), vlib.Bool(e[2] == 1))
	}
	rem := make([]string, len(o.Removed))
	for i, r := range o.Removed {
		rem[i] = vlib.App("pK", vlib.N(r.Sid), nlist(r.Tags))
	}
	base := vlib.App("mkObs", vlib.N(uint64(o.Err)), nlist(o.Ids), mlist("cP", "nP", takes), mlist("cE", "nE", evs), nlist(o.Closed),
		mlist("cK", "nK", rem), o.Snap, vlib.Bool(o.Timely))
	notes := make([]string, len(o.Notes))
	for i, n := range o.Notes {
		tags := make([]uint64, len(n.tags))
		for k, t := range n.tags {
			tags[k] = num(t)
		}
		notes[i] = vlib.App("pT", vlib.N(uint64(n.sid)), nlist(sortedU(tags)), nlist(n.view))
	}
	return vlib.App("mkObs2", base, mlist("cT", "nT", notes), nlist(o.Pending))
}

// monomorphic list/pair builders (defined in Run/C19_run.v): elaboration of the case files is several times
// faster than with the polymorphic [a; b] / (a, b) notations
func mlist(cons, nilc string, items []string) string {
	var b strings.Builder
	for _, it := range items {
		b.WriteString("(" + cons + " " + it + " ")
	}
	b.WriteString(nilc)
	b.WriteString(strings.Repeat(")", len(items)))
	return b.String()
}
func nlist(v []uint64) string {
	items := make([]string, len(v))
	for i, x := range v {
		items[i] = vlib.N(x)
	}
	return mlist("cN", "nN", items)
}

func nl(v []int) string {
	u := make([]uint64, len(v))
	for i, x := range v {
		u[i] = uint64(x)
	}
	return nlist(u)
}

func (o op) term() string {
	switch o.K {
	case "ownerlock":
		return "H2Lock"
	case "ownerunlock":
		return "H2Unlock"
	}
	return "(H2 " + o.baseTerm() + ")"
}

func (o op) baseTerm() string {
	switch o.K {
	case "add":
		return vlib.App("HAddStream", vlib.N(uint64(o.Peer)), vlib.N(uint64(o.Cap)), nl(o.Tags), vlib.Bool(o.CGate))
	case "bcast":
		return vlib.App("HBroadcast", nl(o.Tags))
	case "byid":
		return vlib.App("HSendById", nl(o.Peers))
	case "addtags":
		return vlib.App("HAddTags", vlib.N(uint64(o.Sid)), nl(o.Tags))
	case "rmtags":
		return vlib.App("HRemoveTags", vlib.N(uint64(o.Sid)), nl(o.Tags), "false")
	case "rmtagsid":
		return vlib.App("HRemoveTags", vlib.N(uint64(o.Sid)), nl(o.Tags), "true")
	case "streams":
		return vlib.App("HStreams", nl(o.Tags))
	case "release":
		return vlib.App("HRelease", vlib.N(uint64(o.Sid)), vlib.Bool(o.Ok))
	case "readerr":
		return vlib.App("HReadErr", vlib.N(uint64(o.Sid)))
	case "closerel":
		return vlib.App("HCloseRelease", vlib.N(uint64(o.Sid)))
	case "send":
		items := make([]string, len(o.Send))
		for i, sp := range o.Send {
			opn := ""
			if sp.Open != nil {
				opn = vlib.App("sOpen", vlib.N(uint64(sp.Open.Cap)), nl(sp.Open.Tags), vlib.Bool(sp.Open.CGate))
			} else {
				opn = "sFail"
			}
			items[i] = vlib.App("pS", vlib.N(uint64(sp.Peer)), opn)
		}
		return vlib.App("HSend", mlist("cS", "nS", items))
	case "sendstuck":
		return vlib.App("HSendStuck", vlib.N(uint64(o.Peer)))
	}
	return "(HStreams nN)"
}

func errClass(err error) int {
	switch {
	case err == nil:
		return 0
	case errors.Is(err, anynet.ErrUnableToConnect):
		return 1
	case strings.Contains(err.Error(), "stream not found"):
		return 2
	case strings.Contains(err.Error(), "overflowed"):
		return 3
	}
	return 4
}

// ------------------------------------------------------------------ executing one operation

type runner struct {
	w        *world
	problems []string // direct violations: hang, panic, fatal, no quiescence
	maxLat   time.Duration
	fallback int
}

func (r *runner) exec(i int, o op) (obsT, bool) {
	w := r.w
	ob := obsT{Timely: true}
	var err error
	var timely = true
	var pan interface{}
	var dur time.Duration
	call := func(f func() error) {
		err, timely, pan, dur = guarded(f)
		if dur > r.maxLat {
			r.maxLat = dur
		}
	}
	msg := &outMsg{id: i}
	switch o.K {
	case "add":
		f := w.newFake(peerStr(o.Peer), o.CGate, o.Cap)
		addTags := w.tagsFor(o.Tags, o.Shared)
		if o.Read {
			call(func() error {
				go func() { defer func() { recover() }(); _ = w.pool.ReadStream(f, o.Cap, addTags...) }()
				return nil
			})
		} else {
			call(func() error { return w.pool.AddStream(f, o.Cap, addTags...) })
		}
		if timely && pan == nil {
			select {
			case <-f.ready:
				f.mu.Lock()
				ob.Ids = []uint64{uint64(f.sid)}
				f.mu.Unlock()
			case <-time.After(settleTimeout):
				r.problems = append(r.problems, "new stream never read")
				return ob, false
			}
		}
	case "bcast":
		call(func() error { return w.pool.Broadcast(w.ctx, msg, tagStrs(o.Tags)...) })
	case "byid":
		ps := make([]string, len(o.Peers))
		for k, p := range o.Peers {
			ps[k] = peerStr(p)
		}
		call(func() error { return w.pool.SendById(w.ctx, msg, ps...) })
	case "addtags", "rmtags":
		f := w.fakeBySid(o.Sid)
		if f == nil {
			ob.Err = 2 // no such stream was ever created: the model answers "stream not found" as well
			break
		}
		if o.K == "addtags" {
			call(func() error { return w.pool.AddTagsCtx(f.hctx, tagStrs(o.Tags)...) })
		} else {
			call(func() error { return w.pool.RemoveTagsCtx(f.hctx, tagStrs(o.Tags)...) })
		}
	case "rmtagsid":
		call(func() error { return w.pool.RemoveTagsById(uint32(o.Sid), tagStrs(o.Tags)...) })
	case "streams":
		var res []drpc.Stream
		call(func() error { res = w.pool.Streams(tagStrs(o.Tags)...); return nil })
		if timely && pan == nil {
			for _, s := range res {
				if f, ok := s.(*fakeStream); ok && f != nil {
					f.mu.Lock()
					ob.Ids = append(ob.Ids, uint64(f.sid))
					f.mu.Unlock()
				} else {
					ob.Ids = append(ob.Ids, 0)
				}
			}
			sortedU(ob.Ids)
		}
	case "release":
		if f := w.fakeBySid(o.Sid); f != nil {
			f.mu.Lock()
			in := f.inFlight > 0
			ret0 := f.returns
			if in && !o.Ok {
				f.closeTrig = true
			}
			f.mu.Unlock()
			if in {
				var e error
				if !o.Ok {
					e = errInjected
				}
				f.release <- e
				// wait until MsgSend has returned
				t0 := time.Now()
				for {
					f.mu.Lock()
					still := f.returns == ret0
					f.mu.Unlock()
					if !still || time.Since(t0) > settleTimeout {
						break
					}
					runtime.Gosched()
				}
			}
		}
	case "readerr":
		if f := w.fakeBySid(o.Sid); f != nil {
			f.mu.Lock()
			gone := f.readerGone || len(f.recvCh) > 0
			if !gone {
				f.closeTrig = true
			}
			f.mu.Unlock()
			if !gone {
				f.recvCh <- errInjected
			}
		}
	case "closerel":
		if f := w.fakeBySid(o.Sid); f != nil {
			f.mu.Lock()
			parked := f.closeParked && !f.closeRel
			if parked {
				f.closeRel = true
			}
			f.mu.Unlock()
			if parked {
				f.closeGate <- struct{}{}
			}
		}
	case "ownerlock":
		// the harness becomes the owner inside its section: every pool call until ownerunlock is made with the owner's
		// mutex held, every close hook that is invoked meanwhile parks on it
		if !w.ownerHeld {
			call(func() error { w.ownerMu.Lock(); return nil })
			if timely && pan == nil {
				w.ownerHeld = true
			}
		}
	case "ownerunlock":
		if w.ownerHeld {
			w.ownerHeld = false
			w.ownerMu.Unlock()
		}
	case "send", "sendstuck":
		var peers []peer.Peer
		w.mu.Lock()
		if o.K == "send" {
			w.openScripts = map[string][]*openScript{}
			for _, sp := range o.Send {
				w.openScripts[peerStr(sp.Peer)] = append(w.openScripts[peerStr(sp.Peer)], sp.Open)
				peers = append(peers, &fakePeer{id: peerStr(sp.Peer), ctx: context.Background(), w: w})
			}
		} else {
			w.stuckPeers[peerStr(o.Peer)] = true
			peers = append(peers, &fakePeer{id: peerStr(o.Peer), ctx: context.Background(), w: w})
		}
		free := w.freeWorkers
		w.mu.Unlock()
		call(func() error {
			return w.pool.Send(w.ctx, msg, func(ctx context.Context) ([]peer.Peer, error) { return peers, nil })
		})
		if timely && pan == nil && err == nil && free > 0 {
			if o.K == "sendstuck" {
				w.mu.Lock()
				w.freeWorkers--
				w.mu.Unlock()
				w.stuckWanted++
			} else {
				// barrier: with exactly one free worker a second job runs only after the first one returned
				bar := make(chan struct{})
				var e2 error
				var t2 bool
				var p2 interface{}
				for t0 := time.Now(); ; {
					// the dial queue may still hold the job (worker not yet scheduled): a rejected barrier is simply retried
					e2, t2, p2, _ = guarded(func() error {
						return w.pool.Send(w.ctx, nil, func(ctx context.Context) ([]peer.Peer, error) { close(bar); return nil, nil })
					})
					if e2 == nil || !t2 || p2 != nil || time.Since(t0) > settleTimeout {
						break
					}
					runtime.Gosched()
				}
				if e2 != nil || !t2 || p2 != nil {
					r.problems = append(r.problems, fmt.Sprintf("barrier Send failed: %v timely=%v panic=%v", e2, t2, p2))
					return ob, false
				}
				select {
				case <-bar:
				case <-time.After(settleTimeout):
					r.problems = append(r.problems, "dial worker did not finish the job: delivery through Send is stalled")
					return ob, false
				}
			}
		}
	}
	if pan != nil {
		r.problems = append(r.problems, fmt.Sprintf("panic in %s: %v", o.K, pan))
		ob.Timely = false
		return ob, false
	}
	if !timely {
		r.problems = append(r.problems, fmt.Sprintf("%s did not return within %v (blocked caller)", o.K, latencyGuard))
		ob.Timely = false
		return ob, false
	}
	if o.K != "streams" && o.K != "add" {
		if ob.Err == 0 {
			ob.Err = errClass(err)
		}
	} else if err != nil {
		ob.Err = errClass(err)
	}
	ok, why := w.settle()
	if !ok {
		r.problems = append(r.problems, "no quiescence after "+o.K+": "+why+" (a delivery or a close did not make progress)")
		ob.Timely = false
		return ob, false
	}
	if why != "" {
		r.fallback++
	}
	if r.w.fatalHits.Load() > 0 {
		r.problems = append(r.problems, "log.Fatal reached in streampool")
		ob.Timely = false
		return ob, false
	}
	// collect what happened during this operation
	w.mu.Lock()
	fs := append([]*fakeStream(nil), w.fakes...)
	rems := append([]removal(nil), w.removals[w.seenRemovals:]...)
	w.seenRemovals = len(w.removals)
	ob.Notes = append([]hookNote(nil), w.notes[w.seenNotes:]...)
	w.seenNotes = len(w.notes)
	returned := map[uint32]bool{}
	for _, n := range w.notes {
		returned[n.sid] = true
	}
	for _, rm := range w.removals {
		if !returned[rm.sid] {
			ob.Pending = append(ob.Pending, uint64(rm.sid))
		}
	}
	hp := append([]string(nil), w.hookProblems...)
	w.mu.Unlock()
	sort.Slice(ob.Notes, func(a, b int) bool { return ob.Notes[a].sid < ob.Notes[b].sid })
	sortedU(ob.Pending)
	if len(hp) > 0 {
		r.problems = append(r.problems, hp...)
		ob.Timely = false
		return ob, false
	}
	for _, f := range fs {
		f.mu.Lock()
		for k := f.seenEntered; k < len(f.entered); k++ {
			ob.Takes = append(ob.Takes, [2]uint64{uint64(f.sid), uint64(f.entered[k])})
		}
		f.seenEntered = len(f.entered)
		for k := f.seenEvents; k < len(f.events); k++ {
			e := [3]uint64{uint64(f.sid), uint64(f.events[k].msg), 0}
			if f.events[k].entered {
				e[2] = 1
			}
			ob.Events = append(ob.Events, e)
		}
		f.seenEvents = len(f.events)
		for k := f.seenClose; k < f.closeCalls; k++ {
			ob.Closed = append(ob.Closed, uint64(f.sid))
		}
		f.seenClose = f.closeCalls
		f.mu.Unlock()
	}
	sort.SliceStable(ob.Takes, func(a, b int) bool { return ob.Takes[a][0] < ob.Takes[b][0] })
	sort.SliceStable(ob.Events, func(a, b int) bool { return ob.Events[a][0] < ob.Events[b][0] })
	sortedU(ob.Closed)
	sort.Slice(rems, func(a, b int) bool { return rems[a].sid < rems[b].sid })
	for _, rm := range rems {
		tags := make([]uint64, len(rm.tags))
		for k, t := range rm.tags {
			tags[k] = num(t)
		}
		ob.Removed = append(ob.Removed, struct {
			Sid  uint64
			Tags []uint64
		}{uint64(rm.sid), sortedU(tags)})
	}
	var alive bool
	ob.Snap, alive = w.snapTerm()
	if !alive {
		r.problems = append(r.problems, "after "+o.K+": "+frozenMsg)
		ob.Timely = false
		return ob, false
	}
	return ob, true
}

type fatalHook struct{ hits *atomic.Int32 }

func (h fatalHook) OnWrite(*zapcore.CheckedEntry, []zapcore.Field) {
	h.hits.Add(1)
	runtime.Goexit() // instead of os.Exit: the harness reports the fatal as a violation
}

func runCase(d caseDesc, fatalHits *atomic.Int32) (term string, problems []string, r *runner) {
	fatalHits.Store(0)
	w := newWorld(d.Workers, d.DialCap, fatalHits)
	r = &runner{w: w}
	var ops, obs []string
	for i, o := range d.Ops {
		ob, ok := r.exec(i, o)
		ops = append(ops, o.term())
		if ob.Snap == "" {
			ob.Snap = "(mkSnap nV nK nK)"
		}
		obs = append(obs, ob.term())
		if !ok {
			break
		}
	}
	w.teardown()
	term = vlib.App("CHook", vlib.N(uint64(d.Workers)), vlib.N(uint64(d.DialCap)), mlist("cH2", "nH2", ops), mlist("cO2", "nO2", obs))
	return term, r.problems, r
}

func main() {
	o := vlib.ParseFlags()
	vlib.Quiet()
	fatalHits := &atomic.Int32{}
	// log.Fatal must not kill the harness: the streampool logger gets a fatal hook that ends the goroutine
	spl := logger.NewNamed(streampool.CName)
	*(spl.Logger) = *zap.New(zapcore.NewNopCore(), zap.WithFatalHook(fatalHook{fatalHits}))

	perShard := 20 // parsing the case terms dominates: many small shards in parallel
	if o.Tier == "thorough" {
		perShard = 60
	}
	w := vlib.NewWriter(o.Out, "C19_run", perShard)
	var samples []interface{}
	var maxLat time.Duration
	fallbacks := 0

	var progress atomic.Int64
	go func() { // watchdog: the harness itself must never hang the check
		last, since := int64(-1), time.Now()
		for {
			time.Sleep(time.Second)
			if p := progress.Load(); p != last {
				last, since = p, time.Now()
			} else if time.Since(since) > 90*time.Second {
				buf := make([]byte, 1<<20)
				fmt.Fprintf(os.Stderr, "c19 harness: no progress for 90s\n%s\n", buf[:runtime.Stack(buf, true)])
				os.Exit(3)
			}
		}
	}()
	do := func(d caseDesc) {
		progress.Add(1)
		term, problems, r := runCase(d, fatalHits)
		if r.maxLat > maxLat {
			maxLat = r.maxLat
		}
		fallbacks += r.fallback
		nt := nontrivial(d)
		idx := w.Add(term, d, keyOf(d), nt)
		for _, p := range problems {
			w.Violation(idx, "C19-direct", p, nil)
			w.Stat("direct_violation")
		}
		w.Stat(fmt.Sprintf("ops_%02d", len(d.Ops)/5*5))
		for _, op := range d.Ops {
			w.Stat("op_" + op.K)
		}
		if d.Kinds != "" {
			w.Stat("profile_" + d.Kinds)
		}
		if ownerSectionCloses(d) > 0 {
			w.Stat("owner_section_with_stream_end")
		}
		if len(samples) < 4 && nt && len(d.Ops) >= 8 && w.Count()%7 == 0 {
			samples = append(samples, d)
		}
	}

	doMq := func(d mqDesc) {
		progress.Add(1)
		term, problems := runMqCase(d)
		idx := w.Add(term, d, keyOf2(d), len(d.Ops) >= 8)
		for _, p := range problems {
			w.Violation(idx, "C19-direct", p, nil)
			w.Stat("direct_violation")
		}
		w.Stat("profile_multiqueue")
		for _, op := range d.Ops {
			w.Stat("mqop_" + op.K)
		}
	}

	if o.Replay != "" {
		for _, raw := range vlib.ReadReplay(o.Replay) {
			var m mqDesc
			if json.Unmarshal(raw, &m) == nil && m.Mq {
				doMq(m)
				continue
			}
			var d caseDesc
			if json.Unmarshal(raw, &d) != nil || len(d.Ops) == 0 {
				continue
			}
			do(d)
		}
		w.Finish("replay", samples, nil)
		return
	}

	directSeen := func() int { return w.Stats["direct_violation"] }
	for _, d := range fixedCases() {
		if directSeen() >= 8 {
			break // hangs / panics cost seconds each: a handful of witnesses is enough
		}
		do(d)
	}
	rnd := vlib.NewRand(o.Seed)
	n := 250
	if o.Tier == "thorough" {
		n = 5000
	}
	n *= o.Budget
	for k := 0; k < n && directSeen() < 8; k++ {
		do(genCase(rnd.Fork(uint64(k)), k))
	}
	nMq := 100
	if o.Tier == "thorough" {
		nMq = 1500
	}
	nMq *= o.Budget
	for k := 0; k < nMq && directSeen() < 8; k++ {
		doMq(genMqCase(rnd.Fork(uint64(1000000 + k))))
	}
	w.Finish("fixed scenarios (blocked/failing/close-gated streams, queue sizes 1..3, duplicate tags) plus random operation "+
		"sequences of 6..40 operations over <= 6 streams, 3 peers, 3 tags, queue sizes 1..4 (and the default), dial workers 1..2; "+
		"a case is non-trivial if it has a blocked stream (a MsgSend never released before a later send to it) and at least one "+
		"send-type operation after it, or a close; distinct by operation list; plus util/multiqueue histories (add / handler release / CloseThread / Close, "+
		"sizes 1..3, non-trivial from 8 operations); "+
		"every pool has a close hook that takes the owner's mutex and calls back into the pool (Streams of the closed tags); in the -owner profiles "+
		"the harness holds the owner's mutex across pool calls (ownerlock .. ownerunlock) while streams end (hooks parked)",
		samples, map[string]interface{}{"max_call_latency_us": maxLat.Microseconds(), "latency_guard_ms": latencyGuard.Milliseconds(),
			"settle_probe_fallbacks": fallbacks})
}

func keyOf2(d mqDesc) string {
	b, _ := json.Marshal(d)
	return string(b)
}

func keyOf(d caseDesc) string {
	b, _ := json.Marshal(d)
	return string(b)
}

// ownerSectionCloses counts stream ends requested while the owner's mutex is held
func ownerSectionCloses(d caseDesc) int {
	n, locked := 0, false
	for _, o := range d.Ops {
		switch o.K {
		case "ownerlock":
			locked = true
		case "ownerunlock":
			locked = false
		case "readerr", "closerel":
			if locked {
				n++
			}
		case "release":
			if locked && !o.Ok {
				n++
			}
		}
	}
	return n
}

func nontrivial(d caseDesc) bool {
	sends, closes := 0, 0
	for _, o := range d.Ops {
		switch o.K {
		case "bcast", "byid", "send":
			sends++
		case "readerr":
			closes++
		case "release":
			if !o.Ok {
				closes++
			}
		}
	}
	return sends >= 2 && (closes > 0 || sends >= 3)
}
