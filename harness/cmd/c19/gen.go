package main

import "verifharness/vlib"

func add(peer, cap int, tags []int, cgate, read bool) op {
	return op{K: "add", Peer: peer, Cap: cap, Tags: tags, CGate: cgate, Read: read}
}
func bcast(tags ...int) op        { return op{K: "bcast", Tags: tags} }
func byid(peers ...int) op        { return op{K: "byid", Peers: peers} }
func release(sid int, ok bool) op { return op{K: "release", Sid: sid, Ok: ok} }
func streams(tags ...int) op      { return op{K: "streams", Tags: tags} }
func readerr(sid int) op          { return op{K: "readerr", Sid: sid} }
func rmtagsid(sid int, tags ...int) op {
	return op{K: "rmtagsid", Sid: sid, Tags: tags}
}
func addtags(sid int, tags ...int) op { return op{K: "addtags", Sid: sid, Tags: tags} }

var ownerLock, ownerUnlock = op{K: "ownerlock"}, op{K: "ownerunlock"}

// hand-made scenarios: every mechanism of the property at least once, deterministic
func fixedCases() []caseDesc {
	var cs []caseDesc
	// I: the pool's owner (lock order owner mutex -> pool.mu, close hook takes the owner mutex and looks at the pool): a
	// stream ends while the owner is inside its section; the owner changes tags of another stream, broadcasts, sends by
	// id, asks for streams and adds a stream with the hook parked; then leaves the section (pubsub: remoteMu held across
	// AddTagsCtx / RemoveTagsById, onStreamClose takes remoteMu)
	for cap := 1; cap <= 2; cap++ {
		cs = append(cs, caseDesc{Workers: 1, DialCap: 2, Kinds: "fixed-owner", Ops: []op{
			add(1, cap, []int{1}, false, true), add(2, cap, []int{1, 2}, false, false), ownerLock, readerr(1), rmtagsid(2, 2),
			bcast(1), release(2, true), streams(1, 2), byid(1, 2), addtags(2, 3), add(3, cap, []int{1}, false, false), ownerUnlock,
			streams(1, 2, 3), bcast(1), release(2, true), release(3, true)}})
		// J: two streams end inside one section (MsgSend error / MsgRecv error), a third one between sections; hooks race
		// for the owner mutex after the unlock; a close-gated stream's removal happens inside the section
		cs = append(cs, caseDesc{Workers: 1, DialCap: 2, Kinds: "fixed-owner", Ops: []op{
			add(1, cap, []int{1}, false, false), add(2, cap, []int{1, 2}, false, true), add(3, cap, []int{2}, true, false), add(1, cap, []int{1, 1}, false, false),
			bcast(1), bcast(2), ownerLock, release(1, false), readerr(2), bcast(1, 2), streams(1, 2), readerr(3), ownerLock,
			{K: "closerel", Sid: 3}, rmtagsid(3, 2), rmtagsid(4, 1), byid(1), ownerUnlock, streams(1, 2), ownerUnlock,
			readerr(4), streams(1), ownerLock, bcast(1), ownerUnlock}})
	}
	for cap := 1; cap <= 3; cap++ {
		// A: stream 1 blocked forever, stream 2 healthy; many broadcasts; stream 2 keeps receiving everything
		a := caseDesc{Workers: 1, DialCap: 2, Kinds: "fixed", Ops: []op{add(1, cap, []int{1}, false, false), add(2, cap, []int{1}, false, true)}}
		for k := 0; k < cap+3; k++ {
			a.Ops = append(a.Ops, bcast(1), release(2, true))
		}
		a.Ops = append(a.Ops, byid(1), byid(1, 2), release(2, true), streams(1))
		cs = append(cs, a)
		// B: duplicate tags at creation, single-tag broadcast delivers two copies, tag removal, close
		cs = append(cs, caseDesc{Workers: 1, DialCap: 2, Kinds: "fixed", Ops: []op{
			add(1, cap, []int{1, 1}, false, false), add(1, cap, []int{1, 2, 2}, false, false), bcast(1), bcast(1, 2), streams(1), streams(2),
			release(1, true), release(2, true), {K: "addtags", Sid: 1, Tags: []int{2, 2, 3}}, streams(2, 3),
			{K: "rmtags", Sid: 2, Tags: []int{2}}, streams(1, 2), {K: "rmtags", Sid: 1, Tags: []int{1, 3}}, streams(1, 2, 3),
			{K: "readerr", Sid: 1}, streams(1, 2, 3), bcast(1, 2, 3), {K: "readerr", Sid: 2}, streams(1, 2, 3), byid(1)}})
		// C: failing stream: MsgSend returns an error, the stream leaves all indexes, later sends skip it
		cs = append(cs, caseDesc{Workers: 1, DialCap: 2, Kinds: "fixed", Ops: []op{
			add(1, cap, []int{1}, false, true), add(2, cap, []int{1, 2}, false, false), bcast(1), bcast(1), release(1, false), streams(1),
			bcast(1), byid(1), byid(2, 1), release(2, true), release(2, true), release(2, true), {K: "addtags", Sid: 1, Tags: []int{3}},
			{K: "rmtagsid", Sid: 1, Tags: []int{1}}, streams(1, 2, 3)}})
		// D: operations between queue.Close and removeStream (the stream's Close() is parked)
		cs = append(cs, caseDesc{Workers: 1, DialCap: 2, Kinds: "fixed", Ops: []op{
			add(1, cap, []int{1}, true, false), add(1, cap, []int{1}, true, true), bcast(1), bcast(1), {K: "readerr", Sid: 1}, streams(1),
			bcast(1), byid(1), {K: "addtags", Sid: 1, Tags: []int{2}}, {K: "rmtags", Sid: 1, Tags: []int{1}}, streams(1, 2),
			release(1, true), release(1, true), release(1, true), {K: "closerel", Sid: 1}, streams(1, 2), bcast(1, 2),
			release(2, false), {K: "readerr", Sid: 2}, bcast(1), {K: "closerel", Sid: 2}, streams(1, 2), byid(1)}})
	}
	// E: default queue size (<= 0 -> 100)
	e := caseDesc{Workers: 1, DialCap: 2, Kinds: "fixed", Ops: []op{add(1, 0, []int{1}, false, false)}}
	for k := 0; k < 12; k++ {
		e.Ops = append(e.Ops, bcast(1))
	}
	e.Ops = append(e.Ops, release(1, true), release(1, true))
	cs = append(cs, e)
	// F: Send opens streams through the dial pool; a stuck dial fills the dial queue, Send fails fast, others unaffected
	cs = append(cs, caseDesc{Workers: 1, DialCap: 1, Kinds: "fixed", Ops: []op{
		add(1, 1, []int{1}, false, false),
		{K: "send", Send: []sendPeer{{Peer: 1}, {Peer: 2, Open: &openScript{Cap: 1, Tags: []int{1, 2}}}, {Peer: 3}}},
		{K: "send", Send: []sendPeer{{Peer: 2}, {Peer: 2}}}, bcast(1), release(2, true),
		{K: "sendstuck", Peer: 90}, {K: "send", Send: []sendPeer{{Peer: 1}}}, {K: "send", Send: []sendPeer{{Peer: 2}}},
		{K: "sendstuck", Peer: 91}, bcast(1), byid(2), release(1, true), release(2, true), streams(1, 2)}})
	cs = append(cs, caseDesc{Workers: 2, DialCap: 2, Kinds: "fixed", Ops: []op{
		{K: "sendstuck", Peer: 90}, {K: "send", Send: []sendPeer{{Peer: 1, Open: &openScript{Cap: 2, Tags: []int{3, 3}, CGate: true}}}},
		{K: "send", Send: []sendPeer{{Peer: 1}, {Peer: 1}}}, {K: "send", Send: []sendPeer{{Peer: 1}}}, release(1, false), streams(3),
		{K: "send", Send: []sendPeer{{Peer: 1}}}, {K: "closerel", Sid: 1}, {K: "send", Send: []sendPeer{{Peer: 1, Open: &openScript{Cap: 1, Tags: []int{3}}}}}, streams(3)}})
	// H: the caller keeps its tags slice and creates two streams from it; tags of one stream are removed, then the other ends
	sh := func(peer int, tags ...int) op { return op{K: "add", Peer: peer, Cap: 1, Tags: tags, Shared: true} }
	cs = append(cs, caseDesc{Workers: 1, DialCap: 2, Kinds: "fixed", Ops: []op{
		sh(1, 1, 2), sh(2, 1, 2), {K: "rmtagsid", Sid: 1, Tags: []int{1}}, streams(1, 2), bcast(1), bcast(2),
		{K: "readerr", Sid: 2}, streams(1, 2), {K: "addtags", Sid: 1, Tags: []int{3}}, sh(3, 1, 2), streams(1, 2, 3), {K: "readerr", Sid: 1}, streams(1, 2, 3)}})
	// G: SendById: first stream of the peer is full and blocked, the second one takes over
	cs = append(cs, caseDesc{Workers: 1, DialCap: 2, Kinds: "fixed", Ops: []op{
		add(1, 1, nil, false, false), add(1, 2, nil, false, false), byid(1), byid(1), byid(1), byid(1), byid(1), byid(1),
		release(2, true), release(2, true), byid(3), byid(3, 1)}})
	return cs
}

func pickTags(r *vlib.Rand) []int {
	n := r.Intn(4)
	var t []int
	for i := 0; i < n; i++ {
		t = append(t, 1+r.Intn(3))
	}
	return t
}

// random operation sequences; the generator only guesses the pool's state to pick useful operations — every operation is
// legal in every state (operations that are not enabled are no-ops in the model and in the harness)
func genCase(r *vlib.Rand, k int) caseDesc {
	d := caseDesc{Workers: 1, DialCap: 1 + r.Intn(2), Kinds: "random"}
	if r.Chance(1, 5) {
		d.Workers = 2
	}
	free := d.Workers
	maxCap := 1 + r.Intn(4)
	nStreams := 0
	blocked := map[int]bool{}
	stuck := 0
	addOne := func() {
		cap := 1 + r.Intn(maxCap)
		if r.Chance(1, 25) {
			cap = 0
		}
		a := add(1+r.Intn(3), cap, pickTags(r), r.Chance(1, 5), r.Bool())
		a.Shared = r.Chance(1, 4)
		d.Ops = append(d.Ops, a)
		nStreams++
		if r.Chance(1, 3) {
			blocked[nStreams] = true
		}
	}
	for i, n := 0, 1+r.Intn(4); i < n; i++ {
		addOne()
	}
	anySid := func() int { return 1 + r.Intn(nStreams+1) }
	unblockedSid := func() int {
		for t := 0; t < 8; t++ {
			s := 1 + r.Intn(nStreams)
			if !blocked[s] {
				return s
			}
		}
		return 1 + r.Intn(nStreams)
	}
	nOps := 6 + r.Intn(34)
	owner := r.Chance(1, 2) // the harness also plays the pool's owner: sections with the owner's mutex held
	locked := false
	if owner {
		d.Kinds = "random-owner"
	}
	for len(d.Ops) < nOps {
		if owner && r.Chance(1, 8) {
			if locked {
				d.Ops = append(d.Ops, ownerUnlock)
			} else {
				d.Ops = append(d.Ops, ownerLock)
			}
			locked = !locked
			continue
		}
		if locked && r.Chance(1, 3) {
			// inside the owner's section: streams end (their hooks park), tags of other streams change
			switch r.Intn(5) {
			case 0, 1:
				d.Ops = append(d.Ops, readerr(anySid()))
			case 2:
				d.Ops = append(d.Ops, release(anySid(), false))
			case 3:
				d.Ops = append(d.Ops, op{K: "rmtagsid", Sid: anySid(), Tags: pickTags(r)})
			default:
				d.Ops = append(d.Ops, op{K: "addtags", Sid: anySid(), Tags: pickTags(r)})
			}
			continue
		}
		x := r.Intn(100)
		switch {
		case x < 28:
			d.Ops = append(d.Ops, bcast(pickTags(r)...))
		case x < 40:
			n := 1 + r.Intn(3)
			var ps []int
			for i := 0; i < n; i++ {
				ps = append(ps, 1+r.Intn(4))
			}
			d.Ops = append(d.Ops, byid(ps...))
		case x < 60:
			d.Ops = append(d.Ops, release(unblockedSid(), true))
		case x < 64:
			d.Ops = append(d.Ops, release(anySid(), false))
		case x < 68:
			d.Ops = append(d.Ops, op{K: "readerr", Sid: anySid()})
		case x < 72:
			d.Ops = append(d.Ops, op{K: "closerel", Sid: anySid()})
		case x < 79:
			d.Ops = append(d.Ops, op{K: "addtags", Sid: anySid(), Tags: pickTags(r)})
		case x < 84:
			d.Ops = append(d.Ops, op{K: "rmtags", Sid: anySid(), Tags: pickTags(r)})
		case x < 87:
			d.Ops = append(d.Ops, op{K: "rmtagsid", Sid: anySid(), Tags: pickTags(r)})
		case x < 92:
			d.Ops = append(d.Ops, streams(pickTags(r)...))
		case x < 95:
			if nStreams < 6 {
				addOne()
			}
		default:
			if free >= 2 || (r.Chance(1, 6) && stuck < 2) {
				d.Ops = append(d.Ops, op{K: "sendstuck", Peer: 90 + stuck})
				stuck++
				if free > 0 {
					free--
				}
			} else {
				n := 1 + r.Intn(3)
				var sp []sendPeer
				for i := 0; i < n; i++ {
					p := sendPeer{Peer: 1 + r.Intn(4)}
					if r.Chance(2, 3) && nStreams < 8 {
						p.Open = &openScript{Cap: 1 + r.Intn(maxCap), Tags: pickTags(r), CGate: r.Chance(1, 6)}
					}
					sp = append(sp, p)
				}
				d.Ops = append(d.Ops, op{K: "send", Send: sp})
				if free > 0 {
					nStreams += 0 // opened streams get ids the generator does not track exactly; anySid() over-approximates
				}
			}
		}
	}
	_ = k
	return d
}
