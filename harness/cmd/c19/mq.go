package main

// util/multiqueue (the per-object receive queues of commonspace/sync use it with size 100): same bounded
// mb.TryAdd pattern as the stream queues. The handler parks every message on a gate, the harness decides when
// it returns; every call runs under the latency guard.

import (
	"context"
	"errors"
	"fmt"
	"runtime"
	"sort"
	"sync"
	"time"

	"github.com/cheggaaa/mb/v3"

	"github.com/anyproto/any-sync/util/multiqueue"

	"verifharness/vlib"
)

type mqOp struct {
	K   string `json:"k"` // add release closethread close
	Tid int    `json:"tid,omitempty"`
	Msg int    `json:"msg,omitempty"` // release: which parked message
}

type mqDesc struct {
	Mq  bool   `json:"mq"`
	Cap int    `json:"cap"`
	Ops []mqOp `json:"ops"`
}

type mqMsg struct{ tid, id int }

func (mqMsg) MsgSize() uint64 { return 1 }

type nopUpdater struct{}

func (nopUpdater) UpdateQueueSize(uint64, int, bool) {}

type mqWorld struct {
	mu      sync.Mutex
	entered [][2]int             // handler entries (tid, msg) in order
	gates   map[[2]int]chan bool // parked handler invocations
	dead    chan struct{}
	adds    int // successful Adds
	returns int // handler returns
}

func (w *mqWorld) handle(m mqMsg) {
	g := make(chan bool, 1)
	w.mu.Lock()
	w.entered = append(w.entered, [2]int{m.tid, m.id})
	w.gates[[2]int{m.tid, m.id}] = g
	w.mu.Unlock()
	select {
	case <-g:
	case <-w.dead:
	}
	w.mu.Lock()
	w.returns++
	w.mu.Unlock()
}

func mqErrClass(err error) int {
	switch {
	case err == nil:
		return 0
	case errors.Is(err, mb.ErrOverflowed):
		return 3
	case errors.Is(err, multiqueue.ErrClosed):
		return 5
	case errors.Is(err, multiqueue.ErrThreadNotExists):
		return 6
	}
	return 4
}

// expected number of handler entries is not known to the harness; it waits until the entries stop changing AND every
// thread with a successful add has either a parked handler or nothing left: approximated by "entered == adds-accepted
// that can be running", so instead we use a small shadow count per thread: accepted - entered > 0 and no handler parked.
func runMqCase(d mqDesc) (term string, problems []string) {
	w := &mqWorld{gates: map[[2]int]chan bool{}, dead: make(chan struct{})}
	q := multiqueue.New[mqMsg](w.handle, nopUpdater{}, 0, d.Cap)
	defer close(w.dead)
	accepted := map[int]int{} // per thread: accepted messages
	seen := 0
	var ops, obs []string
	for i, o := range d.Ops {
		var err error
		timely, pan := true, interface{}(nil)
		switch o.K {
		case "add":
			err, timely, pan, _ = guarded(func() error { return q.Add(context.Background(), fmt.Sprint(o.Tid), mqMsg{o.Tid, i}) })
			if err == nil && timely {
				accepted[o.Tid]++
			}
			ops = append(ops, vlib.App("MqAdd", vlib.N(uint64(o.Tid))))
		case "release":
			w.mu.Lock()
			g := w.gates[[2]int{o.Tid, o.Msg}]
			delete(w.gates, [2]int{o.Tid, o.Msg})
			ret0 := w.returns
			w.mu.Unlock()
			if g != nil {
				g <- true
				for t0 := time.Now(); time.Since(t0) < settleTimeout; runtime.Gosched() {
					w.mu.Lock()
					done := w.returns > ret0
					w.mu.Unlock()
					if done {
						break
					}
				}
			}
			ops = append(ops, vlib.App("MqRelease", vlib.N(uint64(o.Tid)), vlib.N(uint64(o.Msg))))
		case "closethread":
			err, timely, pan, _ = guarded(func() error { return q.CloseThread(fmt.Sprint(o.Tid)) })
			ops = append(ops, vlib.App("MqCloseThread", vlib.N(uint64(o.Tid))))
		default:
			err, timely, pan, _ = guarded(func() error { return q.Close() })
			ops = append(ops, "MqClose")
		}
		if pan != nil || !timely {
			problems = append(problems, fmt.Sprintf("multiqueue %s: timely=%v panic=%v", o.K, timely, pan))
			obs = append(obs, vlib.App("mkMqObs", "9", "nP", "nN"))
			break
		}
		// quiescence: every thread with accepted-but-not-entered messages must have a parked handler
		deadline := time.Now().Add(settleTimeout)
		for {
			w.mu.Lock()
			enteredPer, parked := map[int]int{}, map[int]bool{}
			for _, e := range w.entered {
				enteredPer[e[0]]++
			}
			for k := range w.gates {
				parked[k[0]] = true
			}
			w.mu.Unlock()
			ok := true
			for tid, a := range accepted {
				if enteredPer[tid] < a && !parked[tid] {
					ok = false
				}
			}
			if ok {
				break
			}
			if time.Now().After(deadline) {
				problems = append(problems, "multiqueue: a thread with queued messages and an idle handler made no progress")
				break
			}
			runtime.Gosched()
		}
		w.mu.Lock()
		var takes []string
		news := append([][2]int(nil), w.entered[seen:]...)
		seen = len(w.entered)
		w.mu.Unlock()
		sort.SliceStable(news, func(a, b int) bool { return news[a][0] < news[b][0] })
		for _, e := range news {
			takes = append(takes, vlib.App("pP", vlib.N(uint64(e[0])), vlib.N(uint64(e[1]))))
		}
		var tids []uint64
		for _, t := range q.ThreadIds() {
			var n uint64
			fmt.Sscan(t, &n)
			tids = append(tids, n)
		}
		obs = append(obs, vlib.App("mkMqObs", vlib.N(uint64(mqErrClass(err))), mlist("cP", "nP", takes), nlist(sortedU(tids))))
	}
	_ = q.Close()
	return vlib.App("CMq", vlib.N(uint64(d.Cap)), mlist("cM", "nM", ops), mlist("cQ", "nQ", obs)), problems
}

func genMqCase(r *vlib.Rand) mqDesc {
	d := mqDesc{Mq: true, Cap: 1 + r.Intn(3)}
	n := 5 + r.Intn(25)
	closedT := map[int]bool{}
	closedAll := false
	var parked [][2]int // the generator's guess of parked (tid,msg): first accepted message per idle thread
	busy := map[int]bool{}
	qlen := map[int]int{}
	var queued = map[int][]int{}
	for i := 0; i < n; i++ {
		x := r.Intn(100)
		switch {
		case x < 55:
			tid := 1 + r.Intn(3)
			if closedT[tid] {
				tid = 10 + i // never re-create a closed thread id: the old loop may still be draining
			}
			d.Ops = append(d.Ops, mqOp{K: "add", Tid: tid})
			if closedAll || closedT[tid] {
				break
			}
			if !busy[tid] {
				busy[tid] = true
				parked = append(parked, [2]int{tid, i})
			} else if qlen[tid] < d.Cap {
				qlen[tid]++
				queued[tid] = append(queued[tid], i)
			}
		case x < 85:
			if len(parked) == 0 {
				d.Ops = append(d.Ops, mqOp{K: "release", Tid: 1, Msg: 999})
				break
			}
			k := r.Intn(len(parked))
			p := parked[k]
			parked = append(parked[:k], parked[k+1:]...)
			d.Ops = append(d.Ops, mqOp{K: "release", Tid: p[0], Msg: p[1]})
			if len(queued[p[0]]) > 0 {
				parked = append(parked, [2]int{p[0], queued[p[0]][0]})
				queued[p[0]] = queued[p[0]][1:]
				qlen[p[0]]--
			} else {
				busy[p[0]] = false
			}
		case x < 96:
			tid := 1 + r.Intn(4)
			d.Ops = append(d.Ops, mqOp{K: "closethread", Tid: tid})
			if !closedAll {
				closedT[tid] = true
			}
		default:
			d.Ops = append(d.Ops, mqOp{K: "close"})
			closedAll = true
		}
	}
	return d
}
