// Third case kind (CRace): ACL records landing DURING AddRawChanges.
//
// AddRawChanges runs under the tree lock; the ACL list it validates against is shared with the ACL sync handler, which
// adds records under the list's WRITE lock.  The property's clause "that identity held write permission at the ACL
// record the change cites, and that record exists locally" must hold whatever the interleaving of the two is: the
// outcome of the call has to be that of one of the two serial orders (records before the call / after the call).
//
// A race world = a real ACL (genAcl: writer demoted / promoted again / removed / removed and re-added ...), a receiving
// tree whose ACL list is wrapped in raceAcl, and a short sequence of AddRawChanges calls; during most calls a concurrent
// ACL writer holds the next records of the log (pending).  raceAcl plays the scheduler of that second goroutine
// deterministically, on ONE goroutine: every access the tree code makes to the list (RLock, RUnlock, AclState, Head,
// HasHead, IsAfter, Get, GetIndex) is an interception point; from point number `ready` on, the writer tries
// TryLock() on the list's own RWMutex at every point and, when it gets the lock (= the tree does not hold the read
// lock there), adds its records and unlocks.  If it never gets in, it adds them after the call returned.
// Every DISTINCT schedule of a world is explored: ready = 0, then ready = (earliest landing point of the previous
// run) + 1, ... until the writer no longer gets in during any call (all smaller values in between give the identical
// execution, everything being deterministic).  One (world, ready) = one CRace case.
//
// The batches: chunks of the pool of properly signed changes (genPool), mutants, and changes signed on the spot on top
// of the CURRENT heads by an account whose write permission CHANGES at one of the pending records (removed / demoted /
// re-added / promoted), citing that record or a later one -- the family for which the two serial orders and any
// non-serial outcome differ.
package main

import (
	"fmt"

	"github.com/anyproto/any-sync/commonspace/object/acl/list"
	"github.com/anyproto/any-sync/commonspace/object/tree/objecttree"
	"github.com/anyproto/any-sync/consensus/consensusproto"

	"verifharness/vlib"
)

const raceIdxBase = 5000000 // rng stream of a race world: Fork(raceIdxBase + idx)
const raceMaxRuns = 20      // schedules explored per world (quick tier worlds have < 20 interception points per call)

// ---------------------------------------------------------------- the decorator

type raceAcl struct {
	list.AclList
	armed   bool
	pending []*consensusproto.RawRecordWithId
	ready   int    // the writer tries from this interception point on
	point   int    // interception points seen in this call
	landed  int    // interception point at which the writer got the lock (-1: not during the call)
	locked  int    // attempts that failed because the tree held the read lock
	trace   []byte // the points seen: r RLock, u RUnlock, s AclState, h Head, H HasHead, a IsAfter, g Get/GetIndex
	failure string
}

func (d *raceAcl) yield(ev byte) {
	if !d.armed {
		return
	}
	p := d.point
	d.point++
	d.trace = append(d.trace, ev)
	if len(d.pending) == 0 || p < d.ready {
		return
	}
	tl, ok := d.AclList.(interface{ TryLock() bool })
	if !ok {
		d.failure = "the ACL list has no TryLock"
		return
	}
	if !tl.TryLock() {
		d.locked++
		return
	}
	for _, rec := range d.pending {
		if err := d.AclList.AddRawRecord(rec); err != nil && d.failure == "" {
			d.failure = "pending ACL record refused: " + err.Error()
		}
	}
	d.AclList.Unlock()
	d.pending = nil
	d.landed = p
}

func (d *raceAcl) arm(pending []*consensusproto.RawRecordWithId, ready int) {
	d.armed, d.pending, d.ready, d.point, d.landed, d.locked, d.trace = true, pending, ready, 0, -1, 0, nil
}

func (d *raceAcl) RLock()   { d.yield('r'); d.AclList.RLock() }
func (d *raceAcl) RUnlock() { d.AclList.RUnlock(); d.yield('u') }
func (d *raceAcl) AclState() *list.AclState {
	st := d.AclList.AclState() // the reader has its state; the writer may run before the reader uses it
	d.yield('s')
	return st
}
func (d *raceAcl) Head() *list.AclRecord {
	h := d.AclList.Head()
	d.yield('h')
	return h
}
func (d *raceAcl) HasHead(h string) bool { d.yield('H'); return d.AclList.HasHead(h) }
func (d *raceAcl) IsAfter(a, b string) (bool, error) {
	d.yield('a')
	return d.AclList.IsAfter(a, b)
}
func (d *raceAcl) Get(id string) (*list.AclRecord, error) { d.yield('g'); return d.AclList.Get(id) }
func (d *raceAcl) GetIndex(i int) (*list.AclRecord, error) {
	d.yield('g')
	return d.AclList.GetIndex(i)
}

// ---------------------------------------------------------------- one schedule of one world

type raceStep struct {
	mid    int // records that landed while the call was running
	landed int
	points int
}

type raceWorldT struct {
	seed, idx        uint64
	acl              *Acl
	root             rawT
	pool             []node
	ids              map[string]int
	rnd              vlib.Rand
	rootLen, recvLen int
	derived          bool
}

// raceWorld explores every distinct schedule of world idx.
func (rn *runner) raceWorld(seed, idx uint64, size int) {
	ready := 0
	for run := 0; run < raceMaxRuns; run++ {
		next := rn.raceRun(seed, idx, size, ready)
		if next < 0 {
			return
		}
		ready = next
	}
	rn.w.Stat("race_world_schedules_capped")
}

// raceRun runs world idx with the writer ready from interception point `ready` of every racing call and emits one
// case; returns the next value of ready that gives a different schedule (-1: none).
func (rn *runner) raceRun(seed, idx uint64, size, ready int) int {
	w := rn.w
	rn.db.Tick()
	// the world (ACL, root, pool of signed changes) is the same for every schedule: built once, the generator
	// continues from the same state in every run
	rw := rn.raceCache
	if rw == nil || rw.seed != seed || rw.idx != idx {
		r := vlib.NewRand(seed).Fork(raceIdxBase + idx)
		acl := genAcl(r, seed*1000003+raceIdxBase+idx)
		rw = &raceWorldT{seed: seed, idx: idx, acl: acl}
		s0 := &scen{r: r, acl: acl, w: acl.W, ids: map[string]int{}}
		rw.rootLen = 1 + r.Intn(3)
		rw.derived = r.Chance(1, 8)
		rw.recvLen = rw.rootLen + r.Intn(acl.Len()-rw.rootLen) // < acl.Len(): something is always left for the writer
		if r.Chance(2, 3) && rw.recvLen > rw.rootLen+2 {
			rw.recvLen = rw.rootLen + r.Intn(3)
		}
		var err error
		if rw.derived {
			s0.root, err = objecttree.DeriveObjectTreeRoot(objecttree.ObjectTreeDerivePayload{
				ChangeType: "c02", ChangePayload: []byte(fmt.Sprintf("race-derived-%d-%d", seed, idx)), SpaceId: "space-c02"}, acl.Prefix(rw.recvLen))
		} else {
			s0.root, err = objecttree.CreateObjectTreeRoot(objecttree.ObjectTreeCreatePayload{
				PrivKey: acl.W.Key(Owner), ChangeType: "c02", ChangePayload: []byte("root"), SpaceId: "space-c02",
				Seed: []byte(fmt.Sprintf("race-%d-%d", seed, idx)), Timestamp: 1690000000}, acl.Prefix(rw.rootLen))
		}
		must(err)
		s0.id(s0.root.Id)
		s0.genPool(rn.db, rw.derived)
		rw.root, rw.pool, rw.ids, rw.rnd = s0.root, s0.pool, s0.ids, *r
		rn.raceCache = rw
	}
	rnd := rw.rnd
	r := &rnd
	acl := rw.acl
	s := &scen{r: r, acl: acl, w: acl.W, ids: map[string]int{}, root: rw.root, pool: rw.pool}
	for k, v := range rw.ids {
		s.ids[k] = v
	}
	rootLen, derived, recvLen := rw.rootLen, rw.derived, rw.recvLen
	inner := acl.Prefix(recvLen)
	dec := &raceAcl{AclList: inner, landed: -1}
	s.sum = append(s.sum, fmt.Sprintf("race acl=%d records root@%d derived=%v recv-acl=%d ready=%d", acl.Len(), rootLen, derived, recvLen, ready))
	builtLen := recvLen

	tree, berr := buildTree(rn.db, s.root, dec)
	if berr != nil {
		panic(fmt.Sprintf("race world %d/%d: honest root refused: %v", seed, idx, berr))
	}
	// the next schedule of this world builds the same tree (same root id) in the same DB
	defer func() { must(tree.st.Delete(ctx)) }()
	obs0 := tree.Observe()

	var dels []delivery
	var steps []raceStep
	heads := obs0.Heads
	next := 0
	ts := int64(1800000000)
	nontrivialAdd, nontrivialMid := false, false
	minLanded := -1

	canW := func(a, k int) bool { return s.canWrite(a, k) }
	n := size + r.Intn(size)
	for st := 0; st < n; st++ {
		var batch []rawT
		what := ""
		cite := 0
		// ---- the batch
		chunk := func(max int) []rawT {
			var b []rawT
			for len(b) < max && next < len(s.pool) {
				b = append(b, s.pool[next].raw)
				next++
			}
			return b
		}
		save := next
		switch c := r.Intn(10); {
		case c < 2:
			batch = chunk(1 + r.Intn(3))
			what = "pool"
		case c < 3 && len(s.pool) > 0:
			k := mutKinds[r.Intn(len(mutKinds))]
			m := s.mutate(k, s.pool[r.Intn(len(s.pool))])
			b := chunk(r.Intn(3))
			at := r.Intn(len(b) + 1)
			batch = append(append(append([]rawT{}, b[:at]...), m), b[at:]...)
			what = "mut:" + k
		default:
			// a change signed on the spot on top of the current heads; author and cited record chosen among the
			// accounts whose write permission changes at a record the receiver does not hold yet
			lo, hi := recvLen+1, acl.Len()
			if lo > acl.Len() || r.Chance(1, 6) {
				lo = 1
			} else if hi > recvLen+3 && r.Chance(3, 4) {
				hi = recvLen + 3 // close to what the receiver holds: the writer's records are spent slowly
			}
			type cand struct{ a, k int }
			var flips []cand
			for k := lo; k <= hi; k++ {
				for _, a := range allAccounts {
					if k >= 2 && canW(a, k) != canW(a, k-1) {
						flips = append(flips, cand{a, k})
					}
				}
			}
			a := allAccounts[r.Intn(len(allAccounts))]
			cite = lo + r.Intn(hi-lo+1)
			kind := "any"
			if len(flips) > 0 && r.Chance(3, 4) {
				f := flips[r.Intn(len(flips))]
				a, cite = f.a, f.k
				kind = "gain"
				if !canW(a, cite) {
					kind = "loss"
				}
				// the record of the flip itself, or a later one at which the permission is still the same
				for cite < acl.Len() && canW(a, cite+1) == canW(a, f.k) && r.Chance(1, 3) {
					cite++
				}
			}
			prev := append([]string{}, heads...)
			if len(prev) > 1 && r.Chance(1, 3) {
				prev = prev[:1]
			}
			ts++
			fresh := Signed(s.w, s.root, a, acl.RecId(cite), prev, s.root.Id, []byte(fmt.Sprintf("race-%d", st)), ts)
			// sometimes behind a chunk of pool changes (more validation work -- more interception points -- before it)
			if r.Chance(1, 3) {
				batch = chunk(1 + r.Intn(2))
			}
			batch = append(batch, fresh)
			if r.Chance(1, 5) && next < len(s.pool) {
				batch = append(batch, chunk(1)...)
			}
			what = fmt.Sprintf("fresh:%s acct%d@%d", kind, a, cite)
			w.Stat("race_fresh_" + kind)
		}
		if len(batch) == 0 {
			continue
		}
		// ---- the concurrent writer
		target := recvLen
		if recvLen < acl.Len() && r.Chance(5, 6) {
			step := acl.Len() - recvLen
			if step > 2 && r.Chance(3, 4) {
				step = 2
			}
			target = recvLen + 1 + r.Intn(step)
			if cite > target && r.Chance(4, 5) {
				target = cite
			}
		}
		var pending []*consensusproto.RawRecordWithId
		for i := recvLen; i < target; i++ {
			pending = append(pending, acl.Raws[i-1])
		}
		dec.arm(pending, ready)
		obs := tree.Add(batch)
		dec.armed = false
		stp := raceStep{landed: dec.landed, points: dec.point}
		if dec.failure != "" {
			panic(fmt.Sprintf("race world %d/%d: %s", seed, idx, dec.failure))
		}
		if len(pending) > 0 {
			if dec.landed >= 0 {
				stp.mid = target - recvLen
				nontrivialMid = true
				if minLanded < 0 || dec.landed < minLanded {
					minLanded = dec.landed
				}
				w.Stat("race_landed_during_call")
			} else {
				// the writer had to wait for the whole call (or the call never touched the list): it runs now
				inner.Lock()
				for _, rec := range dec.pending {
					must(inner.AddRawRecord(rec))
				}
				inner.Unlock()
				dec.pending = nil
				if dec.locked > 0 {
					w.Stat("race_waited_for_the_call")
				} else {
					w.Stat("race_call_offered_no_point")
				}
			}
		} else {
			w.Stat("race_no_writer")
		}
		after := tree.Observe()
		dels = append(dels, delivery{aclLen: recvLen, batch: batch, obs: obs, after: after, what: what})
		steps = append(steps, stp)
		cls := "rejected"
		if obs.Ok {
			cls = "accepted"
			if len(obs.Added) == 0 {
				cls = "accepted-nothing"
			} else {
				nontrivialAdd = true
			}
		} else {
			next = save // the valid ones will be offered again
		}
		w.Stat("race_delivery_" + cls)
		s.sum = append(s.sum, fmt.Sprintf("%s[%d]@acl%d->%d landed@%d/%d(%s) -> %s", what, len(batch), recvLen, target, stp.landed, stp.points, string(dec.trace), cls))
		recvLen = target
		heads = after.Heads
	}

	var mids []int
	for _, x := range steps {
		mids = append(mids, x.mid)
	}
	term := vlib.App("CRace", vlib.App("mkRace", s.scenTerm(derived, builtLen, true, obs0, dels), vlib.NatList(mids)))
	d := desc{Kind: "race", Seed: seed, Idx: idx, Size: size, Ready: ready, Summary: s.sum}
	ci := w.Add(term, d, fmt.Sprintf("race/%d/%d/%d", seed, idx, ready), nontrivialAdd)
	w.Stat("race_cases")
	if nontrivialMid {
		w.Stat("race_cases_with_record_landing_during_a_call")
	}
	for _, dl := range dels {
		if dl.obs.Panic != "" {
			w.Violation(ci, "C02-add-panic", dl.what+": "+dl.obs.Panic, d)
		}
	}
	if minLanded < 0 {
		return -1
	}
	return minLanded + 1
}
