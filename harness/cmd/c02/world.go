// Driving code for the C02 harness: a real ACL (several accounts, hand-signed records through aclh), real object
// trees built by BuildObjectTree (verifying change builder + real validator) over any-store storage, a sibling author
// replica that produces changes with AddContent, ChangeBuilder.Build for properly signed changes with arbitrary
// (author, cited ACL record, parents), protobuf-level mutations, and the validity flags computed by calling the
// primitives directly on the delivered bytes.
package main

import (
	"bytes"
	"context"
	"errors"
	"fmt"
	"os"
	"path/filepath"
	"sort"
	"sync/atomic"

	anystore "github.com/anyproto/any-store"

	"github.com/anyproto/any-sync/commonspace/headsync/headstorage"
	"github.com/anyproto/any-sync/commonspace/object/acl/list"
	"github.com/anyproto/any-sync/commonspace/object/acl/recordverifier"
	"github.com/anyproto/any-sync/commonspace/object/tree/objecttree"
	"github.com/anyproto/any-sync/commonspace/object/tree/treechangeproto"
	"github.com/anyproto/any-sync/consensus/consensusproto"
	"github.com/anyproto/any-sync/util/cidutil"
	"github.com/anyproto/any-sync/util/crypto"

	"verifharness/cmd/c04/aclh"
	"verifharness/vlib"
)

var ctx = context.Background()

func must(err error) {
	if err != nil {
		panic(err)
	}
}

// accounts
const (
	Owner   = 1
	Writer  = 2 // writer throughout
	Reader  = 3 // reader throughout
	Demoted = 4 // writer, later demoted to reader (sometimes promoted again)
	Removed = 5 // writer, later removed
	Readded = 6 // writer, removed, later added again (history replaced)
	Never   = 7 // never a member
	Admin   = 8
)

var allAccounts = []int{Owner, Writer, Reader, Demoted, Removed, Readded, Never, Admin}

// ---------------------------------------------------------------- DB shared by the run

type DB struct {
	dir   string
	db    anystore.DB
	heads headstorage.HeadStorage
	used  int
}

func (d *DB) fresh() {
	d.Close()
	dir, err := os.MkdirTemp("", "verif_c02_")
	must(err)
	d.dir = dir
	db, err := anystore.Open(ctx, filepath.Join(dir, "changes.db"), nil)
	must(err)
	d.db = db
	coll, err := db.Collection(ctx, objecttree.CollName)
	must(err)
	must(coll.EnsureIndex(ctx, anystore.IndexInfo{Fields: []string{objecttree.TreeKey, objecttree.OrderKey}, Unique: true}))
	d.heads, err = headstorage.New(ctx, db)
	must(err)
	d.used = 0
}

func (d *DB) Tick() {
	d.used++
	if d.db == nil || d.used > 150 {
		d.fresh()
	}
}

func (d *DB) Close() {
	if d.db != nil {
		_ = d.db.Close()
		_ = os.RemoveAll(d.dir)
		d.db = nil
	}
}

// ---------------------------------------------------------------- ACL

type Acl struct {
	W    *aclh.World
	Root *consensusproto.RawRecordWithId
	Recs []aclh.Rec                         // records after the root (N = 2..)
	Raws []*consensusproto.RawRecordWithId  // their raw form
	Full list.AclList                       // list holding everything
	// truth[k][acct] = Permissions(acct) in the state after record k (k = 0: root), read from the real list
	Truth []map[int]int
}

func newList(w *aclh.World, root *consensusproto.RawRecordWithId) list.AclList {
	st, err := list.NewInMemoryStorage(root.Id, []*consensusproto.RawRecordWithId{root})
	must(err)
	l, err := list.BuildAclListWithIdentity(w.AccountKeys(aclh.Observer), st, recordverifier.NewValidateFull())
	must(err)
	return l
}

func (a *Acl) snapshotTruth() {
	m := map[int]int{}
	st := a.Full.AclState()
	for _, acc := range allAccounts {
		m[acc] = int(st.Permissions(a.W.Pub(acc)))
	}
	a.Truth = append(a.Truth, m)
}

func (a *Acl) add(author int, cs []aclh.C) {
	n := len(a.Recs) + 2
	raw := aclh.WithId(a.W.RawRecord(a.Full.Head().Id, author, cs))
	a.W.Bind(n, raw.Id)
	if err := a.Full.AddRawRecord(raw); err != nil {
		panic(fmt.Sprintf("acl setup record %d (%v by %d) rejected: %v", n, cs, author, err))
	}
	a.Recs = append(a.Recs, aclh.Rec{Author: author, N: n, Cs: cs})
	a.Raws = append(a.Raws, raw)
	a.snapshotTruth()
}

func rk(acc []int) *aclh.Rk { return &aclh.Rk{Meta: true, Fields: true, Acc: acc, Inv: nil} }

// genAcl builds a log with the membership events at random positions among neutral records.
func genAcl(r *vlib.Rand, seed uint64) *Acl {
	w := aclh.NewWorld(seed)
	root := w.NewRoot(Owner, fmt.Sprintf("space-c02-%d", seed))
	w.Bind(1, root.Id)
	a := &Acl{W: w, Root: root, Full: newList(w, root)}
	a.snapshotTruth()
	filler := 0
	neutral := func() {
		filler++
		a.add(Owner, []aclh.C{{K: "invite", A: 100 + filler, T: 0}})
	}
	for i := r.Intn(2); i > 0; i-- {
		neutral()
	}
	a.add(Owner, []aclh.C{{K: "add", L: []aclh.AP{{A: Writer, P: 3}, {A: Reader, P: 4}, {A: Demoted, P: 3}, {A: Removed, P: 3}, {A: Readded, P: 3}, {A: Admin, P: 2}}}})
	// events: 0 demote, 1 removeX, 2 removeY, 3 filler...
	ev := []int{0, 1, 2}
	for i := 1 + r.Intn(3); i > 0; i-- {
		ev = append(ev, 3)
	}
	p := r.Perm(len(ev))
	order := make([]int, len(ev))
	for i, j := range p {
		order[i] = ev[j]
	}
	// readd after removeY, promote (sometimes) after demote: insert at random later positions
	insertAfter := func(seq []int, after, what int) []int {
		pos := 0
		for i, e := range seq {
			if e == after {
				pos = i + 1
			}
		}
		at := pos + r.Intn(len(seq)-pos+1)
		out := append([]int{}, seq[:at]...)
		out = append(out, what)
		return append(out, seq[at:]...)
	}
	order = insertAfter(order, 2, 4)
	if r.Chance(1, 2) {
		order = insertAfter(order, 0, 5)
	}
	if r.Chance(1, 3) {
		order = insertAfter(order, 4, 6) // remove the re-added account once more
	}
	manager := func() int {
		if r.Chance(1, 3) {
			return Admin
		}
		return Owner
	}
	for _, e := range order {
		switch e {
		case 0:
			a.add(manager(), []aclh.C{{K: "perms", L: []aclh.AP{{A: Demoted, P: 4}}}})
		case 1:
			d := a.W.Dump(a.Full.AclState())
			a.add(manager(), []aclh.C{{K: "remove", Ids: []int{Removed}, Rk: rk(d.ActiveUsers([]int{Removed}))}})
		case 2, 6:
			d := a.W.Dump(a.Full.AclState())
			a.add(manager(), []aclh.C{{K: "remove", Ids: []int{Readded}, Rk: rk(d.ActiveUsers([]int{Readded}))}})
		case 3:
			neutral()
		case 4:
			a.add(manager(), []aclh.C{{K: "add", L: []aclh.AP{{A: Readded, P: 3}}}})
		case 5:
			a.add(manager(), []aclh.C{{K: "perm", A: Demoted, P: 3}})
		}
	}
	if r.Chance(1, 2) {
		neutral()
	}
	return a
}

func (a *Acl) Len() int { return len(a.Recs) + 1 }

// RecId: id string of record number n (1 = root); unknown numbers give a bogus id
func (a *Acl) RecId(n int) string { return a.W.Rid(n) }

// prefix list holding the first n records
func (a *Acl) Prefix(n int) list.AclList {
	l := newList(a.W, a.Root)
	for i := 0; i < n-1; i++ {
		must(l.AddRawRecord(a.Raws[i]))
	}
	return l
}

func (a *Acl) Grow(l list.AclList, from, to int) {
	for i := from; i < to; i++ {
		must(l.AddRawRecord(a.Raws[i-1]))
	}
}

// ---------------------------------------------------------------- trees

type addSeqSetter interface{ SetAddSeq(seq *atomic.Uint64) }

type Tree struct {
	st objecttree.Storage
	t  objecttree.ObjectTree
}

func buildTree(db *DB, root *treechangeproto.RawTreeChangeWithId, acl list.AclList) (tr *Tree, err error) {
	defer func() {
		if p := recover(); p != nil {
			tr, err = nil, fmt.Errorf("PANIC: %v", p)
		}
	}()
	st, err := objecttree.CreateStorage(ctx, root, db.heads, db.db)
	if err != nil {
		return nil, err
	}
	st.(addSeqSetter).SetAddSeq(&atomic.Uint64{})
	t, err := objecttree.BuildObjectTree(st, acl)
	if err != nil {
		return nil, err
	}
	return &Tree{st: st, t: t}, nil
}

type Obs struct {
	Heads  []string
	Iter   []string
	Stored []string
}

func (tr *Tree) Observe() Obs {
	var o Obs
	tr.t.Lock()
	defer tr.t.Unlock()
	o.Heads = append(o.Heads, tr.t.Heads()...)
	sort.Strings(o.Heads)
	_ = tr.t.IterateRoot(nil, func(c *objecttree.Change) bool {
		o.Iter = append(o.Iter, c.Id)
		return true
	})
	_ = tr.st.GetAfterOrder(ctx, "", func(_ context.Context, c objecttree.StorageChange) (bool, error) {
		o.Stored = append(o.Stored, c.Id)
		return true, nil
	})
	return o
}

type AddObs struct {
	Ok     bool
	Class  int // 0 ok, 1 other error, 2 ErrHasInvalidChanges
	Added  []string
	Err    string
	Panic  string
	Has    []bool
}

func (tr *Tree) Add(batch []*treechangeproto.RawTreeChangeWithId) (res AddObs) {
	func() {
		defer func() {
			if p := recover(); p != nil {
				res.Panic = fmt.Sprint(p)
			}
		}()
		tr.t.Lock()
		defer tr.t.Unlock()
		var heads []string
		if len(batch) > 0 {
			heads = []string{batch[len(batch)-1].Id}
		}
		r, err := tr.t.AddRawChanges(ctx, objecttree.RawChangesPayload{NewHeads: heads, RawChanges: batch})
		if err != nil {
			res.Err = err.Error()
			res.Class = 1
			if errors.Is(err, objecttree.ErrHasInvalidChanges) {
				res.Class = 2
			}
			return
		}
		res.Ok = true
		for _, c := range r.Added {
			res.Added = append(res.Added, c.Id)
		}
	}()
	for _, b := range batch {
		h, _ := tr.st.Has(ctx, b.Id)
		res.Has = append(res.Has, h)
	}
	return
}

// ---------------------------------------------------------------- raw changes

var keyStore = crypto.NewKeyStorage()

// Signed builds a properly signed change with the real change builder.
func Signed(w *aclh.World, root *treechangeproto.RawTreeChangeWithId, author int, aclHead string, prev []string, snap string, data []byte, ts int64) *treechangeproto.RawTreeChangeWithId {
	_, raw, err := objecttree.NewChangeBuilder(keyStore, root).Build(objecttree.BuilderContent{
		TreeHeadIds: prev, AclHeadId: aclHead, SnapshotBaseId: snap, Unencrypted: true,
		PrivKey: w.Key(author), Content: data, Timestamp: ts, DataType: "c02",
	})
	must(err)
	return raw
}

// SignedKey: like Signed, the change names a read key (ReadKeyId); the content stays unencrypted.
func SignedKey(w *aclh.World, root *treechangeproto.RawTreeChangeWithId, author int, aclHead string, prev []string, snap string, data []byte, ts int64, readKeyId string) *treechangeproto.RawTreeChangeWithId {
	_, raw, err := objecttree.NewChangeBuilder(keyStore, root).Build(objecttree.BuilderContent{
		TreeHeadIds: prev, AclHeadId: aclHead, SnapshotBaseId: snap, Unencrypted: true, ReadKeyId: readKeyId,
		PrivKey: w.Key(author), Content: data, Timestamp: ts, DataType: "c02",
	})
	must(err)
	return raw
}

func cidOf(b []byte) string {
	id, err := cidutil.NewCidFromBytes(b)
	must(err)
	return id
}

// reassemble marshals payload+signature (+ optional trailing bytes) and recomputes or keeps the id
func assemble(payload, sig, extra []byte, id string) *treechangeproto.RawTreeChangeWithId {
	rc := &treechangeproto.RawTreeChange{Payload: payload, Signature: sig}
	b, err := rc.MarshalVT()
	must(err)
	b = append(b, extra...)
	if id == "" {
		id = cidOf(b)
	}
	return &treechangeproto.RawTreeChangeWithId{RawChange: b, Id: id}
}

func split(raw *treechangeproto.RawTreeChangeWithId) (*treechangeproto.TreeChange, []byte, []byte) {
	rc := &treechangeproto.RawTreeChange{}
	must(rc.UnmarshalVT(raw.RawChange))
	tc := &treechangeproto.TreeChange{}
	must(tc.UnmarshalVT(rc.Payload))
	return tc, rc.Payload, rc.Signature
}

// Flags computed with the primitives on the delivered bytes (never by asking the tree under test).
type Flags struct {
	CidOk, Canon, Decodes, SigOk bool
	Prev                  []string
	Snap, Head            string
	IsSnap                bool
	Ident                 crypto.PubKey
}

func flagsOf(raw *treechangeproto.RawTreeChangeWithId, rootId string) (f Flags) {
	if raw.RawChange == nil {
		return
	}
	f.CidOk = cidutil.VerifyCid(raw.RawChange, raw.Id)
	rc := &treechangeproto.RawTreeChange{}
	if rc.UnmarshalVT(raw.RawChange) != nil {
		return
	}
	// canonical: the bytes are exactly the encoding of {Payload, Signature}
	canon, cerr := (&treechangeproto.RawTreeChange{Payload: rc.Payload, Signature: rc.Signature}).MarshalVT()
	f.Canon = cerr == nil && bytes.Equal(canon, raw.RawChange)
	var identity []byte
	if raw.Id == rootId {
		rt := &treechangeproto.RootChange{}
		if rt.UnmarshalVT(rc.Payload) != nil {
			return
		}
		f.Head = rt.AclHeadId
		identity = rt.Identity
		if rt.IsDerived {
			f.Decodes = true
			return
		}
	} else {
		tc := &treechangeproto.TreeChange{}
		if tc.UnmarshalVT(rc.Payload) != nil {
			return
		}
		f.Prev, f.Snap, f.Head, f.IsSnap = tc.TreeHeadIds, tc.SnapshotBaseId, tc.AclHeadId, tc.IsSnapshot
		identity = tc.Identity
	}
	pk, err := keyStore.PubKeyFromProto(identity)
	if err != nil {
		return
	}
	f.Decodes = true
	f.Ident = pk
	ok, err := pk.Verify(rc.Payload, rc.Signature)
	f.SigOk = err == nil && ok
	return
}
