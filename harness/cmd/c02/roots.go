// Whole trees as deliveries: the ROOT is a first-class delivered change.
//
// One case = one "root world": a real ACL (genAcl) shared by many root deliveries.  A root delivery takes a freshly made
// genuine root (CreateObjectTreeRoot by the owner or by any other account, citing a random ACL record; or
// DeriveObjectTreeRoot), applies at most one mutation of the root family (payload rewrite, signature flip / swap /
// strip, id recomputed / genuine id kept / random id / id of another root, identity swap with and without re-signing,
// ACL head swap with and without re-signing, IsDerived flipped either way, non-canonical re-encodings, byte flips,
// truncation, empty bytes), optionally adds a few changes built against the DELIVERED root (honest chain, sometimes an
// unauthorised or a corrupted one) and claimed heads (mostly right, sometimes wrong), and hands the whole thing to one
// of the real construction paths:
//
//	0  CreateStorage (eager) + BuildObjectTree [+ AddRawChanges]                       (local put path: PutSyncTree)
//	1  CreateStorageWithDeferredCreation + BuildObjectTree [+ AddRawChanges]          (what buildSyncTree does with a remote tree)
//	2  ValidateRawTreeDefault(payload, creator, acl), then BuildObjectTree over the returned tree's storage
//	   (synctree: fullResponseCollector + BuildSyncTreeOrGetRemote)
//	3  ValidateFilterRawTree(payload, creator, acl), then BuildObjectTree over the returned tree's storage
//
// Observed: was a live tree returned, its Heads / IterateRoot ids, did the sync layer's second BuildObjectTree succeed,
// and what a FRESH NewStorage(rootId) finds in the database afterwards (nothing / the ids on disk).
package main

import (
	"context"
	"fmt"
	"sort"
	"sync/atomic"

	"github.com/anyproto/any-sync/commonspace/object/acl/aclrecordproto"
	"github.com/anyproto/any-sync/commonspace/object/acl/list"
	"github.com/anyproto/any-sync/commonspace/object/acl/recordverifier"
	"github.com/anyproto/any-sync/commonspace/object/tree/objecttree"
	"github.com/anyproto/any-sync/commonspace/object/tree/treechangeproto"
	"github.com/anyproto/any-sync/commonspace/object/tree/treestorage"
	"github.com/anyproto/any-sync/consensus/consensusproto"
	"github.com/anyproto/any-sync/util/crypto"

	"verifharness/cmd/c04/aclh"
	"verifharness/vlib"
)

// ---------------------------------------------------------------- storage creator (the exported interface of the validators)

type creator struct{ db *DB }

func (c creator) CreateTreeStorage(ctx context.Context, p treestorage.TreeStorageCreatePayload) (objecttree.Storage, error) {
	st, err := objecttree.CreateStorage(ctx, p.RootRawChange, c.db.heads, c.db.db)
	if err != nil {
		return nil, err
	}
	st.(addSeqSetter).SetAddSeq(&atomic.Uint64{})
	return st, nil
}

func (c creator) CreateStorageWithDeferredCreation(ctx context.Context, p treestorage.TreeStorageCreatePayload) (objecttree.Storage, error) {
	st, err := objecttree.CreateStorageWithDeferredCreation(ctx, p.RootRawChange, c.db.heads, c.db.db)
	if err != nil {
		return nil, err
	}
	st.(addSeqSetter).SetAddSeq(&atomic.Uint64{})
	return st, nil
}

// ---------------------------------------------------------------- root mutations

var rootMutKinds = []string{
	"payload-newid", "payload-keepid", "payload-randid", "sig-newid", "sig-keepid", "sig-other", "sig-strip",
	"id-random", "id-other", "ident-swap", "ident-swap-keepid", "ident-swap-resign", "ident-garbage",
	"head-swap", "head-swap-keepid", "head-swap-resign", "head-unknown-resign", "derived-flip", "derived-flip-strip",
	"ts-edit", "pad-unknown", "reorder-fields", "nonminimal-len", "flip-keepid", "flip-newid", "truncate", "empty",
}

func splitRoot(raw rawT) (*treechangeproto.RootChange, []byte, []byte, bool) {
	rc := &treechangeproto.RawTreeChange{}
	if rc.UnmarshalVT(raw.RawChange) != nil {
		return nil, nil, nil, false
	}
	rt := &treechangeproto.RootChange{}
	if rt.UnmarshalVT(rc.Payload) != nil {
		return nil, nil, nil, false
	}
	return rt, rc.Payload, rc.Signature, true
}

func rootDerived(raw rawT) bool {
	rt, _, _, ok := splitRoot(raw)
	return ok && rt.IsDerived
}

// protobuf helpers for the hand-made encodings
func pbLen(n int, minimal bool) []byte {
	var b []byte
	for n >= 0x80 {
		b = append(b, byte(n)|0x80)
		n >>= 7
	}
	if minimal {
		return append(b, byte(n))
	}
	return append(b, byte(n)|0x80, 0x00) // one redundant continuation byte
}

func pbField(tag byte, v []byte, minimal bool) []byte {
	return append(append([]byte{tag}, pbLen(len(v), minimal)...), v...)
}

type rootGen struct {
	s       *scen
	r       *vlib.Rand
	acl     *Acl
	seed    uint64
	counter int
}

func (g *rootGen) genuine(author, rootLen int, derived bool, lists map[int]list.AclList) rawT {
	g.counter++
	uniq := fmt.Sprintf("%d-%d", g.seed, g.counter)
	if derived {
		root, err := objecttree.DeriveObjectTreeRoot(objecttree.ObjectTreeDerivePayload{
			ChangeType: "c02", ChangePayload: []byte("derived-" + uniq), SpaceId: "space-c02"}, lists[1])
		must(err)
		return root
	}
	root, err := objecttree.CreateObjectTreeRoot(objecttree.ObjectTreeCreatePayload{
		PrivKey: g.s.w.Key(author), ChangeType: "c02", ChangePayload: []byte("root"), SpaceId: "space-c02",
		Seed: []byte("seed-" + uniq), Timestamp: 1690000000}, lists[rootLen])
	must(err)
	return root
}

// mutateRoot applies one mutation of the root family to a genuine root made by [author].
func (g *rootGen) mutateRoot(kind string, gen rawT, author int, other rawT) rawT {
	r := g.r
	rt, payload, sig, ok := splitRoot(gen)
	if !ok {
		panic("genuine root does not decode")
	}
	remarshal := func() []byte {
		b, err := rt.MarshalVT()
		must(err)
		return b
	}
	sign := func(b []byte, who int) []byte {
		sg, err := g.s.w.Key(who).Sign(b)
		must(err)
		return sg
	}
	otherAcct := func() int {
		for {
			a := allAccounts[r.Intn(len(allAccounts))]
			if a != author {
				return a
			}
		}
	}
	otherHead := func() string {
		for {
			h := 1 + r.Intn(g.acl.Len())
			if g.acl.RecId(h) != rt.AclHeadId {
				return g.acl.RecId(h)
			}
		}
	}
	flipped := func(b []byte) []byte {
		if len(b) == 0 {
			return []byte{1}
		}
		c := append([]byte{}, b...)
		c[r.Intn(len(c))] ^= 1 << uint(r.Intn(8))
		return c
	}
	withId := func(b []byte, id string) rawT { return &treechangeproto.RawTreeChangeWithId{RawChange: b, Id: id} }
	switch kind {
	case "payload-newid", "payload-keepid", "payload-randid":
		rt.ChangeType = "forgedType"
		rt.ChangePayload = []byte("forged payload")
		id := ""
		if kind == "payload-keepid" {
			id = gen.Id
		} else if kind == "payload-randid" {
			id = cidOf([]byte(fmt.Sprintf("rnd-%d", r.U64())))
		}
		return assemble(remarshal(), sig, nil, id)
	case "sig-newid", "sig-keepid":
		id := ""
		if kind == "sig-keepid" {
			id = gen.Id
		}
		return assemble(payload, flipped(sig), nil, id)
	case "sig-other":
		_, _, osig, _ := splitRoot(other)
		if len(osig) == 0 || string(osig) == string(sig) {
			osig = make([]byte, 64)
		}
		return assemble(payload, osig, nil, "")
	case "sig-strip":
		return assemble(payload, nil, nil, "")
	case "id-random":
		return withId(gen.RawChange, cidOf([]byte(fmt.Sprintf("rnd-%d", r.U64()))))
	case "id-other":
		return withId(gen.RawChange, other.Id)
	case "ident-swap", "ident-swap-keepid":
		rt.Identity = g.s.w.IdBytes(otherAcct())
		id := ""
		if kind == "ident-swap-keepid" {
			id = gen.Id
		}
		return assemble(remarshal(), sig, nil, id)
	case "ident-swap-resign":
		a := otherAcct()
		rt.Identity = g.s.w.IdBytes(a)
		rt.IsDerived = false
		b := remarshal()
		return assemble(b, sign(b, a), nil, "")
	case "ident-garbage":
		rt.Identity = []byte{0xff, 0x01, 0x02}
		return assemble(remarshal(), sig, nil, "")
	case "head-swap", "head-swap-keepid":
		rt.AclHeadId = otherHead()
		id := ""
		if kind == "head-swap-keepid" {
			id = gen.Id
		}
		return assemble(remarshal(), sig, nil, id)
	case "head-swap-resign", "head-unknown-resign":
		rt.AclHeadId = otherHead()
		if kind == "head-unknown-resign" {
			rt.AclHeadId = g.acl.RecId(9100 + r.Intn(50))
		}
		who := author
		if rt.IsDerived {
			who = Owner
			rt.IsDerived = false
			rt.Identity = g.s.w.IdBytes(who)
		}
		b := remarshal()
		return assemble(b, sign(b, who), nil, "")
	case "derived-flip":
		rt.IsDerived = !rt.IsDerived
		return assemble(remarshal(), sig, nil, "")
	case "derived-flip-strip":
		rt.IsDerived = !rt.IsDerived
		rt.Identity = nil
		return assemble(remarshal(), nil, nil, "")
	case "ts-edit":
		rt.Timestamp += 1 + int64(r.Intn(1000))
		return assemble(remarshal(), sig, nil, "")
	case "pad-unknown":
		return assemble(payload, sig, []byte{0x78, 0x01}, "")
	case "reorder-fields":
		// signature (field 2) first, then payload (field 1): decodes to the same message, not the canonical encoding
		b := append(pbField(0x12, sig, true), pbField(0x0a, payload, true)...)
		return withId(b, cidOf(b))
	case "nonminimal-len":
		b := pbField(0x0a, payload, false)
		if len(sig) > 0 {
			b = append(b, pbField(0x12, sig, true)...)
		}
		return withId(b, cidOf(b))
	case "flip-keepid", "flip-newid":
		b := flipped(gen.RawChange)
		id := gen.Id
		if kind == "flip-newid" {
			id = cidOf(b)
		}
		return withId(b, id)
	case "truncate":
		b := append([]byte{}, gen.RawChange[:len(gen.RawChange)-1-r.Intn(4)]...)
		return withId(b, cidOf(b))
	case "empty":
		return withId(nil, gen.Id)
	}
	panic("unknown root mutation " + kind)
}

// ---------------------------------------------------------------- one delivery

type rootObs struct {
	Live    bool
	Heads   []string
	Iter    []string
	Rebuilt bool
	Stored  []string
	Err     string
	Panic   string
}

func observeTree(t objecttree.ObjectTree) (heads, iter []string) {
	t.Lock()
	defer t.Unlock()
	heads = append(heads, t.Heads()...)
	sort.Strings(heads)
	_ = t.IterateRoot(nil, func(c *objecttree.Change) bool {
		iter = append(iter, c.Id)
		return true
	})
	return
}

// storedOf: what a fresh storage object finds under the tree id (nil = no such tree)
func storedOf(db *DB, id string) (ids []string) {
	defer func() {
		if p := recover(); p != nil {
			ids = nil
		}
	}()
	st, err := objecttree.NewStorage(ctx, id, db.heads, db.db)
	if err == nil {
		_ = st.GetAfterOrder(ctx, "", func(_ context.Context, c objecttree.StorageChange) (bool, error) {
			ids = append(ids, c.Id)
			return true, nil
		})
		if len(ids) == 0 {
			ids = []string{id}
		}
		return ids
	}
	// no head entry: is there at least a change document under that id?
	if coll, cerr := db.db.OpenCollection(ctx, objecttree.CollName); cerr == nil {
		if _, ferr := coll.FindId(ctx, id); ferr == nil {
			return []string{id}
		}
	}
	return nil
}

func deliverRoot(db *DB, path, variant int, root rawT, changes []rawT, heads []string, acl list.AclList) (o rootObs) {
	defer func() {
		if p := recover(); p != nil {
			o.Panic = fmt.Sprint(p)
		}
		o.Stored = storedOf(db, root.Id)
	}()
	cr := creator{db}
	payload := treestorage.TreeStorageCreatePayload{RootRawChange: root, Changes: changes, Heads: heads}
	var tree objecttree.ObjectTree
	var err error
	switch path {
	case 0, 1:
		var st objecttree.Storage
		if path == 0 {
			st, err = cr.CreateTreeStorage(ctx, payload)
		} else {
			st, err = cr.CreateStorageWithDeferredCreation(ctx, payload)
		}
		if err != nil {
			o.Err = "storage: " + err.Error()
			return
		}
		tree, err = builders[variant](st, acl)
		if err != nil {
			o.Err = "build: " + err.Error()
			return
		}
		if len(changes) > 0 {
			tree.Lock()
			_, aerr := tree.AddRawChanges(ctx, objecttree.RawChangesPayload{NewHeads: heads, RawChanges: changes})
			tree.Unlock()
			if aerr != nil {
				o.Err = "add: " + aerr.Error()
			}
		}
		o.Live = true
		o.Heads, o.Iter = observeTree(tree)
		o.Rebuilt = true
		return
	case 2:
		tree, err = objecttree.ValidateRawTreeDefault(payload, cr, acl)
	case 3:
		tree, err = objecttree.ValidateFilterRawTree(payload, cr, acl)
	}
	if err != nil {
		o.Err = "validate: " + err.Error()
		return
	}
	o.Live = true
	o.Heads, o.Iter = observeTree(tree)
	// the sync layer's next step: BuildObjectTree over the storage of the validated tree
	t2, err := objecttree.BuildObjectTree(tree.Storage(), acl)
	if err != nil {
		o.Err = "rebuild: " + err.Error()
		return
	}
	h2, i2 := observeTree(t2)
	o.Rebuilt = fmt.Sprint(h2) == fmt.Sprint(o.Heads) && sameStrSet(i2, o.Iter)
	if !o.Rebuilt {
		o.Err = fmt.Sprintf("rebuild differs: heads %v iter %d vs %d", h2, len(i2), len(o.Iter))
	}
	return
}

var builders = []func(objecttree.Storage, list.AclList) (objecttree.ObjectTree, error){
	objecttree.BuildObjectTree, objecttree.BuildEmptyDataObjectTree,
	objecttree.BuildKeyFilterableObjectTree, objecttree.BuildEmptyDataKeyFilterableObjectTree,
}

func sameStrSet(a, b []string) bool {
	x := append([]string{}, a...)
	y := append([]string{}, b...)
	sort.Strings(x)
	sort.Strings(y)
	return fmt.Sprint(x) == fmt.Sprint(y)
}

// ---------------------------------------------------------------- the world

type rootsDesc struct {
	Kind    string   `json:"kind"`
	Seed    uint64   `json:"seed"`
	Idx     uint64   `json:"idx"`
	Size    int      `json:"size"`
	From    int      `json:"from"` // deliveries [from, to) of the world are in this case
	To      int      `json:"to"`
	Summary []string `json:"summary"`
}

const rootChunk = 10


// rootEnv: the ACL world a batch of root deliveries runs in
type rootEnv struct {
	kind  string               // desc kind: "roots" (aclh ACL, non-member observer) / "roots-keys" (real-key ACL)
	me    int                  // identity the receiver's ACL lists are built with
	acl   *Acl
	lists map[int]list.AclList // receiver lists by length
	paths []int
	keys  bool // changes carry read-key ids
}

// rootWorld: ACL with hand-signed membership history (genAcl), receiver = the non-member observer.
func (rn *runner) rootWorld(seed, idx uint64, size, from, to int) {
	r := vlib.NewRand(seed).Fork(idx + 1<<40)
	acl := genAcl(r, seed*1000003+idx+500009)
	env := &rootEnv{kind: "roots", me: aclh.Observer, acl: acl, lists: map[int]list.AclList{},
		paths: []int{0, 0, 1, 1, 1, 1, 2, 2, 2, 2, 2, 3}}
	for n := 1; n <= acl.Len(); n++ {
		env.lists[n] = acl.Prefix(n)
	}
	rn.rootRun(env, r, seed, idx, size, from, to)
}

// rootWorldKeys: a small ACL made with the REAL record builder and real keys (owner 1; record 2 adds writer 2,
// reader 3, writer 5, admin 8; record 3 removes 5 with a new read key; record 4 adds writer 4), so that a member can
// build the list and ValidateFilterRawTree gets past HadReadPermissions.  idx mod 3 selects the receiver: writer 2
// (holds every read key), removed 5 (had read permissions, lacks the second key), 7 (never a member).
// Deliveries go through paths 3 and 2 (and 1), changes name the read key current at the record they cite.
func (rn *runner) rootWorldKeys(seed, idx uint64, size, from, to int) {
	r := vlib.NewRand(seed).Fork(idx + 1<<41)
	acl := keysAcl(seed*1000003 + idx + 700001)
	me := []int{Writer, Removed, Never}[idx%3]
	env := &rootEnv{kind: "roots-keys", me: me, acl: acl, lists: map[int]list.AclList{},
		paths: []int{3, 3, 3, 3, 3, 3, 2, 2, 1}, keys: true}
	for n := 1; n <= acl.Len(); n++ {
		env.lists[n] = acl.PrefixAs(me, n)
	}
	rn.rootRun(env, r, seed, idx, size, from, to)
}

func newListAs(w *aclh.World, root *consensusproto.RawRecordWithId, acct int) list.AclList {
	st, err := list.NewInMemoryStorage(root.Id, []*consensusproto.RawRecordWithId{root})
	must(err)
	l, err := list.BuildAclListWithIdentity(w.AccountKeys(acct), st, recordverifier.NewValidateFull())
	must(err)
	return l
}

func (a *Acl) PrefixAs(acct, n int) list.AclList {
	l := newListAs(a.W, a.Root, acct)
	for i := 0; i < n-1; i++ {
		must(l.AddRawRecord(a.Raws[i]))
	}
	return l
}

func keysAcl(seed uint64) *Acl {
	w := aclh.NewWorld(seed)
	root := w.NewRoot(Owner, fmt.Sprintf("space-c02k-%d", seed))
	w.Bind(1, root.Id)
	a := &Acl{W: w, Root: root, Full: newListAs(w, root, Owner)}
	a.snapshotTruth()
	add := func(build func(b list.AclRecordBuilder) (*consensusproto.RawRecord, error)) {
		st := w.Dump(a.Full.AclState())
		raw, err := build(a.Full.RecordBuilder())
		must(err)
		rec := aclh.WithId(raw)
		n := len(a.Recs) + 2
		w.Bind(n, rec.Id)
		rr := &consensusproto.RawRecord{}
		must(rr.UnmarshalVT(rec.Payload))
		cr := &consensusproto.Record{}
		must(cr.UnmarshalVT(rr.Payload))
		data := &aclrecordproto.AclData{}
		must(data.UnmarshalVT(cr.Data))
		cs := aclh.Decode(w, data, st)
		must(a.Full.AddRawRecord(rec))
		a.Recs = append(a.Recs, aclh.Rec{Author: Owner, N: n, Cs: cs})
		a.Raws = append(a.Raws, rec)
		a.snapshotTruth()
	}
	perm := func(p int) list.AclPermissions { return list.AclPermissions(aclrecordproto.AclUserPermissions(p)) }
	acc := func(n, p int) list.AccountAdd {
		return list.AccountAdd{Identity: w.Pub(n), Permissions: perm(p), Metadata: []byte(fmt.Sprintf("m%d", n))}
	}
	add(func(b list.AclRecordBuilder) (*consensusproto.RawRecord, error) {
		return b.BuildAccountsAdd(list.AccountsAddPayload{Additions: []list.AccountAdd{acc(Writer, 3), acc(Reader, 4), acc(Removed, 3), acc(Admin, 2)}})
	})
	add(func(b list.AclRecordBuilder) (*consensusproto.RawRecord, error) {
		mk, _, err := crypto.GenerateRandomEd25519KeyPair()
		must(err)
		return b.BuildAccountRemove(list.AccountRemovePayload{Identities: []crypto.PubKey{w.Pub(Removed)},
			Change: list.ReadKeyChangePayload{MetadataKey: mk, ReadKey: crypto.NewAES()}})
	})
	add(func(b list.AclRecordBuilder) (*consensusproto.RawRecord, error) {
		return b.BuildAccountsAdd(list.AccountsAddPayload{Additions: []list.AccountAdd{acc(Demoted, 3)}})
	})
	return a
}

// readKeyAt: id of the read key current after record n, read from the owner's full list
func (a *Acl) readKeyAt(n int) string {
	id := a.Root.Id
	keys := a.Full.AclState().Keys()
	for k := 2; k <= n && k <= a.Len(); k++ {
		if _, ok := keys[a.RecId(k)]; ok {
			id = a.RecId(k)
		}
	}
	return id
}

// rootRun generates the whole batch (the deliveries depend on the random stream) and emits deliveries [from, to) in
// chunks of rootChunk per case (to <= 0: all of them).
func (rn *runner) rootRun(env *rootEnv, r *vlib.Rand, seed, idx uint64, size, from, to int) {
	if to <= 0 || to > size {
		to = size
	}
	rn.db.fresh()
	acl, lists := env.acl, env.lists
	s := &scen{r: r, acl: acl, w: acl.W, ids: map[string]int{}}
	w := rn.w
	g := &rootGen{s: s, r: r, acl: acl, seed: seed*1000003 + idx}
	var terms []string
	var nontriv []bool
	var direct [][]string
	for j := 0; j < size; j++ {
		nontrivial := false
		var dpanic []string
		// ---- the genuine root
		derived := r.Chance(1, 6)
		author := Owner
		if r.Chance(1, 3) {
			author = allAccounts[r.Intn(len(allAccounts))]
		}
		rootLen := 1 + r.Intn(acl.Len())
		recvLen := rootLen + r.Intn(acl.Len()-rootLen+1)
		if r.Chance(1, 10) && rootLen > 1 {
			recvLen = 1 + r.Intn(rootLen-1) // the receiver does not know the cited record yet
		}
		gen := g.genuine(author, rootLen, derived, lists)
		// ---- mutation
		kind := "none"
		root := gen
		mutP := 3
		if env.keys {
			mutP = 2 // more honest roots in the real-key world: the filter path needs trees that get through
		}
		if r.Chance(mutP, 5) {
			kind = rootMutKinds[r.Intn(len(rootMutKinds))]
			other := g.genuine(Owner, 1+r.Intn(acl.Len()), false, lists)
			root = g.mutateRoot(kind, gen, author, other)
		}
		s.root = root
		rf := flagsOf(root, root.Id)
		rDerived := rootDerived(root)
		// ---- path
		path := env.paths[r.Intn(len(env.paths))]
		// the tree builder used on paths 0 and 1 (same buildObjectTree underneath; the key-validating ones only root-only)
		variant := r.Intn(4)
		// ---- changes built against the delivered root
		var changes []rawT
		nch := []int{0, 0, 0, 1, 2, 3}[r.Intn(6)]
		if env.keys {
			nch = []int{0, 1, 1, 2, 2, 3}[r.Intn(6)]
		}
		rootHead := 1
		if !rDerived && rf.Head != "" {
			if h := s.w.RidNum(rf.Head); h >= 1 && h <= acl.Len() {
				rootHead = h
			}
		}
		chKind := "honest"
		func() {
			defer func() {
				if p := recover(); p != nil {
					changes = nil
				}
			}()
			prevId, prevHead := root.Id, rootHead
			for q := 0; q < nch; q++ {
				head := prevHead + r.Intn(acl.Len()-prevHead+1)
				var cands []int
				for _, a := range allAccounts {
					if s.canWrite(a, head) {
						cands = append(cands, a)
					}
				}
				a := Owner
				if len(cands) > 0 {
					a = cands[r.Intn(len(cands))]
				}
				if r.Chance(1, 8) {
					a = allAccounts[r.Intn(len(allAccounts))]
					chKind = "maybe-unauthorised"
				}
				prev := []string{prevId}
				if q > 0 && r.Chance(1, 4) {
					prev = []string{root.Id} // a fork
				}
				keyId := ""
				if env.keys {
					keyId = acl.readKeyAt(head)
					if r.Chance(1, 10) {
						keyId = []string{"", acl.Root.Id, acl.RecId(3)}[r.Intn(3)]
					}
				}
				c := SignedKey(s.w, root, a, acl.RecId(head), prev, root.Id, []byte(fmt.Sprintf("rc-%d-%d", j, q)), int64(1700000000+q), keyId)
				if r.Chance(1, 10) {
					// corrupted change: signature bit flipped, id recomputed
					_, p, sg := split(c)
					sg = append([]byte{}, sg...)
					sg[r.Intn(len(sg))] ^= 1
					c = assemble(p, sg, nil, "")
					chKind = "corrupted"
				}
				changes = append(changes, c)
				prevId, prevHead = c.Id, head
			}
		}()
		// ---- claimed heads
		cited := map[string]bool{}
		for _, c := range changes {
			for _, p := range flagsOf(c, root.Id).Prev {
				cited[p] = true
			}
		}
		var heads []string
		for _, c := range changes {
			if !cited[c.Id] {
				heads = append(heads, c.Id)
			}
		}
		if len(changes) == 0 {
			heads = []string{root.Id}
		}
		headsKind := "right"
		if r.Chance(1, 10) {
			headsKind = "wrong"
			if len(changes) > 0 && r.Bool() {
				heads = []string{root.Id}
			} else {
				heads = append(append([]string{}, heads...), cidOf([]byte(fmt.Sprintf("bogus-head-%d", j))))
			}
		}
		// ---- deliver
		if len(changes) > 0 && variant >= 2 {
			variant -= 2
		}
		// does the receiver's ACL state hold the read key every delivered change names?
		keyed := true
		held := lists[recvLen].AclState().Keys()
		for _, c := range changes {
			tc, _, _ := split(c)
			if k, ok := held[tc.ReadKeyId]; !ok || k.ReadKey == nil {
				keyed = false
			}
		}
		o := deliverRoot(rn.db, path, variant, root, changes, heads, lists[recvLen])
		if o.Panic != "" {
			dpanic = append(dpanic, fmt.Sprintf("root delivery %d (%s, path %d): PANIC %s", j, kind, path, o.Panic))
		}
		// ids present apart from the root
		present := map[string]bool{}
		var added []string
		for _, x := range append(append([]string{}, o.Iter...), o.Stored...) {
			if x != root.Id && !present[x] {
				present[x] = true
				added = append(added, x)
			}
		}
		cls := "rejected"
		if o.Live {
			cls = "live"
			nontrivial = true
		} else if len(o.Stored) > 0 {
			cls = "rejected-but-stored"
		}
		rk := "signed"
		if derived {
			rk = "derived"
		}
		w.Stat("rootdel_" + cls)
		if env.keys {
			kd := "keyed"
			if !keyed {
				kd = "unkeyed"
			}
			w.Stat(fmt.Sprintf("rootkeys_me%d_path%d_%s_%s", env.me, path, kd, cls))
		}
		w.Stat(fmt.Sprintf("rootdel_path%d_%s", path, cls))
		w.Stat("rootmut_" + kind)
		if kind != "none" && o.Live {
			w.Stat("rootmut_live_" + kind)
		}
		pv := fmt.Sprint(path)
		if path < 2 {
			pv = fmt.Sprintf("%d/builder%d", path, variant)
		}
		// diagnostic only (the verdict is Coq's): the validity flags of the delivered root bytes, e.g. "cid+canon+dec-sig"
		fl := func(name string, b bool) string {
			if b {
				return "+" + name
			}
			return "-" + name
		}
		flags := fl("cid", rf.CidOk) + fl("canon", rf.Canon) + fl("dec", rf.Decodes) + fl("sig", rf.SigOk)
		s.sum = append(s.sum, fmt.Sprintf("#%d path%s root=%s/acct%d@%d mut=%s rootflags=%s recv-acl=%d changes=%d(%s) heads=%s -> %s stored=%d %s",
			j, pv, rk, author, rootLen, kind, flags, recvLen, len(changes), chKind, headsKind, cls, len(o.Stored), o.Err))
		// ---- term
		var cts []string
		s.id(root.Id)
		for _, c := range changes {
			cts = append(cts, s.rawTerm(c))
		}
		terms = append(terms, vlib.App("mkRD", vlib.N(uint64(path)), vlib.Nat(recvLen), s.rawTerm(root), vlib.Bool(rDerived),
			vlib.List(cts), s.idList(heads), vlib.Bool(keyed),
			vlib.Bool(o.Live), vlib.Bool(o.Rebuilt), s.idList(o.Heads), s.idList(o.Iter), s.idList(o.Stored), s.idList(added)))
		nontriv = append(nontriv, nontrivial)
		direct = append(direct, dpanic)
	}
	var recs []string
	prev := 1
	for _, rec := range acl.Recs {
		recs = append(recs, recTerm(s.w, prev, rec))
		prev = rec.N
	}
	var hists []string
	for _, a := range s.w.Dump(lists[acl.Len()].AclState()).Accs {
		var h []string
		for _, x := range a.Hist {
			h = append(h, fmt.Sprintf("(%d, %d)", x[0], x[1]))
		}
		hists = append(hists, fmt.Sprintf("(%d, [%s])", a.Id, joinStr(h, "; ")))
	}
	for lo := from; lo < to; lo += rootChunk {
		hi := lo + rootChunk
		if hi > to {
			hi = to
		}
		term := vlib.App("CRoots", vlib.App("mkRW", vlib.N(uint64(env.me)), vlib.N(Owner), "1", vlib.List(recs), vlib.List(hists), vlib.List(terms[lo:hi])))
		d := rootsDesc{Kind: env.kind, Seed: seed, Idx: idx, Size: size, From: lo, To: hi, Summary: s.sum[lo:hi]}
		nt := false
		for _, b := range nontriv[lo:hi] {
			nt = nt || b
		}
		ci := w.Add(term, d, fmt.Sprintf("%s/%d/%d/%d", env.kind, seed, idx, lo), nt)
		for _, dp := range direct[lo:hi] {
			for _, what := range dp {
				w.Violation(ci, "C02-root-panic", what, d)
			}
		}
		if len(rn.samples) < 6 && nt && lo == 0 {
			rn.samples = append(rn.samples, d)
		}
	}
}

func joinStr(v []string, sep string) string {
	out := ""
	for i, x := range v {
		if i > 0 {
			out += sep
		}
		out += x
	}
	return out
}
