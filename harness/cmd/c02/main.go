// Correspondence driver for C02 ("only authentic, authorised changes are ever attached or persisted").
//
// One case = one scenario: a real ACL log (owner, admin, writer, reader, writer later demoted [and promoted again],
// writer removed, writer removed and re-added [and removed again], never a member; membership events at random
// positions among neutral records), a tree root (signed by the owner / derived / signed by somebody without write
// permission), a pool of PROPERLY SIGNED changes (a backbone made by AddContent on a sibling replica whose ACL grows
// record by record, plus changes made with ChangeBuilder.Build for every kind of author citing records at random
// positions with random parents — honest forks and hostile ones alike), and a sequence of AddRawChanges calls on ONE
// receiving tree built with BuildObjectTree (verifying builder, real validator) whose ACL grows during the scenario:
// valid batches, single hostile changes, and mutants (every single-field edit at the protobuf level, with the id kept
// or recomputed, with and without re-signing, byte flips at stride, truncation, unknown-field padding) delivered alone
// or at a random position inside a batch of valid changes.  After every call: error class, AddResult.Added, Heads(),
// IterateRoot ids, Storage.GetAfterOrder ids, Storage.Has of every batch element.  The validity flags handed to the
// model are computed here with cidutil.VerifyCid / proto decoding / PubKeyFromProto / PubKey.Verify on the bytes.
//
// Second case kind (roots.go): root worlds -- whole trees (root alone / root + changes, the root honest or mutated)
// delivered through every construction path (eager and deferred storage + the tree builders, ValidateRawTreeDefault,
// ValidateFilterRawTree).
//
// Third case kind (race.go): race worlds -- AddRawChanges calls during which a concurrent ACL writer adds the next
// records of the log at every lock-free point the call offers (deterministic, every distinct schedule explored).
package main

import (
	"encoding/json"
	"fmt"
	"sort"
	"strings"

	"github.com/anyproto/any-sync/commonspace/object/acl/list"
	"github.com/anyproto/any-sync/commonspace/object/tree/objecttree"
	"github.com/anyproto/any-sync/commonspace/object/tree/treechangeproto"

	"verifharness/cmd/c04/aclh"
	"verifharness/vlib"
)

type rawT = *treechangeproto.RawTreeChangeWithId

type desc struct {
	Kind    string   `json:"kind,omitempty"` // "" = AddRawChanges scenario, "roots" = root world (roots.go), "race" = race world (race.go)
	From    int      `json:"from,omitempty"`
	To      int      `json:"to,omitempty"`
	Seed    uint64   `json:"seed"`
	Idx     uint64   `json:"idx"`
	Size    int      `json:"size"`
	Summary []string `json:"summary"`
	Tags    []string `json:"tags,omitempty"`
	Ready   int      `json:"ready,omitempty"` // kind "race": the interception point from which the concurrent ACL writer is ready
}

// node: a properly signed change of the pool
type node struct {
	raw    rawT
	author int
	head   int   // cited ACL record number
	prev   []int // indexes into pool (-1 = root)
	via    string
}

type scen struct {
	r    *vlib.Rand
	acl  *Acl
	w    *aclh.World
	root rawT
	pool []node
	ids  map[string]int // change id string -> N
	sum  []string
}

func (s *scen) id(x string) uint64 {
	if x == "" {
		return 0
	}
	if n, ok := s.ids[x]; ok {
		return uint64(n)
	}
	n := len(s.ids) + 1
	s.ids[x] = n
	return uint64(n)
}

func (s *scen) idList(xs []string) string {
	v := make([]uint64, len(xs))
	for i, x := range xs {
		v[i] = s.id(x)
	}
	return vlib.NList(v)
}

func (s *scen) rawTerm(raw rawT) string {
	f := flagsOf(raw, s.root.Id)
	ident := 0
	if f.Ident != nil {
		ident = s.w.KeyNum(f.Ident)
	}
	head := 0
	if f.Head != "" {
		head = s.w.RidNum(f.Head)
	}
	return vlib.App("mkRC", vlib.N(s.id(raw.Id)), vlib.Bool(f.CidOk), vlib.Bool(f.Canon), vlib.Bool(f.Decodes), vlib.Bool(f.SigOk),
		s.idList(f.Prev), vlib.N(s.id(f.Snap)), vlib.Bool(f.IsSnap), vlib.N(uint64(head)), vlib.N(uint64(ident)))
}

func recTerm(w *aclh.World, prev int, rec aclh.Rec) string {
	return fmt.Sprintf("(mkRaw %d true true true true %d %d %s)", rec.N, prev, rec.Author, aclh.CsCoq(rec.Cs))
}

// ---------------------------------------------------------------- pool of properly signed changes

func (s *scen) canWrite(acct, rec int) bool {
	if rec < 1 || rec > s.acl.Len() {
		return false
	}
	p := s.acl.Truth[rec-1][acct]
	return p == 1 || p == 2 || p == 3
}

func (s *scen) genPool(db *DB, derived bool) {
	r := s.r
	// backbone: AddContent on a sibling replica whose ACL grows record by record
	la := s.acl.Prefix(1)
	var author *Tree
	rootHead := 1
	if !derived {
		f := flagsOf(s.root, s.root.Id)
		rootHead = s.w.RidNum(f.Head)
	}
	ts := int64(1700000000)
	last := -1
	for k := 1; k <= s.acl.Len(); k++ {
		if k > 1 {
			s.acl.Grow(la, k-1, k)
		}
		if k < rootHead {
			continue
		}
		if author == nil {
			// the author's copy of the tree lives in its own DB file entry: ids are the same, so use a private DB
			adb := &DB{}
			adb.fresh()
			defer adb.Close()
			t, err := buildTree(adb, s.root, la)
			if err != nil {
				return // root not acceptable: no backbone
			}
			author = t
		}
		n := r.Intn(3)
		for j := 0; j < n; j++ {
			var cands []int
			for _, a := range allAccounts {
				if s.canWrite(a, k) {
					cands = append(cands, a)
				}
			}
			if len(cands) == 0 {
				break
			}
			a := cands[r.Intn(len(cands))]
			ts++
			author.t.Lock()
			res, err := author.t.AddContent(ctx, objecttree.SignableChangeContent{
				Data: []byte(fmt.Sprintf("backbone-%d-%d", k, j)), Key: s.w.Key(a), Timestamp: ts, DataType: "c02"})
			author.t.Unlock()
			if err != nil {
				panic(fmt.Sprintf("AddContent by %d at record %d failed: %v", a, k, err))
			}
			raw := res.Added[0].RawTreeChangeWithId()
			raw = &treechangeproto.RawTreeChangeWithId{RawChange: append([]byte(nil), raw.RawChange...), Id: raw.Id}
			s.pool = append(s.pool, node{raw: raw, author: a, head: k, prev: []int{last}, via: "addcontent"})
			last = len(s.pool) - 1
		}
	}
	// extra: ChangeBuilder.Build with arbitrary author / cited record / parents
	extra := 4 + r.Intn(6)
	for j := 0; j < extra; j++ {
		a := allAccounts[r.Intn(len(allAccounts))]
		head := 1 + r.Intn(s.acl.Len())
		if r.Chance(1, 20) {
			head = 9000 + j // a record nobody knows
		}
		np := 1 + r.Intn(2)
		var prev []int
		var prevIds []string
		for q := 0; q < np; q++ {
			p := r.Intn(len(s.pool)+1) - 1
			dup := false
			for _, x := range prev {
				if x == p {
					dup = true
				}
			}
			if dup {
				continue
			}
			prev = append(prev, p)
			if p < 0 {
				prevIds = append(prevIds, s.root.Id)
			} else {
				prevIds = append(prevIds, s.pool[p].raw.Id)
			}
		}
		// bias: half of the time make it honest (monotone head, author can write)
		if r.Chance(1, 2) {
			mx := 1
			for _, p := range prev {
				if p >= 0 && s.pool[p].head > mx && s.pool[p].head < 9000 {
					mx = s.pool[p].head
				}
			}
			if mx < rootHead {
				mx = rootHead
			}
			head = mx + r.Intn(s.acl.Len()-mx+1)
			var cands []int
			for _, x := range allAccounts {
				if s.canWrite(x, head) {
					cands = append(cands, x)
				}
			}
			if len(cands) > 0 {
				a = cands[r.Intn(len(cands))]
			}
		}
		ts++
		raw := Signed(s.w, s.root, a, s.acl.RecId(head), prevIds, s.root.Id, []byte(fmt.Sprintf("extra-%d", j)), ts)
		s.pool = append(s.pool, node{raw: raw, author: a, head: head, prev: prev, via: "build"})
	}
}

// ---------------------------------------------------------------- mutations

var mutKinds = []string{
	"data-keepid", "data-newid", "sig-keepid", "sig-newid", "sig-other", "id-other", "id-random",
	"ident-swap", "ident-swap-resign", "ident-garbage", "head-swap", "head-swap-resign", "prev-edit", "prev-edit-resign",
	"snap-edit", "ts-edit", "issnap-flip", "flip-keepid", "flip-newid", "pad-unknown", "truncate", "empty",
}

func (s *scen) mutate(kind string, n node) rawT {
	r := s.r
	tc, payload, sig := split(n.raw)
	other := s.pool[r.Intn(len(s.pool))]
	reMarshal := func() []byte {
		b, err := tc.MarshalVT()
		must(err)
		return b
	}
	resign := func(b []byte, who int) []byte {
		sg, err := s.w.Key(who).Sign(b)
		must(err)
		return sg
	}
	otherAcct := func() int {
		for {
			a := allAccounts[r.Intn(len(allAccounts))]
			if a != n.author {
				return a
			}
		}
	}
	otherHead := func() string {
		for {
			h := 1 + r.Intn(s.acl.Len())
			if s.acl.RecId(h) != tc.AclHeadId {
				return s.acl.RecId(h)
			}
		}
	}
	switch kind {
	case "data-keepid", "data-newid":
		tc.ChangesData = append(append([]byte{}, tc.ChangesData...), 'x')
		id := ""
		if kind == "data-keepid" {
			id = n.raw.Id
		}
		return assemble(reMarshal(), sig, nil, id)
	case "sig-keepid", "sig-newid":
		sg := append([]byte{}, sig...)
		sg[r.Intn(len(sg))] ^= 1 << uint(r.Intn(8))
		id := ""
		if kind == "sig-keepid" {
			id = n.raw.Id
		}
		return assemble(payload, sg, nil, id)
	case "sig-other":
		_, _, osig := split(other.raw)
		if string(osig) == string(sig) {
			osig = make([]byte, 64)
		}
		return assemble(payload, osig, nil, "")
	case "id-other":
		id := other.raw.Id
		if id == n.raw.Id {
			id = cidOf([]byte("something else"))
		}
		return &treechangeproto.RawTreeChangeWithId{RawChange: n.raw.RawChange, Id: id}
	case "id-random":
		return &treechangeproto.RawTreeChangeWithId{RawChange: n.raw.RawChange, Id: cidOf([]byte(fmt.Sprintf("rnd-%d", r.U64())))}
	case "ident-swap":
		tc.Identity = s.w.IdBytes(otherAcct())
		return assemble(reMarshal(), sig, nil, "")
	case "ident-swap-resign":
		a := otherAcct()
		tc.Identity = s.w.IdBytes(a)
		b := reMarshal()
		return assemble(b, resign(b, a), nil, "")
	case "ident-garbage":
		tc.Identity = []byte{0xff, 0x01, 0x02}
		return assemble(reMarshal(), sig, nil, "")
	case "head-swap":
		tc.AclHeadId = otherHead()
		return assemble(reMarshal(), sig, nil, "")
	case "head-swap-resign":
		tc.AclHeadId = otherHead()
		b := reMarshal()
		return assemble(b, resign(b, n.author), nil, "")
	case "prev-edit", "prev-edit-resign":
		if len(tc.TreeHeadIds) > 1 && r.Bool() {
			tc.TreeHeadIds = tc.TreeHeadIds[:1]
		} else if other.raw.Id != n.raw.Id && r.Bool() {
			tc.TreeHeadIds = append(append([]string{}, tc.TreeHeadIds...), other.raw.Id)
		} else {
			tc.TreeHeadIds = []string{s.root.Id, cidOf([]byte("unknown parent"))}[:1+r.Intn(2)]
			if len(n.prev) == 1 && n.prev[0] == -1 && len(tc.TreeHeadIds) == 1 {
				tc.TreeHeadIds = append(tc.TreeHeadIds, s.root.Id)
			}
		}
		b := reMarshal()
		if kind == "prev-edit" {
			return assemble(b, sig, nil, "")
		}
		return assemble(b, resign(b, n.author), nil, "")
	case "snap-edit":
		tc.SnapshotBaseId = other.raw.Id
		return assemble(reMarshal(), sig, nil, "")
	case "ts-edit":
		tc.Timestamp++
		return assemble(reMarshal(), sig, nil, "")
	case "issnap-flip":
		tc.IsSnapshot = !tc.IsSnapshot
		return assemble(reMarshal(), sig, nil, "")
	case "flip-keepid", "flip-newid":
		b := append([]byte{}, n.raw.RawChange...)
		b[r.Intn(len(b))] ^= 1 << uint(r.Intn(8))
		id := n.raw.Id
		if kind == "flip-newid" {
			id = cidOf(b)
		}
		return &treechangeproto.RawTreeChangeWithId{RawChange: b, Id: id}
	case "pad-unknown":
		// field 15, varint 1: ignored by the decoder, not covered by the signature
		return assemble(payload, sig, []byte{0x78, 0x01}, "")
	case "truncate":
		b := append([]byte{}, n.raw.RawChange[:len(n.raw.RawChange)-1-r.Intn(4)]...)
		return &treechangeproto.RawTreeChangeWithId{RawChange: b, Id: cidOf(b)}
	case "empty":
		return &treechangeproto.RawTreeChangeWithId{RawChange: nil, Id: n.raw.Id}
	}
	panic("unknown mutation " + kind)
}

// ---------------------------------------------------------------- scenario

type delivery struct {
	aclLen int
	batch  []rawT
	obs    AddObs
	after  Obs
	what   string
}

func setTerm(s *scen, xs []string) string { return s.idList(xs) }

func boolList(v []bool) string {
	out := make([]string, len(v))
	for i, b := range v {
		out[i] = vlib.Bool(b)
	}
	return vlib.List(out)
}

type runner struct {
	w       *vlib.Writer
	db      *DB
	samples []interface{}

	raceCache *raceWorldT
}

func (rn *runner) scenario(seed, idx uint64, size int) {
	r := vlib.NewRand(seed).Fork(idx)
	rn.db.Tick()
	acl := genAcl(r, seed*1000003+idx)
	s := &scen{r: r, acl: acl, w: acl.W, ids: map[string]int{}}
	w := rn.w

	// root
	rootLen := 1 + r.Intn(acl.Len())
	if r.Chance(1, 2) {
		rootLen = 1 + r.Intn(3)
		if rootLen > acl.Len() {
			rootLen = acl.Len()
		}
	}
	derived := r.Chance(1, 6)
	rootAuthor := Owner
	rootKind := "owner"
	if r.Chance(1, 8) {
		rootAuthor = allAccounts[r.Intn(len(allAccounts))]
		rootKind = fmt.Sprintf("acct%d", rootAuthor)
	}
	recvLen := rootLen + r.Intn(acl.Len()-rootLen+1)
	recv := acl.Prefix(recvLen)
	var err error
	if derived {
		rootKind = "derived"
		s.root, err = objecttree.DeriveObjectTreeRoot(objecttree.ObjectTreeDerivePayload{
			ChangeType: "c02", ChangePayload: []byte(fmt.Sprintf("derived-%d-%d", seed, idx)), SpaceId: "space-c02"}, recv)
		must(err)
	} else {
		at := acl.Prefix(rootLen)
		s.root, err = objecttree.CreateObjectTreeRoot(objecttree.ObjectTreeCreatePayload{
			PrivKey: s.w.Key(rootAuthor), ChangeType: "c02", ChangePayload: []byte("root"), SpaceId: "space-c02",
			Seed: []byte(fmt.Sprintf("seed-%d-%d", seed, idx)), Timestamp: 1690000000}, at)
		must(err)
		if r.Chance(1, 12) {
			// a root whose signature or id is broken
			rootKind += "-broken"
			_, payload, sig := func() (*treechangeproto.RootChange, []byte, []byte) {
				rc := &treechangeproto.RawTreeChange{}
				must(rc.UnmarshalVT(s.root.RawChange))
				return nil, rc.Payload, rc.Signature
			}()
			if r.Bool() {
				sg := append([]byte{}, sig...)
				sg[3] ^= 4
				s.root = assemble(payload, sg, nil, "")
			} else {
				s.root = &treechangeproto.RawTreeChangeWithId{RawChange: s.root.RawChange, Id: cidOf([]byte(fmt.Sprintf("x%d", idx)))}
			}
		}
	}
	s.id(s.root.Id)
	s.sum = append(s.sum, fmt.Sprintf("acl=%d records root=%s@%d recv-acl=%d", acl.Len(), rootKind, rootLen, recvLen))
	w.Stat("root_" + strings.TrimSuffix(strings.TrimSuffix(rootKind, "-broken"), "x"))

	tree, berr := buildTree(rn.db, s.root, recv)
	built := berr == nil
	var obs0 Obs
	var dels []delivery
	nontrivial := false
	if built {
		w.Stat("built")
		obs0 = tree.Observe()
		s.genPool(rn.db, derived)
		dels = rn.deliveries(s, tree, recv, recvLen, size)
		for _, d := range dels {
			if d.obs.Ok && len(d.obs.Added) > 0 {
				nontrivial = true
			}
		}
	} else {
		w.Stat("build_refused")
		if strings.HasPrefix(berr.Error(), "PANIC") {
			w.Violation(w.Count(), "C02-build-panic", berr.Error(), nil)
		}
	}

	term := vlib.App("CScen", s.scenTerm(derived, recvLen, built, obs0, dels))
	d := desc{Seed: seed, Idx: idx, Size: size, Summary: s.sum}
	ci := w.Add(term, d, fmt.Sprintf("%d/%d", seed, idx), nontrivial)
	for _, dl := range dels {
		if dl.obs.Panic != "" {
			w.Violation(ci, "C02-add-panic", dl.what+": "+dl.obs.Panic, d)
		}
	}
	if len(rn.samples) < 4 && nontrivial {
		rn.samples = append(rn.samples, d)
	}
}

// scenTerm: the Coq term (mkScen ...) of a scenario: ACL log, every account's real PermissionChanges, the root, the
// ACL length at BuildObjectTree, what was observed after the build and after every delivery.
func (s *scen) scenTerm(derived bool, recvLen int, built bool, obs0 Obs, dels []delivery) string {
	acl := s.acl
	var recs []string
	prev := 1
	for _, rec := range acl.Recs {
		recs = append(recs, recTerm(s.w, prev, rec))
		prev = rec.N
	}
	var hists []string
	for _, a := range s.w.Dump(acl.Full.AclState()).Accs {
		var h []string
		for _, x := range a.Hist {
			h = append(h, fmt.Sprintf("(%d, %d)", x[0], x[1]))
		}
		hists = append(hists, fmt.Sprintf("(%d, [%s])", a.Id, strings.Join(h, "; ")))
	}
	var dts []string
	for _, d := range dels {
		var bt []string
		for _, b := range d.batch {
			bt = append(bt, s.rawTerm(b))
		}
		dts = append(dts, vlib.App("mkDel", vlib.Nat(d.aclLen), vlib.List(bt), vlib.Bool(d.obs.Ok), vlib.N(uint64(d.obs.Class)),
			setTerm(s, d.obs.Added), setTerm(s, d.after.Heads), setTerm(s, d.after.Iter), setTerm(s, d.after.Stored), boolList(d.obs.Has)))
	}
	return vlib.App("mkScen", vlib.N(aclh.Observer), vlib.N(Owner), "1", vlib.List(recs), vlib.List(hists),
		s.rawTerm(s.root), vlib.Bool(derived), vlib.Nat(recvLen), vlib.Bool(built),
		setTerm(s, obs0.Heads), setTerm(s, obs0.Iter), setTerm(s, obs0.Stored), vlib.List(dts))
}

func (rn *runner) deliveries(s *scen, tree *Tree, recv list.AclList, recvLen int, size int) []delivery {
	r := s.r
	w := rn.w
	var dels []delivery
	delivered := map[int]bool{}
	next := 0 // next undelivered pool index (pool order respects parents)
	do := func(batch []rawT, what string) {
		obs := tree.Add(batch)
		after := tree.Observe()
		dels = append(dels, delivery{aclLen: recvLen, batch: batch, obs: obs, after: after, what: what})
		cls := "rejected"
		if obs.Ok {
			cls = "accepted"
			if len(obs.Added) == 0 {
				cls = "accepted-nothing"
			}
		}
		w.Stat("delivery_" + cls)
		s.sum = append(s.sum, fmt.Sprintf("%s[%d]@acl%d -> %s", what, len(batch), recvLen, cls))
	}
	validChunk := func(max int) ([]rawT, []int) {
		var b []rawT
		var idxs []int
		for len(b) < max && next < len(s.pool) {
			b = append(b, s.pool[next].raw)
			idxs = append(idxs, next)
			next++
		}
		return b, idxs
	}
	steps := size + r.Intn(size)
	for st := 0; st < steps; st++ {
		if len(s.pool) == 0 {
			break
		}
		switch c := r.Intn(10); {
		case c < 2 && recvLen < s.acl.Len():
			to := recvLen + 1 + r.Intn(s.acl.Len()-recvLen)
			s.acl.Grow(recv, recvLen, to)
			recvLen = to
			w.Stat("acl_grow")
		case c < 5:
			// pool changes in order (a chunk), sometimes shuffled, sometimes with an already known change or the root
			b, idxs := validChunk(1 + r.Intn(4))
			if len(b) == 0 {
				continue
			}
			if r.Chance(1, 3) {
				p := r.Perm(len(b))
				nb := make([]rawT, len(b))
				for i, j := range p {
					nb[i] = b[j]
				}
				b = nb
			}
			if r.Chance(1, 4) {
				b = append(b, s.root)
			}
			if r.Chance(1, 4) && next > len(idxs) {
				b = append([]rawT{s.pool[r.Intn(next)].raw}, b...)
			}
			for _, i := range idxs {
				delivered[i] = true
			}
			do(b, "pool")
			w.Stat("kind_pool")
		default:
			// a mutant of a pool change: alone or inside a batch of the next valid changes
			k := mutKinds[r.Intn(len(mutKinds))]
			n := s.pool[r.Intn(len(s.pool))]
			m := s.mutate(k, n)
			w.Stat("mut_" + k)
			if r.Chance(1, 2) {
				do([]rawT{m}, "mut:"+k)
				w.Stat("kind_mut_alone")
			} else {
				save := next
				b, _ := validChunk(1 + r.Intn(3))
				at := r.Intn(len(b) + 1)
				nb := append(append(append([]rawT{}, b[:at]...), m), b[at:]...)
				do(nb, "mut-in-batch:"+k)
				w.Stat("kind_mut_in_batch")
				if !dels[len(dels)-1].obs.Ok {
					next = save // the valid ones will be offered again
				}
			}
		}
	}
	// finally everything once more in one batch (already attached ones are skipped)
	var all []rawT
	for _, n := range s.pool {
		all = append(all, n.raw)
	}
	if len(all) > 0 && r.Chance(2, 3) {
		do(all, "all")
	}
	return dels
}

func main() {
	o := vlib.ParseFlags()
	vlib.Quiet()
	w := vlib.NewWriter(o.Out, "C02_run", 24)
	rn := &runner{w: w, db: &DB{}}
	defer rn.db.Close()
	rule := "a scenario is non-trivial if at least one delivery attached a change (every scenario also contains rejected deliveries, counted in the distribution); a root-world case (10 root deliveries sharing one ACL) is non-trivial if at least one delivery returned a live tree; a race case (one schedule of a concurrent ACL writer against the calls of one world) is non-trivial if at least one call attached a change (cases in which a record landed while a call was running are counted in the distribution); distinct = distinct (seed, index[, first delivery | ready point])"

	if o.Replay != "" {
		for _, raw := range vlib.ReadReplay(o.Replay) {
			var d desc
			if json.Unmarshal(raw, &d) != nil || d.Size == 0 {
				continue
			}
			if d.Kind == "roots-keys" {
				rn.rootWorldKeys(d.Seed, d.Idx, d.Size, d.From, d.To)
				continue
			}
			if d.Kind == "race" {
				rn.raceRun(d.Seed, d.Idx, d.Size, d.Ready)
				continue
			}
			if d.Kind == "roots" {
				rn.rootWorld(d.Seed, d.Idx, d.Size, d.From, d.To)
				continue
			}
			rn.scenario(d.Seed, d.Idx, d.Size)
		}
		w.Finish(rule, rn.samples, nil)
		return
	}
	n := 160
	size := 10
	if o.Tier == "thorough" {
		n = 2500
	}
	n *= o.Budget
	// whole trees delivered through every construction path, the root being the delivered change under test (roots.go)
	worlds, perWorld := 8, 60
	if o.Tier == "thorough" {
		worlds = 80
	}
	worlds *= o.Budget
	for i := 0; i < worlds; i++ {
		rn.rootWorld(o.Seed, uint64(i), perWorld, 0, 0)
	}
	// the same through the filtering validator in a real-key ACL: receiver = member with every key / removed member / non-member
	kworlds := 3
	if o.Tier == "thorough" {
		kworlds = 30
	}
	for i := 0; i < kworlds*o.Budget; i++ {
		rn.rootWorldKeys(o.Seed, uint64(i), 20, 0, 0)
	}
	for i := 0; i < n; i++ {
		rn.scenario(o.Seed, uint64(i), size)
	}
	// ACL records landing DURING AddRawChanges: a concurrent ACL writer takes every lock-free point the call offers (race.go)
	rworlds := 30
	if o.Tier == "thorough" {
		rworlds = 400
	}
	for i := 0; i < rworlds*o.Budget; i++ {
		rn.raceWorld(o.Seed, uint64(i), 5)
	}
	keys := make([]string, 0)
	for k := range w.Stats {
		keys = append(keys, k)
	}
	sort.Strings(keys)
	w.Finish(rule, rn.samples, nil)
}
