// C08, DiffManager layer (Model/HeadIndex.v): a REAL space storage on any-store, the real head storage, the real
// deletion state and a real headsync.DiffManager over a real ldiff, driven through histories of real operations
// that change head entries (objecttree storage CreateStorage/AddAll, ACL list storage AddAll, key-value inner
// storage New/Set, deletionstate Add/Delete, process restart), plus a separate stream of raw
// headStorage.UpdateEntry calls (the same call the writers use) that also produces histories OUTSIDE the
// well-formedness condition.  The head-storage observer delivers every update to DiffManager.UpdateHeads in FIFO
// order after the operation returns (diffSyncer does the same through its headUpdater goroutine).
// At "probe" points a second DiffManager with a fresh ldiff runs FillDiff over the same storage.
package main

import (
	"context"
	"encoding/json"
	"errors"
	"fmt"
	"os"
	"path/filepath"
	"sort"
	"strings"
	"testing"
	"time"

	anystore "github.com/anyproto/any-store"
	"github.com/cespare/xxhash"

	"github.com/anyproto/any-sync/app"
	"github.com/anyproto/any-sync/app/ldiff"
	"github.com/anyproto/any-sync/app/logger"
	"github.com/anyproto/any-sync/commonspace/deletionstate"
	"github.com/anyproto/any-sync/commonspace/headsync"
	"github.com/anyproto/any-sync/commonspace/headsync/headstorage"
	"github.com/anyproto/any-sync/commonspace/object/accountdata"
	"github.com/anyproto/any-sync/commonspace/object/acl/list"
	"github.com/anyproto/any-sync/commonspace/object/acl/syncacl"
	"github.com/anyproto/any-sync/commonspace/object/keyvalue/keyvaluestorage/innerstorage"
	"github.com/anyproto/any-sync/commonspace/object/tree/objecttree"
	"github.com/anyproto/any-sync/commonspace/object/tree/treechangeproto"
	"github.com/anyproto/any-sync/commonspace/object/tree/treestorage"
	"github.com/anyproto/any-sync/commonspace/spacepayloads"
	"github.com/anyproto/any-sync/commonspace/spacestate"
	"github.com/anyproto/any-sync/commonspace/spacestorage"
	"github.com/anyproto/any-sync/util/crypto"
	"github.com/anyproto/any-sync/util/storeutil"

	"verifharness/vlib"
)

var dmCtx = context.Background()

func dmMust(err error) {
	if err != nil {
		panic(err)
	}
}

// ---------------------------------------------------------------- case description (replayable)

type dmRaw struct {
	Id       string   `json:"id"` // "$acl" / "$settings" are resolved at run time
	HasHeads bool     `json:"has_heads"`
	Heads    []string `json:"heads,omitempty"` // "$id" = the entry's own id
	CS       *string  `json:"cs,omitempty"`
	Derived  *bool    `json:"derived,omitempty"`
	Del      *int     `json:"del,omitempty"`
}

type dmOp struct {
	K       string `json:"k"` // tree | head | aclrec | kv | queue | delete | restart | raw
	Id      string `json:"id,omitempty"`
	Parent  string `json:"parent,omitempty"`
	Change  string `json:"change,omitempty"`
	Derived bool   `json:"derived,omitempty"`
	Fork    bool   `json:"fork,omitempty"`
	Raw     *dmRaw `json:"raw,omitempty"`
	Probe   bool   `json:"probe,omitempty"`
}

type dmSpec struct {
	Df    int    `json:"df"`
	Th    int    `json:"th"`
	Real  bool   `json:"real"` // only the repository's own writers were used
	Shape string `json:"shape"`
	Ops   []dmOp `json:"ops"`
}

// ---------------------------------------------------------------- observations

type dmEnt struct {
	Id      string
	Heads   []string
	CS      bool
	Derived bool
	Del     int // 0: no "d" key; k+1: status k
}

type dmEvent struct {
	K      string // upd | ds | restart
	E      dmEnt
	Id     string
	Sil    []dmEnt
	Exists bool
}

type dmObs struct {
	Hash, Stored string
	Elems        [][2]string // id, head; sorted by id
	AllIds       []string
}

type dmStepRes struct {
	Events  []dmEvent
	Live    dmObs
	Restart *dmObs
	Err     string
}

// ---------------------------------------------------------------- fixtures (as harness/cmd/c15/world.go)

type dmFixtures struct {
	root    string
	payload spacestorage.SpaceStorageCreatePayload
	spaceId string
	acl     list.AclList
	aclHead string
	creator *objecttree.MockChangeCreator
	seq     int
}

func newDmFixtures(workRoot string) *dmFixtures {
	f := &dmFixtures{}
	dmMust(os.MkdirAll(workRoot, 0o755))
	dir, err := os.MkdirTemp(workRoot, "dm_")
	dmMust(err)
	f.root = dir
	keys, err := accountdata.NewRandom()
	dmMust(err)
	f.acl, err = list.NewInMemoryDerivedAcl("spaceId", keys)
	dmMust(err)
	f.aclHead = f.acl.Head().Id
	meta, _, err := crypto.GenerateRandomEd25519KeyPair()
	dmMust(err)
	master, _, err := crypto.GenerateRandomEd25519KeyPair()
	dmMust(err)
	f.payload, err = spacepayloads.StoragePayloadForSpaceCreate(spacepayloads.SpaceCreatePayload{
		SigningKey: keys.SignKey, MasterKey: master, SpaceType: "verif", ReplicationKey: 7,
		ReadKey: crypto.NewAES(), MetadataKey: meta, Metadata: []byte("m"),
	})
	dmMust(err)
	f.spaceId = f.payload.SpaceHeaderWithId.Id
	// CreateNewTreeStorage installs the non-verifying StorageChangeBuilder: harness roots/changes are unsigned
	wdb, err := anystore.Open(dmCtx, filepath.Join(dir, "warmup.db"), nil)
	dmMust(err)
	f.creator = objecttree.NewMockChangeCreator(func() anystore.DB { return wdb })
	_ = f.creator.CreateNewTreeStorage(&testing.T{}, "warmup", f.aclHead, false)
	_ = wdb.Close()
	return f
}

func (f *dmFixtures) cleanup() { _ = os.RemoveAll(f.root) }

type dmFakeSyncAcl struct {
	syncacl.SyncAcl
	l list.AclList
}

func (f dmFakeSyncAcl) Id() string            { return f.l.Id() }
func (f dmFakeSyncAcl) Head() *list.AclRecord { return f.l.Head() }

// dsRec wraps the real deletion state and logs the ids it newly records.
type dsRec struct {
	deletionstate.ObjectDeletionState
	w *dmWorld
}

func (d *dsRec) Add(ids map[string]struct{}) {
	var fresh []string
	for id := range ids {
		if !d.ObjectDeletionState.Exists(id) {
			fresh = append(fresh, id)
		}
	}
	sort.Strings(fresh)
	d.ObjectDeletionState.Add(ids)
	for _, id := range fresh {
		if d.ObjectDeletionState.Exists(id) {
			d.w.log = append(d.w.log, dmEvent{K: "ds", Id: id})
		}
	}
}

func (d *dsRec) Delete(id string) error {
	was := d.ObjectDeletionState.Exists(id)
	err := d.ObjectDeletionState.Delete(id)
	if !was && d.ObjectDeletionState.Exists(id) {
		d.w.log = append(d.w.log, dmEvent{K: "ds", Id: id})
	}
	return err
}

// ---------------------------------------------------------------- one space

type dmWorld struct {
	f        *dmFixtures
	dir      string
	db       anystore.DB
	sp       spacestorage.SpaceStorage
	ds       *dsRec
	dm       *headsync.DiffManager
	diff     ldiff.Diff
	df, th   int
	pending  []headstorage.HeadsEntry
	silent   bool
	silents  []headstorage.HeadsEntry
	log      []dmEvent
	kv       innerstorage.KeyValueStorage
	aclN     int
	kvN      int64
	dWritten map[string]bool // ids whose document is known to carry the "d" key
}

func (w *dmWorld) OnUpdate(e headstorage.HeadsEntry) {
	cp := e
	cp.Heads = append([]string(nil), e.Heads...)
	if w.silent {
		w.silents = append(w.silents, cp)
		return
	}
	w.pending = append(w.pending, cp)
}

func (w *dmWorld) openDb() {
	db, err := anystore.Open(dmCtx, filepath.Join(w.dir, "space.db"), &anystore.Config{SQLiteConnectionOptions: map[string]string{"synchronous": "off"}})
	dmMust(err)
	w.db = db
}

// rawHasD: does the stored document of id carry the "d" key (IterateEntries(IterOpts{}) tests its absence)
func (w *dmWorld) rawHasD(id string) bool {
	coll, err := w.db.Collection(dmCtx, headstorage.HeadsCollectionName)
	dmMust(err)
	doc, err := coll.FindId(dmCtx, id)
	if err != nil {
		return false
	}
	return doc.Value().Get(headstorage.DeletedStatusKey) != nil
}

// entOf projects a delivered entry. Whether the document carried the "d" key WHEN the update was made is not part of
// HeadsEntry (an absent key reads as 0): the key is never removed, so it was there iff a non-zero status is
// delivered, or an earlier write of the key is known (initial storage, earlier deliveries, a raw op that sets it),
// or — for the last pending update of the id — the stored document has it now.
func (w *dmWorld) entOf(e headstorage.HeadsEntry, last bool) dmEnt {
	d := 0
	if e.DeletedStatus != headstorage.DeletedStatusNotDeleted {
		d = int(e.DeletedStatus) + 1
		w.dWritten[e.Id] = true
	} else if w.dWritten[e.Id] || (last && w.rawHasD(e.Id)) {
		d = 1
		w.dWritten[e.Id] = true
	}
	return dmEnt{Id: e.Id, Heads: append([]string(nil), e.Heads...), CS: e.CommonSnapshot != "", Derived: e.IsDerived, Del: d}
}

func lastFor(l []headstorage.HeadsEntry, i int) bool {
	for j := i + 1; j < len(l); j++ {
		if l[j].Id == l[i].Id {
			return false
		}
	}
	return true
}

// allEntries reads the whole heads collection (the initial storage of a case)
func (w *dmWorld) allEntries() []dmEnt {
	coll, err := w.db.Collection(dmCtx, headstorage.HeadsCollectionName)
	dmMust(err)
	it, err := coll.Find(nil).Sort("id").Iter(dmCtx)
	dmMust(err)
	defer it.Close()
	var out []dmEnt
	for it.Next() {
		doc, err := it.Doc()
		dmMust(err)
		v := doc.Value()
		d := 0
		if v.Get(headstorage.DeletedStatusKey) != nil {
			d = v.GetInt(headstorage.DeletedStatusKey) + 1
		}
		out = append(out, dmEnt{Id: v.GetString("id"), Heads: storeutil.StringsFromArrayValue(v, "h"),
			CS: v.GetString("s") != "", Derived: v.GetBool("r"), Del: d})
	}
	return out
}

// assemble = what a space start does: deletionstate.Run, NewDiffManager over a fresh ldiff, observer, FillDiff
func (w *dmWorld) assemble() {
	a := new(app.App)
	realDs := deletionstate.New()
	a.Register(w.sp)
	a.Register(&spacestate.SpaceState{SpaceId: w.f.spaceId})
	dmMust(realDs.Init(a))
	w.silent = true
	w.sp.HeadStorage().AddObserver(w)
	dmMust(realDs.(app.ComponentRunnable).Run(dmCtx))
	w.ds = &dsRec{ObjectDeletionState: realDs, w: w}
	w.diff = ldiff.New(w.df, w.th)
	w.dm = headsync.NewDiffManager(w.diff, w.sp, dmFakeSyncAcl{l: w.f.acl}, logger.NewNamed("verif"), dmCtx, w.ds)
	dmMust(w.dm.FillDiff(dmCtx))
	w.silent = false
	w.kv = nil
}

func newDmWorld(f *dmFixtures, df, th int) *dmWorld {
	f.seq++
	w := &dmWorld{f: f, dir: filepath.Join(f.root, fmt.Sprintf("h%06d", f.seq)), df: df, th: th, aclN: 1, dWritten: map[string]bool{}}
	dmMust(os.MkdirAll(w.dir, 0o755))
	w.openDb()
	var err error
	w.sp, err = spacestorage.Create(dmCtx, w.db, f.payload)
	dmMust(err)
	return w
}

func (w *dmWorld) restart() {
	dmMust(w.db.Close())
	w.openDb()
	var err error
	w.sp, err = spacestorage.New(dmCtx, w.f.spaceId, w.db)
	dmMust(err)
	w.silents = nil
	w.assemble()
	var sil []dmEnt
	for i, e := range w.silents {
		sil = append(sil, w.entOf(e, lastFor(w.silents, i)))
	}
	w.log = append(w.log, dmEvent{K: "restart", Sil: sil})
}

func (w *dmWorld) close() {
	_ = w.db.Close()
	_ = os.RemoveAll(w.dir)
}

func (w *dmWorld) flush() {
	for len(w.pending) > 0 {
		e := w.pending[0]
		last := lastFor(w.pending, 0)
		w.pending = w.pending[1:]
		w.log = append(w.log, dmEvent{K: "upd", E: w.entOf(e, last), Exists: w.ds.Exists(e.Id)})
		w.dm.UpdateHeads(e)
	}
}

func (w *dmWorld) rootOf(id, parent string, derived bool) *treechangeproto.RawTreeChangeWithId {
	rc := &treechangeproto.RootChange{AclHeadId: w.f.aclHead, IsDerived: derived, ParentId: parent, SpaceId: w.f.spaceId, ChangeType: "verif"}
	res, err := rc.MarshalVT()
	dmMust(err)
	raw := &treechangeproto.RawTreeChange{Payload: res}
	rm, err := raw.MarshalVT()
	dmMust(err)
	return &treechangeproto.RawTreeChangeWithId{RawChange: rm, Id: id}
}

func (w *dmWorld) resolve(id string) string {
	switch id {
	case "$acl":
		return w.f.payload.AclWithId.Id
	case "$settings":
		return w.f.payload.SpaceSettingsWithId.Id
	}
	return id
}

func (w *dmWorld) stateHash() string {
	st, err := w.sp.StateStorage().GetState(dmCtx)
	dmMust(err)
	return st.NewHash
}

func observeDiff(d ldiff.Diff, dm *headsync.DiffManager) dmObs {
	o := dmObs{Hash: d.Hash()}
	for _, e := range d.Elements() {
		o.Elems = append(o.Elems, [2]string{e.Id, e.Head})
	}
	sort.Slice(o.Elems, func(i, j int) bool { return o.Elems[i][0] < o.Elems[j][0] })
	o.AllIds = append([]string(nil), dm.AllIds()...)
	sort.Strings(o.AllIds)
	return o
}

// apply runs one real operation; the error class is only recorded as a statistic
func (w *dmWorld) apply(op dmOp) (errS string) {
	switch op.K {
	case "tree":
		_, err := w.sp.CreateTreeStorage(dmCtx, treestorage.TreeStorageCreatePayload{RootRawChange: w.rootOf(op.Id, op.Parent, op.Derived), Heads: []string{op.Id}})
		if err != nil {
			errS = dmErrClass(err)
		}
	case "head":
		st, err := w.sp.TreeStorage(dmCtx, op.Id)
		if err != nil {
			return "notree"
		}
		tr, err := objecttree.BuildTestableTree(st, w.f.acl)
		if err != nil {
			return "build:" + err.Error()
		}
		tr.Lock()
		prev := append([]string(nil), tr.Heads()...)
		if op.Fork {
			prev = []string{op.Id}
		}
		raw := w.f.creator.CreateRaw(op.Change, w.f.aclHead, op.Id, false, prev...)
		_, err = tr.AddRawChanges(dmCtx, objecttree.RawChangesPayload{NewHeads: []string{op.Change}, RawChanges: []*treechangeproto.RawTreeChangeWithId{raw}})
		tr.Unlock()
		if err != nil {
			errS = "add:" + err.Error()
		}
	case "aclrec":
		st, err := w.sp.AclStorage()
		dmMust(err)
		head, err := st.Head(dmCtx)
		dmMust(err)
		w.aclN++
		err = st.AddAll(dmCtx, []list.StorageRecord{{RawRecord: []byte("verif"), PrevId: head, Id: op.Id, Order: w.aclN, ChangeSize: 5}})
		if err != nil {
			w.aclN--
			errS = "acl:" + err.Error()
		}
	case "kv":
		if w.kv == nil {
			kv, err := innerstorage.New(dmCtx, "verif.kv", w.sp.HeadStorage(), w.db)
			dmMust(err)
			w.kv = kv
		}
		w.kvN++
		err := w.kv.Set(dmCtx, innerstorage.KeyValue{KeyPeerId: op.Id + "-peer", Key: op.Id, PeerId: "peer", Identity: "ident",
			Value: innerstorage.Value{Value: []byte(op.Change)}, TimestampMicro: 1000 + w.kvN})
		if err != nil {
			errS = "kv:" + err.Error()
		}
	case "queue":
		w.ds.Add(map[string]struct{}{w.resolve(op.Id): {}})
	case "delete":
		if err := w.ds.Delete(w.resolve(op.Id)); err != nil {
			errS = "delete:" + err.Error()
		}
	case "restart":
		w.restart()
	case "raw":
		r := op.Raw
		id := w.resolve(r.Id)
		u := headstorage.HeadsUpdate{Id: id, CommonSnapshot: r.CS, IsDerived: r.Derived}
		if r.HasHeads {
			u.Heads = []string{}
			for _, h := range r.Heads {
				if h == "$id" {
					h = id
				}
				u.Heads = append(u.Heads, h)
			}
		}
		if r.Del != nil {
			d := headstorage.DeletedStatus(*r.Del)
			u.DeletedStatus = &d
			w.dWritten[id] = true
		}
		if err := w.sp.HeadStorage().UpdateEntry(dmCtx, u); err != nil {
			errS = "raw:" + err.Error()
		}
	}
	w.flush()
	return
}

func dmErrClass(err error) string {
	switch {
	case errors.Is(err, spacestorage.ErrTreeStorageAlreadyDeleted):
		return "deleted"
	case errors.Is(err, treestorage.ErrTreeExists):
		return "exists"
	case errors.Is(err, objecttree.ErrParentNotFound):
		return "noparent"
	case errors.Is(err, objecttree.ErrDerivedParent):
		return "derivedparent"
	}
	return "other:" + err.Error()
}

type dmResult struct {
	S0    []dmEnt
	Steps []dmStepRes
	Panic string
}

var dmT [3]time.Duration // C08_DMTIME=1 prints where the time goes

func runDmCase(f *dmFixtures, s dmSpec) (res dmResult) {
	t0 := time.Now()
	w := newDmWorld(f, s.Df, s.Th)
	dmT[0] += time.Since(t0)
	defer w.close()
	defer func() {
		if p := recover(); p != nil {
			res.Panic = fmt.Sprint(p)
		}
	}()
	res.S0 = w.allEntries()
	for _, e := range res.S0 {
		if e.Del != 0 {
			w.dWritten[e.Id] = true
		}
	}
	w.assemble()
	for _, op := range s.Ops {
		w.log = nil
		t1 := time.Now()
		sr := dmStepRes{Err: w.apply(op)}
		if op.K == "restart" {
			dmT[1] += time.Since(t1)
		} else {
			dmT[2] += time.Since(t1)
		}
		sr.Events = w.log
		sr.Live = observeDiff(w.diff, w.dm)
		sr.Live.Stored = w.stateHash()
		if op.Probe {
			// a second DiffManager: fresh ldiff, FillDiff over the same storage (what the next start would build)
			d2 := ldiff.New(s.Df, s.Th)
			dm2 := headsync.NewDiffManager(d2, w.sp, dmFakeSyncAcl{l: w.f.acl}, logger.NewNamed("verif"), dmCtx, w.ds)
			dmMust(dm2.FillDiff(dmCtx))
			o := observeDiff(d2, dm2)
			o.Stored = w.stateHash()
			sr.Restart = &o
			// the probe's FillDiff wrote ITS hash; put back what the live side had stored
			dmMust(w.sp.StateStorage().SetHash(dmCtx, sr.Live.Stored))
		}
		res.Steps = append(res.Steps, sr)
	}
	return
}

// ---------------------------------------------------------------- case term

func dmHeadOf(heads []string) string {
	h := ldiff.NewHasher()
	defer ldiff.ReleaseHasher(h)
	return h.HashId(strings.Join(heads, ""))
}

type dmRanker struct{ m map[string]uint64 }

func newDmRanker(strs map[string]struct{}) dmRanker {
	l := make([]string, 0, len(strs))
	for s := range strs {
		l = append(l, s)
	}
	sort.Strings(l)
	r := dmRanker{m: map[string]uint64{}}
	for i, s := range l {
		r.m[s] = uint64(i + 1)
	}
	return r
}

func emitDm(w *vlib.Writer, s dmSpec, res dmResult, samples *[]interface{}) {
	ids := map[string]struct{}{}   // ids and head ids share one numbering
	heads := map[string]struct{}{} // element head strings (hex digests)
	entIds := map[string]struct{}{}
	var hlists [][]string
	seenHl := map[string]bool{}
	addEnt := func(e dmEnt) {
		ids[e.Id] = struct{}{}
		entIds[e.Id] = struct{}{}
		for _, h := range e.Heads {
			ids[h] = struct{}{}
		}
		k := strings.Join(e.Heads, "\x00") + fmt.Sprint("#", len(e.Heads))
		if !seenHl[k] {
			seenHl[k] = true
			hlists = append(hlists, e.Heads)
			heads[dmHeadOf(e.Heads)] = struct{}{}
		}
	}
	addObs := func(o *dmObs) {
		if o == nil {
			return
		}
		for _, e := range o.Elems {
			ids[e[0]] = struct{}{}
			entIds[e[0]] = struct{}{}
			heads[e[1]] = struct{}{}
		}
	}
	for _, e := range res.S0 {
		addEnt(e)
	}
	for _, st := range res.Steps {
		for _, ev := range st.Events {
			switch ev.K {
			case "upd":
				addEnt(ev.E)
			case "ds":
				ids[ev.Id] = struct{}{}
			case "restart":
				for _, e := range ev.Sil {
					addEnt(e)
				}
			}
		}
		addObs(&st.Live)
		addObs(st.Restart)
	}
	rk, hr := newDmRanker(ids), newDmRanker(heads)
	tokens := map[string]uint64{}
	tok := func(h string) uint64 {
		if v, ok := tokens[h]; ok {
			return v
		}
		tokens[h] = uint64(len(tokens) + 1)
		return tokens[h]
	}
	nl := func(l []string) string {
		v := make([]uint64, len(l))
		for i, x := range l {
			v[i] = rk.m[x]
		}
		return vlib.NList(v)
	}
	entT := func(e dmEnt) string {
		return fmt.Sprintf("(%d, %s, %s, %s, %d)", rk.m[e.Id], nl(e.Heads), vlib.Bool(e.CS), vlib.Bool(e.Derived), e.Del)
	}
	entsT := func(l []dmEnt) string {
		t := make([]string, len(l))
		for i, e := range l {
			t[i] = entT(e)
		}
		return vlib.List(t)
	}
	obsT := func(o dmObs) string {
		ps := make([]string, len(o.Elems))
		for i, e := range o.Elems {
			ps[i] = fmt.Sprintf("(%d, %d)", rk.m[e[0]], hr.m[e[1]])
		}
		// elements sorted by id STRING; ranks preserve that order
		return fmt.Sprintf("(%d, %d, %s)", tok(o.Hash), tok(o.Stored), vlib.List(ps))
	}
	var htab []string
	{
		l := make([]string, 0, len(entIds))
		for id := range entIds {
			l = append(l, id)
		}
		sort.Strings(l)
		for _, id := range l {
			h := xxhash.Sum64([]byte(id))
			htab = append(htab, fmt.Sprintf("(%d, %d, %d)", rk.m[id], h>>32, h&0xffffffff))
		}
	}
	var hdtab []string
	for _, hl := range hlists {
		hdtab = append(hdtab, fmt.Sprintf("(%s, %d)", nl(hl), hr.m[dmHeadOf(hl)]))
	}
	var steps []string
	direct := ""
	nupd, nprobe, nignored := 0, 0, 0
	for i, st := range res.Steps {
		var evs, ex []string
		for _, ev := range st.Events {
			switch ev.K {
			case "upd":
				evs = append(evs, vlib.App("IEvUpd", entT(ev.E)))
				ex = append(ex, vlib.Bool(ev.Exists))
				nupd++
				if ev.E.Del == 0 && (ev.Exists || (len(ev.E.Heads) == 1 && ev.E.Heads[0] == ev.E.Id)) {
					nignored++
				}
			case "ds":
				evs = append(evs, vlib.App("IEvDs", vlib.N(rk.m[ev.Id])))
			case "restart":
				evs = append(evs, vlib.App("IEvRestart", entsT(ev.Sil)))
			}
		}
		rT := "None"
		if st.Restart != nil {
			rT = vlib.Some(obsT(*st.Restart))
			nprobe++
			if st.Restart.Hash != st.Live.Hash {
				w.Stat("dm_probe_live_differs_from_restarted_" + s.Shape)
			} else {
				w.Stat("dm_probe_live_equals_restarted_" + s.Shape)
			}
			if s.Real && direct == "" && (st.Restart.Hash != st.Live.Hash || st.Restart.Stored != st.Live.Hash || st.Live.Stored != st.Live.Hash) {
				direct = fmt.Sprintf("after op %d (%s): live Hash() %s, StateStorage %s, restarted (FillDiff on a fresh ldiff) Hash() %s / StateStorage %s; live ids %v, restarted ids %v",
					i, s.Ops[i].K, st.Live.Hash, st.Live.Stored, st.Restart.Hash, st.Restart.Stored, st.Live.AllIds, st.Restart.AllIds)
			}
		}
		if direct == "" && st.Live.Stored != st.Live.Hash {
			direct = fmt.Sprintf("after op %d (%s): StateStorage hash %s != live Hash() %s", i, s.Ops[i].K, st.Live.Stored, st.Live.Hash)
		}
		for _, o := range []*dmObs{&st.Live, st.Restart} {
			if o == nil {
				continue
			}
			el := make([]string, len(o.Elems))
			for j, e := range o.Elems {
				el[j] = e[0]
			}
			if direct == "" && strings.Join(el, ",") != strings.Join(o.AllIds, ",") {
				direct = fmt.Sprintf("after op %d: AllIds() %v differs from the ids of Elements() %v", i, o.AllIds, el)
			}
		}
		steps = append(steps, fmt.Sprintf("(%s, %s, %s, %s)", vlib.List(evs), vlib.List(ex), obsT(st.Live), rT))
	}
	term := "(" + vlib.App("ICDm", vlib.Bool(s.Real), vlib.N(uint64(s.Df)), vlib.N(uint64(s.Th)), vlib.List(htab), vlib.List(hdtab), entsT(res.S0), vlib.List(steps)) + ")%uint63"
	desc := map[string]interface{}{"dm": s, "panic": res.Panic, "hash_mismatch": direct, "events": nupd, "probes": nprobe}
	idx := w.Add(term, desc, term, nupd >= 3 && nprobe >= 1)
	w.Stat("dm_shape_" + s.Shape)
	w.Stat(fmt.Sprintf("dm_df_%d_th_%d", s.Df, s.Th))
	w.Stats["dm_updates_delivered"] += nupd
	w.Stats["dm_updates_ignored_live"] += nignored
	w.Stats["dm_restart_probes"] += nprobe
	for i, op := range s.Ops {
		w.Stat("dm_op_" + op.K)
		if i < len(res.Steps) && res.Steps[i].Err != "" {
			w.Stat("dm_op_" + op.K + "_refused_" + strings.SplitN(res.Steps[i].Err, ":", 2)[0])
		}
	}
	switch {
	case res.Panic != "":
		w.Violation(idx, "c08-dm-panic", "DiffManager history panicked: "+res.Panic, s)
	case direct != "":
		w.Stat("dm_hash_differs")
		w.Violation(idx, "c08-dm-restart", direct, s)
	}
	if samples != nil && len(*samples) < 4 && s.Real && len(s.Ops) <= 12 {
		*samples = append(*samples, desc)
	}
}

// ---------------------------------------------------------------- generators

func genDmReal(r *vlib.Rand, df, th, nops int) dmSpec {
	s := dmSpec{Df: df, Th: th, Real: true, Shape: "real"}
	var trees, nonDerived, queued []string
	nt, nc, na, nk := 0, 0, 0, 0
	for k := 0; k < nops; k++ {
		var op dmOp
		c := r.Intn(20)
		switch {
		case c < 4 || len(trees) == 0:
			nt++
			op = dmOp{K: "tree", Id: fmt.Sprintf("tree%02d", nt), Derived: r.Chance(1, 3)}
			if len(nonDerived) > 0 && r.Chance(1, 3) {
				op.Parent = nonDerived[r.Intn(len(nonDerived))]
			}
			if r.Chance(1, 10) && len(trees) > 0 { // an id that exists already (refused)
				op.Id = trees[r.Intn(len(trees))]
			} else {
				trees = append(trees, op.Id)
				if !op.Derived {
					nonDerived = append(nonDerived, op.Id)
				}
			}
		case c < 10:
			nc++
			op = dmOp{K: "head", Id: trees[r.Intn(len(trees))], Change: fmt.Sprintf("chg%03d", nc), Fork: r.Chance(1, 4)}
		case c < 12:
			na++
			op = dmOp{K: "aclrec", Id: fmt.Sprintf("aclrec%02d", na)}
		case c < 14:
			nk++
			op = dmOp{K: "kv", Id: fmt.Sprintf("key%d", r.Intn(3)), Change: fmt.Sprintf("v%d", nk)}
		case c < 17:
			id := trees[r.Intn(len(trees))]
			if r.Chance(1, 5) { // tombstone of an id that is not stored (yet)
				nt++
				id = fmt.Sprintf("tree%02d", nt)
				trees = append(trees, id)
			}
			op = dmOp{K: "queue", Id: id}
			queued = append(queued, id)
		case c < 19 && len(queued) > 0:
			op = dmOp{K: "delete", Id: queued[r.Intn(len(queued))]}
		default:
			op = dmOp{K: "restart"}
		}
		op.Probe = r.Chance(1, 2) || k == nops-1
		s.Ops = append(s.Ops, op)
	}
	return s
}

func genDmRaw(r *vlib.Rand, df, th, nops int) dmSpec {
	s := dmSpec{Df: df, Th: th, Real: false, Shape: "raw"}
	univ := []string{"$acl", "$settings", "raw1", "raw2", "raw3", "raw4"}
	s.Ops = append(s.Ops, dmOp{K: "tree", Id: "raw1", Derived: false}, dmOp{K: "head", Id: "raw1", Change: "rc1", Probe: true})
	other := []string{"x1", "x2", "x3"}
	for k := 0; k < nops; k++ {
		var op dmOp
		id := univ[r.Intn(len(univ))]
		switch r.Intn(10) {
		case 0:
			op = dmOp{K: "queue", Id: id}
		case 1:
			op = dmOp{K: "restart"}
		default:
			raw := &dmRaw{Id: id}
			if r.Chance(3, 4) {
				raw.HasHeads = true
				switch r.Intn(6) {
				case 0, 1:
					raw.Heads = []string{"$id"}
				case 2:
					raw.Heads = []string{other[r.Intn(3)]}
				case 3:
					raw.Heads = []string{"$id", other[r.Intn(3)]}
				case 4:
					raw.Heads = []string{other[r.Intn(3)], "$id"}
				}
			}
			if r.Chance(1, 2) {
				v := []string{"", "snap"}[r.Intn(2)]
				raw.CS = &v
			}
			if r.Chance(1, 3) {
				v := r.Bool()
				raw.Derived = &v
			}
			if r.Chance(1, 4) {
				v := r.Intn(3)
				raw.Del = &v
			}
			op = dmOp{K: "raw", Raw: raw}
		}
		op.Probe = true
		s.Ops = append(s.Ops, op)
	}
	return s
}

// ---------------------------------------------------------------- entry points used by main.go

func dmWorkRoot() string { return "/verif/.work/C08" }

func replayDm(raw json.RawMessage, f **dmFixtures, w *vlib.Writer, samples *[]interface{}) bool {
	var d struct {
		Dm *dmSpec `json:"dm"`
	}
	if json.Unmarshal(raw, &d) != nil || d.Dm == nil || d.Dm.Df == 0 {
		return false
	}
	if *f == nil {
		*f = newDmFixtures(dmWorkRoot())
	}
	emitDm(w, *d.Dm, runDmCase(*f, *d.Dm), samples)
	return true
}

func runDm(o vlib.Opts, r *vlib.Rand, w *vlib.Writer, samples *[]interface{}) {
	f := newDmFixtures(dmWorkRoot())
	defer f.cleanup()
	nReal, nRaw := 36, 14
	if o.Tier == "thorough" {
		nReal, nRaw = 400, 150
	}
	nReal *= o.Budget
	nRaw *= o.Budget
	params := [][2]int{{32, 256}, {32, 256}, {2, 1}, {3, 2}, {16, 1}}
	for k := 0; k < nReal; k++ {
		p := params[r.Intn(len(params))]
		s := genDmReal(r, p[0], p[1], 8+r.Intn(18))
		emitDm(w, s, runDmCase(f, s), samples)
	}
	for k := 0; k < nRaw; k++ {
		p := params[r.Intn(len(params))]
		s := genDmRaw(r, p[0], p[1], 4+r.Intn(10))
		emitDm(w, s, runDmCase(f, s), samples)
	}
	if os.Getenv("C08_DMTIME") != "" {
		fmt.Fprintln(os.Stderr, "dm timing: create", dmT[0], "restart", dmT[1], "ops", dmT[2])
	}
}
