// Concurrent stage for C08 (oracle-only): a long Set call that changes the head of x and a RemoveId(x) issued while
// that Set is running. Whatever order the two take effect in, the index must afterwards be the index of its own
// contents: equal (whole-set hash, top-range count and hash, element list) to a freshly filled one.
package main

import (
	"context"
	"fmt"
	"math"
	"time"

	"github.com/anyproto/any-sync/app/ldiff"

	"verifharness/ldiffh"
	"verifharness/vlib"
)

type concDesc struct {
	Kind  string `json:"kind"`
	Trial int    `json:"trial"`
	Df    int    `json:"df"`
	Th    int    `json:"th"`
	N     int    `json:"n"`
	Seed  uint64 `json:"seed"`
}

func concurrentSetRemove(cd concDesc) (msg string) {
	defer func() {
		if p := recover(); p != nil {
			msg = fmt.Sprintf("panic: %v", p)
		}
	}()
	r := vlib.NewRand(cd.Seed)
	d := ldiff.New(cd.Df, cd.Th)
	base := make([]ldiff.Element, cd.N)
	hashes := make([]uint64, cd.N)
	for i := range base {
		hashes[i] = r.U64()
		base[i] = ldiff.Element{Id: ldiffh.PlaceID(uint64(i), hashes[i]), Head: "h0"}
	}
	d.Set(base...)
	xi := r.Intn(len(base))
	x := base[xi]
	batch := make([]ldiff.Element, 0, len(base)+1)
	batch = append(batch, ldiff.Element{Id: x.Id, Head: "h1"})
	batch = append(batch, base...) // unchanged entries: the call is long
	done := make(chan struct{})
	go func() {
		defer close(done)
		defer func() { _ = recover() }()
		d.Set(batch...)
	}()
	time.Sleep(time.Duration(100+r.Intn(900)) * time.Microsecond)
	_ = d.RemoveId(x.Id)
	select {
	case <-done:
	case <-time.After(60 * time.Second):
		return "Set did not return within 60s while a RemoveId was issued"
	}
	fresh := ldiff.New(cd.Df, cd.Th)
	fresh.Set(d.Elements()...)
	if d.Hash() != fresh.Hash() {
		return fmt.Sprintf("after Set(%d elements, head of x changed) overlapping RemoveId(x): whole-set hash %s differs from a freshly filled index of the same %d elements (%s)", len(batch), d.Hash(), d.Len(), fresh.Hash())
	}
	ctx := context.Background()
	// the top range and the canonical ranges on the path of x's hash (where the bookkeeping of x lives)
	q := []ldiff.Range{{From: 0, To: math.MaxUint64, Elements: false}}
	for _, pr := range ldiffh.PathRanges(hashes[xi], cd.Df, 6) {
		q = append(q, ldiff.Range{From: pr[0], To: pr[1], Elements: false})
	}
	a, e1 := d.Ranges(ctx, q, nil)
	b, e2 := fresh.Ranges(ctx, q, nil)
	if e1 != nil || e2 != nil || len(a) != len(q) || len(b) != len(q) {
		return fmt.Sprintf("range query failed: %v %v", e1, e2)
	}
	for i := range q {
		if a[i].Count != b[i].Count || string(a[i].Hash) != string(b[i].Hash) {
			return fmt.Sprintf("after Set(%d elements, head of x changed) overlapping RemoveId(x): the answer for range [%d,%d] differs from a freshly filled index of the same %d elements: count %d vs %d, hash equal=%v",
				len(batch), q[i].From, q[i].To, d.Len(), a[i].Count, b[i].Count, string(a[i].Hash) == string(b[i].Hash))
		}
	}
	return ""
}

func runConcurrent(seed uint64, w *vlib.Writer, only int) {
	shapes := [][3]int{{4, 4, 30000}, {16, 8, 40000}, {32, 256, 40000}, {4, 2, 20000}}
	for k, sh := range shapes {
		if only >= 0 && only != k {
			continue
		}
		cd := concDesc{Kind: "concurrent_set_remove", Trial: k, Df: sh[0], Th: sh[1], N: sh[2], Seed: seed + uint64(k)}
		term := fmt.Sprintf("(ICHist %d %d [])%%uint63", cd.Df, cd.Th)
		idx := w.Add(term, cd, fmt.Sprintf("concurrent-set-remove-%d", k), true)
		w.Stat("concurrent_set_remove_oracle_only")
		if msg := concurrentSetRemove(cd); msg != "" {
			w.Violation(idx, "c08-concurrent-history", msg, cd)
		}
	}
}
