// Correspondence driver for C08: histories of Set / RemoveId on a real ldiff index; after every operation the
// incrementally maintained index and a real index freshly filled with the same contents answer the same range
// queries (top, the canonical path of the touched hash, random off-tree ranges).
package main

import (
	"context"
	"encoding/hex"
	"encoding/json"
	"fmt"
	"math"
	"os"
	"sort"
	"time"

	"github.com/anyproto/any-sync/app/ldiff"

	"verifharness/ldiffh"
	"verifharness/vlib"
)

type opSpec struct {
	Set    []ldiffh.El `json:"set,omitempty"`
	Remove *ldiffh.El  `json:"remove,omitempty"` // only Salt/Hash identify the id
}

type query struct {
	From, To uint64
	Elements bool
}

type spec struct {
	Df      int         `json:"df"`
	Th      int         `json:"th"`
	Ops     []opSpec    `json:"ops"`
	Queries [][]query   `json:"queries"` // per step
	Shape   string      `json:"shape"`
	Tags    []string    `json:"tags,omitempty"`
}

type obsT struct {
	Hash  string      // hex
	Elems [][2]string // id hex, head
	Count int
}

type stepRes struct {
	Ok    bool
	Inc   []obsT
	Fresh []obsT
	IncHash, FreshHash string // Diff.Hash()
	IncLen, FreshLen   int
}

type result struct {
	Steps []stepRes
	Panic string
}

func ask(d ldiff.Diff, qs []query) []obsT {
	rs := make([]ldiff.Range, len(qs))
	for i, q := range qs {
		rs[i] = ldiff.Range{From: q.From, To: q.To, Elements: q.Elements}
	}
	res, err := d.Ranges(context.Background(), rs, nil)
	if err != nil {
		panic(err)
	}
	out := make([]obsT, len(res))
	for i, r := range res {
		o := obsT{Hash: hex.EncodeToString(r.Hash), Count: r.Count}
		for _, e := range r.Elements {
			o.Elems = append(o.Elems, [2]string{hex.EncodeToString([]byte(e.Id)), e.Head})
		}
		out[i] = o
	}
	return out
}

func runCase(s spec) (res result) {
	defer func() {
		if p := recover(); p != nil {
			res.Panic = fmt.Sprint(p)
		}
	}()
	inc := ldiff.New(s.Df, s.Th)
	contents := map[string]ldiff.Element{}
	for i, op := range s.Ops {
		sr := stepRes{Ok: true}
		if op.Remove != nil {
			id := op.Remove.ID()
			err := inc.RemoveId(id)
			sr.Ok = err == nil
			delete(contents, id)
		} else {
			els := make([]ldiff.Element, len(op.Set))
			for j, e := range op.Set {
				els[j] = e.Element()
				contents[els[j].Id] = els[j]
			}
			inc.Set(els...)
		}
		fresh := ldiff.New(s.Df, s.Th)
		all := make([]ldiff.Element, 0, len(contents))
		for _, e := range contents {
			all = append(all, e)
		}
		sort.Slice(all, func(a, b int) bool { return all[a].Id < all[b].Id })
		if len(all) > 0 {
			fresh.Set(all...)
		}
		sr.Inc = ask(inc, s.Queries[i])
		sr.Fresh = ask(fresh, s.Queries[i])
		sr.IncHash, sr.FreshHash = inc.Hash(), fresh.Hash()
		sr.IncLen, sr.FreshLen = inc.Len(), fresh.Len()
		res.Steps = append(res.Steps, sr)
	}
	return
}

func childHandler(req []byte) []byte {
	var s spec
	if err := json.Unmarshal(req, &s); err != nil {
		return []byte(`{"Panic":"bad request"}`)
	}
	b, _ := json.Marshal(runCase(s))
	return b
}

func genHistory(r *vlib.Rand, df, th int, kind string, nops, universe int) spec {
	g := ldiffh.NewHashGen(r, df, kind)
	type uid struct{ salt, hash uint64 }
	var uni []uid
	salt := uint64(r.Intn(1000))
	seen := map[uid]bool{}
	for len(uni) < universe {
		h := g.Next()
		u := uid{salt, h}
		if seen[u] {
			salt++
			u = uid{salt, h}
		}
		seen[u] = true
		uni = append(uni, u)
	}
	present := map[uid]bool{}
	s := spec{Df: df, Th: th, Shape: kind}
	for k := 0; k < nops; k++ {
		var op opSpec
		var touched uint64
		c := r.Intn(10)
		switch {
		case c < 3 && len(present) > 0: // remove a present id
			var ps []uid
			for _, u := range uni {
				if present[u] {
					ps = append(ps, u)
				}
			}
			u := ps[r.Intn(len(ps))]
			op.Remove = &ldiffh.El{Salt: u.salt, Hash: u.hash}
			delete(present, u)
			touched = u.hash
		case c == 3: // remove an absent id
			u := uni[r.Intn(len(uni))]
			if present[u] {
				u = uid{u.salt + 100000, u.hash}
			}
			op.Remove = &ldiffh.El{Salt: u.salt, Hash: u.hash}
			touched = u.hash
		default: // set 1..3 elements: new ids, existing ids (same or new head), possibly the same id twice
			n := 1
			if r.Chance(1, 3) {
				n = 2 + r.Intn(3)
			}
			for j := 0; j < n; j++ {
				u := uni[r.Intn(len(uni))]
				op.Set = append(op.Set, ldiffh.El{Salt: u.salt, Hash: u.hash, Head: r.Intn(4)})
				present[u] = true
				touched = u.hash
			}
		}
		s.Ops = append(s.Ops, op)
		// queries
		qs := []query{{0, math.MaxUint64, false}}
		path := ldiffh.PathRanges(touched, df, 1+r.Intn(8))
		for i, p := range path {
			if i >= len(path)-3 || r.Chance(1, 3) {
				qs = append(qs, query{p[0], p[1], r.Chance(1, 4)})
			}
		}
		if len(path) > 0 { // a sibling of the deepest range
			last := path[len(path)-1]
			if len(path) > 1 {
				par := path[len(path)-2]
				sib := ldiffh.GenTupleRanges(par[0], par[1], df)
				if len(sib) > 0 {
					c := sib[r.Intn(len(sib))]
					qs = append(qs, query{c[0], c[1], false})
				}
			}
			// off-tree ranges around the touched hash
			a := last[0] + r.U64()%(last[1]-last[0]+1)
			b := a + r.U64()%(last[1]-a+1)
			qs = append(qs, query{a, b, r.Bool()})
		}
		if r.Chance(1, 3) {
			a := r.U64()
			b := a + r.U64()%(math.MaxUint64-a+1)
			qs = append(qs, query{a, b, r.Chance(1, 3)})
		}
		s.Queries = append(s.Queries, qs)
	}
	return s
}

func main() {
	vlib.ServeChild(childHandler)
	o := vlib.ParseFlags()
	vlib.Quiet()
	w := vlib.NewWriter(o.Out, "C08_run", 20)
	child := &vlib.Child{}
	defer child.Close()
	var samples []interface{}
	fatal := 0

	do := func(s spec) {
		if fatal >= 8 {
			w.Stat("skipped_after_8_crashes_or_hangs")
			return
		}
		req, _ := json.Marshal(s)
		respB, fail := child.Call(req, 10*time.Second)
		var res result
		if fail == "" {
			if err := json.Unmarshal(respB, &res); err != nil {
				fail = "crash: bad response"
			}
		}
		var ids []string
		for _, op := range s.Ops {
			for _, e := range op.Set {
				ids = append(ids, e.ID())
			}
			if op.Remove != nil {
				ids = append(ids, op.Remove.ID())
			}
		}
		rk := ldiffh.NewRanker(ids)
		tokens := map[string]uint64{}
		tok := func(h string) uint64 {
			if v, ok := tokens[h]; ok {
				return v
			}
			tokens[h] = uint64(len(tokens) + 1)
			return tokens[h]
		}
		obsTerm := func(q query, ob obsT) string {
			ps := make([]string, len(ob.Elems))
			for i, e := range ob.Elems {
				idb, _ := hex.DecodeString(e[0])
				ps[i] = vlib.Pair(vlib.N(rk.Rank(string(idb))), vlib.N(ldiffh.HeadNum(e[1])))
			}
			_ = q
			return fmt.Sprintf("(%d, %s, %d)", tok(ob.Hash), vlib.List(ps), ob.Count)
		}
		var steps []string
		directMsg := ""
		for i, op := range s.Ops {
			var opT string
			if op.Remove != nil {
				opT = vlib.App("IRemove", vlib.N(rk.Rank(op.Remove.ID())))
			} else {
				opT = vlib.App("ISet", rk.ElemsTerm(op.Set))
			}
			if i >= len(res.Steps) {
				break
			}
			sr := res.Steps[i]
			inc := make([]string, len(sr.Inc))
			fr := make([]string, len(sr.Fresh))
			for j := range sr.Inc {
				inc[j] = obsTerm(s.Queries[i][j], sr.Inc[j])
			}
			for j := range sr.Fresh {
				fr[j] = obsTerm(s.Queries[i][j], sr.Fresh[j])
			}
			qt := make([]string, len(s.Queries[i]))
			for j, q := range s.Queries[i] {
				qt[j] = fmt.Sprintf("(%s, %s, %s)", ldiffh.HiLo(q.From), ldiffh.HiLo(q.To), vlib.Bool(q.Elements))
			}
			steps = append(steps, fmt.Sprintf("(%s, %s, %s, %s, %s)", opT, vlib.Bool(sr.Ok), vlib.List(qt), vlib.List(inc), vlib.List(fr)))
			if directMsg == "" && (sr.IncHash != sr.FreshHash || sr.IncLen != sr.FreshLen) {
				directMsg = fmt.Sprintf("after op %d: Hash() %s (incremental) != %s (freshly filled), Len %d vs %d", i, sr.IncHash, sr.FreshHash, sr.IncLen, sr.FreshLen)
			}
		}
		term := vlib.App("ICHist", vlib.N(uint64(s.Df)), vlib.N(uint64(s.Th)), vlib.List(steps)) + "%uint63"
		desc := map[string]interface{}{"spec": s, "fail": fail, "panic": res.Panic, "tags": s.Tags, "hash_mismatch": directMsg}
		idx := w.Add(term, desc, term, len(s.Ops) >= 3)
		w.Stat("shape_" + s.Shape)
		w.Stat(fmt.Sprintf("df_%d_th_%d", s.Df, s.Th))
		for _, op := range s.Ops {
			if op.Remove != nil {
				w.Stat("op_remove")
			} else if len(op.Set) > 1 {
				w.Stat("op_set_multi")
			} else {
				w.Stat("op_set_one")
			}
		}
		switch {
		case fail != "":
			fatal++
			w.Violation(idx, "c08-crash", "index operation crashed or hung: "+fail, s)
		case res.Panic != "":
			w.Violation(idx, "c08-panic", "index operation panicked: "+res.Panic, s)
		case directMsg != "":
			w.Stat("hash_differs_from_fresh")
			w.Violation(idx, "c08-history", directMsg, s)
		}
		if len(samples) < 2 && len(s.Ops) >= 4 && len(s.Ops) <= 7 {
			samples = append(samples, desc)
		}
	}

	if o.Replay != "" {
		var dmf *dmFixtures
		defer func() {
			if dmf != nil {
				dmf.cleanup()
			}
		}()
		for _, raw := range vlib.ReadReplay(o.Replay) {
			if replayDm(raw, &dmf, w, &samples) { // DiffManager-layer case (dm.go)
				continue
			}
			var cd concDesc
			if json.Unmarshal(raw, &cd) == nil && cd.Kind == "concurrent_set_remove" {
				runConcurrent(cd.Seed-uint64(cd.Trial), w, cd.Trial)
				continue
			}
			var d struct {
				Spec spec `json:"spec"`
			}
			if json.Unmarshal(raw, &d) == nil && d.Spec.Df != 0 {
				do(d.Spec)
			}
		}
		w.Finish("replay", samples, nil)
		return
	}

	r := vlib.NewRand(o.Seed)
	n := 300
	if o.Tier == "thorough" {
		n = 4000
	}
	n *= o.Budget
	onlyDm := os.Getenv("C08_PART") == "dm" // development aid: only the DiffManager-layer cases
	if onlyDm {
		n = 0
	}
	for k := 0; k < n; k++ {
		df := ldiffh.Dfs[r.Intn(len(ldiffh.Dfs))]
		th := []int{1, 1, 2, 2, 3}[r.Intn(5)]
		kind := ldiffh.HashKinds[r.Intn(len(ldiffh.HashKinds))]
		do(genHistory(r, df, th, kind, 3+r.Intn(18), 4+r.Intn(10)))
	}
	// production parameters around the 256 boundary
	np := 2
	if o.Tier == "thorough" {
		np = 20
	}
	if onlyDm {
		np = 0
	}
	for k := 0; k < np*o.Budget; k++ {
		s := genHistory(r, 32, 256, "deep", 0, 1)
		// fill ~250..262 elements in one deep bucket, then churn around the boundary
		g := ldiffh.NewHashGen(r, 32, "deep")
		var els []ldiffh.El
		nfill := 250 + r.Intn(12)
		for i := 0; i < nfill; i++ {
			els = append(els, ldiffh.El{Salt: uint64(i), Hash: g.Next(), Head: 0})
		}
		s.Ops = append(s.Ops, opSpec{Set: els})
		s.Queries = append(s.Queries, []query{{0, math.MaxUint64, false}})
		for j := 0; j < 12; j++ {
			e := els[r.Intn(len(els))]
			var op opSpec
			switch r.Intn(3) {
			case 0:
				e.Head = 1 + r.Intn(3)
				op.Set = []ldiffh.El{e}
			case 1:
				op.Remove = &ldiffh.El{Salt: e.Salt, Hash: e.Hash}
			default:
				op.Set = []ldiffh.El{{Salt: uint64(1000 + j), Hash: g.Next(), Head: 0}}
			}
			s.Ops = append(s.Ops, op)
			p := ldiffh.PathRanges(e.Hash, 32, 2)
			qs := []query{{0, math.MaxUint64, false}}
			for _, x := range p {
				qs = append(qs, query{x[0], x[1], false})
			}
			s.Queries = append(s.Queries, qs)
		}
		s.Shape = "prod_boundary"
		do(s)
	}
	// concurrent Set / RemoveId on one index (conc.go; oracle-only)
	if !onlyDm {
		runConcurrent(o.Seed*1000003+17, w, -1)
	}
	// DiffManager layer (dm.go): real space storage + head storage + deletion state + DiffManager
	runDm(o, r, w, &samples)
	w.Finish("random histories (3-24 ops) of Set (new id / existing id with same or new head / several elements, ids repeated inside one call) and RemoveId (present / absent) over a universe of 4-13 hash-placed ids, "+
		"df in {2,3,4,5,7,16,32,33}, th in {1,2,3}, hash shapes as for C07, plus production parameters (32,256) churning around the 256 boundary; after every op the incremental and a freshly filled real index answer the same queries "+
		"(top range, canonical path of the touched hash, a sibling, off-tree ranges); non-trivial = at least 3 ops; distinct by full case term. "+
		"DiffManager layer: histories (8-25 ops) of real operations on a real space storage (tree storage create incl. derived / with parent / existing id, AddRawChanges moving or forking heads, ACL storage AddAll, key-value storage New/Set, "+
		"deletionstate Add (also for ids not stored yet) / Delete, process restart) and histories of raw headStorage.UpdateEntry calls (root-only / id among several heads / with and without CommonSnapshot / derived / status 0,1,2), params (32,256),(2,1),(3,2),(16,1); "+
		"after every op: live Hash(), elements, StateStorage hash; at probe points a second DiffManager runs FillDiff on a fresh ldiff over the same storage; non-trivial = at least 3 delivered updates and 1 probe",
		samples, nil)
}
