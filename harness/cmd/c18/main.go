// Correspondence driver for C18: builds REAL nodeconf services (one per participant: every node of the tested or
// of an earlier configuration and a client), leads each of them through its own HISTORY of 1..4 configurations
// (Service.Init -> setLastConfiguration -> сonfigurationToNodeConf, then Run -> updateConfiguration -> ... ->
// setLastConfiguration once per further configuration), and after the last one asks each of
// them ReplKey / Partition / NodeIds / IsResponsible for a list of space ids, reads the full
// CHash().GetPartitionMembers table, and writes all of it as Coq cases together with Go's xxhash64 of exactly the
// byte strings go-chash hashes (fmt.Sprint(id, i), fmt.Sprint("p", i), the replication key), so the Gallina model
// (Model/Chash.v, Model/NodeConf.v) never computes a hash itself.  A second stream drives go-chash directly with a
// custom Hasher (small hash ranges => ties), small partition counts / multiply factors and duplicated members.
package main

import (
	"context"
	"encoding/json"
	"fmt"
	"os"
	"sort"
	"strings"
	"sync"
	"time"

	"github.com/anyproto/go-chash"
	"github.com/cespare/xxhash"

	"github.com/anyproto/any-sync/accountservice"
	"github.com/anyproto/any-sync/app"
	"github.com/anyproto/any-sync/commonspace/object/accountdata"
	"github.com/anyproto/any-sync/nodeconf"

	"verifharness/vlib"
)

// ---------------------------------------------------------------- app components around the real nodeconf service

type confComp struct{ c nodeconf.Configuration }

func (c *confComp) Init(a *app.App) error               { return nil }
func (c *confComp) Name() string                        { return "config" }
func (c *confComp) GetNodeConf() nodeconf.Configuration { return c.c }

// nodeconf.ConfigUpdateGetter: the shortest period the service accepts (whole seconds)
func (c *confComp) GetNodeConfUpdateInterval() int { return 1 }

type accComp struct{ peerId string }

func (c *accComp) Init(a *app.App) error { return nil }
func (c *accComp) Name() string          { return accountservice.CName }
func (c *accComp) Account() *accountdata.AccountKeys {
	return &accountdata.AccountKeys{PeerId: c.peerId}
}

// source of configuration updates: every call of GetLast (one per tick of the service's periodic updater) hands out
// the next configuration of the participant's history - whatever its id (an identical re-delivery has the id of the
// active configuration) - and reports ErrConfigurationNotChanged once the history is exhausted.
type srcComp struct {
	mu      sync.Mutex
	queue   []nodeconf.Configuration
	drained chan struct{} // closed when the last configuration of the history has been handed out
}

func (c *srcComp) Init(a *app.App) error { return nil }
func (c *srcComp) Name() string          { return nodeconf.CNameSource }
func (c *srcComp) GetLast(ctx context.Context, cur string) (nodeconf.Configuration, error) {
	c.mu.Lock()
	defer c.mu.Unlock()
	if len(c.queue) == 0 {
		return nodeconf.Configuration{}, nodeconf.ErrConfigurationNotChanged
	}
	next := c.queue[0]
	c.queue = c.queue[1:]
	if len(c.queue) == 0 {
		close(c.drained)
	}
	return next, nil
}

// the participant's local configuration store: survives restarts of the service (one storeComp per participant, a new
// service object per start).  GetLast hands out a deep copy (mergeCoordinatorAddrs writes into what it gets).
type storeComp struct {
	mu   sync.Mutex
	conf *nodeconf.Configuration
}

func cloneConfiguration(c nodeconf.Configuration) nodeconf.Configuration {
	r := c
	r.Nodes = make([]nodeconf.Node, len(c.Nodes))
	for i, n := range c.Nodes {
		r.Nodes[i] = nodeconf.Node{PeerId: n.PeerId}
		if n.Addresses != nil {
			r.Nodes[i].Addresses = make([]string, len(n.Addresses))
			copy(r.Nodes[i].Addresses, n.Addresses)
		}
		if n.Types != nil {
			r.Nodes[i].Types = make([]nodeconf.NodeType, len(n.Types))
			copy(r.Nodes[i].Types, n.Types)
		}
	}
	return r
}

func (c *storeComp) Init(a *app.App) error { return nil }
func (c *storeComp) Name() string          { return nodeconf.CNameStore }
func (c *storeComp) GetLast(ctx context.Context, netId string) (nodeconf.Configuration, error) {
	c.mu.Lock()
	defer c.mu.Unlock()
	if c.conf == nil || c.conf.NetworkId != netId {
		return nodeconf.Configuration{}, nodeconf.ErrConfigurationNotFound
	}
	return cloneConfiguration(*c.conf), nil
}
func (c *storeComp) SaveLast(ctx context.Context, cf nodeconf.Configuration) error {
	c.mu.Lock()
	defer c.mu.Unlock()
	cp := cloneConfiguration(cf)
	c.conf = &cp
	return nil
}

type coordComp struct{}

func (c *coordComp) Init(a *app.App) error { return nil }
func (c *coordComp) Name() string          { return "verif.coord" }
func (c *coordComp) IsNetworkNeedsUpdate(ctx context.Context) (bool, error) {
	return false, nil
}

// one event of a participant's life: the process is (re)started with an app configuration, or the source delivers a
// configuration to the running service
type lifeEv struct {
	start bool
	conf  nodeconf.Configuration
}

// runLife leads participant [self] through its life with the REAL service: the store holds [stored] (nil: nothing)
// before the first start; every start builds a new app + nodeconf service around the SAME store and account
// (Init: store.GetLast, mergeCoordinatorAddrs, setLastConfiguration); the updates that follow a start are delivered
// through the periodic update path of that service (Run -> updateConfiguration -> source.GetLast ->
// saveAndSetLastConfiguration -> store.SaveLast + setLastConfiguration), the first at once, then one per tick;
// before the next start the service is closed (Close() waits for the update in flight).  Returns the last service.
func runLife(stored *nodeconf.Configuration, evs []lifeEv, self string) (svc nodeconf.Service, err error) {
	store := &storeComp{}
	if stored != nil {
		cp := cloneConfiguration(*stored)
		store.conf = &cp
	}
	if len(evs) == 0 || !evs[0].start {
		return nil, fmt.Errorf("malformed life: does not begin with a start")
	}
	for i := 0; i < len(evs); {
		appConf := cloneConfiguration(evs[i].conf)
		var ups []nodeconf.Configuration
		for i++; i < len(evs) && !evs[i].start; i++ {
			ups = append(ups, cloneConfiguration(evs[i].conf))
		}
		a := new(app.App)
		svc = nodeconf.New()
		src := &srcComp{queue: ups, drained: make(chan struct{})}
		a.Register(&confComp{appConf}).Register(&accComp{self}).Register(src).Register(store).
			Register(&coordComp{}).Register(svc)
		if err = svc.Init(a); err != nil {
			return
		}
		if len(ups) == 0 {
			continue
		}
		if err = svc.Run(context.Background()); err != nil {
			return
		}
		select {
		case <-src.drained:
		case <-time.After(time.Duration(60+5*len(ups)) * time.Second):
			_ = svc.Close(context.Background())
			return nil, fmt.Errorf("the service fetched only %d of %d configuration updates within the deadline (active: %q)",
				len(ups)-len(src.queue), len(ups), svc.Id())
		}
		if err = svc.Close(context.Background()); err != nil {
			return
		}
	}
	return
}

// ---------------------------------------------------------------- case descriptions (replayable)

type nodeDesc struct {
	PeerId string   `json:"peerId"`
	Addrs  []string `json:"addrs"`
	Types  []string `json:"types"`
}

// an earlier configuration of a history
type confVer struct {
	Id    string     `json:"id"`
	Nodes []nodeDesc `json:"nodes"`
	How   string     `json:"how,omitempty"` // how the NEXT configuration of the chain was derived from this one
}

// One case = the configuration under test ([Nodes], id TestedId, default "verif-conf") + the LIVES through which the
// participants reach it.  The pool of configurations is Earlier ++ [tested] (Earlier: earlier published
// configurations, app configurations bundled with a binary, configurations found in a store).  Hists[k] is the life of
// participant k: the first entry i = the process is started with app configuration pool[i]; a further entry i >= 0 =
// pool[i] is delivered to the running service as an update; an entry -(i+1) = the process is RESTARTED (new service,
// same store, same identity) with app configuration pool[i].  Stored[k] = j+1: before the first start the
// participant's store holds pool[j] (0 / absent: nothing stored).  After its life every participant must hold the
// tested configuration.  Participants: the distinct
// node ids of the tested configuration in order, then ids that occur only in earlier configurations, then the client.
// Descriptions without "hists" (older corpus files): bit k of via_update set = participant k starts from a derived
// other configuration and receives the tested one as an update.
type confDesc struct {
	Kind    string     `json:"kind"` // "conf"
	Nodes   []nodeDesc `json:"nodes"`
	Earlier []confVer  `json:"earlier,omitempty"`
	Hists   [][]int    `json:"hists,omitempty"`
	Stored  []int      `json:"stored,omitempty"`
	Lives   []string   `json:"lives,omitempty"` // generator's name of each participant's kind of life (statistics only)
	Tested  string     `json:"tested_id,omitempty"`
	Client  string     `json:"client"`
	Spaces  []string   `json:"spaces"`
	TableOf int        `json:"table_of"` // index into participants whose partition table is recorded
	Update  uint64     `json:"via_update,omitempty"`
	Note    string     `json:"note,omitempty"`
	Obs     string     `json:"observed,omitempty"`
}

type chashDesc struct {
	Kind    string   `json:"kind"` // "chash"
	P       int      `json:"p"`
	RF      int      `json:"rf"`
	Mult    int      `json:"mult"`
	Range   uint64   `json:"range"` // hash = xxhash64 % range (0 = full 64 bit)
	Members []string `json:"members"`
	Obs     string   `json:"observed,omitempty"`
}

var typeCode = map[string]uint64{
	"tree": 0, "consensus": 1, "file": 2, "fileV2": 3, "coordinator": 4, "namingNode": 5, "paymentProcessingNode": 6,
}

func typeN(t string, unknown map[string]uint64) uint64 {
	if c, ok := typeCode[t]; ok {
		return c
	}
	if c, ok := unknown[t]; ok {
		return c
	}
	c := uint64(7 + len(unknown))
	unknown[t] = c
	return c
}

// rank of every id in byte-wise string order (the order go-chash's Less uses)
func rankIds(ids []string) map[string]uint64 {
	set := map[string]bool{}
	for _, s := range ids {
		set[s] = true
	}
	all := make([]string, 0, len(set))
	for s := range set {
		all = append(all, s)
	}
	sort.Strings(all)
	r := map[string]uint64{}
	for i, s := range all {
		r[s] = uint64(i)
	}
	return r
}

func idList(ids []string, rank map[string]uint64) string {
	v := make([]uint64, len(ids))
	for i, s := range ids {
		v[i] = rank[s]
	}
	return vlib.NList(v)
}

// a 64-bit hash as two primitive ints "hi; lo" (see Run/C18_run.v: hashes)
func hashList(hs []uint64) string {
	var b strings.Builder
	b.WriteByte('[')
	for i, h := range hs {
		if i > 0 {
			b.WriteString("; ")
		}
		fmt.Fprintf(&b, "%d; %d", h>>32, h&0xffffffff)
	}
	b.WriteByte(']')
	return b.String()
}

func byteInts(s string) string {
	v := make([]uint64, len(s))
	for i := 0; i < len(s); i++ {
		v[i] = uint64(s[i])
	}
	return vlib.NList(v)
}

// a member list as one int: base-256 digits (rank+1), most significant first (see Run/C18_run.v: unpack)
func pack(ids []string, rank map[string]uint64) uint64 {
	if len(ids) > 7 {
		panic("c18: member list too long to pack")
	}
	var v uint64
	for _, s := range ids {
		r, ok := rank[s]
		if !ok || r >= 255 {
			panic("c18: id cannot be packed: " + s)
		}
		v = v*256 + r + 1
	}
	return v
}

func memberIds(ms []chash.Member) []string {
	r := make([]string, len(ms))
	for i, m := range ms {
		r[i] = m.Id()
	}
	return r
}

// candidate replication keys of a space id: the whole id and whatever follows each '.'
func candidateKeys(space string) []string {
	res := []string{space}
	for i := 0; i < len(space); i++ {
		if space[i] == '.' {
			res = append(res, space[i+1:])
		}
	}
	return res
}

type runner struct {
	w       *vlib.Writer
	samples []interface{}
}

const testedId = "verif-conf"

func toConfiguration(id string, nodes []nodeDesc) nodeconf.Configuration {
	cfg := nodeconf.Configuration{Id: id, NetworkId: "verif-net"}
	for _, n := range nodes {
		ts := make([]nodeconf.NodeType, len(n.Types))
		for i, t := range n.Types {
			ts[i] = nodeconf.NodeType(t)
		}
		cfg.Nodes = append(cfg.Nodes, nodeconf.Node{PeerId: n.PeerId, Addresses: n.Addrs, Types: ts})
	}
	return cfg
}

// participants of a case (see confDesc)
func participants(d confDesc) []string {
	var parts []string
	seen := map[string]bool{}
	add := func(ns []nodeDesc) {
		for _, n := range ns {
			if !seen[n.PeerId] {
				seen[n.PeerId] = true
				parts = append(parts, n.PeerId)
			}
		}
	}
	add(d.Nodes)
	for _, e := range d.Earlier {
		add(e.Nodes)
	}
	if !seen[d.Client] {
		parts = append(parts, d.Client)
	}
	return parts
}

// normalise fills Earlier/Hists of a description written before histories existed
func normalise(d confDesc) confDesc {
	parts := participants(d)
	if d.Hists == nil {
		old := confVer{Id: "verif-old", How: "legacy: nodes reversed, first node turned into a file node"}
		for i := len(d.Nodes) - 1; i >= 0; i-- {
			old.Nodes = append(old.Nodes, d.Nodes[i])
		}
		if len(old.Nodes) > 0 {
			n := old.Nodes[0]
			n.Types = []string{"file"}
			old.Nodes[0] = n
		}
		d.Earlier = []confVer{old}
		for k := range parts {
			if d.Update>>(uint(k)%60)&1 == 1 {
				d.Hists = append(d.Hists, []int{0, 1})
			} else {
				d.Hists = append(d.Hists, []int{1})
			}
		}
		d.Update = 0
	}
	fin := len(d.Earlier)
	for len(d.Hists) < len(parts) {
		d.Hists = append(d.Hists, []int{fin})
	}
	d.Hists = d.Hists[:len(parts)]
	for k, h := range d.Hists { // malformed replay input: out-of-range indices dropped, a life begins with a start
		var c []int
		for _, i := range h {
			if i >= -fin-1 && i <= fin {
				c = append(c, i)
			}
		}
		if len(c) == 0 {
			c = append(c, fin)
		}
		if c[0] < 0 {
			c[0] = -c[0] - 1
		}
		d.Hists[k] = c
	}
	for len(d.Stored) < len(parts) {
		d.Stored = append(d.Stored, 0)
	}
	d.Stored = d.Stored[:len(parts)]
	for k, st := range d.Stored {
		if st < 0 || st > fin+1 {
			d.Stored[k] = 0
		}
	}
	if len(d.Lives) != len(parts) {
		d.Lives = nil
	}
	if d.Tested == "" {
		d.Tested = testedId
	}
	return d
}

type inst struct {
	self string
	svc  nodeconf.Service
	err  error
}

// a case whose services are being built (each participant in its own goroutine: a history takes one tick of the
// service's updater - 1 s - per update, so the participants of many cases are led through their histories at once)
type prepared struct {
	d     confDesc
	pool  []nodeconf.Configuration
	insts []inst
	wg    sync.WaitGroup
	mu    sync.Mutex
}

func prepare(d confDesc) *prepared {
	d = normalise(d)
	p := &prepared{d: d}
	for _, e := range d.Earlier {
		p.pool = append(p.pool, toConfiguration(e.Id, e.Nodes))
	}
	p.pool = append(p.pool, toConfiguration(d.Tested, d.Nodes))
	parts := participants(d)
	p.insts = make([]inst, len(parts))
	for k, self := range parts {
		p.insts[k].self = self
		evs := make([]lifeEv, len(d.Hists[k]))
		for i, ix := range d.Hists[k] {
			switch {
			case i == 0:
				evs[i] = lifeEv{true, p.pool[ix]}
			case ix < 0:
				evs[i] = lifeEv{true, p.pool[-ix-1]}
			default:
				evs[i] = lifeEv{false, p.pool[ix]}
			}
		}
		var stored *nodeconf.Configuration
		if d.Stored[k] > 0 {
			stored = &p.pool[d.Stored[k]-1]
		}
		p.wg.Add(1)
		go func(in *inst, stored *nodeconf.Configuration, evs []lifeEv) {
			defer p.wg.Done()
			svc, err := nodeconf.Service(nil), error(nil)
			func() {
				defer func() {
					if rec := recover(); rec != nil {
						err = fmt.Errorf("panic: %v", rec)
					}
				}()
				svc, err = runLife(stored, evs, in.self)
			}()
			p.mu.Lock()
			in.svc, in.err = svc, err
			p.mu.Unlock()
		}(&p.insts[k], stored, evs)
	}
	return p
}

// wait for the participants of a case; a life that does not end within the deadline (a start or an update that never
// returns) is reported for that participant instead of blocking the harness
func (p *prepared) wait(deadline time.Duration) {
	done := make(chan struct{})
	go func() { p.wg.Wait(); close(done) }()
	select {
	case <-done:
	case <-time.After(deadline):
	}
	p.mu.Lock()
	defer p.mu.Unlock()
	cp := make([]inst, len(p.insts))
	copy(cp, p.insts)
	for k := range cp {
		if cp[k].svc == nil && cp[k].err == nil {
			cp[k].err = fmt.Errorf("the participant's life (starts/updates) did not finish within %v", deadline)
		}
	}
	p.insts = cp
}

// doConfs runs the cases in batches whose services are built concurrently
func (r *runner) doConfs(ds []confDesc) {
	for len(ds) > 0 {
		n, parts := 0, 0
		for n < len(ds) && n < 24 && (n == 0 || parts < 250) {
			parts += len(participants(ds[n]))
			n++
		}
		ps := make([]*prepared, n)
		for i := 0; i < n; i++ {
			ps[i] = prepare(ds[i])
		}
		for i := 0; i < n; i++ {
			ps[i].wait(300 * time.Second)
			r.emitConf(ps[i])
			ps[i] = nil
		}
		ds = ds[n:]
	}
}

func hasTree(ts []string) bool {
	for _, t := range ts {
		if t == "tree" {
			return true
		}
	}
	return false
}

func treeSet(ns []nodeDesc) map[string]bool {
	m := map[string]bool{}
	for _, n := range ns {
		if hasTree(n.Types) {
			m[n.PeerId] = true
		}
	}
	return m
}

func (r *runner) emitConf(p *prepared) {
	w := r.w
	d := p.d
	cfg := p.pool[len(p.pool)-1]
	fin := len(p.pool) - 1
	var allIds []string
	for _, c := range p.pool {
		for _, n := range c.Nodes {
			allIds = append(allIds, n.PeerId)
		}
	}
	allIds = append(allIds, d.Client)
	rank := rankIds(allIds)

	insts := p.insts
	caseIdx := w.Count()
	for k, in := range insts {
		if in.err == nil && in.svc.Id() != d.Tested {
			in.err = fmt.Errorf("after its life %v (stored before: %d) the participant's active configuration is %q, not the tested one (%q)", d.Hists[k], d.Stored[k], in.svc.Id(), d.Tested)
		}
		if in.err != nil {
			w.Violation(caseIdx, "C18-init-failed", fmt.Sprintf("nodeconf service of participant %q: Init/Run failed, panicked or did not apply its configuration history: %v", in.self, in.err), d)
			w.Stat("conf_init_failed")
			// still emit a (trivially empty) case so that the index exists
			w.Add("(CChash [] 0 [] [] [])%uint63", d, "", false)
			return
		}
		h := d.Hists[k]
		if d.Lives != nil {
			w.Stat("life_" + d.Lives[k])
		}
		nRestart := 0
		for i, x := range h {
			if i > 0 && x < 0 {
				nRestart++
			}
		}
		if d.Stored[k] > 0 {
			w.Stat("participant_first_start_finds_stored_configuration")
		}
		if nRestart > 0 {
			w.Stat("participant_restarted_during_life")
		}
		if d.Stored[k] > 0 || nRestart > 0 {
			if treeSet(d.Nodes)[in.self] {
				w.Stat("sync_node_participant_started_with_populated_store")
			}
			continue
		}
		if len(h) == 1 {
			w.Stat("participant_fresh_on_tested_configuration")
		} else {
			w.Stat("participant_via_update_path")
			w.Stat(fmt.Sprintf("participant_history_len_%d", len(h)))
			prev := -1 // the configuration that was active when the tested one was (last) applied
			for i := len(h) - 1; i >= 0; i-- {
				if h[i] != fin {
					prev = h[i]
					break
				}
			}
			if prev >= 0 {
				a, b := treeSet(d.Earlier[prev].Nodes), treeSet(d.Nodes)
				same := len(a) == len(b)
				for id := range b {
					same = same && a[id]
				}
				switch {
				case same:
					w.Stat("last_effective_update_keeps_sync_node_set")
				case len(a) == len(b):
					w.Stat("last_effective_update_changes_sync_node_set_same_size")
				default:
					w.Stat("last_effective_update_changes_sync_node_set_size")
				}
			}
			for i := 1; i < len(h); i++ {
				if h[i] == h[i-1] {
					w.Stat("history_with_identical_redelivery")
					break
				}
			}
			for i := 0; i+1 < len(h); i++ {
				if h[i] == fin && h[i+1] != fin {
					w.Stat("history_leaves_and_returns_to_tested_configuration")
					break
				}
			}
		}
	}

	// hash tables for the model
	treeSeen := map[string]bool{}
	var rows []string
	nTree := 0
	for _, n := range cfg.Nodes {
		if n.HasType(nodeconf.NodeTypeTree) && !treeSeen[n.PeerId] {
			treeSeen[n.PeerId] = true
			nTree++
			hs := make([]uint64, 2000)
			for i := range hs {
				hs[i] = xxhash.Sum64([]byte(fmt.Sprint(n.PeerId, i)))
			}
			rows = append(rows, vlib.Pair(vlib.N(rank[n.PeerId]), hashList(hs)))
		}
	}
	pcount := insts[0].svc.CHash().PartitionCount()
	ph := make([]uint64, pcount)
	for i := range ph {
		ph[i] = xxhash.Sum64([]byte(fmt.Sprint("p", i)))
	}
	keySeen := map[string]bool{}
	var keys []string
	for _, s := range d.Spaces {
		for _, k := range candidateKeys(s) {
			if !keySeen[k] {
				keySeen[k] = true
				kh := xxhash.Sum64([]byte(k))
				keys = append(keys, fmt.Sprintf("(%s, %d, %d)", byteInts(k), kh>>32, kh&0xffffffff))
			}
		}
	}

	// configuration term
	unknown := map[string]uint64{}
	addrRank := map[string]uint64{}
	nodesTerm := func(ns []nodeDesc) string {
		var nodes []string
		for _, n := range ns {
			var as, ts []uint64
			for _, a := range n.Addrs {
				if _, ok := addrRank[a]; !ok {
					addrRank[a] = uint64(len(addrRank))
				}
				as = append(as, addrRank[a])
			}
			for _, t := range n.Types {
				ts = append(ts, typeN(t, unknown))
			}
			nodes = append(nodes, fmt.Sprintf("(%d, %s, %s)", rank[n.PeerId], vlib.NList(as), vlib.NList(ts)))
		}
		return vlib.List(nodes)
	}
	// the pool: configuration ids are numbered 1.. by first occurrence of the id string
	confNum := map[string]uint64{"-1": 0} // Run/C18_run.v: MERGED_ID
	var confs []string
	for i, c := range p.pool {
		if _, ok := confNum[c.Id]; !ok {
			confNum[c.Id] = uint64(len(confNum))
		}
		ns := d.Nodes
		if i < fin {
			ns = d.Earlier[i].Nodes
		}
		confs = append(confs, fmt.Sprintf("(%d, %s)", confNum[c.Id], nodesTerm(ns)))
	}
	var hists, actives []string
	for k, in := range insts {
		hv := make([]uint64, len(d.Hists[k]))
		for i, ix := range d.Hists[k] {
			switch {
			case i == 0:
				hv[i] = uint64(2*ix + 1)
			case ix < 0:
				hv[i] = uint64(2*(-ix-1) + 1)
			default:
				hv[i] = uint64(2 * ix)
			}
		}
		hists = append(hists, fmt.Sprintf("(%d, %d, %s)", rank[in.self], d.Stored[k], vlib.NList(hv)))
		// what the service says it holds
		var tids []string
		for _, n := range in.svc.Configuration().Nodes {
			if n.HasType(nodeconf.NodeTypeTree) {
				if _, ok := rank[n.PeerId]; !ok {
					w.Violation(caseIdx, "C18-unknown-id", fmt.Sprintf("participant %q: Configuration() lists a sync node that is in none of the configurations it was given: %s", in.self, n.PeerId), d)
					w.Add("(CChash [] 0 [] [] [])%uint63", d, "", false)
					return
				}
				tids = append(tids, n.PeerId)
			}
		}
		actives = append(actives, vlib.Pair(vlib.N(confNum[in.svc.Id()]), idList(tids, rank)))
	}

	// observed partition tables: recorded from one participant, all others must be identical to it
	tableOf := d.TableOf % len(insts)
	readTable := func(svc nodeconf.Service) [][]string {
		t := make([][]string, pcount)
		for i := 0; i < pcount; i++ {
			ms, err := svc.CHash().GetPartitionMembers(i)
			if err != nil {
				w.Violation(caseIdx, "C18-partition-error", fmt.Sprintf("GetPartitionMembers(%d): %v", i, err), d)
			}
			t[i] = memberIds(ms)
		}
		return t
	}
	tbl := readTable(insts[tableOf].svc)
	for k, in := range insts {
		if k == tableOf {
			continue
		}
		o := readTable(in.svc)
		for i := range o {
			if strings.Join(o[i], "\x00") != strings.Join(tbl[i], "\x00") {
				w.Violation(caseIdx, "C18-table-disagreement",
					fmt.Sprintf("participants %q (history %v) and %q (history %v) hold the same configuration but different members for partition %d: %v vs %v",
						insts[tableOf].self, d.Hists[tableOf], in.self, d.Hists[k], i, tbl[i], o[i]), d)
				break
			}
		}
	}
	rowsT := make([]uint64, pcount)
	for i := range tbl {
		for _, id := range tbl[i] {
			if _, ok := rank[id]; !ok {
				w.Violation(caseIdx, "C18-unknown-id", "GetPartitionMembers returned an id that is not in the configuration: "+id, d)
				w.Add("(CChash [] 0 [] [] [])%uint63", d, "", false)
				return
			}
		}
		rowsT[i] = pack(tbl[i], rank)
	}
	spaceIdx := map[string]int{}
	var spaces []string
	for _, s := range d.Spaces {
		if _, ok := spaceIdx[s]; !ok {
			spaceIdx[s] = len(spaces)
			spaces = append(spaces, vlib.Pair(byteInts(s), byteInts(nodeconf.ReplKey(s))))
		}
	}

	// observed answers
	var obs []uint64
	respCount := 0
	for _, in := range insts {
		for _, s := range d.Spaces {
			ids := in.svc.NodeIds(s)
			resp := in.svc.IsResponsible(s)
			if resp {
				respCount++
			}
			// ids outside the configuration cannot be ranked: that is a violation by itself
			for _, id := range ids {
				if _, ok := rank[id]; !ok {
					w.Violation(caseIdx, "C18-unknown-id", "NodeIds returned an id that is not in the configuration: "+id, d)
					w.Add("(CChash [] 0 [] [] [])%uint63", d, "", false)
					return
				}
			}
			if len(ids) > 7 {
				w.Violation(caseIdx, "C18-too-many", fmt.Sprintf("NodeIds returned %d ids (replication factor is 3)", len(ids)), d)
				w.Add("(CChash [] 0 [] [] [])%uint63", d, "", false)
				return
			}
			rb := uint64(0)
			if resp {
				rb = 1
			}
			obs = append(obs, rank[in.self], uint64(spaceIdx[s]), uint64(in.svc.Partition(s)), pack(ids, rank), rb)
		}
	}
	d.Obs = fmt.Sprintf("%d participants (histories of %d configurations) x %d space ids, %d 'responsible' answers, partition 0 = %v", len(insts), len(p.pool), len(d.Spaces), respCount, tbl[0])
	term := vlib.App("CConf", hashList(ph), vlib.List(rows), vlib.List(keys), vlib.List(confs), fmt.Sprint(fin), vlib.List(hists), vlib.List(actives), vlib.NList(rowsT), vlib.List(spaces), vlib.NList(obs)) + "%uint63"
	b, _ := json.Marshal(d)
	nt := nTree >= 2 && len(insts) >= 2 && len(d.Spaces) >= 2
	w.Add(term, d, string(b), nt)
	w.Stat(fmt.Sprintf("conf_tree_nodes_%02d", nTree))
	w.Stat(fmt.Sprintf("conf_nodes_%02d", len(d.Nodes)))
	if len(d.Nodes) > nTree {
		w.Stat("conf_with_non_tree_nodes")
	}
	nTreeEntries := 0
	for _, n := range cfg.Nodes {
		if n.HasType(nodeconf.NodeTypeTree) {
			nTreeEntries++
		}
	}
	if nTreeEntries > nTree {
		w.Stat("conf_with_duplicate_tree_node")
	}
	if len(r.samples) < 3 && nTree >= 3 {
		r.samples = append(r.samples, d)
	}
}

// ---------------------------------------------------------------- go-chash driven directly

type modHasher struct{ r uint64 }

func (h modHasher) Sum64(b []byte) uint64 {
	v := xxhash.Sum64(b)
	if h.r == 0 {
		return v
	}
	return v % h.r
}

type plainMember string

func (m plainMember) Id() string        { return string(m) }
func (m plainMember) Capacity() float64 { return 1 }

func (r *runner) doChash(d chashDesc) {
	w := r.w
	caseIdx := w.Count()
	h := modHasher{d.Range}
	c, err := chash.New(chash.Config{Hasher: h, PartitionCount: uint64(d.P), ReplicationFactor: d.RF, MultiplyFactor: d.Mult})
	if err != nil {
		w.Stat("chash_config_rejected")
		return
	}
	ms := make([]chash.Member, len(d.Members))
	for i, m := range d.Members {
		ms[i] = plainMember(m)
	}
	done := make(chan error, 1)
	go func() {
		defer func() {
			if rec := recover(); rec != nil {
				done <- fmt.Errorf("panic: %v", rec)
			}
		}()
		done <- c.AddMembers(ms...)
	}()
	select {
	case err = <-done:
	case <-time.After(20 * time.Second):
		w.Violation(caseIdx, "C18-chash-hang", "chash.AddMembers did not return within 20 s", d)
		w.Add("(CChash [] 0 [] [] [])%uint63", d, "", false)
		return
	}
	if err != nil {
		w.Violation(caseIdx, "C18-chash-error", "chash.AddMembers failed: "+err.Error(), d)
		w.Add("(CChash [] 0 [] [] [])%uint63", d, "", false)
		return
	}
	rank := rankIds(d.Members)
	seen := map[string]bool{}
	var rows []string
	for _, m := range d.Members {
		if seen[m] {
			continue
		}
		seen[m] = true
		hs := make([]uint64, d.Mult)
		for i := range hs {
			hs[i] = h.Sum64([]byte(fmt.Sprint(m, i)))
		}
		rows = append(rows, vlib.Pair(vlib.N(rank[m]), hashList(hs)))
	}
	ph := make([]uint64, d.P)
	for i := range ph {
		ph[i] = h.Sum64([]byte(fmt.Sprint("p", i)))
	}
	tbl := make([]uint64, d.P)
	var first []string
	for i := 0; i < d.P; i++ {
		pm, _ := c.GetPartitionMembers(i)
		if i == 0 {
			first = memberIds(pm)
		}
		if len(pm) > 7 {
			w.Violation(caseIdx, "C18-too-many", fmt.Sprintf("partition %d has %d members (rf %d)", i, len(pm), d.RF), d)
			w.Add("(CChash [] 0 [] [] [])%uint63", d, "", false)
			return
		}
		tbl[i] = pack(memberIds(pm), rank)
	}
	d.Obs = fmt.Sprintf("partition 0 = %v", first)
	term := vlib.App("CChash", hashList(ph), fmt.Sprint(d.RF), vlib.List(rows), idList(d.Members, rank), vlib.NList(tbl)) + "%uint63"
	b, _ := json.Marshal(d)
	w.Add(term, d, string(b), len(seen) >= 2)
	w.Stat(fmt.Sprintf("chash_members_%02d", len(seen)))
	if len(seen) != len(d.Members) {
		w.Stat("chash_with_duplicate_members")
	}
	if d.Range != 0 {
		w.Stat("chash_small_hash_range")
	}
	if len(r.samples) < 5 && len(seen) >= 3 && d.Range != 0 {
		r.samples = append(r.samples, d)
	}
}

// ---------------------------------------------------------------- generators

const b58 = "123456789ABCDEFGHJKLMNPQRSTUVWXYZabcdefghijkmnopqrstuvwxyz"

func randStr(r *vlib.Rand, alphabet string, n int) string {
	b := make([]byte, n)
	for i := range b {
		b[i] = alphabet[r.Intn(len(alphabet))]
	}
	return string(b)
}

func genPeerId(r *vlib.Rand, style int, k int) string {
	switch style {
	case 0: // realistic
		return "12D3KooW" + randStr(r, b58, 44)
	case 1: // short ids whose Sprint(id, i) strings collide across members: "n", "n1", "n10", ...
		base := []string{"n", "n1", "n10", "n2", "n19", "n199", "n0", "n00", "m", "m1", "n11", "n100", "n3"}[k%13]
		if k >= 13 {
			return base + strings.Repeat("0", k/13)
		}
		return base
	default:
		return randStr(r, "abAB.-_ 0123456789", 1+r.Intn(6)) + fmt.Sprint(k)
	}
}

var otherTypes = []string{"consensus", "file", "fileV2", "coordinator", "namingNode", "paymentProcessingNode", "Tree", "tree ", "", "unknownType"}

func genConf(r *vlib.Rand, nTree, nOther int, dup bool) confDesc {
	style := r.Intn(3)
	if r.Chance(1, 2) {
		style = 0
	}
	var nodes []nodeDesc
	used := map[string]bool{}
	newId := func() string {
		for k := len(used); ; k++ {
			id := genPeerId(r, style, k)
			if !used[id] {
				used[id] = true
				return id
			}
		}
	}
	addrs := func() []string {
		n := r.Intn(3)
		a := make([]string, n)
		for i := range a {
			a[i] = fmt.Sprintf("10.0.%d.%d:%d", r.Intn(4), r.Intn(250), 4000+r.Intn(100))
		}
		return a
	}
	for i := 0; i < nTree; i++ {
		ts := []string{"tree"}
		for r.Chance(1, 3) {
			ts = append(ts, otherTypes[r.Intn(len(otherTypes))])
		}
		if r.Chance(1, 6) {
			ts = append(ts, "tree")
		}
		p := r.Perm(len(ts))
		sh := make([]string, len(ts))
		for j, k := range p {
			sh[j] = ts[k]
		}
		nodes = append(nodes, nodeDesc{PeerId: newId(), Addrs: addrs(), Types: sh})
	}
	for i := 0; i < nOther; i++ {
		var ts []string
		for k := r.Intn(3); k > 0; k-- {
			ts = append(ts, otherTypes[r.Intn(len(otherTypes))])
		}
		if r.Bool() {
			ts = append(ts, otherTypes[r.Intn(3)]) // consensus / file / fileV2
		}
		nodes = append(nodes, nodeDesc{PeerId: newId(), Addrs: addrs(), Types: ts})
	}
	if dup && nTree > 0 { // the same sync node listed twice (other addresses, maybe other types)
		n := nodes[r.Intn(nTree)]
		n2 := nodeDesc{PeerId: n.PeerId, Addrs: addrs(), Types: []string{"tree"}}
		if r.Bool() {
			n2.Types = append(n2.Types, "file")
		}
		nodes = append(nodes, n2)
	}
	p := r.Perm(len(nodes))
	sh := make([]nodeDesc, len(nodes))
	for j, k := range p {
		sh[j] = nodes[k]
	}
	d := confDesc{Kind: "conf", Nodes: sh, Client: newId(), TableOf: r.Intn(64), Update: r.U64() & r.U64()}
	if dup {
		d.Note = "a tree node is listed twice"
	}
	d.Spaces = genSpaces(r)
	return d
}

// ---------------------------------------------------------------- configuration histories

func cloneNodes(ns []nodeDesc) []nodeDesc {
	c := make([]nodeDesc, len(ns))
	for i, n := range ns {
		c[i] = nodeDesc{PeerId: n.PeerId, Addrs: append([]string{}, n.Addrs...), Types: append([]string{}, n.Types...)}
	}
	return c
}

func withoutTree(ts []string) []string {
	var res []string
	for _, t := range ts {
		if t != "tree" {
			res = append(res, t)
		}
	}
	return res
}

// mutateConf derives a neighbouring configuration: what an operator does between two published configurations.
// Returns the new node list and the name of the step.
func mutateConf(r *vlib.Rand, ns []nodeDesc, newId func() string, preferSwap bool) ([]nodeDesc, string) {
	ns = cloneNodes(ns)
	var trees, others []int
	for i, n := range ns {
		if hasTree(n.Types) {
			trees = append(trees, i)
		} else {
			others = append(others, i)
		}
	}
	addr := func() []string {
		a := make([]string, r.Intn(3))
		for i := range a {
			a[i] = fmt.Sprintf("172.16.%d.%d:%d", r.Intn(4), r.Intn(250), 4000+r.Intn(100))
		}
		return a
	}
	remove := func(i int) { ns = append(ns[:i], ns[i+1:]...) }
	demote := func(i int) string { // the node stops being a sync node: other role(s), no role, or gone
		switch r.Intn(4) {
		case 0:
			ns[i].Types = append(withoutTree(ns[i].Types), "file")
			return "file"
		case 1:
			ns[i].Types = withoutTree(ns[i].Types)
			return "rest"
		case 2:
			ns[i].Types = []string{otherTypes[r.Intn(6)]}
			return "other"
		default:
			remove(i)
			return "gone"
		}
	}
	promote := func(i int) {
		if r.Bool() {
			ns[i].Types = append(ns[i].Types, "tree")
		} else {
			ns[i].Types = []string{"tree"}
		}
	}
	how := ""
	op0 := r.Intn(16)
	if preferSwap {
		op0 = 0
	}
	switch op := op0; {
	case op < 6 && len(trees) > 0 && len(others) > 0: // role swap: a known non-sync peer takes over from a sync node
		t, o := trees[r.Intn(len(trees))], others[r.Intn(len(others))]
		promote(o)
		how = "role-swap(demoted->" + demote(t) + ")"
	case op < 7 && len(trees) > 0: // a sync node is replaced by a brand-new one
		t := trees[r.Intn(len(trees))]
		ns[t] = nodeDesc{PeerId: newId(), Addrs: addr(), Types: []string{"tree"}}
		how = "replace-sync-node"
	case op < 8 || (op < 9 && len(trees) == 0):
		ns = append(ns, nodeDesc{PeerId: newId(), Addrs: addr(), Types: []string{"tree"}})
		how = "add-sync-node"
	case op < 9:
		how = "remove-sync-node(" + demote(trees[r.Intn(len(trees))]) + ")"
	case op < 10 && len(others) > 0:
		promote(others[r.Intn(len(others))])
		how = "promote"
	case op < 11:
		if len(others) > 0 && r.Bool() {
			remove(others[r.Intn(len(others))])
			how = "remove-other-node"
		} else {
			ns = append(ns, nodeDesc{PeerId: newId(), Addrs: addr(), Types: []string{otherTypes[r.Intn(6)]}})
			how = "add-other-node"
		}
	case op < 13 && len(ns) > 0:
		for k := 1 + r.Intn(len(ns)); k > 0; k-- {
			ns[r.Intn(len(ns))].Addrs = addr()
		}
		how = "addresses-only"
	case op < 14 && len(ns) > 0:
		i := r.Intn(len(ns))
		if r.Bool() {
			ns[i].Types = append(ns[i].Types, otherTypes[r.Intn(6)])
		} else if hasTree(ns[i].Types) {
			ns[i].Types = []string{"tree"}
		} else {
			ns[i].Types = []string{otherTypes[r.Intn(6)]}
		}
		how = "other-types-only"
	default:
		how = "reorder"
	}
	if how == "reorder" || r.Chance(1, 3) {
		p := r.Perm(len(ns))
		sh := make([]nodeDesc, len(ns))
		for j, k := range p {
			sh[j] = ns[k]
		}
		ns = sh
		if how != "reorder" {
			how += "+reorder"
		}
	}
	return ns, how
}

func hasType(ts []string, t string) bool {
	for _, x := range ts {
		if x == t {
			return true
		}
	}
	return false
}

// the coordinator entries mergeCoordinatorAddrs sees in a node list: per peer id the LAST node typed "coordinator"
func coordEntries(ns []nodeDesc) map[string]int {
	m := map[string]int{}
	for i, n := range ns {
		if hasType(n.Types, "coordinator") {
			m[n.PeerId] = i
		}
	}
	return m
}

func shuffledNodes(r *vlib.Rand, ns []nodeDesc) []nodeDesc {
	p := r.Perm(len(ns))
	sh := make([]nodeDesc, len(ns))
	for j, k := range p {
		sh[j] = ns[k]
	}
	return sh
}

// a random sub-list of [as] in random order
func someAddrs(r *vlib.Rand, as []string) []string {
	var res []string
	for _, k := range r.Perm(len(as)) {
		if r.Chance(2, 3) {
			res = append(res, as[k])
		}
	}
	return res
}

// the part of an app configuration (the one bundled with a binary) that mergeCoordinatorAddrs ignores: nodes without
// the coordinator type - some nodes of [like] (types kept, minus "coordinator"), some brand-new ones
func bundleOthers(r *vlib.Rand, like []nodeDesc, newId func() string) []nodeDesc {
	var res []nodeDesc
	for _, n := range cloneNodes(like) {
		if hasType(n.Types, "coordinator") || r.Chance(1, 3) {
			continue
		}
		if r.Chance(1, 4) {
			n.Addrs = nil
		}
		res = append(res, n)
	}
	for k := r.Intn(3); k > 0; k-- {
		res = append(res, nodeDesc{PeerId: newId(), Types: []string{[]string{"tree", "file", "consensus"}[r.Intn(3)]}})
	}
	return res
}

// bundleFor: an app configuration whose coordinator nodes and coordinator addresses are all known to [x]
// (mergeCoordinatorAddrs(bundle, x) adds nothing), everything else is unrelated to x
func bundleFor(r *vlib.Rand, x []nodeDesc, newId func() string) []nodeDesc {
	res := bundleOthers(r, x, newId)
	for _, i := range sortedVals(coordEntries(x)) {
		if r.Chance(2, 3) {
			ts := []string{"coordinator"}
			if r.Chance(1, 3) {
				ts = append([]string{}, x[i].Types...)
			}
			res = append(res, nodeDesc{PeerId: x[i].PeerId, Addrs: someAddrs(r, x[i].Addrs), Types: ts})
		}
	}
	return shuffledNodes(r, res)
}

func sortedVals(m map[string]int) []int {
	var v []int
	for _, i := range m {
		v = append(v, i)
	}
	sort.Ints(v)
	return v
}

// mergedTriple: [stored] is what a participant's store holds; returns an app configuration [bundle] that knows a
// coordinator address and/or a coordinator node the stored configuration lacks, and [merged] = the configuration
// mergeCoordinatorAddrs(bundle, stored) has to produce (new addresses are fresh strings appended to the stored
// node's, new nodes are appended - the Gallina model computes the merge itself and compares)
func mergedTriple(r *vlib.Rand, stored []nodeDesc, newId func() string) (st, bundle, merged []nodeDesc, how string) {
	st = cloneNodes(stored)
	if len(coordEntries(st)) == 0 && len(st) > 0 && r.Chance(2, 3) {
		i := r.Intn(len(st))
		st[i].Types = append(st[i].Types, "coordinator")
	}
	merged = cloneNodes(st)
	ce := sortedVals(coordEntries(st))
	addrMode := len(ce) > 0 && r.Chance(2, 3)
	nodeMode := !addrMode || r.Chance(1, 2)
	fresh := 0
	freshAddr := func() string {
		fresh++
		return fmt.Sprintf("coord%d-%d.example.com:%d", fresh, r.Intn(1000), 4830+r.Intn(10))
	}
	bundle = bundleOthers(r, st, newId)
	for _, i := range ce {
		known := someAddrs(r, st[i].Addrs)
		ts := []string{"coordinator"}
		if r.Chance(1, 3) {
			ts = append([]string{}, st[i].Types...)
		}
		if addrMode && (i == ce[0] || r.Chance(1, 3)) {
			// the bundled configuration knows 1-2 addresses of this coordinator that the stored one lacks
			as := known
			for k, n := 0, 1+r.Intn(2); k < n; k++ {
				f := freshAddr()
				merged[i].Addrs = append(merged[i].Addrs, f)
				at := len(as) // new addresses keep their relative order; known ones may sit anywhere before/after
				if k == 0 {
					at = r.Intn(len(as) + 1)
				}
				as = append(as[:at:at], append([]string{f}, as[at:]...)...)
			}
			bundle = append(bundle, nodeDesc{PeerId: st[i].PeerId, Addrs: as, Types: ts})
			how += "+address"
		} else if r.Chance(1, 2) {
			bundle = append(bundle, nodeDesc{PeerId: st[i].PeerId, Addrs: known, Types: ts})
		}
	}
	if nodeMode || how == "" {
		for k := 1 + r.Intn(2); k > 0; k-- {
			// a coordinator node the stored configuration does not have (as a coordinator)
			n := nodeDesc{PeerId: newId(), Types: []string{"coordinator"}}
			how += "+node"
			if r.Chance(1, 6) && k > 1 {
				var cand []int
				for i, x := range st {
					if _, isCoord := coordEntries(st)[x.PeerId]; !isCoord {
						cand = append(cand, i)
					}
				}
				if len(cand) > 0 {
					n.PeerId = st[cand[r.Intn(len(cand))]].PeerId
					how += "(known-in-another-role)"
				}
			}
			if _, dup := coordEntries(bundle)[n.PeerId]; dup {
				continue
			}
			if r.Chance(1, 3) {
				n.Types = append(n.Types, "tree")
				how += "(also-sync-node)"
			}
			if r.Chance(1, 3) {
				n.Types = append(n.Types, otherTypes[r.Intn(3)])
			}
			for a := r.Intn(3); a > 0; a-- {
				n.Addrs = append(n.Addrs, freshAddr())
			}
			bundle = append(bundle, n)
			merged = append(merged, nodeDesc{PeerId: n.PeerId, Addrs: append([]string{}, n.Addrs...), Types: append([]string{}, n.Types...)})
		}
	}
	// shuffling the bundle would permute the appended nodes only (map iteration order in the real code anyway)
	return st, shuffledNodes(r, bundle), merged, strings.TrimPrefix(how, "+")
}

// withHistories turns a single-configuration case into a case with participant LIVES: a chain of 1..3 earlier
// configurations (derived backwards from the tested one, step by step), app configurations bundled with a binary and a
// configuration found in the store, and, per participant, a life of starts / updates / restarts which ends on the tested
// configuration: fresh start, the whole chain, sub-sequences (jumps), identical re-deliveries, leaving the tested
// configuration and coming back, and RESTARTS with a populated store (see the life names below).
// merge = true: the tested configuration is the one a restart produces by merging coordinator addresses / nodes of the
// app configuration into the stored one (id "-1"); d.Nodes is taken as the STORED configuration.
func withHistories(r *vlib.Rand, d confDesc, merge bool) confDesc {
	used := map[string]bool{d.Client: true}
	realistic := false
	for _, n := range d.Nodes {
		used[n.PeerId] = true
		realistic = realistic || strings.HasPrefix(n.PeerId, "12D3KooW")
	}
	newId := func() string {
		for {
			id := "h" + randStr(r, "0123456789abcdefghij", 1+r.Intn(3))
			if realistic {
				id = "12D3KooW" + randStr(r, b58, 44)
			}
			if !used[id] {
				used[id] = true
				return id
			}
		}
	}
	var extras []confVer
	if merge {
		st, bundle, merged, how := mergedTriple(r, d.Nodes, newId)
		d.Nodes = merged
		d.Tested = "-1"
		d.Note = strings.TrimSpace(d.Note + " restart-merge: " + how)
		extras = []confVer{{Id: "verif-stored", Nodes: st, How: "found in the store at a restart"},
			{Id: "verif-app", Nodes: bundle, How: "app configuration that knows a coordinator address/node the stored one lacks: " + how}}
	} else {
		d.Tested = testedId
		wild := bundleOthers(r, d.Nodes, newId)
		wild = append(wild, nodeDesc{PeerId: newId(), Addrs: []string{"coordx.example.com:4830"}, Types: []string{"coordinator"}})
		if r.Chance(1, 3) {
			wild[len(wild)-1].Types = append(wild[len(wild)-1].Types, "tree")
		}
		extras = []confVer{{Id: "verif-app", Nodes: bundleFor(r, d.Nodes, newId), How: "app configuration whose coordinators are all known to the tested one"},
			{Id: "verif-app-x", Nodes: shuffledNodes(r, wild), How: "app configuration with a coordinator nobody else knows"}}
	}
	k := 1 + r.Intn(3)
	chain := make([]confVer, k) // chain[k-1] is the direct predecessor of the tested configuration
	cur := d.Nodes
	for i := k - 1; i >= 0; i-- {
		// the step that leads to the tested configuration is a role swap in half of the cases (when one is possible)
		ns, how := mutateConf(r, cur, newId, i == k-1 && r.Bool())
		chain[i] = confVer{Id: fmt.Sprintf("verif-h%d", i), Nodes: ns, How: how}
		cur = ns
	}
	d.Earlier = append(chain, extras...)
	x0, x1 := k, k+1 // the extras
	fin := k + 2
	d.Update = 0
	parts := participants(d)
	fresh, full := r.Intn(len(parts)), r.Intn(len(parts))
	// the sync nodes of the tested configuration come first in [parts] order only by chance: pick two of them
	var syncParts []int
	ts := treeSet(d.Nodes)
	for j, p := range parts {
		if ts[p] && j != fresh {
			syncParts = append(syncParts, j)
		}
	}
	forced := map[int]bool{}
	for _, q := range r.Perm(len(syncParts)) {
		if len(forced) < 2 {
			forced[syncParts[q]] = true
		}
	}
	d.Hists = make([][]int, len(parts))
	d.Stored = make([]int, len(parts))
	d.Lives = make([]string, len(parts))
	for j := range parts {
		var h []int
		life := ""
		switch {
		case j == fresh || r.Chance(1, 6):
			h, life = []int{fin}, "fresh_start"
		case j == full || r.Chance(1, 4):
			for i := 0; i < k; i++ {
				h = append(h, i)
			}
			h, life = append(h, fin), "whole_chain"
		default:
			for i := 0; i < k; i++ {
				if r.Bool() {
					h = append(h, i)
				}
			}
			if (len(h) == 0 || h[len(h)-1] != k-1) && (len(h) == 0 || r.Chance(1, 2)) {
				h = append(h, k-1) // the direct predecessor is often the last step before the tested configuration
			}
			h, life = append(h, fin), "updates"
			if len(h) <= 3 && r.Chance(1, 4) { // identical re-delivery of one of them
				i := r.Intn(len(h))
				h = append(h[:i+1], h[i:]...)
			} else if len(h) <= 2 && r.Chance(1, 3) { // started on (or reached) the tested one, left it, came back
				h = append([]int{fin}, h...)
			}
		}
		st := 0
		if merge {
			// x0 = the stored configuration S, x1 = the app configuration A with merge(A, S) = tested (id "-1")
			c := r.Intn(k)
			switch op := r.Intn(12); {
			case forced[j] || op < 3:
				st, h, life = x0+1, []int{x1}, "restart_merges_coordinators"
			case op < 4:
				st, h, life = x0+1, []int{x1, -(x1 + 1)}, "restart_merges_then_restart_again"
			case op < 6: // the store is filled by a delivered update of an earlier run of the process
				h, life = []int{c, x0, -(x1 + 1)}, "update_stored_then_restart_merges"
			case op < 7:
				st, h, life = x0+1, []int{x1, c, fin}, "restart_merges_then_updates"
			case op < 8:
				h, life = []int{c, fin, -(x1 + 1)}, "tested_stored_then_restart"
			case op < 9: // stored == app: nothing to merge, then the merged configuration arrives as an update
				st, h, life = x0+1, []int{x0, fin}, "restart_nothing_to_merge_then_update"
			}
		} else {
			// x0 = app configuration compatible with the tested one, x1 = one with an unknown coordinator
			wildOr := func() int {
				if r.Bool() {
					return x1
				}
				return x0
			}
			switch op := r.Intn(12); {
			case forced[j] && op < 6 || op < 2:
				st, h, life = fin+1, []int{x0}, "restart_on_stored_tested"
			case op < 3:
				st, h, life = fin+1, []int{x0, -(x0 + 1)}, "restart_twice_on_stored_tested"
			case op < 5 && len(h) >= 2: // the tested configuration was delivered (and saved), then the process restarts
				h, life = append(h, -(x0+1)), life+"_then_restart"
			case op < 7: // the first start finds an older configuration in the store (and maybe merges into it)
				if len(h) < 2 {
					h = []int{wildOr(), fin}
				} else if r.Bool() {
					h[0] = wildOr()
				}
				st, life = r.Intn(k)+1, "stored_earlier_"+life
			case op < 9 && len(h) >= 2: // restarted in the middle of its history, any app configuration
				at := 1 + r.Intn(len(h)-1)
				h = append(h[:at], append([]int{-(wildOr() + 1)}, h[at:]...)...)
				life = life + "_restart_in_between"
			}
		}
		d.Hists[j], d.Stored[j], d.Lives[j] = h, st, life
	}
	return d
}

func genSpaces(r *vlib.Rand) []string {
	cid := func() string { return "bafyrei" + randStr(r, "abcdefghijklmnopqrstuvwxyz234567", 20+r.Intn(30)) }
	suf := func() string { return randStr(r, "0123456789abcdefghijklmnopqrstuvwxyz", 1+r.Intn(14)) }
	s1, s2 := suf(), suf()
	sp := []string{
		cid(),                   // no suffix: the whole id is the key
		cid() + "." + s1,        // usual form
		cid() + "." + s1,        // another id with the same replication key
		"x." + cid() + "." + s1, // several dots, same key again
		s1,                      // the bare key
		cid() + "." + s2,
		cid() + ".", // empty key
		"",          // empty id
		"." + s2,    // leading dot
		cid() + ".." + s2 + "." + s1 + "." + suf(),
	}
	for i := r.Intn(3); i > 0; i-- {
		sp = append(sp, cid()+"."+suf())
	}
	return sp
}

// a variant of a configuration that must yield the same answers: shuffled, other addresses, extra non-tree nodes
func variantOf(r *vlib.Rand, d confDesc) confDesc {
	v := confDesc{Kind: "conf", Client: d.Client, Spaces: d.Spaces, TableOf: r.Intn(64), Update: r.U64(), Note: "variant (same tree-node set) of the previous configuration"}
	p := r.Perm(len(d.Nodes))
	for _, k := range p {
		n := d.Nodes[k]
		n2 := nodeDesc{PeerId: n.PeerId, Types: append([]string{}, n.Types...)}
		for i := r.Intn(3); i > 0; i-- {
			n2.Addrs = append(n2.Addrs, fmt.Sprintf("192.168.%d.%d:%d", r.Intn(4), r.Intn(250), 4000+r.Intn(100)))
		}
		hasTree := false
		for _, t := range n2.Types {
			hasTree = hasTree || t == "tree"
		}
		if hasTree && r.Bool() {
			n2.Types = append(n2.Types, otherTypes[r.Intn(6)])
		}
		v.Nodes = append(v.Nodes, n2)
	}
	for i := r.Intn(3); i > 0; i-- {
		v.Nodes = append(v.Nodes, nodeDesc{PeerId: fmt.Sprintf("extra-%d-%d", i, r.Intn(1000)), Types: []string{otherTypes[r.Intn(len(otherTypes))]}})
	}
	return v
}

func genChash(r *vlib.Rand) chashDesc {
	d := chashDesc{Kind: "chash", P: 10 + r.Intn(30), RF: 1 + r.Intn(5), Mult: 1 + r.Intn(8)}
	switch r.Intn(4) {
	case 0:
		d.Range = 0
	case 1:
		d.Range = uint64(2 + r.Intn(6))
	default:
		d.Range = uint64(8 + r.Intn(120))
	}
	if r.Chance(1, 8) {
		d.P = 40 + r.Intn(200)
	}
	n := r.Intn(9)
	names := []string{"a", "a1", "a10", "b", "c", "n", "n1", "zz", "a2", "b0", "q"}
	p := r.Perm(len(names))
	for i := 0; i < n; i++ {
		d.Members = append(d.Members, names[p[i]])
	}
	if n > 0 && r.Chance(1, 5) { // a duplicate inside one AddMembers call
		d.Members = append(d.Members, d.Members[r.Intn(n)])
	}
	return d
}

// int(float64(P)*float64(rf)/(float64(n)/1.0))+1 == P*rf/n + 1 (the model's integer quota), for all n <= 64
func quotaFormulaMismatches() []string {
	var bad []string
	for n := 1; n <= 64; n++ {
		for _, rf0 := range []int{1, 2, 3, 5} {
			for _, P := range []int{10, 17, 100, 3000, 10000} {
				rf := rf0
				if n < rf {
					rf = n
				}
				var total float64
				for i := 0; i < n; i++ {
					total += 1
				}
				f := int((float64(P)*float64(rf))/(total/1.0)) + 1
				if f != P*rf/n+1 {
					bad = append(bad, fmt.Sprintf("P=%d rf=%d n=%d float=%d int=%d", P, rf, n, f, P*rf/n+1))
				}
			}
		}
	}
	return bad
}

func main() {
	o := vlib.ParseFlags()
	vlib.Quiet()
	w := vlib.NewWriter(o.Out, "C18_run", 1) // one configuration per shard; C18SetPerShard(400) for the chash stream
	run := &runner{w: w}

	if o.Replay != "" {
		w.C18SetPerShard(3)
		var confs []confDesc
		for _, raw := range vlib.ReadReplay(o.Replay) {
			var k struct {
				Kind string `json:"kind"`
			}
			if json.Unmarshal(raw, &k) != nil {
				continue
			}
			if k.Kind == "chash" {
				var d chashDesc
				if json.Unmarshal(raw, &d) == nil {
					run.doConfs(confs)
					confs = nil
					run.doChash(d)
				}
			} else {
				var d confDesc
				if json.Unmarshal(raw, &d) == nil {
					d.Obs = ""
					confs = append(confs, d)
				}
			}
		}
		run.doConfs(confs)
		w.Finish("replay", run.samples, nil)
		return
	}

	r := vlib.NewRand(o.Seed)
	if bad := quotaFormulaMismatches(); len(bad) > 0 {
		w.Violation(0, "C18-quota-float", "go-chash's float quota differs from the model's integer quota", bad)
	}

	// configurations: sizes of the tree-node set
	sizes := []int{0, 1, 2, 3, 4, 6, 9}
	nVariants := 1
	if o.Tier == "thorough" {
		sizes = nil
		for rep := 0; rep < 2; rep++ {
			for n := 0; n <= 12; n++ {
				sizes = append(sizes, n)
			}
		}
		sizes = append(sizes, 16, 24, 32)
		nVariants = 1
	}
	if v := os.Getenv("C18_SIZES"); v != "" { // measurement aid
		sizes = nil
		for _, f := range strings.Split(v, ",") {
			var n int
			fmt.Sscan(f, &n)
			sizes = append(sizes, n)
		}
	}
	var confs []confDesc
	for b := 0; b < o.Budget; b++ {
		for i, n := range sizes {
			rr := r.Fork(uint64(b*1000 + i))
			d := genConf(rr, n, 1+r.Intn(4), false)
			confs = append(confs, withHistories(rr, d, i%3 == 1))
			if n >= 2 && n <= 4 || (o.Tier == "thorough" && n >= 2 && n <= 12) {
				for v := 0; v < nVariants; v++ {
					confs = append(confs, withHistories(r, variantOf(r, d), i%2 == 0))
				}
			}
		}
	}

	// configurations that list a sync node twice
	dupSizes := []int{3}
	if o.Tier == "thorough" {
		dupSizes = []int{1, 2, 3, 4, 5, 6, 8, 12}
	}
	for b := 0; b < o.Budget; b++ {
		for i, n := range dupSizes {
			rr := r.Fork(uint64(500 + b*1000 + i))
			confs = append(confs, withHistories(rr, genConf(rr, n, r.Intn(3), true), (b+i)%2 == 0))
		}
	}
	run.doConfs(confs)
	w.C18SetPerShard(300)
	nChash := 900
	if o.Tier == "thorough" {
		nChash = 12000
	}
	nChash *= o.Budget
	for k := 0; k < nChash; k++ {
		run.doChash(genChash(r))
	}
	w.Finish("real nodeconf services (every node of the tested or an earlier configuration + a client per case), each led through its own LIFE of 1..5 "+
		"events with a persistent per-participant store: first start (store empty, or holding the tested / an earlier / a to-be-merged configuration), configuration updates via "+
		"Run->updateConfiguration (chains of role swaps, replaced/added/removed sync nodes, promotions, other nodes, address-only / "+
		"type-only changes, reorderings; sub-sequences, identical re-deliveries, leaving and returning), RESTARTS with app configurations whose coordinators are known to the stored "+
		"configuration (stored one stays active) or bring a new coordinator address / coordinator node, possibly also a sync node (merged, id -1; ~1/3 of the cases are tested ON the merged "+
		"configuration, >= 2 of their sync nodes restart straight into it); observed after the last event; tree-node sets of 0..12 (thorough: ..32) nodes, random type mixes, "+
		"shuffled orders, variants with the same tree-node set; 10+ space ids per configuration with/without '.' suffix, shared keys, empty keys) "+
		"and bare go-chash instances with a custom Hasher (hash ranges 2..128 force ties; P 10..240, multiply factor 1..8, rf 1..5, duplicated members); "+
		"a configuration case is non-trivial if it has >= 2 tree nodes, >= 2 participants and >= 2 space ids; a chash case if it has >= 2 distinct members; "+
		"distinct by full case description",
		run.samples, map[string]interface{}{"quota_formula_checked_n_le": 64})
}
