// World of the C01 harness: N real synctree.SyncTree replicas of one object tree, each over its own
// any-store database, wired to a harness-owned network.  Everything the replicas hand to
// SyncClient.Broadcast / SyncClient.QueueRequest, every request returned by HandleHeadUpdate /
// HandleStreamRequest and every response passed to HandleStreamRequest's send callback becomes a Msg in
// the pool; the scheduler in main.go decides its fate.
//
// Real code exercised (nothing of the synctree / objecttree packages is mocked):
//   synctree.BuildSyncTreeOrGetRemote -> buildSyncTree (real syncTree + real syncHandler)
//   syncTree.AddContent, syncTree.AddRawChangesFromPeer, syncTree.SyncWithPeer
//   syncHandler.HandleHeadUpdate / HandleStreamRequest / HandleResponse (through ResponseCollector())
//   synctree.NewRequestFactory (CreateHeadUpdate, CreateFullSyncRequest), InnerHeadUpdate.Prepare/Marshall,
//   InnerRequest.Marshall, response.NewResponseProducer / Response.ProtoMessage / SetProtoMessage,
//   objecttree.BuildTestableTree (real objectTree, Tree, treeBuilder, loadIterator; non-verifying change
//   builder, real change builder Build for AddContent incl. signature and CID), objecttree.CreateStorage on any-store.
// Harness-owned: SyncClient.Broadcast/QueueRequest (the transport), a no-op syncstatus.StatusUpdater,
// a SpaceStorage stub that only answers TreeStorage(id).
package main

import (
	"context"
	"fmt"
	"os"
	"path/filepath"
	"sort"
	"sync/atomic"
	"testing"

	anystore "github.com/anyproto/any-store"
	"google.golang.org/protobuf/proto"

	"github.com/anyproto/any-sync/app"
	"github.com/anyproto/any-sync/commonspace/headsync/headstorage"
	"github.com/anyproto/any-sync/commonspace/object/accountdata"
	"github.com/anyproto/any-sync/commonspace/object/acl/list"
	"github.com/anyproto/any-sync/commonspace/object/tree/objecttree"
	"github.com/anyproto/any-sync/commonspace/object/tree/synctree"
	"github.com/anyproto/any-sync/commonspace/object/tree/synctree/response"
	"github.com/anyproto/any-sync/commonspace/object/tree/treechangeproto"
	"github.com/anyproto/any-sync/commonspace/spacestorage"
	"github.com/anyproto/any-sync/commonspace/spacesyncproto"
	"github.com/anyproto/any-sync/commonspace/sync/objectsync/objectmessages"
	"github.com/anyproto/any-sync/commonspace/sync/syncdeps"
	"github.com/anyproto/any-sync/net/peer"
	"github.com/anyproto/any-sync/util/crypto"

	"verifharness/vlib"
)

var ctx = context.Background()

const spaceId = "spaceId"

func must(err error) {
	if err != nil {
		panic(err)
	}
}

// deterministic byte source for key generation
type detReader struct{ r *vlib.Rand }

func (d detReader) Read(p []byte) (int, error) {
	for i := range p {
		p[i] = byte(d.r.U64())
	}
	return len(p), nil
}

const maxReplicas = 4

type World struct {
	dir     string
	dbs     [maxReplicas]anystore.DB
	heads   [maxReplicas]headstorage.HeadStorage
	acl     list.AclList
	aclHead string
	keys    *accountdata.AccountKeys
	creator *objecttree.MockChangeCreator
	trees   int
}

func NewWorld() *World {
	w := &World{}
	src := detReader{vlib.NewRand(0xC01)}
	pk, _, err := crypto.GenerateEd25519Key(src)
	must(err)
	sk, _, err := crypto.GenerateEd25519Key(src)
	must(err)
	w.keys = accountdata.New(pk, sk)
	w.acl, err = list.NewInMemoryDerivedAcl(spaceId, w.keys)
	must(err)
	w.aclHead = w.acl.Head().Id
	w.openDBs()
	w.creator = objecttree.NewMockChangeCreator(func() anystore.DB { return w.dbs[0] })
	// installs the non-verifying StorageChangeBuilder (package-level variable), as the repo's own tests do
	_ = w.creator.CreateNewTreeStorage(&testing.T{}, "warmup", w.aclHead, false)
	return w
}

func (w *World) openDBs() {
	w.Close()
	base := ""
	if st, err := os.Stat("/dev/shm"); err == nil && st.IsDir() {
		base = "/dev/shm"
	}
	dir, err := os.MkdirTemp(base, "verif_c01_")
	must(err)
	w.dir = dir
	for i := 0; i < maxReplicas; i++ {
		db, err := anystore.Open(ctx, filepath.Join(dir, fmt.Sprintf("r%d.db", i)), nil)
		must(err)
		coll, err := db.Collection(ctx, objecttree.CollName)
		must(err)
		must(coll.EnsureIndex(ctx, anystore.IndexInfo{Fields: []string{objecttree.TreeKey, objecttree.OrderKey}, Unique: true}))
		w.dbs[i] = db
		w.heads[i], err = headstorage.New(ctx, db)
		must(err)
	}
	w.trees = 0
}

// Tick: start fresh database files when the current ones have served many trees.
func (w *World) Tick() {
	if w.trees > 400 {
		w.openDBs()
	}
}

func (w *World) Close() {
	for i := range w.dbs {
		if w.dbs[i] != nil {
			_ = w.dbs[i].Close()
			w.dbs[i] = nil
		}
	}
	if w.dir != "" {
		_ = os.RemoveAll(w.dir)
		w.dir = ""
	}
}

// ------------------------------------------------------------------------------------------ messages

const (
	KHead = 0
	KReq  = 1
	KResp = 2
)

type Msg struct {
	Kind    int
	From    int
	To      int
	Payload []byte // marshalled TreeSyncMessage
	Heads   []string
	Changes []string
	Path    []string
	Seq     int
}

func decode(kind int, payload []byte) (heads, changes, path []string) {
	tm := &treechangeproto.TreeSyncMessage{}
	must(tm.UnmarshalVT(payload))
	switch kind {
	case KHead:
		u := tm.GetContent().GetHeadUpdate()
		heads, path = u.Heads, u.SnapshotPath
		for _, c := range u.Changes {
			changes = append(changes, c.Id)
		}
	case KReq:
		u := tm.GetContent().GetFullSyncRequest()
		heads, path = u.Heads, u.SnapshotPath
	case KResp:
		u := tm.GetContent().GetFullSyncResponse()
		heads, path = u.Heads, u.SnapshotPath
		for _, c := range u.Changes {
			changes = append(changes, c.Id)
		}
	}
	return
}

// ------------------------------------------------------------------------------------------ replicas

type noStatus struct{}

func (noStatus) Init(a *app.App) error                                  { return nil }
func (noStatus) Name() string                                           { return "verif.nostatus" }
func (noStatus) HeadsChange(treeId string, heads []string)              {}
func (noStatus) HeadsReceive(senderId, treeId string, heads []string)   {}
func (noStatus) ObjectReceive(senderId, treeId string, heads []string)  {}
func (noStatus) HeadsApply(senderId, treeId string, heads []string, allAdded bool) {}

type noQueue struct{}

func (noQueue) UpdateQueueSize(size uint64, msgType int, add bool) {}

type stubSpaceStorage struct {
	spacestorage.SpaceStorage
	st objecttree.Storage
}

func (s stubSpaceStorage) TreeStorage(ctx context.Context, id string) (objecttree.Storage, error) {
	return s.st, nil
}

type stubPeer struct {
	peer.Peer
	id string
}

func (p stubPeer) Id() string { return p.id }

type Net struct {
	n       int
	reps    []*Replica
	emitted []*Msg // messages emitted since the last TakeEmitted
	seq     int
}

type Replica struct {
	idx     int
	net     *Net
	storage objecttree.Storage
	tree    synctree.SyncTree
	treeId  string
}

func peerName(i int) string { return fmt.Sprintf("peer%d", i) }
func peerIdx(s string) int {
	var i int
	if _, err := fmt.Sscanf(s, "peer%d", &i); err != nil {
		return -1
	}
	return i
}

// hClient is the transport: the real request factory plus a Broadcast/QueueRequest that capture messages.
type hClient struct {
	synctree.RequestFactory
	rep *Replica
}

func (c *hClient) Broadcast(ctx context.Context, hu *objectmessages.HeadUpdate) error {
	for q := 0; q < c.rep.net.n; q++ {
		if q == c.rep.idx {
			continue
		}
		cp := hu.Copy().(*objectmessages.HeadUpdate)
		cp.SetPeerId(peerName(q))
		pm, err := cp.ProtoMessage()
		if err != nil {
			return err
		}
		payload := append([]byte(nil), pm.(*spacesyncproto.ObjectSyncMessage).Payload...)
		c.rep.net.emit(KHead, c.rep.idx, q, payload)
	}
	return nil
}

func (c *hClient) SendTreeRequest(ctx context.Context, req syncdeps.Request, collector syncdeps.ResponseCollector) error {
	panic("SendTreeRequest is not used by the C01 harness")
}

func (c *hClient) QueueRequest(ctx context.Context, req syncdeps.Request) error {
	c.rep.emitRequest(req)
	return nil
}

func (r *Replica) emitRequest(req syncdeps.Request) {
	rq := req.(*objectmessages.Request)
	pm, err := rq.Proto()
	must(err)
	payload := append([]byte(nil), pm.(*spacesyncproto.ObjectSyncMessage).Payload...)
	r.net.emit(KReq, r.idx, peerIdx(rq.PeerId()), payload)
}

func (n *Net) emit(kind, from, to int, payload []byte) {
	m := &Msg{Kind: kind, From: from, To: to, Payload: payload, Seq: n.seq}
	n.seq++
	m.Heads, m.Changes, m.Path = decode(kind, payload)
	n.emitted = append(n.emitted, m)
}

func (n *Net) TakeEmitted() []*Msg {
	e := n.emitted
	n.emitted = nil
	return e
}

type addSeqSetter interface{ SetAddSeq(seq *atomic.Uint64) }

// NewNet builds n replicas of a fresh tree whose root change has the given id.
func (w *World) NewNet(n int, rootId string) *Net {
	w.trees++
	net := &Net{n: n}
	root := w.creator.CreateRoot(rootId, w.aclHead)
	for i := 0; i < n; i++ {
		st, err := objecttree.CreateStorage(ctx, root, w.heads[i], w.dbs[i])
		must(err)
		st.(addSeqSetter).SetAddSeq(&atomic.Uint64{})
		rep := &Replica{idx: i, net: net, storage: st, treeId: rootId}
		client := &hClient{RequestFactory: synctree.NewRequestFactory(spaceId), rep: rep}
		deps := synctree.BuildDeps{
			SpaceId:         spaceId,
			SyncClient:      client,
			AclList:         w.acl,
			SpaceStorage:    stubSpaceStorage{st: st},
			OnClose:         func(id string) {},
			SyncStatus:      noStatus{},
			BuildObjectTree: objecttree.BuildTestableTree,
		}
		t, err := synctree.BuildSyncTreeOrGetRemote(ctx, rootId, deps)
		must(err)
		rep.tree = t
		net.reps = append(net.reps, rep)
	}
	net.emitted = nil
	return net
}

// ---- operations (each returns an error class; emitted messages are collected by the Net)

func (r *Replica) AddContent(w *World, isSnap bool, data []byte, ts int64) (id string, err error) {
	r.tree.Lock()
	defer r.tree.Unlock()
	res, err := r.tree.AddContent(ctx, objecttree.SignableChangeContent{
		Data: data, Key: w.keys.SignKey, IsSnapshot: isSnap, Timestamp: ts, DataType: "verif",
	})
	if err != nil {
		return "", err
	}
	return res.Added[0].Id, nil
}

func (r *Replica) Deliver(m *Msg) (err error) {
	from := peerName(m.From)
	pctx := peer.CtxWithPeerId(ctx, from)
	payload := append([]byte(nil), m.Payload...)
	switch m.Kind {
	case KHead:
		hu := &objectmessages.HeadUpdate{
			Meta:  objectmessages.ObjectMeta{PeerId: from, ObjectId: r.treeId, SpaceId: spaceId},
			Bytes: payload,
		}
		req, err := r.tree.HandleHeadUpdate(pctx, noStatus{}, hu)
		if err != nil {
			return err
		}
		if req != nil {
			r.emitRequest(req)
		}
	case KReq:
		rq := objectmessages.NewByteRequest(from, spaceId, r.treeId, payload)
		ret, err := r.tree.HandleStreamRequest(pctx, rq, noQueue{}, func(resp proto.Message) error {
			om := resp.(*spacesyncproto.ObjectSyncMessage)
			r.net.emit(KResp, r.idx, m.From, append([]byte(nil), om.Payload...))
			return nil
		})
		// as requestManager.HandleStreamRequest: the returned request is queued even when an error is returned
		if ret != nil {
			r.emitRequest(ret)
		}
		if err != nil {
			return err
		}
	case KResp:
		resp := &response.Response{}
		must(resp.SetProtoMessage(&spacesyncproto.ObjectSyncMessage{SpaceId: spaceId, ObjectId: r.treeId, Payload: payload}))
		return r.tree.ResponseCollector().CollectResponse(pctx, from, r.treeId, resp)
	}
	return nil
}

func (r *Replica) Sync(p int) error {
	return r.tree.SyncWithPeer(ctx, stubPeer{id: peerName(p)})
}

// ---- observation

func (r *Replica) Heads() []string {
	r.tree.Lock()
	defer r.tree.Unlock()
	h := append([]string(nil), r.tree.Heads()...)
	sort.Strings(h)
	return h
}

func (r *Replica) RootId() string {
	r.tree.Lock()
	defer r.tree.Unlock()
	return r.tree.Root().Id
}

type Stored struct {
	Id     string
	Prev   []string
	Snap   string
	Size   int
	Order  string
}

func (r *Replica) Stored() []Stored {
	var res []Stored
	_ = r.storage.GetAfterOrder(ctx, "", func(_ context.Context, c objecttree.StorageChange) (bool, error) {
		res = append(res, Stored{Id: c.Id, Prev: append([]string(nil), c.PrevIds...), Snap: c.SnapshotId, Size: len(c.RawChange), Order: c.OrderId})
		return true, nil
	})
	return res
}

// HeadEntry returns the heads recorded in the head storage entry of the tree.
func (w *World) HeadEntry(i int, treeId string) []string {
	e, err := w.heads[i].GetEntry(ctx, treeId)
	if err != nil {
		return nil
	}
	h := append([]string(nil), e.Heads...)
	sort.Strings(h)
	return h
}
