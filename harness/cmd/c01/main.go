// Correspondence driver for C01 (replicas of an object tree converge under any message schedule).
// One case = one history: N real SyncTrees (world.go), a seeded scheduler interleaving AddContent (plain /
// snapshot) with message deliveries (per-message fate deliver / drop / duplicate / delay = random pick from the
// pool), then the final phase: every unordered pair runs a full-sync exchange (SyncWithPeer, request, response
// batches, counter-requests, until that chain is quiet) with other pool traffic interleaved, then the pool is
// drained.  After every step the harness records, per replica, the stored ids (Storage.GetAfterOrder) and
// Heads(), and the canonicalised messages emitted by the step.
package main

import (
	"encoding/json"
	"fmt"
	"os"
	"sort"
	"strings"

	"verifharness/vlib"
)

type Params struct {
	Seed    uint64 `json:"seed"`
	N       int    `json:"n"`
	Steps   int    `json:"steps"`
	AddPct  int    `json:"add_pct"`
	SnapPct int    `json:"snap_pct"`
	DropPct int    `json:"drop_pct"`
	DupPct  int    `json:"dup_pct"`
	Big     bool   `json:"big,omitempty"`
	Isolate int    `json:"isolate"` // replica cut off from the network during the random phase (-1 = none)
	Noise   int    `json:"noise_pct"`
	Variant string `json:"variant"`
	Tags    []string `json:"tags,omitempty"`
}

type created struct {
	id     string
	prev   []string
	snap   string
	isSnap bool
	size   int
}

type repObs struct {
	have  []string
	heads []string
}

type step struct {
	kind    string // add | deliver | sync
	r, from int
	isSnap  bool
	newId   string
	msg     *Msg
	err     bool
	reps    []repObs
	emitted []*Msg
}

type history struct {
	p        Params
	rootId   string
	rootSize int
	created  []created
	steps    []step
	phase    int
	stats    map[string]int
	direct   []string
}

func sortedCopy(s []string) []string {
	c := append([]string(nil), s...)
	sort.Strings(c)
	return c
}

func sameStrings(a, b []string) bool {
	if len(a) != len(b) {
		return false
	}
	for i := range a {
		if a[i] != b[i] {
			return false
		}
	}
	return true
}

var treeCounter int

func runHistory(w *World, p Params) (h *history) {
	h = &history{p: p, stats: map[string]int{}}
	defer func() {
		if r := recover(); r != nil {
			h.direct = append(h.direct, fmt.Sprintf("panic: %v", r))
		}
	}()
	rng := vlib.NewRand(p.Seed)
	treeCounter++
	h.rootId = fmt.Sprintf("aroot%07d", treeCounter)
	net := w.NewNet(p.N, h.rootId)
	byId := map[string]int{} // creation index (root = 0)
	byId[h.rootId] = 0
	rec := map[string]created{}
	var pool []*Msg
	ts := int64(1700000000)

	cur := make([]repObs, p.N)
	var observe func(s *step)
	observeAll := false
	observe = func(s *step) {
		for i, rp := range net.reps {
			// only the acting replica can have changed; the others are re-read at the end of the history
			if !observeAll && len(h.steps) > 0 && i != s.r {
				s.reps = append(s.reps, cur[i])
				continue
			}
			st := rp.Stored()
			o := repObs{heads: rp.Heads()}
			prevOrder := ""
			for _, c := range st {
				o.have = append(o.have, c.Id)
				if c.Id == h.rootId {
					h.rootSize = c.Size
				} else if cr, ok := rec[c.Id]; !ok {
					h.direct = append(h.direct, "stored change that nobody created: "+c.Id)
				} else if !sameStrings(sortedCopy(c.Prev), sortedCopy(cr.prev)) || c.Snap != cr.snap {
					h.direct = append(h.direct, "stored PrevIds/SnapshotId differ from the created change: "+c.Id)
				}
				if prevOrder != "" && !(prevOrder < c.Order) {
					h.direct = append(h.direct, "order ids do not strictly increase in storage")
				}
				prevOrder = c.Order
			}
			if he := w.HeadEntry(i, h.rootId); !sameStrings(he, o.heads) {
				h.direct = append(h.direct, fmt.Sprintf("head storage entry %v differs from Heads() %v", he, o.heads))
			}
			if observeAll && (!sameStrings(sortedCopy(o.have), sortedCopy(cur[i].have)) || !sameStrings(o.heads, cur[i].heads)) {
				h.direct = append(h.direct, "a replica changed during a step in which it did not act")
			}
			cur[i] = o
			s.reps = append(s.reps, o)
		}
		s.emitted = net.TakeEmitted()
	}

	isAncestor := func(a, b string) bool { // a is a (reflexive) ancestor of b
		seen := map[string]bool{}
		stack := []string{b}
		for len(stack) > 0 {
			x := stack[len(stack)-1]
			stack = stack[:len(stack)-1]
			if x == a {
				return true
			}
			if seen[x] {
				continue
			}
			seen[x] = true
			if cr, ok := rec[x]; ok {
				stack = append(stack, cr.prev...)
			}
		}
		return false
	}

	doAdd := func(r int, isSnap bool) {
		var data []byte
		if p.Big && rng.Chance(2, 3) {
			data = make([]byte, 250000+rng.Intn(300000))
		} else {
			data = make([]byte, rng.Intn(40))
		}
		ts++
		s := step{kind: "add", r: r, isSnap: isSnap}
		oldRoot := net.reps[r].RootId()
		oldHeads := net.reps[r].Heads()
		id, err := net.reps[r].AddContent(w, isSnap, data, ts)
		if err != nil {
			s.err = true
			h.direct = append(h.direct, "AddContent failed: "+err.Error())
		} else {
			s.newId = id
			st := net.reps[r].Stored()
			for _, c := range st {
				if c.Id == id {
					cr := created{id: id, prev: sortedCopy(c.Prev), snap: c.Snap, isSnap: isSnap, size: c.Size}
					rec[id] = cr
					byId[id] = len(h.created) + 1
					h.created = append(h.created, cr)
					if c.Snap != oldRoot {
						h.direct = append(h.direct, "AddContent cited a snapshot that is not the in-memory root")
					}
					if !sameStrings(cr.prev, oldHeads) {
						h.direct = append(h.direct, "AddContent previous ids are not the heads")
					}
				}
			}
			if isSnap {
				h.stats["add_snapshot"]++
				for _, o := range h.created[:len(h.created)-1] {
					if o.isSnap && !isAncestor(o.id, id) {
						h.stats["concurrent_snapshot_pairs"]++
					}
				}
			} else {
				h.stats["add_plain"]++
			}
		}
		observe(&s)
		h.steps = append(h.steps, s)
		pool = append(pool, s.emitted...)
	}

	// deliver m to its addressee; chain receives the request/response traffic between the two peers of an
	// exchange (nil = everything goes to the pool)
	doDeliver := func(m *Msg, chain *[]*Msg) {
		s := step{kind: "deliver", r: m.To, from: m.From, msg: m}
		rp := net.reps[m.To]
		oldRoot := rp.RootId()
		oldHave := len(cur[m.To].have)
		if len(m.Changes) > 0 {
			for _, c := range m.Changes {
				if cr, ok := rec[c]; ok && cr.snap != oldRoot && byId[oldRoot] > byId[cr.snap] {
					h.stats["stale_changes_after_snapshot"]++
					break
				}
			}
		}
		if m.Kind == KReq {
			if oldHave-len(cur[m.From].have) >= 8 {
				h.stats["requester_far_behind"]++
			}
		}
		err := rp.Deliver(m)
		if err != nil {
			s.err = true
			h.stats["handler_error"]++
			h.stats["handler_error:"+errClass(err)]++
		}
		newRoot := rp.RootId()
		if newRoot != oldRoot && byId[newRoot] < byId[oldRoot] {
			h.stats["root_moved_back(rebuild_from_storage)"]++
		}
		observe(&s)
		if len(s.reps[m.To].have) > oldHave {
			h.stats["deliveries_that_added"]++
		}
		nresp := 0
		for _, e := range s.emitted {
			switch e.Kind {
			case KResp:
				if len(e.Changes) == 0 {
					h.stats["empty_response"]++
				} else {
					nresp++
				}
			case KReq:
				if m.Kind == KReq {
					h.stats["counter_request"]++
				} else {
					h.stats["request_after_head_update"]++
				}
			}
			if chain != nil && e.Kind != KHead && e.To == m.From && e.From == m.To {
				*chain = append(*chain, e)
			} else {
				pool = append(pool, e)
			}
		}
		if nresp > 1 {
			h.stats["multi_batch_response"]++
		}
		h.steps = append(h.steps, s)
	}

	isolated := func(m *Msg) bool { return p.Isolate >= 0 && (m.From == p.Isolate || m.To == p.Isolate) }

	// pick a pool message and apply a fate; returns false if nothing was done
	noise := func(chain *[]*Msg, allowDrop bool) {
		if len(pool) == 0 {
			return
		}
		i := rng.Intn(len(pool))
		if rng.Chance(1, 2) { // bias towards older messages, the rest is the "delay past later messages" fate
			i = rng.Intn(i + 1)
		}
		m := pool[i]
		if i > 0 {
			h.stats["fate_reordered"]++
		}
		remove := func() { pool = append(pool[:i:i], pool[i+1:]...) }
		switch {
		case allowDrop && (isolated(m) || rng.Chance(p.DropPct, 100)):
			remove()
			h.stats["fate_drop"]++
		case rng.Chance(p.DupPct, 100):
			h.stats["fate_duplicate"]++
			doDeliver(m, chain) // stays in the pool: it will be delivered again (or dropped) later
		default:
			remove()
			h.stats["fate_deliver"]++
			doDeliver(m, chain)
		}
	}

	// ---------------- random phase
	adders := map[int]bool{}
	for k := 0; k < p.Steps; k++ {
		if len(pool) == 0 || rng.Chance(p.AddPct, 100) {
			r := rng.Intn(p.N)
			adders[r] = true
			doAdd(r, rng.Chance(p.SnapPct, 100))
		} else {
			noise(nil, true)
		}
	}
	h.phase = len(h.steps)

	// ---------------- final phase: every unordered pair completes an exchange; no LocalAdd any more
	var pairs [][2]int
	for a := 0; a < p.N; a++ {
		for b := a + 1; b < p.N; b++ {
			if rng.Bool() {
				pairs = append(pairs, [2]int{a, b})
			} else {
				pairs = append(pairs, [2]int{b, a})
			}
		}
	}
	perm := rng.Perm(len(pairs))
	transferred := 0
	for _, pi := range perm {
		a, b := pairs[pi][0], pairs[pi][1]
		s := step{kind: "sync", r: a, from: b}
		if err := net.reps[a].Sync(b); err != nil {
			s.err = true
		}
		observe(&s)
		h.steps = append(h.steps, s)
		chain := append([]*Msg(nil), s.emitted...)
		before := len(cur[a].have) + len(cur[b].have)
		for n := 0; len(chain) > 0 && n < 40; n++ {
			if rng.Chance(p.Noise, 100) {
				noise(nil, true)
			}
			j := 0
			if rng.Chance(1, 6) { // sometimes a later message of the chain overtakes (request before the responses)
				for k, m := range chain {
					if m.Kind == KReq {
						j = k
						break
					}
				}
				if j > 0 {
					h.stats["chain_request_overtakes_responses"]++
				}
			}
			m := chain[j]
			chain = append(chain[:j:j], chain[j+1:]...)
			doDeliver(m, &chain)
		}
		if len(chain) > 0 {
			h.stats["chain_cut"]++
			pool = append(pool, chain...)
		}
		transferred += len(cur[a].have) + len(cur[b].have) - before
	}
	h.stats["final_phase_transferred"] += transferred
	// drain
	for n := 0; len(pool) > 0 && n < 400; n++ {
		i := rng.Intn(len(pool))
		m := pool[i]
		pool = append(pool[:i:i], pool[i+1:]...)
		if rng.Chance(1, 2) {
			h.stats["drain_drop"]++
			continue
		}
		doDeliver(m, nil)
	}
	if len(pool) > 0 {
		h.stats["drain_cut"]++
	}
	observeAll = true
	var last step
	observe(&last)
	if len(adders) >= 2 {
		h.stats["hist_multi_author"]++
	}
	return h
}

func errClass(err error) string {
	s := err.Error()
	if len(s) > 60 {
		s = s[:60]
	}
	return s
}

// ------------------------------------------------------------------------------------------ Coq term

type numbering map[string]uint64

func (nm numbering) L(ss []string) string {
	v := make([]uint64, 0, len(ss))
	for _, s := range ss {
		if n, ok := nm[s]; ok {
			v = append(v, n)
		} else {
			v = append(v, 999999)
		}
	}
	return vlib.NList(v)
}

func (nm numbering) sortedL(ss []string) string {
	v := make([]uint64, 0, len(ss))
	for _, s := range ss {
		if n, ok := nm[s]; ok {
			v = append(v, n)
		} else {
			v = append(v, 999999)
		}
	}
	sort.Slice(v, func(i, j int) bool { return v[i] < v[j] })
	return vlib.NList(v)
}

func (nm numbering) msg(m *Msg) string {
	switch m.Kind {
	case KHead:
		return vlib.App("MHead", nm.sortedL(m.Heads), nm.sortedL(m.Changes), nm.L(m.Path))
	case KReq:
		return vlib.App("MReq", nm.sortedL(m.Heads), nm.L(m.Path))
	}
	return vlib.App("MResp", nm.sortedL(m.Heads), nm.sortedL(m.Changes), nm.L(m.Path))
}

func (h *history) term() string {
	ids := []string{h.rootId}
	for _, c := range h.created {
		ids = append(ids, c.id)
	}
	sort.Strings(ids)
	nm := numbering{}
	for i, s := range ids {
		nm[s] = uint64(i + 1)
	}
	var steps []string
	for _, s := range h.steps {
		var lab string
		switch s.kind {
		case "add":
			if s.newId == "" {
				continue
			}
			var cr created
			for _, c := range h.created {
				if c.id == s.newId {
					cr = c
				}
			}
			ch := vlib.App("mkChange", vlib.N(nm[cr.id]), nm.sortedL(cr.prev), vlib.N(nm[cr.snap]), vlib.Bool(cr.isSnap))
			lab = vlib.App("LAdd", vlib.Nat(s.r), vlib.Bool(s.isSnap), ch, vlib.N(uint64(cr.size)))
		case "deliver":
			lab = vlib.App("LDeliver", vlib.Nat(s.r), vlib.Nat(s.from), nm.msg(s.msg))
		case "sync":
			lab = vlib.App("LSync", vlib.Nat(s.r), vlib.Nat(s.from))
		}
		var reps []string
		for _, o := range s.reps {
			reps = append(reps, vlib.Pair(nm.sortedL(o.have), nm.sortedL(o.heads)))
		}
		var em []string
		for _, e := range s.emitted {
			em = append(em, vlib.Pair(vlib.Nat(e.To), nm.msg(e)))
		}
		steps = append(steps, vlib.Pair(lab, vlib.App("mkSO", vlib.Bool(s.err), vlib.List(reps), vlib.List(em))))
	}
	root := vlib.App("mkChange", vlib.N(nm[h.rootId]), "[]", "0", "true")
	return vlib.App("CHist", vlib.Nat(h.p.N), root, vlib.N(uint64(h.rootSize)), vlib.Nat(h.phase),
		"[\n  "+strings.Join(steps, ";\n  ")+"]")
}

func (h *history) key() string {
	var b strings.Builder
	for _, s := range h.steps {
		fmt.Fprintf(&b, "%s%d.%d", s.kind[:1], s.r, s.from)
		if s.msg != nil {
			fmt.Fprintf(&b, "k%d#%d", s.msg.Kind, len(s.msg.Changes))
		}
		fmt.Fprintf(&b, "/%d;", len(s.emitted))
	}
	return b.String()
}

func (h *history) nontrivial() bool {
	return h.stats["hist_multi_author"] > 0 && h.stats["deliveries_that_added"] > 0 &&
		(h.stats["fate_drop"] > 0 || h.stats["fate_reordered"] > 0 || h.stats["fate_duplicate"] > 0)
}

// ------------------------------------------------------------------------------------------ generator

func genParams(rng *vlib.Rand, i int) Params {
	p := Params{Seed: rng.U64(), N: 2 + rng.Intn(3), Steps: 8 + rng.Intn(22), AddPct: 35, SnapPct: 20,
		DropPct: 20, DupPct: 15, Isolate: -1, Noise: 20, Variant: "mixed"}
	switch i % 8 {
	case 1, 5: // many snapshots, heavy loss: concurrent snapshots, stale updates, rebuilds
		p.Variant = "snapshots"
		p.SnapPct = 45
		p.DropPct = 35
		p.AddPct = 45
	case 2: // one replica cut off during the random phase: far behind at the final phase
		p.Variant = "isolated"
		p.N = 3 + rng.Intn(2)
		p.Isolate = rng.Intn(p.N)
		p.Steps = 20 + rng.Intn(20)
		p.AddPct = 40
	case 3: // nearly everything is lost before the final phase
		p.Variant = "lossy"
		p.DropPct = 80
		p.AddPct = 50
	case 6: // reliable, duplicated a lot
		p.Variant = "duplicates"
		p.DropPct = 0
		p.DupPct = 50
	case 7:
		if i%16 == 7 {
			p.Variant = "big"
			p.Big = true
			p.N = 2 + rng.Intn(2)
			p.Steps = 8 + rng.Intn(8)
			p.AddPct = 60
			p.DropPct = 50
		}
	}
	return p
}

func main() {
	vlib.Quiet()
	o := vlib.ParseFlags()
	w := vlib.NewWriter(o.Out, "C01_run", 40)
	world := NewWorld()
	defer world.Close()
	var samples []interface{}

	emit := func(p Params) {
		world.Tick()
		h := runHistory(world, p)
		idx := w.Add(h.term(), p, h.key(), h.nontrivial())
		for k, v := range h.stats {
			for j := 0; j < v; j++ {
				w.Stat(k)
			}
			w.Stat("hist_with:" + k)
		}
		w.Stat(fmt.Sprintf("replicas=%d", p.N))
		w.Stat("variant=" + p.Variant)
		w.Stat(fmt.Sprintf("steps~%d0", len(h.steps)/10))
		w.Stat(fmt.Sprintf("changes~%d0", len(h.created)/10))
		seen := map[string]bool{}
		for _, d := range h.direct {
			if !seen[d] {
				seen[d] = true
				w.Violation(idx, "direct", d, p)
			}
		}
		if len(samples) < 3 && h.nontrivial() {
			samples = append(samples, map[string]interface{}{"params": p, "steps": len(h.steps), "changes": len(h.created), "stats": h.stats})
		}
	}

	if o.Replay != "" {
		for _, raw := range vlib.ReadReplay(o.Replay) {
			var p Params
			if err := json.Unmarshal(raw, &p); err != nil {
				fmt.Fprintln(os.Stderr, "bad replay desc:", err)
				continue
			}
			emit(p)
		}
	} else {
		n := 160
		if o.Tier == "thorough" {
			n = 1200
		}
		n *= o.Budget
		rng := vlib.NewRand(o.Seed)
		for i := 0; i < n; i++ {
			emit(genParams(rng.Fork(uint64(i)), i))
		}
	}
	w.Finish("history in which at least two replicas authored changes, at least one delivery added changes to a replica, and at least one message was dropped, duplicated or delivered out of emission order; distinct by the sequence of (step kind, replica, peer, message kind, #changes, #emitted)",
		samples, nil)
}
