// Correspondence driver for C12: drives two REAL key-value stores (keyvaluestorage.New on any-store, real ACL
// built by the ACL test executor, real ed25519 keys of several accounts / devices) through histories of
// SetRaw / local Set / sync exchanges with optional injected storage faults, and writes what it observed after
// every operation as Coq cases (checked against Model/KeyValue.v and spec_C12 by coqc).
package main

import (
	"bytes"
	"context"
	"crypto/ed25519"
	"encoding/binary"
	"encoding/json"
	"errors"
	"fmt"
	"os"
	"path/filepath"
	"sort"
	"strings"
	"time"

	anystore "github.com/anyproto/any-store"
	"github.com/anyproto/any-store/anyenc"

	"github.com/anyproto/any-sync/app/ldiff"
	"github.com/anyproto/any-sync/commonspace/headsync/headstorage"
	"github.com/anyproto/any-sync/commonspace/object/accountdata"
	"github.com/anyproto/any-sync/commonspace/object/acl/list"
	"github.com/anyproto/any-sync/commonspace/object/keyvalue"
	"github.com/anyproto/any-sync/commonspace/object/keyvalue/keyvaluestorage"
	"github.com/anyproto/any-sync/commonspace/object/keyvalue/keyvaluestorage/innerstorage"
	"github.com/anyproto/any-sync/commonspace/spacesyncproto"
	"github.com/anyproto/any-sync/util/crypto"

	"verifharness/vlib"
)

var ctx = context.Background()

// ------------------------------------------------------------------------------------------------ world

// ACL script. Record index = position in acl.Records().
var aclScript = []string{
	"a.init::a",       // 0  a owner
	"a.invite::i1",    // 1
	"b.join::i1",      // 2
	"a.approve::b,rw", // 3  b writer from here on
	"c.join::i1",      // 4
	"a.approve::c,r",  // 5  c reader (never a writer)
	"d.join::i1",      // 6
	"a.approve::d,rw", // 7  d writer at record 7 only
	"a.changes::d,r",  // 8  d demoted to reader
}

const nRecords = 9

// canWriteTable[account][record]: expected write permission, from the script (the independent oracle).
// accounts: 0=a 1=b 2=c 3=d 4=x (x has no account in the ACL at all)
func canWriteTable(acct, rec int) bool {
	switch acct {
	case 0:
		return rec >= 0
	case 1:
		return rec >= 3
	case 3:
		return rec == 7
	}
	return false
}

type account struct {
	name string
	keys *accountdata.AccountKeys
	devs []crypto.PrivKey // device keys; devs[0] = keys.PeerKey
	acl  list.AclList     // nil for x
}

type world struct {
	accts  []*account
	recIds []string
	acctOf map[string]int // Account() address -> index
	recOf  map[string]int
}

func buildWorld() *world {
	ex := list.NewAclExecutor("spaceId")
	for _, c := range aclScript {
		if err := ex.Execute(c); err != nil {
			panic(fmt.Sprintf("acl script %q: %v", c, err))
		}
	}
	w := &world{acctOf: map[string]int{}, recOf: map[string]int{}}
	for _, n := range []string{"a", "b", "c", "d"} {
		ts := ex.ActualAccounts()[n]
		a := &account{name: n, keys: ts.Keys, acl: ts.Acl}
		w.accts = append(w.accts, a)
	}
	xk, err := accountdata.NewRandom()
	if err != nil {
		panic(err)
	}
	w.accts = append(w.accts, &account{name: "x", keys: xk})
	for i, a := range w.accts {
		a.devs = []crypto.PrivKey{a.keys.PeerKey}
		k, _, err := crypto.GenerateRandomEd25519KeyPair()
		if err != nil {
			panic(err)
		}
		a.devs = append(a.devs, k)
		w.acctOf[a.keys.SignKey.GetPublic().Account()] = i
	}
	recs := w.accts[0].acl.Records()
	if len(recs) != nRecords {
		panic(fmt.Sprintf("expected %d acl records, got %d", nRecords, len(recs)))
	}
	for i, r := range recs {
		w.recIds = append(w.recIds, r.Id)
		w.recOf[r.Id] = i
	}
	// sanity: the script-derived permission table agrees with the ACL (so that it is a faithful oracle)
	st := w.accts[0].acl.AclState()
	for ai, a := range w.accts {
		for ri, id := range w.recIds {
			p, err := st.PermissionsAtRecord(id, a.keys.SignKey.GetPublic())
			got := err == nil && p.CanWrite()
			if got != canWriteTable(ai, ri) {
				panic(fmt.Sprintf("permission oracle disagrees with ACL: account %s record %d: acl=%v table=%v", a.name, ri, got, canWriteTable(ai, ri)))
			}
		}
	}
	return w
}

// ------------------------------------------------------------------------------------------------ values

// valSpec describes one envelope; everything needed to rebuild it (given the world) is here.
type valSpec struct {
	Acct    int    `json:"acct"`          // signing account 0..4
	Dev     int    `json:"dev"`           // device 0..1 of that account
	Key     int    `json:"key"`           // key "k<Key>"
	Ts      int64  `json:"ts"`            // TimestampMicro
	Rec     int    `json:"rec"`           // cited ACL record index; -1 = an id the ACL does not contain
	Payload int    `json:"payload"`       // payload variant
	Mut     string `json:"mut,omitempty"` // mutation applied to the valid envelope
	Arg     int    `json:"arg,omitempty"`
}

type envelope struct {
	KeyPeerId string
	Value     []byte
	PeerSig   []byte
	IdSig     []byte
}

func (e envelope) proto() *spacesyncproto.StoreKeyValue {
	return &spacesyncproto.StoreKeyValue{
		KeyPeerId:         e.KeyPeerId,
		Value:             append([]byte(nil), e.Value...),
		PeerSignature:     append([]byte(nil), e.PeerSig...),
		IdentitySignature: append([]byte(nil), e.IdSig...),
	}
}

func keyName(k int) string { return fmt.Sprintf("k%d", k) }

func must[T any](v T, err error) T {
	if err != nil {
		panic(err)
	}
	return v
}

var mutations = []string{
	"relabel_key",    // KeyPeerId names another key of the same device
	"relabel_dev",    // KeyPeerId names the same key of another device
	"relabel_free",   // KeyPeerId is an arbitrary string
	"relabel_prefix", // KeyPeerId is a prefix-extension of the right one
	"devsig_flip", "accsig_flip", // one bit of a signature flipped
	"devsig_other", "accsig_other", // signed by a different key than the one named inside
	"swap_sigs",    // the two signatures exchanged
	"value_flip",   // one byte of the signed bytes flipped (Arg = position)
	"value_trunc",  // signed bytes truncated (Arg = how many bytes dropped)
	"value_append", // a byte appended to the signed bytes
	"empty_sig",    // device signature empty
	"resign_ts",    // inner re-encoded with another timestamp but the OLD signatures
	"bad_peer_key", // inner.Peer is not a key
}

func (w *world) build(s valSpec) envelope {
	a := w.accts[s.Acct]
	dev := a.devs[s.Dev]
	mk := func(ts int64, peer []byte) []byte {
		rec := "bafyreiunknownrecordidunknownrecordidunknownrecordid00000000"
		if s.Rec >= 0 {
			rec = w.recIds[s.Rec]
		}
		inner := spacesyncproto.StoreKeyInner{
			Peer:           peer,
			Identity:       must(a.keys.SignKey.GetPublic().Marshall()),
			Value:          []byte(fmt.Sprintf("payload-%d", s.Payload)),
			TimestampMicro: ts,
			AclHeadId:      rec,
			Key:            keyName(s.Key),
		}
		return must(inner.MarshalVT())
	}
	peerProto := must(dev.GetPublic().Marshall())
	val := mk(s.Ts, peerProto)
	e := envelope{
		KeyPeerId: keyName(s.Key) + "-" + dev.GetPublic().PeerId(),
		Value:     val,
		PeerSig:   must(dev.Sign(val)),
		IdSig:     must(a.keys.SignKey.Sign(val)),
	}
	otherDev := w.accts[(s.Acct+1)%len(w.accts)].devs[s.Dev]
	switch s.Mut {
	case "":
	case "relabel_key":
		e.KeyPeerId = keyName(s.Key+1+s.Arg%3) + "-" + dev.GetPublic().PeerId()
	case "relabel_dev":
		e.KeyPeerId = keyName(s.Key) + "-" + otherDev.GetPublic().PeerId()
	case "relabel_free":
		e.KeyPeerId = fmt.Sprintf("forged-slot-%d", s.Arg%3)
	case "relabel_prefix":
		e.KeyPeerId = e.KeyPeerId + "x"
	case "devsig_flip":
		e.PeerSig[s.Arg%len(e.PeerSig)] ^= 1 << uint(s.Arg%8)
	case "accsig_flip":
		e.IdSig[s.Arg%len(e.IdSig)] ^= 1 << uint(s.Arg%8)
	case "devsig_other":
		e.PeerSig = must(otherDev.Sign(val))
	case "accsig_other":
		e.IdSig = must(w.accts[(s.Acct+1)%len(w.accts)].keys.SignKey.Sign(val))
	case "swap_sigs":
		e.PeerSig, e.IdSig = e.IdSig, e.PeerSig
	case "value_flip":
		e.Value = append([]byte(nil), e.Value...)
		e.Value[s.Arg%len(e.Value)] ^= 1 << uint((s.Arg/7)%8)
	case "value_trunc":
		e.Value = e.Value[:len(e.Value)-1-s.Arg%(len(e.Value)-1)]
	case "value_append":
		e.Value = append(append([]byte(nil), e.Value...), byte(s.Arg))
	case "empty_sig":
		e.PeerSig = nil
	case "resign_ts":
		e.Value = mk(s.Ts+1000+int64(s.Arg), peerProto)
	case "bad_peer_key":
		e.Value = mk(s.Ts, []byte{1, 2, 3})
		e.PeerSig = must(dev.Sign(e.Value))
		e.IdSig = must(a.keys.SignKey.Sign(e.Value))
	default:
		panic("unknown mutation " + s.Mut)
	}
	return e
}

// mval: the model's view of an envelope, computed from primitives only.
type mval struct {
	Id, Env, Signed                uint64
	Ts                             int64
	Decodes, Dev, Acc, Known, Write bool
}

func (m mval) valid() bool {
	return m.Decodes && m.Dev && m.Acc && m.Env == m.Signed && m.Known && m.Write
}

func (m mval) term() string {
	return vlib.App("mkValue", vlib.N(m.Id), vlib.N(m.Env), vlib.N(m.Signed), vlib.Z(m.Ts),
		vlib.Bool(m.Decodes), vlib.Bool(m.Dev), vlib.Bool(m.Acc), vlib.Bool(m.Known), vlib.Bool(m.Write))
}

// tables of one case: slot strings and envelope byte triples
type tables struct {
	slots map[string]uint64
	ids   map[string]uint64
}

func newTables() *tables { return &tables{slots: map[string]uint64{}, ids: map[string]uint64{}} }

func (t *tables) slot(s string) uint64 {
	if v, ok := t.slots[s]; ok {
		return v
	}
	v := uint64(len(t.slots) + 1)
	t.slots[s] = v
	return v
}

func tripleKey(v, p, i []byte) string {
	return fmt.Sprintf("%d:%x|%d:%x|%d:%x", len(v), v, len(p), p, len(i), i)
}

func (t *tables) id(v, p, i []byte) uint64 {
	k := tripleKey(v, p, i)
	if x, ok := t.ids[k]; ok {
		return x
	}
	x := uint64(len(t.ids) + 1)
	t.ids[k] = x
	return x
}

func verifyRaw(pk crypto.PubKey, msg, sig []byte) bool {
	raw, err := pk.Raw()
	if err != nil || len(raw) != ed25519.PublicKeySize {
		return false
	}
	return ed25519.Verify(ed25519.PublicKey(raw), msg, sig)
}

// classify computes the model value of an envelope from primitives: the protobuf decoder, ed25519.Verify,
// the ACL record list and the script-derived permission table.
func (w *world) classify(t *tables, e envelope) mval {
	m := mval{Id: t.id(e.Value, e.PeerSig, e.IdSig), Env: t.slot(e.KeyPeerId)}
	inner := &spacesyncproto.StoreKeyInner{}
	if err := inner.UnmarshalVT(e.Value); err != nil {
		return m
	}
	identity, err := crypto.UnmarshalEd25519PublicKeyProto(inner.Identity)
	if err != nil {
		return m
	}
	peer, err := crypto.UnmarshalEd25519PublicKeyProto(inner.Peer)
	if err != nil {
		return m
	}
	m.Decodes = true
	m.Ts = inner.TimestampMicro
	m.Signed = t.slot(inner.Key + "-" + peer.PeerId())
	m.Dev = verifyRaw(peer, e.Value, e.PeerSig)
	m.Acc = verifyRaw(identity, e.Value, e.IdSig)
	ri, known := w.recOf[inner.AclHeadId]
	m.Known = known
	if ai, ok := w.acctOf[identity.Account()]; ok && known {
		m.Write = canWriteTable(ai, ri)
	}
	return m
}

// ------------------------------------------------------------------------------------------------ fault injection

var errInjected = errors.New("injected storage fault")

type faultCtl struct {
	mode    string // "", "upsert", "head", "commit"
	k       int
	upserts int
	fired   bool
}

type fDB struct {
	anystore.DB
	ctl *faultCtl
}

func (d *fDB) Collection(c context.Context, name string) (anystore.Collection, error) {
	coll, err := d.DB.Collection(c, name)
	if err != nil {
		return nil, err
	}
	return &fColl{Collection: coll, ctl: d.ctl}, nil
}

type fColl struct {
	anystore.Collection
	ctl *faultCtl
}

func (c *fColl) UpsertOne(cx context.Context, doc *anyenc.Value) error {
	if c.ctl.mode == "upsert" {
		n := c.ctl.upserts
		c.ctl.upserts++
		if n == c.ctl.k {
			c.ctl.fired = true
			return errInjected
		}
	}
	return c.Collection.UpsertOne(cx, doc)
}

func (c *fColl) WriteTx(cx context.Context) (anystore.WriteTx, error) {
	tx, err := c.Collection.WriteTx(cx)
	if err != nil {
		return nil, err
	}
	if c.ctl.mode == "commit" {
		return &fTx{WriteTx: tx, ctl: c.ctl}, nil
	}
	return tx, nil
}

type fTx struct {
	anystore.WriteTx
	ctl *faultCtl
}

func (t *fTx) Commit() error {
	t.ctl.fired = true
	_ = t.WriteTx.Rollback()
	return errInjected
}

type fHeads struct {
	headstorage.HeadStorage
	ctl *faultCtl
}

func (h *fHeads) UpdateEntry(c context.Context, u headstorage.HeadsUpdate) error {
	if h.ctl.mode == "head" {
		h.ctl.fired = true
		return errInjected
	}
	return h.HeadStorage.UpdateEntry(c, u)
}

// ------------------------------------------------------------------------------------------------ stores

type capClient struct{ last []innerstorage.KeyValue }

func (c *capClient) Broadcast(_ context.Context, _ string, kvs ...innerstorage.KeyValue) error {
	c.last = append(c.last[:0], kvs...)
	return nil
}

type storeH struct {
	id    string
	st    keyvaluestorage.Storage
	heads headstorage.HeadStorage
	ctl   *faultCtl
	bc    *capClient
	db    anystore.DB
}

type dbs struct {
	db    [2]anystore.DB
	heads [2]headstorage.HeadStorage
	n     int
}

func openDBs(dir string) *dbs {
	d := &dbs{}
	for i := 0; i < 2; i++ {
		db, err := anystore.Open(ctx, filepath.Join(dir, fmt.Sprintf("store%d.db", i)), nil)
		if err != nil {
			panic(err)
		}
		d.db[i] = db
		d.heads[i] = must(headstorage.New(ctx, db))
	}
	return d
}

func (d *dbs) newStore(w *world, side, acct int) *storeH {
	d.n++
	id := fmt.Sprintf("kv.%d.%d", side, d.n)
	ctl := &faultCtl{}
	bc := &capClient{}
	a := w.accts[acct]
	heads := &fHeads{HeadStorage: d.heads[side], ctl: ctl}
	st, err := keyvaluestorage.New(ctx, id, &fDB{DB: d.db[side], ctl: ctl}, heads, a.keys, bc, a.acl, keyvaluestorage.NoOpIndexer{})
	if err != nil {
		panic(err)
	}
	if err := st.Prepare(); err != nil {
		panic(err)
	}
	return &storeH{id: id, st: st, heads: d.heads[side], ctl: ctl, bc: bc, db: d.db[side]}
}

func (s *storeH) drop() {
	if c, err := s.db.Collection(ctx, s.id); err == nil {
		_ = c.Drop(ctx)
	}
	_ = s.heads.DeleteEntry(ctx, s.id)
}

type obsEntry struct {
	Slot uint64
	Ts   int64
	Id   uint64
}
type obsT struct {
	Contents []obsEntry
	Index    [][2]uint64
	HashOk   bool
	Ok       bool
}

func (s *storeH) observe(t *tables, ok bool) obsT {
	o := obsT{Ok: ok}
	err := s.st.Iterate(ctx, func(_ keyvaluestorage.Decryptor, key string, values []innerstorage.KeyValue) (bool, error) {
		for _, kv := range values {
			o.Contents = append(o.Contents, obsEntry{Slot: t.slot(kv.KeyPeerId), Ts: kv.TimestampMicro,
				Id: t.id(kv.Value.Value, kv.Value.PeerSignature, kv.Value.IdentitySignature)})
		}
		return true, nil
	})
	if err != nil {
		panic(err)
	}
	sort.Slice(o.Contents, func(i, j int) bool { return o.Contents[i].Slot < o.Contents[j].Slot })
	els := s.st.InnerStorage().Diff().Elements()
	fresh := ldiff.New(32, 256)
	fresh.Set(els...)
	for _, el := range els {
		h := uint64(1<<64 - 1)
		if len(el.Head) == 8 {
			h = binary.BigEndian.Uint64([]byte(el.Head))
		}
		o.Index = append(o.Index, [2]uint64{t.slot(el.Id), h})
	}
	sort.Slice(o.Index, func(i, j int) bool { return o.Index[i][0] < o.Index[j][0] })
	hash := s.st.InnerStorage().Diff().Hash()
	o.HashOk = hash == fresh.Hash()
	if ent, err := s.heads.GetEntry(ctx, s.id); err != nil || len(ent.Heads) != 1 || ent.Heads[0] != hash {
		o.HashOk = false
	}
	return o
}

func (o obsT) term() string {
	cs := make([]string, len(o.Contents))
	for i, e := range o.Contents {
		cs[i] = "(" + vlib.N(e.Slot) + ", " + vlib.Z(e.Ts) + ", " + vlib.N(e.Id) + ")"
	}
	is := make([]string, len(o.Index))
	for i, e := range o.Index {
		is[i] = vlib.Pair(vlib.N(e[0]), vlib.N(e[1]))
	}
	return vlib.App("mkObs", vlib.List(cs), vlib.List(is), vlib.Bool(o.HashOk), vlib.Bool(o.Ok))
}

// ------------------------------------------------------------------------------------------------ operations

type opSpec struct {
	Kind    string    `json:"kind"` // raw | local | sync (re-enacted on the two local diffs) | rsync (the real service over DRPC)
	Who     int       `json:"who"`  // 0 = store A, 1 = store B
	Fault   string    `json:"fault,omitempty"`
	FaultK  int       `json:"fault_k,omitempty"`
	Batch   []valSpec `json:"batch,omitempty"`
	Fill    *fillSpec `json:"fill,omitempty"` // raw: the batch is expandFill(*Fill) (large stores)
	Key     int       `json:"key,omitempty"`
	Payload int       `json:"payload,omitempty"`
}

type caseDesc struct {
	Gen   string   `json:"gen"`
	BAcct int      `json:"b_acct"` // account running store B (store A is run by a)
	Ops   []opSpec `json:"ops"`
	Obs   string   `json:"observed,omitempty"`
}

func faultTerm(f string, k int) string {
	switch f {
	case "upsert":
		return vlib.App("FUpsert", vlib.Nat(k))
	case "head":
		return "FHead"
	case "commit":
		return "FCommit"
	}
	return "FNone"
}

func whoTerm(w int) string { return vlib.Bool(w == 1) }

// syncExchange: what syncWithPeer + HandleStoreElementsRequest do, driven by the real CompareDiff of the
// initiator against the responder's real diff (the DRPC stream itself is not exercised here).
func syncExchange(a, b *storeH) error {
	newIds, changed, theirChanged, removed, err := a.st.InnerStorage().Diff().CompareDiff(ctx, b.st.InnerStorage().Diff())
	if err != nil {
		return err
	}
	var push, pull []*spacesyncproto.StoreKeyValue
	for _, id := range append(removed, changed...) {
		kv, err := a.st.InnerStorage().GetKeyPeerId(ctx, id)
		if err != nil {
			return err
		}
		push = append(push, kv.Proto())
	}
	for _, id := range append(theirChanged, newIds...) {
		kv, err := b.st.InnerStorage().GetKeyPeerId(ctx, id)
		if err != nil {
			continue
		}
		pull = append(pull, kv.Proto())
	}
	if err := b.st.SetRaw(ctx, push...); err != nil {
		return err
	}
	return a.st.SetRaw(ctx, pull...)
}

type runner struct {
	w       *world
	d       *dbs
	out     *vlib.Writer
	samples []interface{}
	net     *netH
	finish  func(rule string, extra map[string]interface{})
}

func (r *runner) runCase(cd caseDesc) {
	t := newTables()
	stores := [2]*storeH{r.d.newStore(r.w, 0, 0), r.d.newStore(r.w, 1, cd.BAcct)}
	defer stores[0].drop()
	defer stores[1].drop()
	var steps []string
	var svcs [2]*keyvalue.VerifService
	delivered, nvalid, nmut, nfault, nsync, nlocal := 0, 0, 0, 0, 0, 0
	maxBatch := 0
	timing := os.Getenv("C12_TIMING") != ""
	for _, op := range cd.Ops {
		t0 := time.Now()
		s := stores[op.Who]
		if op.Kind == "raw" && op.Fill != nil {
			op.Batch = expandFill(*op.Fill)
		}
		if len(op.Batch) > maxBatch {
			maxBatch = len(op.Batch)
		}
		*s.ctl = faultCtl{mode: op.Fault, k: op.FaultK}
		var opTerm string
		ok := true
		switch op.Kind {
		case "raw":
			protos := make([]*spacesyncproto.StoreKeyValue, 0, len(op.Batch))
			vals := make([]string, 0, len(op.Batch))
			for _, vs := range op.Batch {
				e := r.w.build(vs)
				m := r.w.classify(t, e)
				protos = append(protos, e.proto())
				vals = append(vals, m.term())
				delivered++
				if m.valid() {
					nvalid++
				}
				if vs.Mut != "" {
					nmut++
					r.out.Stat("mut_" + vs.Mut)
				}
				if !m.valid() {
					r.out.Stat("invalid_value")
				} else {
					r.out.Stat("valid_value")
				}
			}
			err := s.st.SetRaw(ctx, protos...)
			ok = err == nil
			opTerm = vlib.App("OpRaw", whoTerm(op.Who), faultTerm(op.Fault, op.FaultK), vlib.List(vals))
			if len(op.Batch) < 10 {
				r.out.Stat(fmt.Sprintf("batch_len_%d", len(op.Batch)))
			} else {
				r.out.Stat(fmt.Sprintf("batch_len_%d00s", len(op.Batch)/100))
			}
		case "local":
			s.bc.last = nil
			err := s.st.Set(ctx, keyName(op.Key), []byte(fmt.Sprintf("local-%d", op.Payload)))
			ok = err == nil
			var m mval
			if len(s.bc.last) == 1 {
				kv := s.bc.last[0]
				m = r.w.classify(t, envelope{KeyPeerId: kv.KeyPeerId, Value: kv.Value.Value, PeerSig: kv.Value.PeerSignature, IdSig: kv.Value.IdentitySignature})
			} else if err != nil && errors.Is(err, list.ErrInsufficientPermissions) {
				// nothing was built: the model value only carries "no write permission"
				sl := t.slot(keyName(op.Key) + "-" + r.w.accts[map[int]int{0: 0, 1: cd.BAcct}[op.Who]].keys.PeerKey.GetPublic().PeerId())
				m = mval{Id: 0, Env: sl, Signed: sl, Decodes: true, Dev: true, Acc: true, Known: true, Write: false}
				r.out.Stat("local_no_permission")
			} else {
				// failed before Broadcast (injected fault): rebuild what the store would have signed is impossible
				// (timestamp unknown); the value is not stored anywhere, so a placeholder with a fresh id is exact
				// for the model as long as the call failed.
				sl := t.slot(keyName(op.Key) + "-" + r.w.accts[map[int]int{0: 0, 1: cd.BAcct}[op.Who]].keys.PeerKey.GetPublic().PeerId())
				m = mval{Id: 0, Env: sl, Signed: sl, Ts: 1 << 52, Decodes: true, Dev: true, Acc: true, Known: true, Write: true}
			}
			opTerm = vlib.App("OpLocal", whoTerm(op.Who), faultTerm(op.Fault, op.FaultK), m.term())
			delivered++
			nlocal++
		case "sync":
			if err := syncExchange(stores[op.Who], stores[1-op.Who]); err != nil {
				ok = false
			}
			opTerm = vlib.App("OpSync", whoTerm(op.Who))
			nsync++
		case "rsync":
			if svcs[0] == nil {
				for i := range svcs {
					svcs[i] = keyvalue.VerifNewService(ctx, verifSpaceId, stores[i].id, stores[i].st)
				}
			}
			err, hang := r.net.realSync(svcs, op.Who)
			if hang {
				// the model cannot express a hang: report directly and stop (a store mutex may be held for ever)
				idx := r.out.Add("CRun []", cd, fmt.Sprintf("hang-%d", r.out.Count()), true)
				r.out.Violation(idx, "sync-hang", fmt.Sprintf("real sync exchange (side %d initiating) did not return within %s", op.Who, syncTimeout), cd)
				r.finish("stopped after a hanging sync exchange", nil)
				os.Exit(0)
			}
			if err != nil {
				ok = false
				r.out.Stat("rsync_error")
				if os.Getenv("C12_TIMING") != "" {
					fmt.Fprintf(os.Stderr, "rsync error: %v\n", err)
				}
			}
			opTerm = vlib.App("OpSyncStream", whoTerm(op.Who), vlib.Nat(keyvalue.VerifApplyBatchSize))
			nsync++
			r.out.Stat("rsync")
		default:
			panic("bad op kind " + op.Kind)
		}
		if op.Fault != "" {
			nfault++
			if s.ctl.fired {
				r.out.Stat("fault_fired_" + op.Fault)
			} else {
				r.out.Stat("fault_not_reached_" + op.Fault)
			}
		}
		*s.ctl = faultCtl{}
		t1 := time.Now()
		oa, ob := stores[0].observe(t, ok), stores[1].observe(t, ok)
		if timing {
			ma, mb := map[uint64]int64{}, map[uint64]int64{}
			for _, e := range oa.Contents {
				ma[e.Slot] = e.Ts
			}
			for _, e := range ob.Contents {
				mb[e.Slot] = e.Ts
			}
			onlyA, onlyB, differ := 0, 0, 0
			for k, v := range ma {
				if w, ok := mb[k]; !ok {
					onlyA++
				} else if w != v {
					differ++
				}
			}
			for k := range mb {
				if _, ok := ma[k]; !ok {
					onlyB++
				}
			}
			fmt.Fprintf(os.Stderr, "  sizes A=%d B=%d onlyA=%d onlyB=%d differ=%d ok=%v hashok A=%v B=%v idx A=%d B=%d\n", len(ma), len(mb), onlyA, onlyB, differ, ok, oa.HashOk, ob.HashOk, len(oa.Index), len(ob.Index))
			fmt.Fprintf(os.Stderr, "timing %s n=%d op=%v observe=%v\n", op.Kind, len(op.Batch), t1.Sub(t0), time.Since(t1))
		}
		steps = append(steps, "("+opTerm+", "+oa.term()+", "+ob.term()+")")
		if !ok {
			r.out.Stat("op_error")
		}
	}
	term := vlib.App("CRun", vlib.List(steps))
	cd.Obs = ""
	key, _ := json.Marshal(cd)
	nt := delivered >= 2 || nmut > 0 || nfault > 0 || nsync > 0
	full := cd
	if len(term) < 4000 {
		full.Obs = term
	}
	r.out.Add(term, full, string(key), nt)
	r.out.Stat("gen_" + cd.Gen)
	r.out.Stat(fmt.Sprintf("ops_%d", len(cd.Ops)))
	if len(r.samples) < 4 && (nmut > 0 || nsync > 0 || nfault > 0) && len(cd.Ops) >= 2 && len(term) < 4000 {
		r.samples = append(r.samples, full)
	}
	_ = nvalid
	_ = nlocal
}

// ------------------------------------------------------------------------------------------------ generators

func permutations(n int) [][]int {
	var res [][]int
	p := make([]int, n)
	for i := range p {
		p[i] = i
	}
	var rec func(k int)
	rec = func(k int) {
		if k == n {
			res = append(res, append([]int(nil), p...))
			return
		}
		for i := k; i < n; i++ {
			p[k], p[i] = p[i], p[k]
			rec(k + 1)
			p[k], p[i] = p[i], p[k]
		}
	}
	rec(0)
	return res
}

// batchings of a sequence: every composition (cut mask)
func batchings(seq []valSpec, mask int) [][]valSpec {
	var res [][]valSpec
	cur := []valSpec{seq[0]}
	for i := 1; i < len(seq); i++ {
		if mask&(1<<(i-1)) != 0 {
			res = append(res, cur)
			cur = nil
		}
		cur = append(cur, seq[i])
	}
	return append(res, cur)
}

func randValid(r *vlib.Rand, nKeys int) valSpec {
	// a valid value: (account, record) pair with write permission
	pairs := [][2]int{{0, 0}, {0, 3}, {0, 8}, {1, 3}, {1, 5}, {1, 8}, {3, 7}}
	p := pairs[r.Intn(len(pairs))]
	return valSpec{Acct: p[0], Dev: r.Intn(2), Key: r.Intn(nKeys), Rec: p[1], Payload: r.Intn(1000)}
}

func validRecFor(r *vlib.Rand, acct int) int {
	switch acct {
	case 0:
		return []int{0, 3, 8}[r.Intn(3)]
	case 1:
		return []int{3, 5, 8}[r.Intn(3)]
	}
	return 7
}

func randInvalidAcl(r *vlib.Rand, nKeys int) valSpec {
	// correctly signed, but the account cannot write at the cited record / the record is unknown
	pairs := [][2]int{{2, 5}, {2, 8}, {3, 6}, {3, 8}, {4, 8}, {4, 0}, {1, 2}, {1, 0}, {0, -1}, {1, -1}, {2, -1}}
	p := pairs[r.Intn(len(pairs))]
	return valSpec{Acct: p[0], Dev: r.Intn(2), Key: r.Intn(nKeys), Rec: p[1], Payload: r.Intn(1000)}
}

func randTs(r *vlib.Rand) int64 {
	switch r.Intn(10) {
	case 0:
		return int64(r.Intn(3)) // 0,1,2
	case 1:
		return (1 << 53) - 1 - int64(r.Intn(3)) // just below 2^53
	case 2:
		return 3_000_000_000_000_000 + int64(r.Intn(1000)) // later than any local Set (time.Now ~ 1.8e15)
	default:
		return 1000 + int64(r.Intn(40))
	}
}

// distinct timestamps per slot (the property's domain); values of different slots may share one
func fixDistinct(vs []valSpec) {
	seen := map[string]bool{}
	for i := range vs {
		for {
			k := fmt.Sprintf("%d/%d/%d/%d", vs[i].Acct, vs[i].Dev, vs[i].Key, vs[i].Ts)
			if !seen[k] {
				seen[k] = true
				break
			}
			vs[i].Ts++
		}
	}
}

func main() {
	o := vlib.ParseFlags()
	vlib.Quiet()
	work := filepath.Join("/verif/.work/C12", fmt.Sprintf("db-%d", os.Getpid()))
	_ = os.MkdirAll(work, 0o755)
	defer os.RemoveAll(work)
	w := buildWorld()
	d := openDBs(work)
	out := vlib.NewWriter(o.Out, "C12_run", 400)
	r := &runner{w: w, d: d, out: out, net: newNet()}
	finish := func(rule string, extra map[string]interface{}) {
		out.Finish(rule, r.samples, extra)
		for _, db := range d.db {
			_ = db.Close()
		}
		os.RemoveAll(work)
	}
	r.finish = finish

	if o.Replay != "" {
		for _, raw := range vlib.ReadReplay(o.Replay) {
			var cd caseDesc
			if json.Unmarshal(raw, &cd) != nil || len(cd.Ops) == 0 {
				continue
			}
			r.runCase(cd)
		}
		finish("replay", nil)
		return
	}

	rng := vlib.NewRand(o.Seed)
	thorough := o.Tier == "thorough"
	// -budget multiplies the generated cases; capped at 4 so that the violation search of bin/check (budgets 4, 8, 12,
	// each with its own seed) stays within minutes
	if o.Budget > 4 {
		o.Budget = 4
	}
	scale := 3 * o.Budget
	if thorough {
		scale *= 5
	}

	// (7) LARGE stores, one REAL sync exchange (emitted in groups between the other families so that the big case
	// terms spread over the Coq shards): both sides are filled with one big raw batch each (a common base plus
	// scattered differences: own-only slots and newer values on either side), then one side runs the real
	// syncWithPeer against the other; a second exchange in the opposite direction must then be a no-op.
	// Shapes: 0 = small initiator / large responder with nothing in common, 1 = large common base with FEW scattered
	// differences, 2 = medium, 3 = large with many differences, 4 = responder below the ldiff compare threshold of 256
	// with an initiator at / above it, 5 = random.
	bigRng := rng.Fork(7)
	nBig := 0
	bigCase := func() {
		shape := nBig % 6
		nBig++
		f := fillSpec{Seed: bigRng.U64() >> 1}
		who := bigRng.Intn(2)
		rnd := func(lo, hi int) int { return lo + bigRng.Intn(hi-lo+1) }
		// quick tier: just above the compare threshold of ldiff.New(32, 256) (the Coq evaluation of spec_C12 is quadratic
		// in the store size); thorough tier: up to ~1000 slots
		big := func(lo, hi, hiThorough int) int {
			if thorough {
				return rnd(lo, hiThorough)
			}
			return rnd(lo, hi)
		}
		switch shape {
		case 0:
			f.NOwn[who] = rnd(1, 3)
			f.NOwn[1-who] = big(260, 330, 600)
		case 1:
			f.NCommon = big(260, 340, 800)
			f.NOwn = [2]int{rnd(0, 4), rnd(0, 4)}
			f.NNewer = [2]int{rnd(1, 4), rnd(1, 4)}
		case 2:
			f.NCommon = big(258, 320, 500)
			f.NOwn = [2]int{rnd(10, 40), rnd(10, 40)}
			f.NNewer = [2]int{rnd(5, 30), rnd(5, 30)}
		case 3:
			f.NCommon = big(300, 380, 700)
			f.NOwn = [2]int{big(30, 70, 150), big(30, 70, 150)}
			f.NNewer = [2]int{rnd(10, 40), rnd(10, 40)}
		case 4:
			f.NCommon = rnd(100, 200)
			f.NOwn[who] = big(60, 150, 400)
			f.NOwn[1-who] = rnd(0, 40)
			f.NNewer = [2]int{rnd(0, 10), rnd(0, 10)}
		default:
			f.NCommon = big(0, 300, 600)
			f.NOwn = [2]int{big(0, 150, 300), big(0, 150, 300)}
			f.NNewer = [2]int{rnd(0, f.NCommon/3), rnd(0, f.NCommon/3)}
		}
		fa, fb := f, f
		fa.Side, fb.Side = 0, 1
		ops := []opSpec{{Kind: "raw", Who: 0, Fill: &fa}, {Kind: "raw", Who: 1, Fill: &fb}}
		if bigRng.Bool() {
			ops[0], ops[1] = ops[1], ops[0]
		}
		ops = append(ops, opSpec{Kind: "rsync", Who: who})
		if bigRng.Chance(1, 3) {
			ops = append(ops, opSpec{Kind: "rsync", Who: 1 - who})
		}
		r.out.Stat(fmt.Sprintf("big_shape_%d", shape))
		r.runCase(caseDesc{Gen: "big_sync", BAcct: 1, Ops: ops})
	}
	bigPerGroup := 2 * o.Budget
	if thorough {
		bigPerGroup = 8 * o.Budget
	}
	bigGroup := func() {
		for i := 0; i < bigPerGroup; i++ {
			bigCase()
		}
	}
	bigGroup()

	// (1) exhaustive arrival orders x batchings of small multisets -------------------------------------------
	maxN := 3
	nMultisets := 14 * o.Budget
	if thorough {
		maxN = 4
		nMultisets = 16 * o.Budget
	}
	exhaustive := 0
	for ms := 0; ms < nMultisets; ms++ {
		n := 2 + ms%(maxN-1)
		if thorough && ms == 0 {
			n = 5
		}
		vs := make([]valSpec, n)
		// two writer slots so that values collide; each value picks one (sometimes an unrelated one)
		slotPool := []valSpec{randValid(rng, 2), randValid(rng, 2)}
		for i := range vs {
			sl := slotPool[rng.Intn(2)]
			vs[i] = valSpec{Acct: sl.Acct, Dev: sl.Dev, Key: sl.Key, Rec: validRecFor(rng, sl.Acct), Payload: rng.Intn(1000)}
			if rng.Chance(1, 6) {
				vs[i] = randInvalidAcl(rng, 2)
			}
			if rng.Chance(1, 8) {
				vs[i].Mut = mutations[rng.Intn(len(mutations))]
				vs[i].Arg = rng.Intn(64)
			}
			vs[i].Ts = randTs(rng)
		}
		fixDistinct(vs)
		for _, p := range permutations(n) {
			seq := make([]valSpec, n)
			for i, j := range p {
				seq[i] = vs[j]
			}
			for mask := 0; mask < 1<<(n-1); mask++ {
				var ops []opSpec
				for _, b := range batchings(seq, mask) {
					ops = append(ops, opSpec{Kind: "raw", Batch: b})
				}
				r.runCase(caseDesc{Gen: "orders", Ops: ops})
				exhaustive++
			}
		}
		// repetition: the whole multiset delivered twice in two different orders
		ps := permutations(n)
		for k := 0; k < 3; k++ {
			p1, p2 := ps[rng.Intn(len(ps))], ps[rng.Intn(len(ps))]
			var b1, b2 []valSpec
			for i := range p1 {
				b1 = append(b1, vs[p1[i]])
				b2 = append(b2, vs[p2[i]])
			}
			r.runCase(caseDesc{Gen: "repeat", Ops: []opSpec{{Kind: "raw", Batch: b1}, {Kind: "raw", Batch: b2[:1+rng.Intn(n)]}, {Kind: "raw", Batch: b2}}})
		}
	}

	// (2) every mutation of a valid value, alone / after its original / before its original -------------------
	for rep := 0; rep < 1*scale; rep++ {
		for _, mut := range mutations {
			base := randValid(rng, 2)
			base.Ts = 1000 + int64(rng.Intn(50))
			m := base
			m.Mut = mut
			m.Arg = rng.Intn(200)
			older := base
			older.Ts = base.Ts - 10
			older.Payload++
			r.runCase(caseDesc{Gen: "mutation", Ops: []opSpec{{Kind: "raw", Batch: []valSpec{m}}}})
			r.runCase(caseDesc{Gen: "mutation", Ops: []opSpec{{Kind: "raw", Batch: []valSpec{older}}, {Kind: "raw", Batch: []valSpec{m, base}}}})
			r.runCase(caseDesc{Gen: "mutation", Ops: []opSpec{{Kind: "raw", Batch: []valSpec{base, m}}, {Kind: "raw", Batch: []valSpec{m}}}})
		}
		// value_flip at every byte position of one value (thorough) / a sample (quick)
		base := randValid(rng, 2)
		base.Ts = 2000
		e := w.build(base)
		stepPos := 5
		if thorough {
			stepPos = 1
		}
		for pos := rep % stepPos; pos < len(e.Value); pos += stepPos {
			m := base
			m.Mut = "value_flip"
			m.Arg = pos + 7*len(e.Value)*rng.Intn(8)
			r.runCase(caseDesc{Gen: "byteflip", Ops: []opSpec{{Kind: "raw", Batch: []valSpec{m, base}}}})
		}
	}

	// (3) permission / cited-record matrix: every (account, record) pair, correctly signed ----------------------
	for acct := 0; acct < 5; acct++ {
		for rec := -1; rec < nRecords; rec++ {
			v := valSpec{Acct: acct, Dev: rng.Intn(2), Key: 0, Ts: 1000, Rec: rec, Payload: acct*100 + rec}
			r.runCase(caseDesc{Gen: "acl_matrix", Ops: []opSpec{{Kind: "raw", Batch: []valSpec{v}}}})
		}
	}

	bigGroup()

	// (4) faults around a write -----------------------------------------------------------------------------------
	for rep := 0; rep < 12*scale; rep++ {
		n := 1 + rng.Intn(4)
		pre := make([]valSpec, 1+rng.Intn(3))
		for i := range pre {
			pre[i] = randValid(rng, 2)
			pre[i].Dev = 0
			pre[i].Ts = randTs(rng)
		}
		fixDistinct(pre)
		batch := make([]valSpec, n)
		for i := range batch {
			batch[i] = randValid(rng, 2)
			batch[i].Dev = 0
			batch[i].Ts = randTs(rng)
			if rng.Chance(1, 5) {
				batch[i] = pre[rng.Intn(len(pre))] // repetition
			}
		}
		fixDistinct(batch)
		if rng.Chance(1, 3) {
			// the very same envelope twice in one batch (second one must be skipped by the >= comparison)
			batch = append(batch, batch[rng.Intn(len(batch))])
		}
		for _, f := range []opSpec{{Fault: "head"}, {Fault: "commit"}, {Fault: "upsert", FaultK: 0}, {Fault: "upsert", FaultK: 1}, {Fault: "upsert", FaultK: 2}} {
			faulty := opSpec{Kind: "raw", Fault: f.Fault, FaultK: f.FaultK, Batch: batch}
			ops := []opSpec{{Kind: "raw", Batch: pre}, faulty, {Kind: "raw", Batch: batch}}
			if rng.Chance(1, 3) {
				ops = []opSpec{faulty, {Kind: "raw", Batch: pre}, faulty, {Kind: "raw", Batch: batch}}
			}
			r.runCase(caseDesc{Gen: "fault", Ops: ops})
		}
		lf := []string{"head", "commit", "upsert"}[rng.Intn(3)]
		r.runCase(caseDesc{Gen: "fault_local", Ops: []opSpec{{Kind: "raw", Batch: pre}, {Kind: "local", Key: rng.Intn(2), Fault: lf, Payload: rep}, {Kind: "local", Key: rng.Intn(2), Payload: rep + 1}}})
	}

	// (5) two stores: raw / local on both sides, sync exchanges in both directions --------------------------------
	for rep := 0; rep < 40*scale; rep++ {
		bAcct := 1
		if rng.Chance(1, 5) {
			bAcct = 2 // store B run by a reader: its local Set must be refused
		}
		var ops []opSpec
		nOps := 3 + rng.Intn(5)
		var pool []valSpec
		for i := 0; i < 6; i++ {
			v := randValid(rng, 3)
			if rng.Chance(1, 6) {
				v = randInvalidAcl(rng, 3)
			}
			v.Dev = rng.Intn(2) * rng.Intn(2)
			v.Ts = randTs(rng)
			if rng.Chance(1, 8) {
				v.Mut = mutations[rng.Intn(len(mutations))]
				v.Arg = rng.Intn(64)
			}
			pool = append(pool, v)
		}
		fixDistinct(pool)
		for i := 0; i < nOps; i++ {
			switch rng.Intn(6) {
			case 0:
				ops = append(ops, opSpec{Kind: []string{"sync", "rsync"}[rng.Intn(2)], Who: rng.Intn(2)})
			case 1:
				ops = append(ops, opSpec{Kind: "local", Who: rng.Intn(2), Key: rng.Intn(3), Payload: i})
			default:
				k := 1 + rng.Intn(3)
				var b []valSpec
				for j := 0; j < k; j++ {
					b = append(b, pool[rng.Intn(len(pool))])
				}
				op := opSpec{Kind: "raw", Who: rng.Intn(2), Batch: b}
				if rng.Chance(1, 10) {
					op.Fault = []string{"head", "commit", "upsert"}[rng.Intn(3)]
				}
				ops = append(ops, op)
			}
		}
		ops = append(ops, opSpec{Kind: []string{"sync", "rsync"}[rng.Intn(2)], Who: rng.Intn(2)})
		r.runCase(caseDesc{Gen: "two_stores", BAcct: bAcct, Ops: ops})
	}

	bigGroup()

	// (6) random longer single-store histories --------------------------------------------------------------------
	for rep := 0; rep < 40*scale; rep++ {
		nv := 5 + rng.Intn(8)
		pool := make([]valSpec, nv)
		for i := range pool {
			pool[i] = randValid(rng, 3)
			if rng.Chance(1, 5) {
				pool[i] = randInvalidAcl(rng, 3)
			}
			pool[i].Ts = randTs(rng)
			if rng.Chance(1, 6) {
				pool[i].Mut = mutations[rng.Intn(len(mutations))]
				pool[i].Arg = rng.Intn(300)
			}
		}
		fixDistinct(pool)
		var ops []opSpec
		for i := 0; i < 2+rng.Intn(5); i++ {
			if rng.Chance(1, 6) {
				ops = append(ops, opSpec{Kind: "local", Key: rng.Intn(3), Payload: i})
				continue
			}
			k := 1 + rng.Intn(5)
			var b []valSpec
			for j := 0; j < k; j++ {
				b = append(b, pool[rng.Intn(len(pool))])
			}
			ops = append(ops, opSpec{Kind: "raw", Batch: b})
		}
		r.runCase(caseDesc{Gen: "random", Ops: ops})
	}

	finish("histories on two real stores (any-store + real ACL of 4 accounts + an outsider, 2 devices each): "+
		"exhaustive arrival orders x batchings of multisets of 2..maxN values (+ repetitions), every listed mutation of a valid value "+
		"(relabelling, signatures, bytes) alone / with its original, the (account x cited record) matrix, faults (k-th UpsertOne, "+
		"UpdateEntry, Commit) around raw and local writes, two-store histories with sync exchanges (re-enacted on the two local diffs, or the REAL "+
		"keyValueService.syncWithPeer / HandleStoreDiffRequest / HandleStoreElementsRequest over an in-process DRPC pair), random longer histories, "+
		"pairs of LARGE stores (260..1000 slots: common base + scattered own-only / newer slots on both sides) joined by one real exchange; "+
		"a case is non-trivial if it delivers >= 2 values or contains a mutation, a fault or a sync; distinct by operation spec",
		map[string]interface{}{"exhaustive_order_cases": exhaustive, "max_multiset": maxN,
			"not_reproducible_bits": "account/device keys and ACL record ids are freshly random per process (the ACL test executor draws them); cases are replayed from their operation specs"})
	_ = bytes.Equal
	_ = strings.Join
}

func boolInt(b bool) int {
	if b {
		return 1
	}
	return 0
}
