// The REAL sync exchange for C12: the real keyValueService (syncWithPeer on the initiating side: remote diff over
// StoreDiff, push / request over the StoreElements stream, chunked SetRaw of what streams back;
// HandleStoreDiffRequest / HandleStoreElementsRequest on the responding side) over an in-process DRPC connection
// pair (rpctest). Needs /repo/commonspace/object/keyvalue/verif_hooks.go (constructor + synchronous syncWithPeer).
//
// Also: the "fill" description of LARGE batches (hundreds of slots, a common base plus scattered differences), so
// that the remote diff has to descend into sub-ranges and one StoreDiff response carries elements of many ranges.
package main

import (
	"context"
	"errors"
	"fmt"
	"os"
	"sync"
	"time"

	"github.com/anyproto/any-sync/commonspace/object/keyvalue"
	"github.com/anyproto/any-sync/commonspace/spacesyncproto"
	"github.com/anyproto/any-sync/net/peer"
	"github.com/anyproto/any-sync/net/rpc/rpctest"

	"verifharness/vlib"
)

const verifSpaceId = "spaceId"

// syncTimeout: generous (a clean exchange of 1000 slots takes well under a second); a sync that does not return in
// this time is reported as a hang and the harness stops.
const syncTimeout = 180 * time.Second

var errSyncHang = errors.New("sync exchange did not return")

// kvServer is the space RPC server of one side; it routes to the service of the case that is running.
type kvServer struct {
	spacesyncproto.DRPCSpaceSyncUnimplementedServer
	mu      sync.Mutex
	svc     *keyvalue.VerifService
	running sync.WaitGroup // StoreElements handlers in flight
	lastErr error          // result of the last StoreElements handler
}

func (s *kvServer) setErr(err error) {
	s.mu.Lock()
	s.lastErr = err
	s.mu.Unlock()
}

func (s *kvServer) takeErr() error {
	s.mu.Lock()
	defer s.mu.Unlock()
	err := s.lastErr
	s.lastErr = nil
	return err
}

func (s *kvServer) get() *keyvalue.VerifService {
	s.mu.Lock()
	defer s.mu.Unlock()
	return s.svc
}

func (s *kvServer) set(v *keyvalue.VerifService) {
	s.mu.Lock()
	s.svc = v
	s.mu.Unlock()
}

func (s *kvServer) StoreDiff(c context.Context, req *spacesyncproto.StoreDiffRequest) (*spacesyncproto.StoreDiffResponse, error) {
	svc := s.get()
	if svc == nil {
		return nil, errors.New("no service")
	}
	return svc.HandleStoreDiffRequest(c, req)
}

func (s *kvServer) StoreElements(stream spacesyncproto.DRPCSpaceSync_StoreElementsStream) (err error) {
	// the responder applies the pushed values AFTER it has streamed its answer, i.e. possibly after the initiator's
	// syncWithPeer has returned: the exchange is over when this handler has returned (realSync waits for it)
	s.running.Add(1)
	defer s.running.Done()
	defer func() { s.setErr(err) }()
	svc := s.get()
	if svc == nil {
		return errors.New("no service")
	}
	// what the space RPC server does: the first message names the space, the rest belongs to the key-value service
	msg, err := stream.Recv()
	if err != nil {
		return err
	}
	if msg.SpaceId != verifSpaceId {
		return fmt.Errorf("unexpected space id %q", msg.SpaceId)
	}
	// Context: the package's own fixtures hand the handler a context that is NOT tied to the stream, and so does this
	// stand-in. With stream.Context() the outcome is a race on the unchanged tree: the initiator closes the stream as
	// soon as it has read the terminator, which cancels the context while the responder is still in
	// SetRaw(messagesToSave...) — observed 3 times in 8 runs: the handler fails ("any-store: db is closed") and the
	// pushed values are dropped (see notes/C12.md, observation O1).
	hctx := ctx
	if os.Getenv("C12_STREAM_CTX") != "" {
		hctx = stream.Context()
	}
	return svc.HandleStoreElementsRequest(hctx, stream)
}

// netH: two sides, each with its RPC server, connected by one multi-connection pair; peers[i] is side i's view of
// the other side.
type netH struct {
	srv   [2]*kvServer
	peers [2]peer.Peer
}

func newNet() *netH {
	n := &netH{}
	var ts [2]*rpctest.TestServer
	for i := 0; i < 2; i++ {
		n.srv[i] = &kvServer{}
		ts[i] = rpctest.NewTestServer()
		if err := spacesyncproto.DRPCRegisterSpaceSync(ts[i], n.srv[i]); err != nil {
			panic(err)
		}
	}
	// MultiConnPair(peerIdServ, peerIdClient): the first conn is the one whose remote end is "peer1", the second
	// the one whose remote end is "peer0" (as in the package's own fixtures).
	c0, c1 := rpctest.MultiConnPair("peer0", "peer1")
	p0, err := peer.NewPeer(c0, ts[0]) // side 0: talks to side 1, serves incoming streams with side 0's server
	if err != nil {
		panic(err)
	}
	p1, err := peer.NewPeer(c1, ts[1])
	if err != nil {
		panic(err)
	}
	n.peers = [2]peer.Peer{p0, p1}
	return n
}

// realSync: side [who] runs one syncWithPeer against the other side. hang = the call did not return in time.
func (n *netH) realSync(svcs [2]*keyvalue.VerifService, who int) (err error, hang bool) {
	n.srv[0].set(svcs[0])
	n.srv[1].set(svcs[1])
	n.srv[1-who].takeErr()
	c, cancel := context.WithTimeout(ctx, syncTimeout)
	defer cancel()
	done := make(chan error, 1)
	go func() {
		defer func() {
			if p := recover(); p != nil {
				done <- fmt.Errorf("panic in sync exchange: %v", p)
			}
		}()
		done <- svcs[who].VerifSyncNow(c, n.peers[who])
	}()
	select {
	case err = <-done:
		if err != nil && c.Err() != nil {
			return errSyncHang, true
		}
	case <-time.After(syncTimeout + 20*time.Second):
		return errSyncHang, true
	}
	// the responder's handler (its start happens before the initiator sees any answer) must have returned too
	idle := make(chan struct{})
	go func() { n.srv[1-who].running.Wait(); close(idle) }()
	select {
	case <-idle:
	case <-time.After(syncTimeout):
		return errSyncHang, true
	}
	if herr := n.srv[1-who].takeErr(); err == nil && herr != nil {
		err = fmt.Errorf("responder: %w", herr)
	}
	return err, false
}

// ------------------------------------------------------------------------------------------------ large batches

// fillSpec describes, compactly and reproducibly, what ONE side of a pair of large stores receives: a universe of
// n_common + n_own[0] + n_own[1] distinct slots (one key per slot), drawn from [seed]:
//   - the first n_common slots: both sides get the same value; for the first n_newer[0] of them side 0 additionally
//     gets a NEWER value of the slot, for the next n_newer[1] side 1 does;
//   - then n_own[0] slots only side 0 gets, then n_own[1] slots only side 1 gets.
// Slot ids are "k<key>-<device peer id>", which ldiff hashes, so every category is scattered over all sub-ranges.
type fillSpec struct {
	Seed    uint64 `json:"seed"`
	NCommon int    `json:"n_common"`
	NOwn    [2]int `json:"n_own"`
	NNewer  [2]int `json:"n_newer"`
	Side    int    `json:"side"`
}

const fillKeyBase = 100000

func expandFill(f fillSpec) []valSpec {
	rng := vlib.NewRand(f.Seed ^ 0x5bd1e995c12)
	total := f.NCommon + f.NOwn[0] + f.NOwn[1]
	var batch []valSpec
	for i := 0; i < total; i++ {
		base := randValid(rng, 1)
		base.Key = fillKeyBase + i
		base.Ts = 1000 + int64(rng.Intn(100000))
		base.Payload = i
		newer := base
		newer.Ts = base.Ts + 1 + int64(rng.Intn(50))
		newer.Payload = i + 1000000
		keepOld := rng.Bool()
		switch {
		case i < f.NCommon:
			newerSide := -1
			if i < f.NNewer[0] {
				newerSide = 0
			} else if i < f.NNewer[0]+f.NNewer[1] {
				newerSide = 1
			}
			if newerSide == f.Side {
				if keepOld {
					batch = append(batch, base)
				}
				batch = append(batch, newer)
			} else {
				batch = append(batch, base)
			}
		case i < f.NCommon+f.NOwn[0]:
			if f.Side == 0 {
				batch = append(batch, base)
			}
		default:
			if f.Side == 1 {
				batch = append(batch, base)
			}
		}
	}
	// arrival order: a side-specific shuffle
	p := rng.Fork(uint64(f.Side) + 1).Perm(len(batch))
	out := make([]valSpec, len(batch))
	for i, j := range p {
		out[i] = batch[j]
	}
	return out
}
